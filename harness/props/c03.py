"""C03 — stage pipeline delivers every event exactly once, in order, honouring barriers.

Tie: the real EventProcessor / Engine / pipeline_barrier / _main_barrier_context are driven with
recording callbacks built from a small behaviour alphabet; exported stream + time-ordered log of
callback calls and context drains are compared, inside Coq, with C03Model.run_val (Pipeline.run_l).
Oracle: an independent reference interpreter of the README semantics (ref_run) evaluated against
the implementation's log.
"""
import itertools
import os
import shutil
import tempfile

from common import coqrun, enc

ID = "C03"
MANIFEST = {
    "text": "Proof. Coq theorems over an operational model of EventProcessor.pre_process/drain, Engine.run and "
            "the shared module-level barrier, for arbitrary stage lists, callbacks, drains and inputs (no bound): "
            "run = composition of per-stage stream functions with every barrier the identity "
            "(C03_stream_compose), barrier separation of the time-ordered call log (C03_barrier_separates), drain "
            "order/once/after-input (C03_drain_order). The model is tied to the code by a correspondence run: the "
            "real EventProcessor/Engine/pipeline_barrier with recording callbacks vs the model evaluated by "
            "vm_compute on the same graphs (exhaustive for short graphs, random for long ones).",
    "note": "Trusted: Coq kernel + vm_compute; hand-written model Pipeline.v/C03Model.v tied by differential "
            "testing only; behaviour alphabet of the tie stands for arbitrary callbacks; stream_compose needs "
            "well-formedness (non-barrier stages own their context) - shared-context pairs are covered by the "
            "log theorems and the tie, not by stream_compose. Print Assumptions: closed under the global context.",
    "technique": "Coq proof (induction over stage list / input) + vm_compute correspondence against the real "
                 "EventProcessor",
    "design_ref": "DESIGN.md sections 3 and 4/C03",
}
PROP_FILE = "props/C03.v"
THEOREMS = ["C03_stream_compose", "C03_barrier_separates", "C03_drain_order", "C03_log_erasure",
            "C03_concrete"]
ALLOWED_AXIOMS = []
TRUSTED = [
    "modelled, not verified: Python list/dict semantics; AbstractEventType.from_dict (events of the tie "
    "are well-formed X slices so conversion is the identity on the observed field)",
    "the behaviour alphabet of the tie (pass, drop, duplicate, expand, filter, hold, hold-and-emit, "
    "reverse-hold, barrier, shared-context counter pair) stands for 'any callback': the theorems "
    "quantify over all callbacks, the tie samples them",
]
ASSUMPTIONS = [
    "a stage callback is a function of (context state, event); it touches no other context",
    "registration happens under an all-enabled profile (profile matching is C16)",
]

BEHS = ["Pass", "DropAll", "Dup", "Expand", "DropOdd", "Hold", "HoldEmit", "HoldRev", "Barrier",
        "Count", "AddCount"]
# callbacks written the way the developer README allows but that expose aliasing in the processor: a stage that re-uses ONE
# list object for its result, and a filter that returns a shared module-level "nothing".  Same semantics as Pass / DropAll
# (the model has no notion of list identity), so they are encoded as Pass / DropAll in the Coq term.
ALIAS = {"PassShared": "Pass", "DropShared": "DropAll"}
IMPL_BEHS = BEHS + list(ALIAS)
_NOTHING = []
HOLDS = {"Hold", "HoldEmit", "HoldRev", "Barrier"}


# ---------------------------------------------------------------- implementation driver
def run_impl(graph, inputs, intermediate=None):
    """exceptions escaping the implementation become the outcome (Err(type), [])"""
    try:
        return run_impl_raw(graph, inputs, intermediate)
    except Exception as e:  # noqa: BLE001
        return enc.Err(type(e).__name__), []


def run_impl_raw(graph, inputs, intermediate=None):
    """graph: list of (behaviour, cell).  Returns (exported ints, log) from the REAL EventProcessor."""
    import aiu_trace_analyzer.core.processing as processing
    import aiu_trace_analyzer.core.engine as engine
    import aiu_trace_analyzer.pipeline.barrier as barrier
    from aiu_trace_analyzer.pipeline.context import AbstractContext
    from aiu_trace_analyzer.core.stage_profile import StageProfile

    log = []

    class Ctx(AbstractContext):
        def __init__(self, cell, rev=False):
            super().__init__()
            self.cell, self.rev, self.hold, self.count = cell, rev, [], 0

        def drain(self):
            log.append([1, self.cell])
            h, self.hold = self.hold, []
            return list(reversed(h)) if self.rev else h

    def ev(n):
        # negative numbers are metadata events (ph "M", with ts and args so that sanity_check keeps them): nothing in the
        # pipeline mechanics may treat them differently from slices
        if n < 0:
            return {"ph": "M", "ts": n, "pid": 0, "tid": 0, "name": "process_name", "args": {"name": "x"}}
        return {"ph": "X", "ts": n, "dur": 1, "pid": 0, "tid": 0, "name": "e", "args": {}}

    shared = {}
    _NOTHING.clear()

    def mkcb(k0, beh):
        def cb(event, ctx, kw=None):
            k = kw["pos"] if kw else k0        # one function object may serve several positions (README: **kwargs)
            n = event["ts"]
            log.append([0, k, n])
            if beh == "Pass":
                return [event]
            if beh == "DropAll":
                return []
            if beh == "PassShared":
                buf = shared.setdefault(k, [])
                buf.clear()
                buf.append(event)
                return buf
            if beh == "DropShared":
                return _NOTHING
            if beh == "Dup":
                return [event, event]
            if beh == "Expand":
                return [ev(2 * n), ev(2 * n + 1)]
            if beh == "DropOdd":
                return [event] if n % 2 == 0 else []
            if beh in ("Hold", "HoldRev"):
                ctx.hold.append(event)
                return []
            if beh == "HoldEmit":
                out = ctx.hold[:1]
                ctx.hold = [event]
                return out
            if beh == "Count":
                ctx.count += 1
                return [event]
            if beh == "AddCount":
                return [ev(n + 1000 * ctx.count)]
            if beh == "Barrier":
                return barrier.pipeline_barrier(event, ctx)
            raise ValueError(beh)
        cb.__name__ = "pipeline_barrier" if beh == "Barrier" else f"s{k0}_{beh}"
        return cb

    if len(inputs) % 3 == 1:
        # every third case: an earlier processor of the same process stopped in the middle (a callback raised before the
        # final drain); the stages registered on THIS processor are the whole pipeline nevertheless
        def dup0(event, ctx):
            return [event, event]

        def boom(event, ctx):
            raise RuntimeError("stage failed")
        names0 = [{"dup0": True}, {"boom": True}]
        p0 = processing.EventProcessor(profile=StageProfile({"stages": [dict(d) for d in names0]},
                                                            {"stages": [dict(d) for d in names0]}))
        p0.register_stage(callback=dup0, context=None)
        p0.register_stage(callback=boom, context=None)
        try:
            engine.Engine([ev(7)], p0, None).run()
        except RuntimeError:
            pass
        del p0

    bctx = barrier._main_barrier_context
    bctx.drain()                       # a fresh process starts with an empty hold
    real_drain = bctx.__class__.drain

    def rec_drain():
        log.append([1, 0])
        return real_drain(bctx)
    bctx.drain = rec_drain
    try:
        cbs = [mkcb(k + 1, b) for k, (b, _) in enumerate(graph)]
        # every other case: neighbouring positions with the same behaviour on the same context are registered with ONE
        # function object and the position passed as a keyword argument (a stage callback registered twice in a row)
        kws = [None] * len(cbs)
        if sum(inputs) % 2 == 0:
            for k in range(1, len(graph)):
                if graph[k] == graph[k - 1] and graph[k][0] != "Barrier":
                    cbs[k] = cbs[k - 1]
                    kws[k - 1], kws[k] = kws[k - 1] or {"pos": k}, {"pos": k + 1}
        names = [{c.__name__: True} for c in cbs] + [{"zz_never_registered": True}]
        prof = StageProfile({"stages": [dict(d) for d in names]}, {"stages": [dict(d) for d in names]})
        proc = processing.EventProcessor(profile=prof, intermediate=intermediate)
        cells = {}
        for cb, (b, c), kw in zip(cbs, graph, kws):
            if b == "Barrier":
                ctx = bctx
            else:
                if c not in cells:
                    cells[c] = Ctx(c, rev=(b == "HoldRev"))
                ctx = cells[c]
            if kw:
                proc.register_stage(callback=cb, context=ctx, **kw)
            else:
                proc.register_stage(callback=cb, context=ctx)
        out = []

        class Exp:
            def export(self, evs):
                out.extend(e.ts for e in evs)

            def flush(self):
                pass
        rc = engine.Engine([ev(n) for n in inputs], proc, Exp()).run()
        assert rc == 0
    finally:
        del bctx.drain
    return out, log


# ---------------------------------------------------------------- reference interpreter (oracle)
def ref_run(graph, inputs, own_holds=False):
    """README semantics, written independently of the Coq model: returns (exported, log).
    own_holds=False: what a context holds belongs to the context (two stages registered on one context share one hold
    list, drained at each registration) - this is what the implementation does.
    own_holds=True: the property's reading - "events a stage holds back ... traverse all LATER stages": every holding
    stage keeps its own events and they are released at ITS position (counters and other state stay shared; barriers
    share their hold by design).  The two differ only when a holding stage shares its context with an EARLIER stage."""
    cells = {}
    holds = {}
    log, out = [], []

    class _S(dict):
        pass

    def state(b, c, k=None):
        s = cells.setdefault(0 if b == "Barrier" else c, {"hold": [], "count": 0})
        if own_holds and b != "Barrier" and k is not None:
            v = _S(s)
            v["hold"] = holds.setdefault(k, [])
            v._cell, v._k = s, k
            return v
        return s

    def put(s, key, val):
        if isinstance(s, _S) and key == "hold":
            holds[s._k] = val
        elif isinstance(s, _S):
            s._cell[key] = val
        s[key] = val

    def call(k, b, c, n):
        s = state(b, c, k)
        log.append([0, k + 1, n])
        if b in ("Pass", "PassShared"):
            return [n]
        if b in ("DropAll", "DropShared"):
            return []
        if b == "Dup":
            return [n, n]
        if b == "Expand":
            return [2 * n, 2 * n + 1]
        if b == "DropOdd":
            return [n] if n % 2 == 0 else []
        if b in ("Hold", "HoldRev", "Barrier"):
            put(s, "hold", s["hold"] + [n])
            return []
        if b == "HoldEmit":
            o = s["hold"][:1]
            put(s, "hold", [n])
            return o
        if b == "Count":
            put(s, "count", s["count"] + 1)
            return [n]
        if b == "AddCount":
            return [n + 1000 * s["count"]]

    def push(first, evs):           # evs enter stage `first`; stage by stage
        for k in range(first, len(graph)):
            nxt = []
            for n in evs:
                nxt += call(k, graph[k][0], graph[k][1], n)
            evs = nxt
            if not evs:
                break
        return evs

    for n in inputs:
        out += push(0, [n])
    for k, (b, c) in enumerate(graph):
        s = state(b, c, k)
        log.append([1, 0 if b == "Barrier" else c])
        h = list(s["hold"])
        put(s, "hold", [])
        if b == "HoldRev":
            h = h[::-1]
        for n in h:
            out += push(k + 1, [n])
    return out, log


# ---------------------------------------------------------------- generators
def assign_cells(behs, rng=None):
    """private cells, except: AddCount shares the cell of the latest Count (if any); with an rng,
    random extra sharing among stages that are not HoldRev."""
    g, last_count = [], None
    for i, b in enumerate(behs):
        c = i + 2
        if b == "Count":
            last_count = c
        elif b == "AddCount" and last_count is not None:
            c = last_count
        elif rng is not None and b not in ("HoldRev", "Barrier") and g and rng.random() < 0.15:
            cand = [x[1] for x in g if x[0] not in ("HoldRev", "Barrier")]
            if cand:
                c = rng.choice(cand)
        if b == "Barrier":
            c = 0
        g.append((b, c))
    return g


STATELESS = {"Pass", "DropAll", "PassShared", "DropShared", "Dup", "Expand", "DropOdd"}


def share_adjacent(g):
    """the same graph with neighbouring equal stateless stages on ONE context (the driver then registers them with one
    function object as well: a callback registered twice in a row); None if there is no such neighbour"""
    out, changed = [], False
    for k, (b, c) in enumerate(g):
        if k and b in STATELESS and out[-1][0] == b:
            c, changed = out[-1][1], True
        out.append((b, c))
    return out if changed else None


def gen_cases(ctx):
    cases = []
    maxlen = ctx.pick(3, 4)
    ins = [[], [1], [1, 2], [2, -1, 4]] if ctx.quick() else [[], [1], [2], [1, 2], [2, 1], [2, -1, 4], [1, 1, 2], [-2, 3]]
    for ln in range(0, maxlen + 1):
        for behs in itertools.product(BEHS, repeat=ln):
            g = assign_cells(behs)
            for i in ins:
                cases.append((g, i, False))
            g2 = share_adjacent(g)
            if g2 is not None:
                for i in ins:
                    cases.append((g2, i, False))
    n_exh = len(cases)
    r = ctx.rng
    for _ in range(ctx.pick(1500, 40000)):
        ln = r.randint(1, 12)
        behs = [r.choice(IMPL_BEHS) for _ in range(ln)]
        # up to 4 barriers
        while behs.count("Barrier") > 4:
            behs[behs.index("Barrier")] = r.choice(["Pass", "Hold", "Dup"])
        # keep the event count polynomial: at most 3 multiplying stages
        while sum(b in ("Dup", "Expand") for b in behs) > 3:
            behs[[k for k, b in enumerate(behs) if b in ("Dup", "Expand")][0]] = r.choice(["Pass", "DropOdd", "Count"])
        g = assign_cells(behs, r)
        if r.random() < 0.5:
            g = share_adjacent(g) or g
        i = [r.randint(-3, 9) for _ in range(r.randint(0, 20))]
        cases.append((g, i, r.random() < 0.1))
    return cases, n_exh


def nontrivial(g, i):
    if not i:
        return False
    for k, (b, _) in enumerate(g):
        if b in HOLDS and any(x[0] != "Pass" for x in g[k + 1:]):
            return True
    return False


def shared_holder(g):
    """a holding stage (not a barrier) registered on the context of an EARLIER non-barrier stage"""
    seen_cells = set()
    for b, c in g:
        if b == "Barrier":
            continue
        if b in ("Hold", "HoldEmit", "HoldRev") and c in seen_cells:
            return True
        seen_cells.add(c)
    return False


def coq_graph(g):
    return enc.L([enc.P(ALIAS.get(b, b), enc.N(c)) for b, c in g])


def coq_case(g, i):
    return enc.P(coq_graph(g), enc.L([enc.Z(n) for n in i]))


# ---------------------------------------------------------------- check
def run(ctx):
    cases, n_exh = gen_cases(ctx)
    tmp = tempfile.mkdtemp(prefix="c03_")
    terms, oracle_failures, seen, nontriv = [], [], set(), 0
    known_shape = []
    dist = {"graph_len": {}, "input_len": {}, "with_intermediate": 0, "barriers": {}}
    try:
        for g, i, inter in cases:
            out, log = run_impl(g, i, intermediate=os.path.join(tmp, "x") if inter else None)
            terms.append((coq_case(g, i), enc.V([out, log])))
            rout, rlog = ref_run(g, i)
            if (rout, rlog) != (out, log):
                oracle_failures.append({
                    "input": {"graph": g, "events": i, "intermediate": inter},
                    "expected": {"exported": rout, "log": rlog}, "observed": {"exported": out, "log": log},
                    "signature": {"kind": "pipeline_log_differs_from_reference"}})
            elif shared_holder(g) and len(known_shape) < 2:
                pout, plog = ref_run(g, i, own_holds=True)
                if (pout, plog) != (out, log):
                    known_shape.append({
                        "input": {"graph": g, "events": i, "intermediate": inter},
                        "expected": {"exported": pout, "log": plog}, "observed": {"exported": out, "log": log},
                        "signature": {"kind": "held_events_released_at_an_earlier_stage_of_a_shared_context",
                                      "holder_shares_context_with_earlier_stage": True}})
            key = (tuple(g), tuple(i))
            if key not in seen:
                seen.add(key)
                nontriv += nontrivial(g, i)
            dist["graph_len"][len(g)] = dist["graph_len"].get(len(g), 0) + 1
            dist["input_len"][len(i)] = dist["input_len"].get(len(i), 0) + 1
            nb = sum(1 for b, _ in g if b == "Barrier")
            dist["barriers"][nb] = dist["barriers"].get(nb, 0) + 1
            dist["with_intermediate"] += int(inter)
    finally:
        shutil.rmtree(tmp, ignore_errors=True)
    bad, extras, secs = coqrun.run_cases(
        "C03", "From AiuModel Require Import Pipeline C03Model.", "(list (beh * nat) * list Z)",
        "run_val", terms, extra="Definition nt := Eval vm_compute in (count_if nontrivial cases).\nPrint nt.")
    mism = [{"name": "correspondence C03Model.run_val vs EventProcessor/Engine/pipeline_barrier",
             "case": {"graph": cases[j][0], "events": cases[j][1], "intermediate": cases[j][2]},
             "impl": terms[j][1][:400]} for j in bad[:5]]
    oracle_failures = [shrink(f) for f in oracle_failures[:3]] + known_shape[:1]
    return {
        "evaluations": len(cases), "distinct_nontrivial": nontriv,
        "rule": f"all stage graphs of length <= {ctx.pick(3, 4)} over {len(BEHS)} behaviours x fixed short inputs "
                f"(exhaustive: {n_exh} cases) + random graphs of length <= 12 with <= 4 barriers, random cell "
                "sharing, inputs <= 20 events, 10% with intermediate= (duplicate_and_hold). non-trivial = distinct "
                "(graph, input) with non-empty input and a holding stage or barrier followed by a non-pass stage "
                f"(same rule evaluated inside Coq over all cases incl. duplicates: {extras.get('nt')})",
        "samples": [{"graph": cases[j][0], "events": cases[j][1]} for j in (n_exh - 1, n_exh + 1, len(cases) - 1)],
        "mismatches": mism, "oracle_failures": oracle_failures,
        "ties": [{"name": "C03Model.run_val = real EventProcessor log", "cases": len(cases),
                  "mismatching": len(bad), "coq_seconds": round(secs, 1)}],
        "distribution": dist, "exhaustive": True,
    }


def fails(f):
    g = [tuple(x) for x in f["input"]["graph"]]
    i = f["input"]["events"]
    return run_impl(g, i) != ref_run(g, i)


def shrink(f):
    """delta-debug graph and input of an oracle failure"""
    g = [tuple(x) for x in f["input"]["graph"]]
    i = list(f["input"]["events"])
    changed = True
    while changed:
        changed = False
        for k in range(len(g)):
            g2 = g[:k] + g[k + 1:]
            if run_impl(g2, i) != ref_run(g2, i):
                g, changed = g2, True
                break
        for k in range(len(i)):
            i2 = i[:k] + i[k + 1:]
            if run_impl(g, i2) != ref_run(g, i2):
                i, changed = i2, True
                break
    out, log = run_impl(g, i)
    rout, rlog = ref_run(g, i)
    return {"input": {"graph": g, "events": i, "intermediate": False},
            "expected": {"exported": rout, "log": rlog}, "observed": {"exported": out, "log": log},
            "signature": f["signature"]}


def search(ctx, res, broken):
    """a tie or proof broke but the oracle of the run was silent: try 10x more random graphs"""
    import random
    import time
    r = random.Random(ctx.seed + 1)
    t0 = time.time()
    for _ in range(ctx.pick(15000, 100000)):
        if time.time() - t0 > ctx.pick(60, 600):
            break
        behs = [r.choice(IMPL_BEHS) for _ in range(r.randint(1, 6))]
        g = assign_cells(behs, r)
        g = share_adjacent(g) or g
        i = [r.randint(-3, 9) for _ in range(r.randint(0, 8))]
        if run_impl(g, i) != ref_run(g, i):
            return [shrink({"input": {"graph": g, "events": i},
                            "signature": {"kind": "pipeline_log_differs_from_reference"}})]
    return []


def replay(ctx, payload):
    f = payload.get("failing")
    if not f:
        return True, "replay file names only broken obligations: " + str(payload.get("broken"))[:500]
    g = [tuple(x) for x in f["input"]["graph"]]
    i = f["input"]["events"]
    out = run_impl(g, i)
    ref = ref_run(g, i)
    return out == ref, {"impl": out, "reference": ref}
