"""C05 — 32-bit cycle-counter wrap correction is consistent across all events of a rank.

Tie (two drives of the REAL code, both compared inside Coq with Overflow.run_val):
  * direct: one NormalizationContext, normalize_phase1 over the whole event list, then
    normalize_phase2 over what phase 1 returned (the barrier's effect), reading args.TS1..TS5 / OVC / TSxOF;
  * end to end: generated FLEX files (one per rank and job) through Acelyzer(...).run() with the default
    profile, reading args.TS1..TS5 / OVC / TSxOF of the exported slices (identified by args.uid) — this covers the
    placement of pipeline_barrier between the two phases and every later stage that could touch the counters.
    Option sets of these runs: default, --keep_prep, -M, -t, --ignore_crit, --tb and --flex_ts_fix (README
    troubleshooting option; registers two more stages between the phases) combined with those; four of five job files
    carry an 'AIU Roundtrip' host slice that encloses the job's device slices.
  * names: NormalizationContext._get_ref_ts and the '"Cmpt Exec" in name' test vs Overflow.name_val.
Oracle (independent of the model): the generator keeps the true 64-bit counters; per rank the set
{TSk' - ck} over all slices and all k must be ONE multiple of 2^32, each slice non-decreasing and congruent to its
raw input mod 2^32, OVC = c1 // 2^32 + that constant, and the order by corrected counters = order by true counters.
"""
import contextlib
import copy
import glob
import hashlib
import io
import json
import math
import os
import random
import shutil
import tempfile
import time
import zlib

from common import coqrun, enc

ID = "C05"
MODEL_TARGETS = ["theories/Tables_C05.vo"]   # constants of the hand model = constants regenerated from source
PROP_FILE = "props/C05.v"
THEOREMS = ["C05_consistent", "C05_out_ok_unfold", "C05_slice_sorted", "C05_slice_congruent", "C05_order",
            "C05_two_phase", "C05_pipeline_consistent"]
ALLOWED_AXIOMS = []
MANIFEST = {
    "text": "Proof. Coq theorems over an executable model (Overflow.v) of NormalizationContext's two-phase 32-bit "
            "wrap correction (local correction, per-queue reference epoch, elapsed-epoch count, the assert, the "
            "frequency_stats division guards), for ALL traces: any number of events, ranks and epochs, any wrap "
            "position relative to every TSk of every phase (DmaI/Prep/Exec/DmaO/other), any rational host epoch per "
            "rank and any positive frequency, any event order. C05_consistent: if every device slice has true counters "
            "c1<=..<=c5 with c5-c1<2^32, raw values ck mod 2^32 and host ts = H + c_ref/f, the run raises nothing and "
            "there is one integer C per rank with TSk' = ck + C*2^32 for every slice and k (OVC = c1 div 2^32 + C >= 0); "
            "corollaries: non-decreasing, congruent mod 2^32, order by corrected counters = order by true device time. "
            "C05_two_phase/C05_pipeline_consistent: on Pipeline.v's operational EventProcessor semantics the "
            "registrations normalize_phase1 / pipeline_barrier / normalize_phase2 (one shared context) compute that "
            "two-phase function. The model is tied to the code on every run by direct drive of "
            "normalize_phase1/phase2 and end to end through Acelyzer (vm_compute inside coqc, exact integers); the "
            "end-to-end runs go over the option sets default / --keep_prep / -M / -t / --ignore_crit / --tb and "
            "--flex_ts_fix combined with them, on job files with and without an enclosing 'AIU Roundtrip' host slice.",
    "note": "Print Assumptions: closed under the global context for all seven theorems. Trusted: Coq kernel + "
            "vm_compute; the hand-written model is tied by differential testing only (exact-grid stream f=2^k, plus an "
            "off-grid stream whose reference counters keep 2^16 cycles from a wrap so that double rounding cannot move "
            "the floor); floating-point rounding of the real code is not modelled (times are exact rationals); the "
            "event limiter/filter in normalize_phase1 are not modelled (C17; traces have ts+dur>=0); the theorem "
            "excludes, via fguard, exactly the inputs on which frequency_stats divides by zero (Exec slice of "
            "duration 0; until /repo fix C02d also one at the host time of the rank's previous Exec slice) - the code raises ZeroDivisionError "
            "there and so does the model; C05_two_phase is stated for exception-free runs and for the three stages "
            "alone (the other stages of the pipeline are covered by the end-to-end tie only). Excluded with "
            "--flex_ts_fix: jobs whose 'AIU Roundtrip' does not enclose their device slices (non-zero job offset) - "
            "the option then moves the host ts of the job's device slices away from their counters before phase 2 "
            "counts the epochs, which leaves the property's hypothesis 'host timestamps agree with the counters'.",
    "technique": "Coq proof (induction over the event list with a table invariant; lia with euclidean division; "
                 "field/Qfloor bridge) + vm_compute correspondence against normalize_phase1/2 and Acelyzer end to end",
    "design_ref": "DESIGN.md section 4/C05, section 6/F1 (fixed by f6a56e9), design-spikes/overflow_lia.v, overflow_qfloor.v",
}
TRUSTED = [
    "modelled, not verified: IEEE double rounding in ts - cycle/f and floor((ts-epoch0)/span) (exact on the tie's "
    "grid; off-grid stream keeps reference counters 2^16 cycles away from a wrap)",
    "modelled, not verified: Python int(str, 0) parsing, str(int) printing, hash(pid) for small ints "
    "(hash(-1) == hash(-2) is modelled), dict semantics of the queues",
    "not modelled: EventLimiter / --event_filter inside normalize_phase1 (C17), warnings, frequency_minmax logging",
    "cases files write integers below 2^62 as primitive-integer literals decoded by Uint63.to_Z under vm_compute "
    "(elaborating binary literals dominated the run time); this affects the tie only, no theorem depends on Uint63",
    "end-to-end tie identifies exported slices by args.uid and relies on ingestion keeping args and on no later "
    "stage rewriting TS1..TS5/OVC (if one does, the tie reports it)",
]
ASSUMPTIONS = [
    "per device slice: c1<=c2<=c3<=c4<=c5 true counters, c5-c1 < 2^32, args.TSk = ck mod 2^32 given as strings, "
    "host ts = H(rank) + c_ref/f exactly (c_ref by phase: DmaI TS1, Prep TS2, Exec TS3, DmaO TS4, other TS1)",
    "f > 0; rank = queue = hash(pid); all jobs of a rank share the rank's host epoch and counter",
    "no Exec slice has duration 0 (else the code raises ZeroDivisionError in frequency_stats; the model agrees; "
    "ingestion removes such slices before they get there)",
    "host timestamps are >= 0 (default event limiter) and events are X slices (B/E pairs are C15's business)",
    "default or 'everything' profile (the barrier between the phases is enabled); --tb/torch_minimal disables it",
    "with --flex_ts_fix: every job's 'AIU Roundtrip' host slice (if it has one) encloses the job's device slices in "
    "host time, i.e. the job offset is 0; a job outside its Roundtrip is excluded (not generated, not judged) because "
    "the option itself ('experimental per-job time-stamp adjustment', 'might cause unreliable data') then moves the "
    "host ts of the device slices away from their counters between phase 1 and phase 2",
]

W = 1 << 32
PH = ["DmaI", "Cmpt Prep", "Cmpt Exec", "DmaO"]
PH_AB = {"DmaI": (0, 1), "Cmpt Prep": (1, 2), "Cmpt Exec": (2, 3), "DmaO": (3, 4)}
GRID_F = [256.0, 512.0, 1024.0, 2048.0]
OFF_F = [560.0, 1000.0, 1100.5, 833.3, 1234.567]
MARGIN = 1 << 16
COQ_TY = "(Q * bool * list ev * list bool)"


# ---------------------------------------------------------------- the property's own reading of a name
def ref_of(name):
    """index (0-based) of the counter the host ts of a slice belongs to - oracle's own statement"""
    if name.endswith(" DmaI"):
        return 0
    if name.endswith(" Cmpt Prep"):
        return 1
    if name.endswith(" Cmpt Exec"):
        return 2
    if name.endswith(" DmaO"):
        return 3
    return 0


# ---------------------------------------------------------------- case representation
# event: {"ph","pid","name","ts","dur","tsx":[entry x5 or fewer], "truth":[c1..c5]|None, "uid":int, "job":int}
# tsx entry: ["s", int, "hex"|"dec"] string value | ["i", int] JSON number | ["m"] key missing | ["b", text] bad string
def tsx_from_truth(cs, rng=None):
    fmt = "hex" if rng is None or rng.random() < 0.5 else "dec"
    return [["s", c % W, fmt] for c in cs]


def mk_dev(uid, pid, name, cs, f, H, rng=None, job=0, dur=None):
    r = ref_of(name)
    suffix = next((p for p in PH if name.endswith(" " + p)), None)
    a, b = PH_AB.get(suffix, (0, 4))
    # device streams: one lane per phase, and every fifth kernel runs on a second set of lanes (a lane may therefore be
    # used for the first time long after the rank's first event - the correction is per RANK, not per lane)
    lane = {"DmaI": 5, "Cmpt Prep": 7, "Cmpt Exec": 8, "DmaO": 9}.get(suffix, 6) + (20 if (uid // 4) % 5 == 4 else 0)
    return {"ph": "X", "pid": pid, "name": name, "ts": H + cs[r] / f,
            "dur": (cs[b] - cs[a]) / f if dur is None else dur, "tid": lane,
            "tsx": tsx_from_truth(cs, rng), "truth": list(cs), "uid": uid, "job": job, "H": H}


def mk_host(uid, pid, ts, dur=1.0, ph="X", job=0, name="host op", tid=None):
    e = {"ph": ph, "pid": pid, "name": name, "ts": ts, "dur": dur, "tsx": [], "truth": None, "uid": uid,
         "job": job}
    if tid is not None:
        e["tid"] = tid
    return e


# ---------------------------------------------------------------- host-side job slices ('AIU Roundtrip')
# A FLEX file (= one job of one rank) normally carries one host slice 'AIU Roundtrip' around the device work of the
# job.  The README's troubleshooting option --flex_ts_fix compares it with the host-time range of the job's device
# slices.  Nothing below says what the tool does with it: the property is about TS1..TS5 / OVC only.
RT = "AIU Roundtrip"


def job_windows(case):
    """per (pid, job): [device window (lo, hi) | None, host window of the job's Roundtrip slices (lo, hi) | None]"""
    out = {}
    for e in case["events"]:
        if e["ph"] != "X":
            continue
        w = out.setdefault((e["pid"], e.get("job", 0)), [None, None])
        k = 0 if e["truth"] is not None or e["tsx"] else 1 if e["name"] == RT else None
        if k is None:
            continue
        lo, hi = e["ts"], e["ts"] + e["dur"]
        w[k] = (lo, hi) if w[k] is None else (min(w[k][0], lo), max(w[k][1], hi))
    return out


def jobs_outside_roundtrip(case):
    """the (pid, job) pairs whose Roundtrip slice does not enclose the job's device slices in host time"""
    return sorted(k for k, (dev, rt) in job_windows(case).items()
                  if dev is not None and rt is not None and not (rt[0] <= dev[0] and dev[1] <= rt[1]))


def e2e_facts(case):
    """discriminating facts of an end-to-end run for failure signatures (input-derived)"""
    if case.get("kind") != "e2e":
        return {}
    return {"flex_ts_fix": "--flex_ts_fix" in case.get("opts", [])}


def moved_by_option(case):
    """Outside C05's hypothesis: with --flex_ts_fix a job whose Roundtrip does not enclose its device slices has a
    non-zero job offset, and the option moves the host ts of that job's device slices away from their counters before
    the epochs are counted ('experimental per-job time-stamp adjustment ... might cause unreliable data').  Such runs
    are not generated; a replayed one is not judged."""
    return bool(case.get("kind") == "e2e" and "--flex_ts_fix" in case.get("opts", []) and jobs_outside_roundtrip(case))


def to_dict(e, jobhash, use_attr=False):
    """the event as the pipeline sees it after ingestion (direct drive) / as written to a FLEX file (e2e)"""
    args = {}
    for k, t in enumerate(e["tsx"]):
        key = f"TS{k + 1}"
        if t[0] == "s":
            args[key] = hex(t[1]) if t[2] == "hex" else str(t[1])
        elif t[0] == "i":
            args[key] = t[1]
        elif t[0] == "b":
            args[key] = t[1]
    d = {"ph": e["ph"], "pid": e["pid"], "tid": e.get("tid", 7), "name": e["name"], "ts": e["ts"]}
    if e["ph"] == "X":
        d["dur"] = e["dur"]
    args["uid"] = e["uid"]
    if jobhash is not None:
        args["jobhash"] = jobhash
    d["attr" if use_attr else "args"] = args
    return d


def project(d, orig_args=None):
    """what the tie observes on one event after both phases"""
    a = d.get("args", {})
    if "OVC" in a:
        tof = a.get("TSxOF")
        return [[int(a[f"TS{k}"]) for k in range(1, 6)], a["OVC"],
                int(tof[2:]) if isinstance(tof, str) and tof.startswith("TS") else tof]
    if orig_args is not None:
        for k in range(1, 6):
            key = f"TS{k}"
            if a.get(key) != _after_hex(orig_args.get(key)) and a.get(key) != orig_args.get(key):
                return ["untouched-event-changed", key, str(a.get(key))]
    return None


def project_e2e(x):
    """exported slice -> [TS1..TS5, OVC, TSxOF]; a slice that carries the five counters but no OVC is still read
    (OVC None), so that the oracle can state the property on the counters themselves"""
    p = project(x)
    if p is None:
        a = x.get("args", {})
        try:
            return [[int(a[f"TS{k}"]) for k in range(1, 6)], None, None]
        except (KeyError, ValueError, TypeError):
            return None
    return p


def _after_hex(v):
    if isinstance(v, str):
        try:
            return str(int(v, 0))
        except ValueError:
            return v
    return v


# ---------------------------------------------------------------- implementation drivers
def _quiet():
    return contextlib.redirect_stdout(io.StringIO()), contextlib.redirect_stderr(io.StringIO())


DIRECT_JOBS = [f"/c05/direct_job_{j}.json" for j in range(3)]


def drive_direct(case):
    """normalize_phase1 over all events, then normalize_phase2 over its outputs, one shared context."""
    from aiu_trace_analyzer.pipeline.normalize import NormalizationContext, normalize_phase1, normalize_phase2
    from aiu_trace_analyzer.types import GlobalIngestData
    import aiu_trace_analyzer.logger as aiulog
    aiulog.setloglevel(0)
    jobs = [GlobalIngestData.add_job_info(p) for p in DIRECT_JOBS]
    o, e_ = _quiet()
    with o, e_:
        ctx = None
        try:
            ctx = NormalizationContext(soc_frequency=case["f"], ignore_crit=case.get("ic", False))
            evs = [to_dict(e, jobs[e.get("job", 0) % 3]) for e in case["events"]]
            origs = [copy.deepcopy(d.get("args", {})) for d in evs]
            slots = [None] * len(evs)
            mids = []
            for i, d in enumerate(evs):
                r = normalize_phase1(d, ctx)
                if len(r) != 1:
                    slots[i] = ["phase1-returned", len(r)]
                else:
                    mids.append((i, r[0]))
            for i, d in mids:
                r = normalize_phase2(d, ctx)
                if len(r) != 1:
                    slots[i] = ["phase2-returned", len(r)]
                else:
                    slots[i] = project(r[0], origs[i])
            return slots
        except Exception as ex:  # noqa: BLE001
            return enc.Err(type(ex).__name__)
        finally:
            if ctx is not None:          # the accumulated warnings are printed at destruction time: not here
                for w in ctx.warnings.values():
                    w.auto_log = False
                ctx.prev_event_data = {}
                ctx.frequency_minmax = (1e99, 0.0, 0, 0.0, 0.0)


def write_files(case, d):
    """one FLEX file per (rank, job); returns the list of paths. File names are re-rolled until the job ids
    crc32(path) % 10000 of the run are pairwise distinct (generator constraint, DESIGN section 6)."""
    groups = {}
    for e in case["events"]:
        groups.setdefault((e["pid"], e.get("job", 0)), []).append(e)
    # ... and distinct from the ids of the direct drive's pseudo jobs, which live in the same process-wide job map
    paths, ids = [], {zlib.crc32(p.encode()) % 10000 for p in DIRECT_JOBS}
    for (pid, job), evs in sorted(groups.items()):
        salt = 0
        while True:
            p = os.path.join(d, f"r{pid}_j{job}_{salt}.json")
            jid = zlib.crc32(p.encode()) % 10000
            if jid not in ids:
                ids.add(jid)
                break
            salt += 1
        with open(p, "w") as fh:
            json.dump([to_dict(e, None, use_attr=case.get("attr", False)) for e in evs], fh)
        paths.append(p)
    return paths


def drive_e2e(case, workdir=None):
    """Acelyzer end to end; returns per input event the projection of the exported slice with the same uid
    (None for events without counters, 'missing' if a device slice was not exported)."""
    from aiu_trace_analyzer.core.acelyzer import Acelyzer
    d = tempfile.mkdtemp(prefix="c05_", dir=workdir)
    o, e_ = _quiet()
    try:
        paths = write_files(case, d)
        outp = os.path.join(d, "out.json")
        argv = ["-i", ",".join(paths), "-o", outp, "--freq", repr(case["f"]), "-D", "0"] + list(case.get("opts", []))
        with o, e_:
            try:
                ace = Acelyzer(argv)
                rc = ace.run()
                del ace
            except SystemExit as ex:
                return enc.Err("SystemExit%s" % ex.code)
            except Exception as ex:  # noqa: BLE001
                return enc.Err(type(ex).__name__)
        if rc != 0:
            return enc.Err("rc%s" % rc)
        if not os.path.exists(outp):          # --tb writes <name>.pt.trace.json
            outp = outp[:-5] + ".pt.trace.json"
        res = json.load(open(outp))
        byuid = {}
        for x in res["traceEvents"]:
            a = x.get("args")
            if x.get("ph") == "X" and isinstance(a, dict) and "uid" in a:
                byuid.setdefault(a["uid"], []).append(x)
        slots = []
        for e in case["events"]:
            xs = byuid.get(e["uid"], [])
            if e["truth"] is None and not e["tsx"]:
                slots.append(None)
            elif len(xs) == 1:
                slots.append(project_e2e(xs[0]))
            elif not xs:
                slots.append("missing")
            else:
                slots.append(["exported-times", len(xs)])
        return slots
    finally:
        shutil.rmtree(d, ignore_errors=True)


def drive(case, workdir=None):
    return drive_e2e(case, workdir) if case.get("kind") == "e2e" else drive_direct(case)


# ---------------------------------------------------------------- Coq encoding
# Elaborating tens of thousands of 33..53-bit binary literals dominates the cost of a cases file (measured: 30 s per
# 300 traces); numbers below 2^62 are therefore written as primitive-integer literals and converted with
# Uint63.to_Z inside vm_compute, and event names go through a table of definitions (NameTable).
COQ_IMPORTS = "From Coq Require Import Uint63.\nFrom AiuModel Require Import Overflow.\nDefinition c5z := Uint63.to_Z."


def zt(n):
    n = int(n)
    if 0 <= n < (1 << 62):
        return f"(c5z {n}%uint63)"
    if -(1 << 62) < n < 0:
        return f"(Z.opp (c5z {-n}%uint63))"
    return enc.Z(n)


def qt(x):
    fr = enc.frac(x)
    return f"(Qmake {zt(fr.numerator)} (Z.to_pos {zt(fr.denominator)}))"


def vt(x):
    """Python value -> Base.val term (as enc.V, integers through zt)"""
    if isinstance(x, enc.Err):
        return f"(VE {enc.S(x.tag)})"
    if x is None:
        return "VN"
    if isinstance(x, bool):
        return f"(VB {enc.B(x)})"
    if isinstance(x, int):
        return f"(VZ {zt(x)})"
    if isinstance(x, str):
        return f"(VS {enc.S(x)})"
    if isinstance(x, (list, tuple)):
        return f"(VL {enc.L([vt(i) for i in x])})"
    return enc.V(x)


class NameTable:
    def __init__(self):
        self.ids = {}

    def ref(self, name):
        if name not in self.ids:
            self.ids[name] = f"c5n{len(self.ids)}"
        return self.ids[name]

    def prelude(self):
        return "\n".join(f"Definition {v} := {enc.S(k)}." for k, v in self.ids.items())


NAMETAB = NameTable()


def coq_tsv(t):
    if t[0] == "s":
        return f"TStr {zt(t[1])}"
    if t[0] == "i":
        return f"TInt {zt(int(t[1]))}"
    if t[0] == "b":
        return "TBad"
    return "TMissing"


def coq_ev(e):
    tsx = list(e["tsx"]) + [["m"]] * (5 - len(e["tsx"]))
    return (f"(mkev {enc.B(e['ph'] == 'X')} {zt(e['pid'])} {NAMETAB.ref(e['name'])} {qt(e['ts'])} "
            f"{qt(e['dur'])} {enc.L([coq_tsv(t) for t in tsx])})")


def prep_dropped(case, e):
    """end to end the prep-queue counter removes Prep slices unless --keep_prep (documented rule, C13); the profile
    that --tb selects has no prep-queue counter stage"""
    return (case.get("kind") == "e2e" and "--keep_prep" not in case.get("opts", []) and "--tb" not in case.get("opts", [])
            and e["name"].endswith(" Cmpt Prep") and e["ph"] == "X")


def coq_case(case, order=None):
    evs = case["events"] if order is None else [case["events"][i] for i in order]
    return enc.P(qt(case["f"]), enc.B(case.get("ic", False)), enc.L([coq_ev(e) for e in evs]),
                 enc.L([enc.B(not prep_dropped(case, e)) for e in evs]))


def e2e_order(case):
    """the order in which phase 1 meets the events of an e2e run: files merged by ts (stable). The model's result
    does not depend on it except through the Exec division guard, which e2e traces never trip."""
    idx = list(range(len(case["events"])))
    return sorted(idx, key=lambda i: (case["events"][i]["ts"], i))


def observed_term(case, obs):
    """implementation outcome -> val term, aligned with the model's event order"""
    if isinstance(obs, enc.Err):
        return vt(obs)
    if case.get("kind") == "e2e":
        order = e2e_order(case)
        return vt([obs[i] for i in order if not (prep_dropped(case, case["events"][i]) and obs[i] == "missing")])
    return vt(obs)


def model_input(case):
    return coq_case(case, e2e_order(case) if case.get("kind") == "e2e" else None)


# ---------------------------------------------------------------- oracle (independent statement of C05)
def valid(case):
    """inside the property's hypotheses and the code's division guard?"""
    last_exec, hs = {}, {}
    if case["f"] <= 0 or moved_by_option(case):
        return False
    for e in case["events"]:
        if e["ts"] + e["dur"] < 0:
            return False
        if e["truth"] is None:
            if e["tsx"] and e["ph"] == "X":
                return False
            continue
        cs = e["truth"]
        if e["ph"] != "X" or len(cs) != 5 or any(cs[k] > cs[k + 1] for k in range(4)) or cs[4] - cs[0] >= W:
            return False
        if [t[0] for t in e["tsx"]] != ["s"] * 5 or [t[1] for t in e["tsx"]] != [c % W for c in cs]:
            return False
        q = hash(e["pid"])
        if hs.setdefault(q, e.get("H")) != e.get("H") or e["ts"] != e["H"] + cs[ref_of(e["name"])] / case["f"]:
            return False
        if "Cmpt Exec" in e["name"]:
            if e["dur"] == 0:          # (an equal host ts of two Exec slices is in the domain since /repo fix C02d)
                return False
            last_exec[q] = e["ts"]
    return True


def wrap_category(e):
    cs, r = e["truth"], ref_of(e["name"])
    if cs[0] // W != cs[r] // W:
        return "wrap_between_TS1_and_phase_start"
    if cs[r] // W != cs[4] // W:
        return "wrap_inside_or_after_phase"
    return "no_wrap_inside_slice"


def phase_of(name):
    return next((p for p in PH if name.endswith(" " + p)), "other")


def oracle(case, obs):
    """list of failures of the property on the implementation's output (empty = holds)"""
    if not valid(case):
        return []
    fails = []

    facts = e2e_facts(case)

    def fail(sig, expected, observed):
        fails.append({"input": case, "expected": expected, "observed": observed, "signature": dict(sig, **facts)})
    if isinstance(obs, enc.Err):
        fail({"kind": "exception_on_valid_trace", "exception": obs.tag, "drive": case.get("kind", "direct")},
             "no exception: every slice corrected", repr(obs))
        return fails
    ranks = {}
    for e, o in zip(case["events"], obs):
        if e["truth"] is None:
            if o is not None:
                fail({"kind": "event_without_counters_changed"}, None, o)
            continue
        if o == "missing" and prep_dropped(case, e):
            continue
        if not (isinstance(o, list) and len(o) == 3 and isinstance(o[0], list) and len(o[0]) == 5):
            fail({"kind": "device_slice_not_corrected", "phase": phase_of(e["name"]), "what": str(o)[:40]},
                 "TS1..TS5 + OVC", o)
            continue
        ranks.setdefault(hash(e["pid"]), []).append((e, o))
    for q, lst in sorted(ranks.items()):
        consts = {}
        for e, o in lst:
            ts, cs = o[0], e["truth"]
            if any(ts[k] > ts[k + 1] for k in range(4)):
                fail({"kind": "not_monotone_within_slice", "phase": phase_of(e["name"]), "wrap": wrap_category(e)},
                     "TS1<=..<=TS5", ts)
            if [t % W for t in ts] != [c % W for c in cs]:
                fail({"kind": "not_congruent_mod_2^32", "phase": phase_of(e["name"])}, [c % W for c in cs], ts)
            ds = sorted({t - c for t, c in zip(ts, cs)})
            if len(ds) > 1 or ds[0] % W:
                fail({"kind": "offset_varies_within_slice", "phase": phase_of(e["name"]), "wrap": wrap_category(e)},
                     "one multiple of 2^32 for all five counters", [t - c for t, c in zip(ts, cs)])
            for dlt in ds:
                consts.setdefault(dlt, []).append((e, o))
        if len(consts) > 1:
            # majority constant is taken as the rank's; report one slice that deviates
            # which slices deviate?  the constant shared by most slices is taken as the rank's; on a tie the one
            # that makes the earliest epoch of the rank epoch 0 (what a min-reference yields) - only used for blame
            qmin = min(e["truth"][0] // W for e, _ in lst)
            major = max(consts, key=lambda k: (len(consts[k]), k == -qmin * W, -abs(k)))
            for dlt in sorted(consts):
                if dlt == major:
                    continue
                e, o = consts[dlt][0]
                fail({"kind": "rank_epoch_constant_differs", "phase": phase_of(e["name"]),
                      "wrap": wrap_category(e), "delta_epochs": (dlt - major) // W if (dlt - major) % W == 0 else "frac"},
                     {"rank_constant": major, "slice": [c + major for c in e["truth"]]},
                     {"uid": e["uid"], "name": e["name"], "TS": o[0], "OVC": o[1]})
                break
        else:
            (cst,) = consts.keys() if consts else (0,)
            for e, o in lst:
                if cst % W == 0 and o[1] != e["truth"][0] // W + cst // W:
                    fail({"kind": "ovc_missing" if o[1] is None else "ovc_inconsistent",
                          "phase": phase_of(e["name"]), "wrap": wrap_category(e)},
                         e["truth"][0] // W + cst // W, o[1])
                    break
        # ordering by corrected counters = ordering by true device time (all pairs, all counters)
        done = False
        for i in range(len(lst)):
            for j in range(i + 1, len(lst)):
                (e1, o1), (e2, o2) = lst[i], lst[j]
                for k in range(5):
                    for m in range(5):
                        a, b = o1[0][k], o2[0][m]
                        c, d_ = e1["truth"][k], e2["truth"][m]
                        if ((a > b) - (a < b)) != ((c > d_) - (c < d_)) and not done:
                            done = True
                            fail({"kind": "order_by_corrected_counters_differs_from_device_time",
                                  "phases": sorted([phase_of(e1["name"]), phase_of(e2["name"])])},
                                 "same order", {"uids": [e1["uid"], e2["uid"]], "k": [k + 1, m + 1]})
    return fails


def shrink(f):
    """drop events while a failure of the same kind persists"""
    case = f["input"]
    kind = f["signature"]["kind"]
    evs = list(case["events"])
    t0 = time.time()
    changed = True
    while changed and time.time() - t0 < 20:
        changed = False
        for k in range(len(evs)):
            c2 = dict(case, events=evs[:k] + evs[k + 1:])
            fs = [x for x in oracle(c2, drive(c2)) if x["signature"]["kind"] == kind]
            if fs:
                evs, changed = c2["events"], True
                break
    c2 = dict(case, events=evs)
    fs = [x for x in oracle(c2, drive(c2)) if x["signature"]["kind"] == kind]
    return fs[0] if fs else f


# ---------------------------------------------------------------- generators
def gen_rank(r, pid, f, H, uid0, n_kernels, on_grid, jobs=1, e2e=False):
    """events of one rank with ground truth: kernels in device-time order, 0..3 wraps anywhere"""
    rel, cur = [], 0
    for _ in range(n_kernels):
        mode = r.random()
        if mode < 0.08:                       # idle gap around one or more whole periods
            cur += r.choice([W // 2, W - 3, W, W + 5, 3 * W // 2, 2 * W + 1]) + r.randint(0, 50)
        elif mode < 0.3:
            cur += r.randint(0, 3)
        else:
            cur += r.randint(0, 5000)
        gaps = []
        for _k in range(4):
            g = r.random()
            gaps.append(0 if g < 0.15 else r.randint(1, 3) if g < 0.4 else r.randint(4, 4000) if g < 0.93
                        else r.randint(W // 8, W // 4 - 1))
        if e2e or r.random() < 0.85:
            gaps[2] = max(gaps[2], 1)          # Exec slices get a positive duration
        if e2e:
            gaps = [max(g, 600) if g < W // 8 else g for g in gaps]   # later stages want slices >= ~0.5us apart
        if r.random() < 0.04:                 # lasts just less than one period
            gaps[r.randrange(4)] += W - 1 - sum(gaps)
        cs = [cur]
        for g in gaps:
            cs.append(cs[-1] + g)
        rel.append(cs)
        cur = cs[4]
        if r.random() < 0.15 and cs[4] > cs[3]:
            cur = cs[3] + r.randint(0, cs[4] - cs[3] - 1)      # pipelined: the next kernel's DmaI starts inside this DmaO
    # align one chosen counter of one chosen kernel with a period boundary (+- a few cycles)
    tk, tj = r.randrange(n_kernels), r.randrange(5)
    delta = r.choice([-2, -1, 0, 0, 1, 2, r.randint(-3000, 3000), r.randint(0, W - 1)])
    m = r.randint(1, 4)
    base = m * W + delta - rel[tk][tj]
    while base < 0:
        base += W
    evs, uid = [], uid0
    for ki, cs0 in enumerate(rel):
        cs = [base + c for c in cs0]
        if not on_grid:
            # keep every phase-start counter 2^16 cycles from a wrap: double rounding must not move the floor
            while any((c % W) < MARGIN or (c % W) >= W - MARGIN for c in cs[:4]):
                cs = [c + MARGIN + 17 for c in cs]
                base += MARGIN + 17
        if r.random() < 0.12:
            names = [f"k{ki} {r.choice(['Other', 'Cmpt', 'Wait Exec', 'DmaI x', 'Prep'])}"]
        else:
            # kernel stems may mention a DMA keyword glued into the kernel's own name: the phase is the suffix alone
            stem = r.choice([f"k{ki}"] * 3 + [f"fusedDmaI_k{ki}", f"stagedDmaO_k{ki}", f"k{ki}_CmptPrep"])
            # (the repository's own two classifiers only agree on such a stem for the Cmpt phases: a glued stem with a
            # DMA suffix aborts in categorize.get_event_class on the unchanged tree, so it is not a well-formed name)
            phs = PH if stem.startswith("k") and "_" not in stem else ["Cmpt Prep", "Cmpt Exec"]
            names = [f"{stem} {p}" for p in phs if r.random() < 0.8] or [f"{stem} Cmpt Exec"]
        for nm in names:
            evs.append(mk_dev(uid, pid, nm, cs, f, H, r, job=r.randrange(jobs)))
            uid += 1
        if r.random() < 0.2:
            evs.append(mk_host(uid, pid, H + cs[0] / f - (0.5 if e2e else 0.0), dur=0.25, job=r.randrange(jobs),
                               name=f"launch {ki}"))
            uid += 1
    return evs, uid


def add_roundtrips(r, evs, uid, f):
    """one 'AIU Roundtrip' host slice per job file (four in five), enclosing the host-time window of the job's device
    slices as in a well-aligned trace (job offset 0; see moved_by_option for the other pictures).  All times stay on
    the 2^-10 us grid of the exact stream; the margins go from a fraction of a microsecond to more than a period."""
    span = W / f
    out = []

    def dist():
        k = r.random()
        if k < 0.15:
            return 0.0                                                  # flush with the first / last device slice
        if k < 0.6:
            return r.randint(1, 1 << 16) / 1024.0                      # up to 64 us
        if k < 0.85:
            return r.randint(1 << 16, 1 << 24) / 1024.0                # up to 16 ms
        return r.choice([span / 2, span - 1.0, span, span + 3.5, 2 * span + 0.25]) + r.randint(0, 4096) / 1024.0

    for (pid, job), (dev, _) in sorted(job_windows({"events": evs}).items()):
        if dev is None or r.random() < 0.2:
            continue
        lo, hi = dev
        t0 = math.floor((lo - min(dist(), lo)) * 1024) / 1024.0       # rounded down / up: still encloses
        t1 = math.ceil((hi + dist()) * 1024) / 1024.0
        out.append(mk_host(uid, pid, t0, dur=t1 - t0, job=job, name=RT, tid=1))
        uid += 1
    return out, uid


E2E_OPTS = [[], ["--keep_prep"], ["--keep_prep", "-M"], ["-t"], ["--keep_prep", "--ignore_crit"],
            ["--tb"], ["--tb", "--keep_prep"],
            # the README's troubleshooting option for misaligned device events (registers two more stages between
            # the normalisation phases); with the option sets above
            ["--flex_ts_fix"], ["--flex_ts_fix", "--keep_prep"], ["--flex_ts_fix", "--keep_prep", "-M"],
            ["--flex_ts_fix", "-t"], ["--flex_ts_fix", "--tb"], ["--flex_ts_fix", "--keep_prep", "--ignore_crit"]]


def gen_valid(r, on_grid=True, e2e=False, max_ranks=3, max_kernels=6):
    f = r.choice(GRID_F if on_grid else OFF_F)
    evs, uid = [], 0
    nr = r.randint(1, max_ranks)
    pids = r.sample(range(0, 8), nr)
    for pid in pids:
        if on_grid:
            H = r.randint(1024, 1 << 46) / 1024.0        # multiples of 2^-10 below 2^36
        else:
            H = r.choice([0.0, r.random() * 1e6, 1.7e15 + r.random() * 1e9])
        jobs = r.choice([1, 1, 2])
        e1, uid = gen_rank(r, pid, f, H, uid, r.randint(1, max_kernels), on_grid, jobs=jobs, e2e=e2e)
        evs += e1
    if e2e:
        rts, uid = add_roundtrips(r, evs, uid, f)
        evs += rts
    evs.sort(key=lambda e: e["ts"])
    if r.random() < 0.3:
        # out-of-order input (later epochs first): phase 1 has to move the reference epoch, and only the barrier
        # makes phase 2 see the final one
        if r.random() < 0.5:
            evs.reverse()
        else:
            r.shuffle(evs)
    case = {"kind": "e2e" if e2e else "direct", "f": f, "ic": r.random() < 0.15, "events": evs}
    if e2e:
        case["opts"] = list(r.choice(E2E_OPTS))
        case["ic"] = "--ignore_crit" in case["opts"]
        case["attr"] = r.random() < 0.3
    return case


def gen_malformed(r):
    """outside the hypotheses: exercises the error enum and the untouched paths (tie only, no oracle)"""
    case = gen_valid(r, on_grid=True, max_ranks=2, max_kernels=3)
    evs = case["events"]
    for _ in range(r.randint(1, 3)):
        e = r.choice(evs)
        k = r.random()
        if k < 0.15 and e["tsx"]:
            e["tsx"][r.randrange(len(e["tsx"]))] = ["m"]
        elif k < 0.25 and e["tsx"]:
            e["tsx"][r.randrange(len(e["tsx"]))] = ["i", r.randint(0, W - 1)]
        elif k < 0.33 and e["tsx"]:
            e["tsx"][r.randrange(len(e["tsx"]))] = ["b", r.choice(["zz", "0xg1", "", "1.5"])]
        elif k < 0.45 and e["tsx"]:
            j = r.randrange(len(e["tsx"]))
            e["tsx"][j] = ["s", r.choice([0, 1, W - 1, W, W + 5, 1 << 40, r.randint(0, W - 1)]), "dec"]
        elif k < 0.55:
            e["dur"] = 0.0
        elif k < 0.65:
            e["ph"] = r.choice(["C", "i", "B"])
        elif k < 0.75:
            e["pid"] = r.choice([-1, -2, -1, 12345678901])
        elif k < 0.85 and e["tsx"]:
            r.shuffle(e["tsx"])
        elif k < 0.93:
            e["ts"] = e["ts"] + r.choice([W / case["f"], -1.0, 2.0 ** 20, 0.5])
            if e["ts"] < 0:
                e["ts"] = 0.0
        else:
            e2 = copy.deepcopy(e)
            e2["uid"] = max(x["uid"] for x in evs) + 1
            evs.insert(evs.index(e) + 1, e2)
        e["truth"] = None if not e["tsx"] else e["truth"]
    case["malformed"] = True
    return case


def grid_cases(two_wraps=False):
    """three consecutive slices of one rank x every phase assignment x every position of the wrap among the 15
    counters (p = index of the first counter at or after the boundary; 0 / 15 = no wrap inside the window)"""
    kinds = PH + ["Other"]
    f, H = 1024.0, 4096.0
    out = []
    step = 8
    for a in range(5):
        for b in range(5):
            for c in range(5):
                ps = [(p, None) for p in range(16)]
                if two_wraps:
                    ps = [(p, q) for p in range(16) for q in range(p, 16)]
                for p, q in ps:
                    flat = [step * i for i in range(15)]
                    # first boundary exactly at counter p: counters >= p are >= 2W
                    base = 2 * W - (flat[p] if p < 15 else flat[14] + step)
                    vals = [base + x for x in flat]
                    if q is not None:   # an idle stretch of almost a whole period before counter q (inside a slice it
                        # stays below the one-period limit: 32 + W - 40 < W), so a second boundary is crossed there
                        vals = [v + (W - 40 if i >= q else 0) for i, v in enumerate(vals)]
                    evs = []
                    for i, kind in enumerate((kinds[a], kinds[b], kinds[c])):
                        cs = vals[5 * i:5 * i + 5]
                        if cs[4] - cs[0] >= W:
                            evs = None
                            break
                        evs.append(mk_dev(i, 0, f"g{i} {kind}", cs, f, H))
                    if evs is None:
                        continue
                    evs.sort(key=lambda e: e["ts"])
                    out.append({"kind": "direct", "f": f, "ic": False, "events": evs, "grid": [a, b, c, p, q]})
    return out


NAMES = ["k DmaI", "k Cmpt Prep", "k Cmpt Exec", "k DmaO", "DmaI", " DmaI", "k DmaI ", "kDmaI", "k Cmpt Exec DmaO",
         "k DmaO Cmpt Exec", "Cmpt Exec", "k Cmpt Exec x", "k cmpt exec", "k  Cmpt  Exec", "k Cmpt Prep Cmpt Exec",
         "", " ", "k Prep", "k Cmpt", "x Cmpt ExecCmpt Exec", "a DmaI DmaI", "RDMA Receive DmaO", "k CmptExec",
         "k Cmpt Exe", "Cmpt Exec ", "k_Cmpt Exec", "k Cmpt Prep ", " Cmpt Prep", "k DmaO0"]


def names_tie(r, n):
    from aiu_trace_analyzer.pipeline.normalize import NormalizationContext
    names = list(NAMES)
    alphabet = ["k", " ", "DmaI", "DmaO", "Cmpt", "Exec", "Prep", " Cmpt Exec", " Cmpt Prep", " DmaI", " DmaO", "x", "_"]
    for _ in range(n):
        names.append("".join(r.choice(alphabet) for _ in range(r.randint(0, 5))))
    cases = []
    for nm in names:
        ref = NormalizationContext._get_ref_ts(nm)
        cases.append((enc.S(nm), enc.V([int(ref[2:]) - 1, "Cmpt Exec" in nm])))
    bad, _, secs = coqrun.run_cases("C05_names", COQ_IMPORTS, "string", "name_val", cases)
    return names, bad, secs


# ---------------------------------------------------------------- nontrivial rule
def has_wrap(case):
    """>= 1 wrap: a slice whose counters cross a period boundary, or two slices of one rank in different periods"""
    eps = {}
    for e in case["events"]:
        if e["truth"] is None:
            continue
        cs = e["truth"]
        if cs[0] // W != cs[4] // W:
            return True
        eps.setdefault(hash(e["pid"]), set()).update(c // W for c in cs)
    return any(len(s) > 1 for s in eps.values())


def case_key(case):
    return hashlib.sha1(json.dumps(case, sort_keys=True, default=str).encode()).hexdigest()


def load_corpus():
    d = os.path.join(coqrun.VERIF, "corpus", "C05")
    out = []
    for p in sorted(glob.glob(os.path.join(d, "*.json"))):
        c = json.load(open(p))
        c["corpus"] = os.path.basename(p)
        out.append(c)
    return out


# ---------------------------------------------------------------- check
def run(ctx):
    r = ctx.rng
    t_start = time.time()
    cases = load_corpus()
    n_corpus = len(cases)
    grid = grid_cases(two_wraps=not ctx.quick())
    cases += grid
    n_direct = ctx.pick(1000, 20000)
    for _ in range(n_direct):
        cases.append(gen_valid(r, on_grid=r.random() < 0.8))
    n_mal = ctx.pick(300, 3000)
    for _ in range(n_mal):
        cases.append(gen_malformed(r))
    n_e2e = ctx.pick(500, 3000)
    for _ in range(n_e2e):
        cases.append(gen_valid(r, on_grid=True, e2e=True, max_ranks=3, max_kernels=4))

    terms, oracle_failures, seen, nontriv = [], [], set(), 0
    dist = {"drive": {}, "events_per_trace": {}, "ranks": {}, "freq": {}, "wraps_per_trace": {}, "errors": {},
            "valid": 0, "malformed": 0, "on_grid": 0, "off_grid": 0, "e2e_opts": {}, "e2e_job_roundtrip": {},
            "e2e_flex_ts_fix_wraps_between_slices": 0}
    t_e2e = 0.0
    for case in cases:
        t0 = time.time()
        obs = drive(case, ctx.work)
        if case.get("kind") == "e2e":
            t_e2e += time.time() - t0
        terms.append((model_input(case), observed_term(case, obs)))
        v = valid(case)
        if v:
            oracle_failures += oracle(case, obs)[:2]
        k = case_key(case)
        if k not in seen:
            seen.add(k)
            nontriv += int(v and has_wrap(case))
        _bump(dist["drive"], case.get("kind", "direct"))
        _bump(dist["events_per_trace"], min(len(case["events"]) // 5 * 5, 40))
        _bump(dist["ranks"], len({e["pid"] for e in case["events"]}))
        _bump(dist["freq"], case["f"])
        _bump(dist["wraps_per_trace"], min(_wraps(case), 4))
        _bump(dist["errors"], obs.tag if isinstance(obs, enc.Err) else "ok")
        dist["valid" if v else "malformed"] += 1
        dist["on_grid" if case["f"] in GRID_F else "off_grid"] += 1
        if case.get("kind") == "e2e":
            _bump(dist["e2e_opts"], " ".join(case.get("opts", [])) or "(default)")
            for dev, rt in job_windows(case).values():
                if dev is not None:
                    _bump(dist["e2e_job_roundtrip"], "none" if rt is None else "encloses"
                          if rt[0] <= dev[0] and dev[1] <= rt[1] else "does_not_enclose")
            if "--flex_ts_fix" in case.get("opts", []) and has_wrap(case):
                dist["e2e_flex_ts_fix_wraps_between_slices"] += 1
    bad, extras, secs = coqrun.run_cases(
        "C05", COQ_IMPORTS, COQ_TY, "run_val", terms,
        prelude=NAMETAB.prelude(),
        extra="Close Scope Q_scope.\nDefinition nt := Eval vm_compute in (count_if (fun c => has_wrap (fst c)) cases)."
              "\nPrint nt.", shard=100)
    names, nbad, nsecs = names_tie(r, ctx.pick(300, 5000))
    mism = [{"name": "correspondence Overflow.run_val vs " +
                     ("Acelyzer end to end" if cases[j].get("kind") == "e2e" else "normalize_phase1/normalize_phase2"),
             "case": _strip(cases[j]), "impl": terms[j][1][:600]} for j in bad[:5]]
    mism += [{"name": "correspondence Overflow.name_val vs NormalizationContext._get_ref_ts", "case": names[j]}
             for j in nbad[:5]]
    # a mismatching valid case is a failing-input candidate too: the oracle already looked at it above
    shr = []
    kinds_seen = set()
    # report the statements about the counters themselves before those about the OVC bookkeeping (stable)
    oracle_failures.sort(key=lambda f: f["signature"]["kind"] in ("ovc_missing", "ovc_inconsistent"))
    for f in oracle_failures:
        kk = json.dumps(f["signature"], sort_keys=True)
        if kk in kinds_seen or len(shr) >= 3:
            continue
        kinds_seen.add(kk)
        shr.append(_clean(shrink(f)))
    return {
        "evaluations": len(cases), "distinct_nontrivial": nontriv,
        "rule": "distinct valid traces (inside the theorem's hypotheses) with >= 1 wrap, i.e. a slice whose true "
                "counters cross a 2^32 boundary or two slices of one rank in different periods (ground truth of the "
                f"generator). Same idea measured inside Coq on the model's output over all cases incl. duplicates "
                f"(non-zero OVC or a local correction): {extras.get('nt')}. Streams: corpus {n_corpus}; exhaustive grid "
                f"{len(grid)} (3 slices x 5 phase kinds each x every wrap position among the 15 counters"
                f"{' x second wrap position' if not ctx.quick() else ''}); random direct {n_direct} (20% off-grid); "
                f"malformed {n_mal}; end to end {n_e2e} (of which with --flex_ts_fix and >= 1 wrap: "
                f"{dist['e2e_flex_ts_fix_wraps_between_slices']}).",
        "samples": [_strip(cases[j]) for j in (0, n_corpus + 7, n_corpus + len(grid) + 1, len(cases) - 1)],
        "mismatches": mism, "oracle_failures": shr,
        "ties": [{"name": "Overflow.run_val = normalize_phase1 ; normalize_phase2 (direct) and Acelyzer (e2e)",
                  "cases": len(cases), "direct": len(cases) - n_e2e, "e2e": n_e2e, "mismatching": len(bad),
                  "coq_seconds": round(secs, 1), "e2e_seconds": round(t_e2e, 1)},
                 {"name": "Overflow.name_val = _get_ref_ts / 'Cmpt Exec' in name", "cases": len(names),
                  "mismatching": len(nbad), "coq_seconds": round(nsecs, 1)}],
        "distribution": dist, "exhaustive": True,
        "traces_validated_against_impl": len(cases),
        "notes": [f"run wall {time.time() - t_start:.1f}s"],
    }


def _bump(d, k):
    k = str(k)
    d[k] = d.get(k, 0) + 1


def _wraps(case):
    n = 0
    for pid in {e["pid"] for e in case["events"]}:
        cs = [c for e in case["events"] if e["pid"] == pid and e["truth"] for c in e["truth"]]
        if cs:
            n += max(cs) // W - min(cs) // W
    return n


def _strip(case):
    return {k: v for k, v in case.items()}


def _clean(f):
    return {"input": f["input"], "expected": f["expected"], "observed": f["observed"], "signature": f["signature"]}


def search(ctx, res, broken):
    """something broke but the run's oracle was silent: oracle on a fresh, larger stream (time-bounded)"""
    r = random.Random(ctx.seed + 1000003)
    t0 = time.time()
    budget = ctx.pick(90, 600)
    found = []
    for c in grid_cases(two_wraps=True):
        if time.time() - t0 > budget / 2:
            break
        fs = oracle(c, drive(c))
        if fs:
            found.append(_clean(shrink(fs[0])))
            return found
    n = 0
    while time.time() - t0 < budget:
        n += 1
        c = gen_valid(r, on_grid=r.random() < 0.8, e2e=(n % 25 == 0), max_kernels=8)
        fs = oracle(c, drive(c, ctx.work))
        if fs:
            found.append(_clean(shrink(fs[0])))
            break
    return found


def replay(ctx, payload):
    f = payload.get("failing")
    if not f:
        return True, "replay file names only broken obligations: " + str(payload.get("broken"))[:500]
    case = f["input"]
    obs = drive(case, ctx.work)
    fs = oracle(case, obs)
    return (not fs), {"observed": repr(obs)[:1500],
                      "failures": [{"signature": x["signature"], "expected": x["expected"], "observed": x["observed"]}
                                   for x in fs[:3]]}
