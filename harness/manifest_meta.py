"""MANIFEST entries live in each property module (harness/props/cXX.py, attribute MANIFEST with keys
text, note, technique, design_ref).  tools/gen_manifest.py collects them."""

PENDING_REASON = ("no check registered yet: the Coq model/theorems and the tie for this property are planned "
                  "in DESIGN.md section 4 but not built at this commit")
NOT_APPLICABLE = {}

# properties whose check is finished, reviewed and registered in MANIFEST.json; setup.sh builds exactly their
# Coq files (props/<id>.vo + MODEL_TARGETS), gen_manifest.py lists exactly them as checks
READY = ["C01", "C02", "C03", "C04", "C05", "C06", "C07", "C08", "C09", "C10", "C11", "C12", "C13", "C14", "C15", "C16", "C17", "C18", "C19", "C20"]
