"""Per-property MANIFEST entries.  tools/gen_manifest.py turns this into /verif/MANIFEST.json."""

PENDING_REASON = ("no check registered yet: the Coq model/theorems and the tie for this property are planned "
                  "in DESIGN.md section 4 but not built at this commit")

CHECKS = {
    "C03": {
        "text": "Proof. Coq theorems over an operational model of EventProcessor.pre_process/drain, Engine.run and "
                "the shared module-level barrier, for arbitrary stage lists, callbacks, drains and inputs (no bound): "
                "run = composition of per-stage stream functions with every barrier the identity "
                "(C03_stream_compose), barrier separation of the time-ordered call log (C03_barrier_separates), drain "
                "order/once/after-input (C03_drain_order). The model is tied to the code by a correspondence run: the "
                "real EventProcessor/Engine/pipeline_barrier with recording callbacks vs the model evaluated by "
                "vm_compute on the same graphs (exhaustive for short graphs, random for long ones).",
        "note": "Trusted: Coq kernel + vm_compute; hand-written model Pipeline.v/C03Model.v tied by differential "
                "testing only; behaviour alphabet of the tie stands for arbitrary callbacks; stream_compose needs "
                "well-formedness (non-barrier stages own their context) - shared-context pairs are covered by the "
                "log theorems and the tie, not by stream_compose. Print Assumptions: closed under the global context.",
        "technique": "Coq proof (induction over stage list / input) + vm_compute correspondence against the real "
                     "EventProcessor",
        "design_ref": "DESIGN.md sections 3 and 4/C03",
    },
}
