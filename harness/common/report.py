"""Evidence files, replay files, VIOLATION / KNOWN-FINDING lines."""
import hashlib
import json
import os
import time

from .coqrun import VERIF

EVID = os.path.join(VERIF, "evidence")
REPLAYS = os.path.join(VERIF, "replays")
KNOWN = os.path.join(VERIF, "known_findings.json")

TRUSTED_BASE_COMMON = [
    "Coq 8.16.1 kernel (coqc), including its vm_compute reduction machine (used to run the model "
    "on the tie's cases and in finite-table lemmas); no native_compute",
    "harness/common/enc.py: encoding of Python ints/floats(as exact rationals)/strings/lists as Coq terms",
    "harness/common/coqrun.py: sharding of cases, parsing of the single printed 'res = [...]' line",
    "the property's generator, implementation driver and canonicalisation in harness/props/<id>.py",
    "the hand-written Gallina model is tied to /repo only by the correspondence run of this check "
    "(differential testing on generated inputs) and, where used, by the translators in tools/",
]


def jdump(o):
    return json.dumps(o, sort_keys=True, default=str)


def write_replay(prop, payload):
    os.makedirs(REPLAYS, exist_ok=True)
    h = hashlib.sha1(jdump(payload).encode()).hexdigest()[:12]
    p = os.path.join(REPLAYS, f"{prop}_{h}.json")
    payload = dict(payload)
    payload["property"] = prop
    with open(p, "w") as f:
        json.dump(payload, f, indent=1, sort_keys=True, default=str)
    return p


def load_known(prop):
    if not os.path.exists(KNOWN):
        return []
    k = json.load(open(KNOWN))
    return [f for f in k.get("findings", []) if f.get("property") == prop]


def matches_known(signature, known):
    """a failing input matches a listed finding iff every key of the finding's `match` equals the
    corresponding key of the failing input's signature"""
    for f in known:
        m = f.get("match", {})
        if m and all(signature.get(k) == v for k, v in m.items()):
            return f
    return None


def write_evidence(prop, tier, seed, coverage, wall_s, violations, assumptions):
    os.makedirs(EVID, exist_ok=True)
    ev = {
        "property_id": prop,
        "tier": tier,
        "seed": int(seed),
        "level": "proof",
        "coverage": coverage,
        "assumptions": assumptions,
        "wall_s": round(wall_s, 2),
        "violations": int(violations),
        "written_at": time.strftime("%Y-%m-%dT%H:%M:%SZ", time.gmtime()),
    }
    p = os.path.join(EVID, f"{prop}.json")
    with open(p, "w") as f:
        json.dump(ev, f, indent=1, default=str)
    return p
