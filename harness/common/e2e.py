"""End-to-end driver: run the REAL analyzer (in-process through the documented Acelyzer API, or as a CLI
subprocess) on a scenario and collect exit status, exported events, CSV files and, optionally, a per-stage
account of the slice uids that entered every registered stage (recorded by wrapping the callbacks at
register_stage time - no source change)."""
import contextlib
import io
import json
import os
import zlib
import subprocess
import sys
import traceback

REPO = os.environ.get("AIU_REPO", "/repo")


def uid_of(ev):
    for k in ("args", "attr"):
        d = ev.get(k) if isinstance(ev, dict) else None
        if isinstance(d, dict) and "uid" in d:
            return d["uid"]
    return None


class Result:
    def __init__(self):
        self.rc = None
        self.exc = None          # (type name, message, file:line) of an exception that escaped
        self.events = None       # exported traceEvents (list of dicts), None if no file
        self.raw = None          # the exported JSON text
        self.stage_in = None     # list of (stage name, [uids of slices that entered, in order])
        self.files = {}          # other files written next to the output (name -> text)

    def ok(self):
        return self.exc is None and self.rc == 0


def strict_loads(txt):
    def bad(x):
        raise ValueError("non-finite constant " + x)
    return json.loads(txt, parse_constant=bad)


def run_inproc(argv, out_path, record=False, quiet=True):
    """Acelyzer(argv).run() in this process.  out_path must be the value given to -o."""
    import aiu_trace_analyzer.core.acelyzer as acel
    import aiu_trace_analyzer.core.processing as processing

    res = Result()
    account = []

    class Rec(processing.EventProcessor):
        def register_stage(self, callback, context=None, **kw):
            n_before = len(self.stages)
            name = callback.__name__
            entry = (name, [])

            def wrapped(event, ctx, *a, _cb=callback, _log=entry[1]):
                if isinstance(event, dict) and event.get("ph") == "X":
                    u = uid_of(event)
                    if u is not None:
                        _log.append(u)
                return _cb(event, ctx, *a)
            wrapped.__name__ = name
            super().register_stage(wrapped, context, **kw)
            if len(self.stages) > n_before:
                account.append(entry)

    saved = acel.processor.EventProcessor
    if record:
        acel.processor.EventProcessor = Rec
    try:
        sink = io.StringIO()
        with (contextlib.redirect_stdout(sink) if quiet else contextlib.nullcontext()), \
                (contextlib.redirect_stderr(sink) if quiet else contextlib.nullcontext()):
            try:
                a = acel.Acelyzer(list(argv))
                res.rc = a.run()
                del a
            except SystemExit as e:
                res.rc = e.code if isinstance(e.code, int) else 1
                res.exc = ("SystemExit", str(e.code), "")
            except BaseException as e:  # noqa: BLE001
                tb = traceback.extract_tb(e.__traceback__)[-1]
                res.exc = (type(e).__name__, str(e)[:300], f"{os.path.basename(tb.filename)}:{tb.lineno}")
    finally:
        acel.processor.EventProcessor = saved
    if record:
        res.stage_in = account
    _collect(res, out_path)
    return res


def run_cli(argv, out_path, hashseed="0", timeout=120):
    env = dict(os.environ, PYTHONPATH=os.path.join(REPO, "src"), PYTHONHASHSEED=str(hashseed))
    r = subprocess.run(["/venv/bin/python", "-c",
                        "import sys; from aiu_trace_analyzer.core.acelyzer import Acelyzer; "
                        "sys.exit(Acelyzer(sys.argv[1:]).run())"] + list(argv),
                       env=env, stdout=subprocess.PIPE, stderr=subprocess.PIPE, text=True, timeout=timeout)
    res = Result()
    res.rc = r.returncode
    if r.returncode != 0:
        last = [ln for ln in r.stderr.strip().splitlines() if ln.strip()][-1:] or [""]
        res.exc = ("exit", last[0][:300], "")
    _collect(res, out_path)
    return res


def _collect(res, out_path):
    d = os.path.dirname(out_path)
    base = os.path.basename(out_path)
    if not os.path.exists(out_path) and out_path.endswith(".json"):
        alt = out_path[:-5] + ".pt.trace.json"       # TensorBoard exporter renames the combined file
        if os.path.exists(alt):
            out_path = alt
    if os.path.exists(out_path):
        res.raw = open(out_path).read()
        try:
            data = strict_loads(res.raw)
            res.events = data["traceEvents"] if isinstance(data, dict) else data
        except Exception as e:  # noqa: BLE001
            res.events = None
            res.exc = res.exc or ("InvalidJSON", str(e)[:200], "")
    stem = base.replace(".pt.trace", "").rsplit(".", 1)[0]
    if os.path.isdir(d):
        for fn in sorted(os.listdir(d)):
            if fn != base and fn.startswith(stem) and not fn.endswith(".json") or \
                    (fn != base and fn.startswith(stem) and "worker" in fn):
                try:
                    res.files[fn] = open(os.path.join(d, fn)).read()
                except Exception:  # noqa: BLE001
                    pass


# ---------------------------------------------------------------- job ids
TOP_LEVEL_JOB = zlib.crc32(b"top_level_multifile") % 10000


def job_ids(paths):
    """the job ids MultifileIngest gives the inputs of ONE run, in -i order: crc32(path) % 10000, and the next free id
    when an earlier input of the same run (or the multi-file ingest itself) already has it (fix C20/C15: two different
    inputs never share an id; the same path listed twice does)"""
    in_use = {TOP_LEVEL_JOB: "top_level_multifile"}
    out = []
    for p in paths:
        j = zlib.crc32(str(p).encode()) % 10000
        while in_use.get(j, str(p)) != str(p):
            j = (j + 1) % 10000
        in_use[j] = str(p)
        out.append(j)
    return out
