"""Building the Coq development and evaluating the model on generated cases (vm_compute in coqc)."""
import fcntl
import os
import re
import shutil
import subprocess
import time
from concurrent.futures import ThreadPoolExecutor

VERIF = os.path.dirname(os.path.dirname(os.path.dirname(os.path.abspath(__file__))))
COQ = os.path.join(VERIF, "coq")
BUILD = os.path.join(VERIF, "build")
REPO = os.environ.get("AIU_REPO", "/repo")
QFLAGS = ["-Q", "theories", "AiuModel", "-Q", "gen", "AiuGen", "-Q", "props", "AiuProps"]
JOBS = int(os.environ.get("VERIF_JOBS", "16"))

FORBIDDEN = re.compile(
    r"\b(Admitted|admit|Axiom|Axioms|Parameter|Parameters|Conjecture|Conjectures|Abort All)\b"
    r"|Unset\s+Guard|bypass_check|type-in-type|impredicative-set|Admit Obligations|native_compute"
    r"|Unset\s+Universe\s+Checking|Unset\s+Positivity")


class BuildError(Exception):
    def __init__(self, what, log):
        super().__init__(what)
        self.what = what
        self.log = log


def _lock():
    os.makedirs(BUILD, exist_ok=True)
    f = open(os.path.join(BUILD, ".lock"), "w")
    fcntl.flock(f, fcntl.LOCK_EX)
    return f


def strip_comments(src: str) -> str:
    out, depth, i = [], 0, 0
    while i < len(src):
        if src.startswith("(*", i):
            depth += 1
            i += 2
        elif src.startswith("*)", i) and depth:
            depth -= 1
            i += 2
        else:
            if not depth:
                out.append(src[i])
            i += 1
    return "".join(out)


def _all_vfiles():
    out = []
    for sub in ("theories", "gen", "props"):
        d = os.path.join(COQ, sub)
        if os.path.isdir(d):
            out += [f"{sub}/{fn}" for fn in sorted(os.listdir(d)) if fn.endswith(".v")]
    return out


def hygiene(files=None):
    """No Admitted/Axiom/... in the given files of the development (default: all; comments ignored).
    A property check scans the dependency cone of its props file; setup.sh scans everything."""
    hits = []
    files = list(files) if files else _all_vfiles()
    for rel in files:
        src = strip_comments(open(os.path.join(COQ, rel)).read())
        # string literals may legitimately contain the words; drop them too
        nostr = re.sub(r'"(?:[^"]|"")*"', '""', src)
        for m in FORBIDDEN.finditer(nostr):
            hits.append(f"{rel}: {m.group(0)}")
        # section variables are fine; Variable/Hypothesis outside a section would be an axiom
        depth = 0
        for line in src.splitlines():
            s = line.strip()
            if re.match(r"Section\s+\w+\s*\.", s):
                depth += 1
            elif re.match(r"End\s+\w+\s*\.", s) and depth:
                depth -= 1
            elif depth == 0 and re.match(r"(Variable|Variables|Hypothesis|Hypotheses|Context)\b", s):
                hits.append(f"{rel}: {s.split()[0]} outside a section")
    return hits


def write_coqproject():
    files = []
    for sub in ("theories", "gen", "props"):
        d = os.path.join(COQ, sub)
        os.makedirs(d, exist_ok=True)
        files += [f"{sub}/{fn}" for fn in sorted(os.listdir(d)) if fn.endswith(".v")]
    txt = "-Q theories AiuModel\n-Q gen AiuGen\n-Q props AiuProps\n" + "\n".join(files) + "\n"
    p = os.path.join(COQ, "_CoqProject")
    if not os.path.exists(p) or open(p).read() != txt:
        open(p, "w").write(txt)
        subprocess.run(["coq_makefile", "-f", "_CoqProject", "-o", "Makefile"], cwd=COQ, check=True,
                       stdout=subprocess.DEVNULL, stderr=subprocess.DEVNULL)
    elif not os.path.exists(os.path.join(COQ, "Makefile")):
        subprocess.run(["coq_makefile", "-f", "_CoqProject", "-o", "Makefile"], cwd=COQ, check=True,
                       stdout=subprocess.DEVNULL, stderr=subprocess.DEVNULL)


def make(targets, timeout=1500, keep_going=False):
    """Full .vo build of the given targets (relative to coq/), incremental. Raises BuildError."""
    lk = _lock()
    try:
        write_coqproject()
        cmd = ["timeout", str(timeout), "make", f"-j{JOBS}", "--no-print-directory"] + \
              (["-k"] if keep_going else []) + list(targets)
        r = subprocess.run(cmd, cwd=COQ, stdout=subprocess.PIPE, stderr=subprocess.STDOUT, text=True)
        if r.returncode != 0:
            raise BuildError("make failed: " + " ".join(targets), r.stdout[-6000:])
        return r.stdout
    finally:
        lk.close()


def deps_of(vfile):
    """transitive .v dependencies of coq/<vfile> inside the development (via coqdep)."""
    seen, todo = set(), [vfile]
    while todo:
        f = todo.pop()
        if f in seen:
            continue
        seen.add(f)
        r = subprocess.run(["coqdep"] + QFLAGS + [f], cwd=COQ, stdout=subprocess.PIPE,
                           stderr=subprocess.DEVNULL, text=True)
        for line in r.stdout.splitlines():
            if ":" not in line:
                continue
            lhs, rhs = line.split(":", 1)
            if not lhs.strip().startswith(f[:-2] + ".vo"):
                continue
            for d in rhs.split():
                if d.endswith(".vo"):
                    v = d[:-1]
                    if os.path.exists(os.path.join(COQ, v)):
                        todo.append(v)
    return sorted(seen)


def count_obligations(vfiles):
    """number of proof scripts closed by Qed/Defined in the given files (comments ignored)."""
    n = 0
    for f in vfiles:
        src = strip_comments(open(os.path.join(COQ, f)).read())
        n += len(re.findall(r"\b(Qed|Defined)\s*\.", src))
    return n


def compile_prop(vfile, timeout=600):
    """(Re)compile coq/<vfile> with coqc and return its stdout (Print Assumptions output)."""
    lk = _lock()
    try:
        r = subprocess.run(["timeout", str(timeout), "coqc"] + QFLAGS + [vfile], cwd=COQ,
                           stdout=subprocess.PIPE, stderr=subprocess.STDOUT, text=True)
    finally:
        lk.close()
    if r.returncode != 0:
        raise BuildError("coqc failed: " + vfile, r.stdout[-6000:])
    return r.stdout


def coqchk_axioms(vfile, timeout=1500):
    """coqchk -o on the compiled property file and everything it depends on (independent re-check of the .vo files).
    Returns (ok, axioms or None, tail of the output).  axioms == [] means coqchk printed `Axioms: <none>`."""
    logical = "AiuProps." + os.path.basename(vfile)[:-2]
    lk = _lock()
    try:
        r = subprocess.run(["timeout", str(timeout), "coqchk", "-silent", "-o"] + QFLAGS + [logical], cwd=COQ,
                           stdout=subprocess.PIPE, stderr=subprocess.STDOUT, text=True)
    finally:
        lk.close()
    out = r.stdout or ""
    if r.returncode != 0:
        return False, None, out[-1500:]
    m = re.search(r"\* Axioms:(.*?)(?:\n\s*\n\* |\Z)", out, re.S)
    if not m:
        return False, None, out[-1500:]
    body = m.group(1).strip()
    axioms = [] if body == "<none>" else [ln.strip() for ln in body.splitlines() if ln.strip()]
    clean = all(re.search(r"\* %s: <none>" % re.escape(k), out) for k in
                ("Constants/Inductives relying on type-in-type", "Constants/Inductives relying on unsafe (co)fixpoints",
                 "Inductives whose positivity is assumed"))
    return clean, axioms, out[-1500:]


def parse_assumptions(out):
    """Print Assumptions output -> (n_closed, sorted list of axiom names)."""
    closed = len(re.findall(r"Closed under the global context", out))
    axioms = set()
    for block in re.findall(r"Axioms:\n((?:.+\n?)+?)(?:\n|\Z)", out):
        for line in block.splitlines():
            m = re.match(r"^(\S+)\s*:", line)
            if m:
                axioms.add(m.group(1))
    return closed, sorted(axioms)


_HDR = """From Coq Require Import ZArith QArith List String Bool.
Import ListNotations.
From AiuModel Require Import Base.
{imports}
Set Printing Width 1000000.
Set Printing Depth 1000000.
{prelude}
Definition cases : list ({ty} * val) := [
{body}
].
Definition res := Eval vm_compute in (mismatches ({func}) cases).
Print res.
{extra}
"""


def run_cases(name, imports, ty, func, cases, prelude="", extra="", shard=400, timeout=300):
    """cases: list of (input_term, output_val_term) strings.  Evaluates `func` on every input
    inside Coq and returns (sorted global indices where model and recorded output differ,
    dict of extra 'NAME = value' integers printed by `extra`, seconds)."""
    d = os.path.join(BUILD, "cases", f"{name}_{os.getpid()}")      # per process: concurrent runs do not collide
    shutil.rmtree(d, ignore_errors=True)
    os.makedirs(d)
    shards = [cases[i:i + shard] for i in range(0, len(cases), shard)] or [[]]
    files = []
    for i, sh in enumerate(shards):
        body = ";\n".join(f"  ({a}, {b})" for a, b in sh)
        fn = os.path.join(d, f"cases_{i}.v")
        open(fn, "w").write(_HDR.format(imports=imports, prelude=prelude, ty=ty, body=body,
                                        func=func, extra=extra))
        files.append(fn)
    t0 = time.time()

    def one(fn):
        r = subprocess.run(["timeout", str(timeout), "coqc", "-noglob"] + QFLAGS + [fn], cwd=COQ,
                           stdout=subprocess.PIPE, stderr=subprocess.STDOUT, text=True)
        return fn, r.returncode, r.stdout

    bad, extras = [], {}
    with ThreadPoolExecutor(max_workers=JOBS) as ex:
        for i, (fn, rc, out) in enumerate(ex.map(one, files)):
            if rc != 0:
                raise BuildError(f"cases file does not evaluate: {fn}", out[-4000:])
            m = re.search(r"res\s*=\s*(\[[^\]]*\])\s*:\s*list nat", out, re.S)
            if not m:
                raise BuildError(f"cannot find result in output of {fn}", out[-4000:])
            idxs = [int(x) for x in re.findall(r"\d+", m.group(1))]
            bad += [i * shard + j for j in idxs]
            for k, v in re.findall(r"(\w+)\s*=\s*(\d+)(?:%nat)?\s*:\s*nat", out):
                extras[k] = extras.get(k, 0) + int(v)
    if not os.environ.get("VERIF_KEEP_CASES"):
        shutil.rmtree(d, ignore_errors=True)
    return sorted(bad), extras, time.time() - t0


def eval_terms(name, imports, terms, prelude="", timeout=600):
    """Evaluate each Coq term (of type val or anything printable on one line) with vm_compute and
    return the printed results as strings, in order."""
    d = os.path.join(BUILD, "cases", f"{name}_{os.getpid()}")
    shutil.rmtree(d, ignore_errors=True)
    os.makedirs(d)
    fn = os.path.join(d, "eval.v")
    lines = ["From Coq Require Import ZArith QArith List String Bool.", "Import ListNotations.",
             "From AiuModel Require Import Base.", imports, "Set Printing Width 1000000.",
             "Set Printing Depth 1000000.", prelude]
    for i, t in enumerate(terms):
        lines.append(f"Definition r{i} := Eval vm_compute in ({t}).")
        lines.append(f"Print r{i}.")
    open(fn, "w").write("\n".join(lines) + "\n")
    r = subprocess.run(["timeout", str(timeout), "coqc"] + QFLAGS + [fn], cwd=COQ,
                       stdout=subprocess.PIPE, stderr=subprocess.STDOUT, text=True)
    if r.returncode != 0:
        raise BuildError(f"eval file does not evaluate: {fn}", r.stdout[-4000:])
    res = []
    for i in range(len(terms)):
        m = re.search(rf"r{i}\s*=\s*(.*?)\n\s*:\s", r.stdout, re.S)
        res.append(m.group(1).strip() if m else None)
    return res
