"""Chain all-reduce scenarios with ground truth (DESIGN Appendix A, "chain all-reduce groups").

Reusable by every end-to-end check that needs collectives (C01, C02, C07, C09, C14, C20).  Event names and attributes
are modelled on /repo/tests/test_data/allreduce_tp4.json; a FLEX file is ONE rank, so a scenario has one file per rank.

Exact grid (DESIGN 2.2): the SoC frequency f is a power of two (256..2048 MHz); every host time is H_r + c/f with an
integer cycle count c and an integer host base H_r, i.e. a multiple of 2^-11 us below 2^43; device counters TS1..TS5 are
the true 64-bit cycle counts modulo 2^32, consistent with the host times (DmaI = TS1..TS2, DmaO = TS4..TS5).

One chain all-reduce group over N ranks (name G = "AllReduce_all_reduce_<k>"):
  rank i (0 <= i < N-1)  SingleCast send to rank i+1       "SenRdmaSend_<n> [sync=G_s<i>_r<i+1>_<2i>] DmaO"   Peer=i+1
  rank i+1               receive of it                     "SenRdmaReceive_<n> [<B>B] [sync=...] DmaI"  Peer=i, WDone Barrier
  rank i+1               reduce kernel (optional)          "G_Add_<2i+1> Cmpt Prep" / "... Cmpt Exec"  (CollGroup only)
  rank N-1               Set BCList  Peers="0,..,N-2"      "SenRdmaSend_<n> - Set BcList [sync=G_s<N-1>_r0x<mask>_<2N-2>] DmaO"
  rank N-1               N-1 x "MultiCast XSEG" Peer=j     "SenRdmaSend_<n> - Xseg to rank <j> [sync=...] DmaO"
  rank N-1               data multicast (Type MultiCast)   "SenRdmaSend_<n> Data [sync=...] DmaO"   (no Peer)
  rank j (0 <= j < N-1)  receive of the multicast          "SenRdmaReceive_<n> [<B>B] [sync=...] DmaI"  Peer=N-1, WDone Barrier
Every lane (pid, tid) stays laminar as long as at most `max_in_flight` groups overlap in time (the DmaI lane of a rank then
holds at most that many partially overlapping receives, which the tool's overlap stage moves to spare lanes).

Ground truth (never read by the tool): `CollScenario.coll["groups"]`, one dict per group:
  name, ranks (participating pids, chain order), complete (bool), removed (uids cut from an incomplete trailing group),
  sends   [{uid, rank, peer, sync, kind: single|xseg, start, end, recv_uid | None}],
  recvs   [{uid, rank, peer, sync, start, end, send_uids}],
  helpers [{uid, rank, kind: bclist|mcast_data|reduce_prep|reduce_exec, sync | None, start, end}]
and `CollScenario.truth` (uid -> slice facts, same shape as scenario.Scenario.truth).

Every random choice derives from the rng handed in.
"""
import json
import os
from fractions import Fraction

from . import scenario as _sc

W = 1 << 32
TID_PREP, TID_EXEC, TID_DMAO, TID_DMAI = _sc.TID_PREP, _sc.TID_EXEC, _sc.TID_DMAO, _sc.TID_DMAI


class CollScenario(_sc.Scenario):
    def __init__(self):
        super().__init__()
        self.coll = {"groups": []}
        self.hbase = {}          # rank -> (H_r, c0_r): host time = H_r + (true counter)/f

    def summary(self):
        s = super().summary()
        g = self.coll["groups"]
        s.update({"groups": len(g), "complete_groups": sum(1 for x in g if x["complete"]),
                  "sends": sum(len(x["sends"]) for x in g)})
        return s


def _grid_ok(x):
    f = Fraction(x)
    assert 2048 % f.denominator == 0 and abs(f) < (1 << 43), x
    return x


class _Builder:
    """collects slices of all ranks on a common true time line measured in cycles since a global origin"""

    def __init__(self, rng, sc, ranks, hexfmt):
        self.rng, self.sc, self.hexfmt = rng, sc, hexfmt
        self.f = int(sc.freq)
        self.ev = {r: [] for r in ranks}           # rank -> [(start_cyc, end_cyc, seq, event dict without ph/dur)]
        self.uid = 0
        self.seq = 0
        self.serial = {r: rng.randrange(80000, 90000) for r in ranks}
        self.charge = {r: rng.randrange(1 << 20, 1 << 31) for r in ranks}
        self.exec_starts = {r: set() for r in ranks}

    def host(self, r, cyc):
        H, c0 = self.sc.hbase[r]
        return _grid_ok(H + (c0 + cyc) / self.f)

    def _num(self, v):
        return hex(v) if self.hexfmt and self.rng.random() < 0.3 else str(v)

    def slice(self, r, name, tid, a, b, phase, extra, kind, uid_prefix="c"):
        """device slice on rank r covering true cycles [a, b) (relative to the global origin); phase = DmaI|DmaO|Prep|Exec"""
        assert b > a
        self.uid += 1
        self.seq += 1
        u = f"{uid_prefix}{self.uid}"
        H, c0 = self.sc.hbase[r]
        A, B = c0 + a, c0 + b
        if phase == "DmaI":
            ts = [A, B, B + 6, B + 6, B + 9]
        elif phase == "DmaO":
            lead = self.rng.randrange(1, 2000)
            ts = [max(0, A - lead - 17), max(0, A - lead - 17), A, A, B]
        elif phase == "Prep":
            ts = [max(0, A - 3), A, B, B + self.rng.randrange(1, 500), B + self.rng.randrange(500, 520)]
        else:  # Exec
            ts = [max(0, A - 40), max(0, A - 20), A, B, B + 6]
        self.charge[r] = (self.charge[r] + self.rng.randrange(1, 4000) * (b - a) // 64 + 1) % W
        attr = {"TS" + str(i + 1): self._num(ts[i] % W) for i in range(5)}
        attr["Power"] = self._num(self.charge[r])
        attr.update(extra)
        attr["uid"] = u
        t0, t1 = self.host(r, a), self.host(r, b)
        e = {"name": name, "pid": r, "tid": tid, "ts": t0, "attr": attr}
        self.sc.truth[u] = {"rank": r, "kind": kind, "name": name, "true_ts": ts, "start": t0, "end": t1, "device": True,
                            "job": 0, "user_keys": [], "charge": self.charge[r], "tid": tid, "coll": True}
        self.ev[r].append((a, b, self.seq, e))
        return u, t0, t1


def _chain_group(bld, rng, gi, name, ranks, t0, nbytes, reduce_kernels, touching):
    """emit one complete chain all-reduce over `ranks` (list of pids in chain order) starting at true cycle t0.
    Returns (group truth dict, end cycle)."""
    N = len(ranks)
    g = {"name": name, "ranks": list(ranks), "complete": True, "removed": [], "sends": [], "recvs": [], "helpers": [],
         "index": gi}
    by_sync_recv = {}

    def gap(lo=1, hi=400):
        return 0 if touching and rng.random() < 0.3 else rng.randrange(lo, hi)

    def dur(lo=3, hi=6000):
        # >= 3 cycles at 2048 MHz is > 1 ns: the tool puts the arrow head 1 ns before the end of the receive
        return rng.choice([rng.randrange(lo, 40), rng.randrange(40, hi)])

    bytes_s = str(nbytes)
    ready = t0                       # when the data of the previous hop has arrived at rank i
    recv_post = {r: t0 + rng.randrange(0, 30) for r in ranks}   # start of the next posted receive per rank (DmaI lane)
    mask = hex((1 << (N - 1)) - 1)
    sync_m = f"{name}_s{ranks[-1]}_r{mask}_{2 * (N - 1)}"
    for i in range(N - 1):
        src, dst = ranks[i], ranks[i + 1]
        sync = f"{name}_s{src}_r{dst}_{2 * i}"
        sa = ready + gap()
        sb = sa + dur()
        bld.serial[src] += 1
        su, s0, s1 = bld.slice(src, f"SenRdmaSend_{bld.serial[src]} [sync={sync}] DmaO", TID_DMAO, sa, sb, "DmaO",
                               {"Bytes": bytes_s, "CollGroup": name, "Peer": str(dst), "Type": "SingleCast"}, "coll_send")
        ra = recv_post[dst]
        rb = max(sb, ra + 1) + rng.randrange(1, 60)
        bld.serial[dst] += 1
        ru, r0, r1 = bld.slice(dst, f"SenRdmaReceive_{bld.serial[dst]} [{bytes_s}B] [sync={sync}] DmaI", TID_DMAI, ra, rb,
                               "DmaI", {"Bytes": bytes_s, "CollGroup": name, "Peer": str(src), "Type": "WDone Barrier"},
                               "coll_recv")
        g["sends"].append({"uid": su, "rank": src, "peer": dst, "sync": sync, "kind": "single", "start": s0, "end": s1,
                           "recv_uid": ru})
        g["recvs"].append({"uid": ru, "rank": dst, "peer": src, "sync": sync, "start": r0, "end": r1, "send_uids": [su]})
        recv_post[dst] = rb + gap(1, 30)
        ready = rb
        if reduce_kernels:
            pb = rb + rng.randrange(1, 40)
            pa = min(ra + rng.randrange(1, 20), pb - 1)
            while pb in bld.exec_starts[dst]:     # two Cmpt Exec slices of one rank never start at the same time: the tool's
                pb += 1                           # frequency statistics divide by the start-time gap (normalize.py)
            bld.exec_starts[dst].add(pb)
            xb = pb + dur(3, 800)
            pu, p0, p1 = bld.slice(dst, f"{name}_Add_{2 * i + 1} Cmpt Prep", TID_PREP, pa, pb, "Prep", {"CollGroup": name},
                                   "Cmpt Prep")
            xu, x0, x1 = bld.slice(dst, f"{name}_Add_{2 * i + 1} Cmpt Exec", TID_EXEC, pb, xb, "Exec", {"CollGroup": name},
                                   "Cmpt Exec")
            g["helpers"].append({"uid": pu, "rank": dst, "kind": "reduce_prep", "sync": None, "start": p0, "end": p1})
            g["helpers"].append({"uid": xu, "rank": dst, "kind": "reduce_exec", "sync": None, "start": x0, "end": x1})
    # broadcast from the last rank: sequential on its DmaO lane (laminar for every N)
    last = ranks[-1]
    t = ready + gap()
    bld.serial[last] += 1
    n = bld.serial[last]
    b = t + dur(3, 200)
    bu, b0, b1 = bld.slice(last, f"SenRdmaSend_{n} - Set BcList [sync={sync_m}] DmaO", TID_DMAO, t, b, "DmaO",
                           {"CollGroup": name, "Peers": ",".join(str(r) for r in ranks[:-1]), "Type": "Set BCList"},
                           "coll_bclist")
    g["helpers"].append({"uid": bu, "rank": last, "kind": "bclist", "sync": sync_m, "start": b0, "end": b1})
    t = b + gap(0, 20) if touching else b + gap(1, 20)
    xsegs = []
    for j in range(N - 1):
        b = t + dur(3, 200)
        xu, x0, x1 = bld.slice(last, f"SenRdmaSend_{n} - Xseg to rank {ranks[j]} [sync={sync_m}] DmaO", TID_DMAO, t, b,
                               "DmaO", {"CollGroup": name, "Peer": str(ranks[j]), "Type": "MultiCast XSEG"}, "coll_send")
        xsegs.append({"uid": xu, "rank": last, "peer": ranks[j], "sync": sync_m, "kind": "xseg", "start": x0, "end": x1,
                      "recv_uid": None})
        t = b + gap(0, 20)
    da = t
    db = da + dur()
    du, d0, d1 = bld.slice(last, f"SenRdmaSend_{n} Data [sync={sync_m}] DmaO", TID_DMAO, da, db, "DmaO",
                           {"Bytes": bytes_s, "CollGroup": name, "Type": "MultiCast"}, "coll_mcast")
    g["helpers"].append({"uid": du, "rank": last, "kind": "mcast_data", "sync": sync_m, "start": d0, "end": d1})
    end = db
    for j in range(N - 1):
        dst = ranks[j]
        ra = recv_post[dst]
        rb = max(db, ra + 1) + rng.randrange(1, 80)
        bld.serial[dst] += 1
        ru, r0, r1 = bld.slice(dst, f"SenRdmaReceive_{bld.serial[dst]} [{bytes_s}B] [sync={sync_m}] DmaI", TID_DMAI, ra, rb,
                               "DmaI", {"Bytes": bytes_s, "CollGroup": name, "Peer": str(last), "Type": "WDone Barrier"},
                               "coll_recv")
        xsegs[j]["recv_uid"] = ru
        g["recvs"].append({"uid": ru, "rank": dst, "peer": last, "sync": sync_m, "start": r0, "end": r1,
                           "send_uids": [xsegs[j]["uid"]]})
        end = max(end, rb)
    g["sends"] += xsegs
    g["start_cyc"], g["end_cyc"] = t0, end
    return g, end


def _finish(bld, sc, rng, be_ratio, metadata, pre_existing=None):
    """turn the collected slices into file event lists (time order per file, X or adjacent B/E)"""
    for r, evs in bld.ev.items():
        fn = f"rank{r}_job0.json"
        out = list((pre_existing or {}).get(fn, []))
        if not out and metadata and rng.random() < 0.5:
            out.append({"ph": "M", "name": "process_name", "pid": r, "ts": 0, "args": {"name": f"rank{r}"}})
        for (a, b, _, e) in sorted(evs, key=lambda x: (x[0], x[2])):
            t0, t1 = bld.host(r, a), bld.host(r, b)
            if rng.random() < be_ratio:
                eb = dict(e, ph="B")
                ee = {"name": e["name"], "ph": "E", "pid": e["pid"], "tid": e["tid"], "ts": t1, "attr": dict(e["attr"])}
                out += [eb, ee]
            else:
                out.append(dict(e, ph="X", dur=_grid_ok(t1 - t0)))
        sc.files[fn] = out


def _cut_group(g, sc, bld, rng, mode):
    """make group g incomplete by removing slices (an aborted / truncated trailing collective).  Returns removed uids."""
    every = [(s["uid"], s["end"]) for s in g["sends"]] + [(r["uid"], r["end"]) for r in g["recvs"]] + \
            [(h["uid"], h["end"]) for h in g["helpers"] if h["sync"]]
    if mode == "tail":      # everything that ends after a cut time is missing (trace stopped)
        ends = sorted(e for _, e in every)
        cut = ends[rng.randrange(0, len(ends) - 1)] if len(ends) > 1 else ends[0]
        removed = {u for u, e in every if e > cut}
        removed |= {h["uid"] for h in g["helpers"] if not h["sync"] and h["end"] > cut}
    else:                   # one arbitrary slice with a sync tag is missing
        removed = {rng.choice(every)[0]}
    for r in bld.ev:
        bld.ev[r] = [x for x in bld.ev[r] if x[3]["attr"]["uid"] not in removed]
    for u in removed:
        sc.truth.pop(u, None)
    g["removed"] = sorted(removed)
    g["complete"] = False
    for s in g["sends"]:
        if s["recv_uid"] in removed:
            s["recv_uid"] = None
    g["sends"] = [s for s in g["sends"] if s["uid"] not in removed]
    for r in g["recvs"]:
        r["send_uids"] = [u for u in r["send_uids"] if u not in removed]
    g["recvs"] = [r for r in g["recvs"] if r["uid"] not in removed]
    g["helpers"] = [h for h in g["helpers"] if h["uid"] not in removed]
    return removed


def _emit_groups(bld, sc, rng, ranks, groups, interleave, incomplete_tail, start_cyc, reduce_kernels, touching,
                 max_in_flight, subsets, long_gap, name_offset=0):
    t = start_cyc
    ends = []
    for gi in range(groups):
        rk = list(ranks)
        if subsets and len(ranks) > 2 and rng.random() < 0.3:
            k = rng.randrange(2, len(ranks) + 1)
            lo = rng.randrange(0, len(ranks) - k + 1)
            rk = rk[lo:lo + k]
        name = f"AllReduce_all_reduce_{name_offset + 4 + 3 * gi}"
        g, end = _chain_group(bld, rng, gi, name, rk, t, rng.choice([4096, 65536, 524288]),
                              reduce_kernels and rng.random() < 0.7, touching)
        sc.coll["groups"].append(g)
        ends.append(end)
        if interleave and rng.random() < 0.6:
            # next group starts while this one is still running; never more than max_in_flight groups in flight
            floor = ends[-max_in_flight] if len(ends) >= max_in_flight else t
            t = max(floor + 1, t + rng.randrange(1, max(2, end - t)))
        else:
            t = end + rng.choice([rng.randrange(1, 500), rng.randrange(500, 100000)])
            if long_gap and rng.random() < 0.15:
                t += 30 * 1000 * 1000 * bld.f          # 30 s of silence: beyond the tool's 5 s / 4x stale-group rule
    if incomplete_tail and sc.coll["groups"]:
        g = sc.coll["groups"][-1]
        _cut_group(g, sc, bld, rng, incomplete_tail)
    return t


def gen_collective_scenario(rng, ranks=None, groups=None, interleave=True, incomplete_tail=None, freq=None,
                            be_ratio=0.4, hexfmt=True, metadata=True, reduce_kernels=True, touching=True,
                            max_in_flight=2, subsets=False, long_gap=False, wraps=False):
    """One multi-rank scenario made only of chain all-reduce groups.
    ranks: number of ranks (2..8; default random), groups: number of groups (default 1..5),
    interleave: groups may overlap in time (at most `max_in_flight` in flight),
    incomplete_tail: None | "tail" | "one" - the last group lacks slices (truncated trace / one missing slice),
    subsets: some groups run on a contiguous sub-chain of the ranks, long_gap: some groups are separated by 30 s,
    wraps: place the device counters so that a 2^32 wrap falls inside the trace.
    Returns CollScenario (files: name -> event list; coll: ground truth)."""
    sc = CollScenario()
    sc.freq = float(freq or rng.choice([256, 512, 1024, 1024, 2048]))
    f = int(sc.freq)
    R = ranks or rng.randrange(2, 9)
    sc.ranks = R
    groups = groups if groups is not None else rng.randrange(1, 6)
    hbase = rng.randrange(1 << 20, 1 << 33)          # one host clock for all ranks (host offsets are C07's subject)
    for r in range(R):
        if wraps and rng.random() < 0.5:
            c0 = W * rng.randrange(0, 3) + W - rng.randrange(1, 200000)
        else:
            c0 = rng.randrange(1 << 16, W // 2)
        c0 -= c0 % f                                   # keeps H_r an integer
        sc.hbase[r] = (hbase - c0 // f, c0)
    bld = _Builder(rng, sc, list(range(R)), hexfmt)
    _emit_groups(bld, sc, rng, list(range(R)), groups, interleave, incomplete_tail, rng.randrange(2100, 9000),
                 reduce_kernels, touching, max_in_flight, subsets, long_gap)
    _finish(bld, sc, rng, be_ratio, metadata)
    sc.meta.update({"interleave": interleave, "incomplete_tail": incomplete_tail, "subsets": subsets,
                    "long_gap": long_gap})
    return sc


def add_chain_allreduce(rng, sc, ranks=None, n_groups=2, interleave=True, incomplete_tail=None, be_ratio=0.4,
                        reduce_kernels=True, touching=True, max_in_flight=2, hexfmt=True):
    """Append chain all-reduce groups to a scenario made by scenario.gen_scenario (one job per rank), after its last
    slice.  gen_scenario gives every rank its own host time base, so the groups are placed on a common line that starts
    after the latest slice of all ranks; the device counter of rank r continues from its own epoch.
    Adds `sc.coll` (ground truth as above) and returns it."""
    f = int(sc.freq)
    R = ranks or sc.ranks
    assert 2 <= R <= sc.ranks
    if not hasattr(sc, "coll"):
        sc.coll = {"groups": []}
    sc.hbase = {}
    t_end = 0
    for r in range(R):
        dev = [t for t in sc.truth.values() if t["rank"] == r and t.get("device") and t.get("job", 0) == 0]
        t_end = max([t_end] + [t["end"] for t in sc.truth.values() if t["rank"] == r])
        if dev:
            t = dev[0]
            a = {"DmaI": 0, "Cmpt Prep": 1, "Cmpt Exec": 2, "DmaO": 3}.get(t["kind"], 0)
            H = Fraction(t["start"]) - Fraction(t["true_ts"][a], f)
            assert 2048 % H.denominator == 0
            sc.hbase[r] = [H, None]
        else:
            sc.hbase[r] = [Fraction(rng.randrange(1 << 10, 1 << 20)), None]
    origin = int(t_end) + 1 + rng.randrange(1, 50)       # common host time (integer us) of global cycle 0
    for r in range(R):
        H = sc.hbase[r][0]
        c0 = -((-(origin - H) * f) // 1)                 # ceil: rank clocks agree up to less than one cycle
        sc.hbase[r] = (float(H), int(c0))                # host(r, cyc) = H + (c0 + cyc)/f  in [origin, origin + 1/f) + cyc/f
    bld = _Builder(rng, sc, list(range(R)), hexfmt)
    bld.uid = 100000
    _emit_groups(bld, sc, rng, list(range(R)), n_groups, interleave, incomplete_tail, rng.randrange(2100, 9000),
                 reduce_kernels, touching, max_in_flight, False, False, name_offset=1000)
    _finish(bld, sc, rng, be_ratio, False, pre_existing=sc.files)
    return sc.coll


def write(sc, directory, as_object=False, dist_info=False):
    """writes one file per rank; returns the -i argument (comma list).
    dist_info: object form {"traceEvents": .., "distributedInfo": {"rank": r}} with the events carrying the OS pid of the
    process instead of the rank (the form a runtime writes: the rank of such a file is what distributedInfo says)"""
    os.makedirs(directory, exist_ok=True)
    names = []
    for fn, evs in sc.files.items():
        p = os.path.join(directory, fn)
        pids = {e.get("pid") for e in evs}
        with open(p, "w") as fh:
            if dist_info and len(pids) == 1 and isinstance(next(iter(pids)), int):
                rank = next(iter(pids))
                json.dump({"distributedInfo": {"rank": rank, "world_size": len(sc.files)},
                           "traceEvents": [dict(e, pid=41200 + 7 * rank) for e in evs]}, fh)
            else:
                json.dump({"traceEvents": evs} if as_object else evs, fh)
        names.append(p)
    return ",".join(names)


def all_ranks_contribute(sc):
    """True iff every rank file holds at least one slice of every CollGroup.  The tool's default multi-AIU alignment
    (mp_sync_tight_v1) exits 1 with "event/process that has no contribution to collective op" otherwise; scenarios with
    `subsets=True` or a tail cut that empties a rank must be run with --no_mp_sync (-M)."""
    names = {g["name"] for g in sc.coll["groups"]}
    for fn, evs in sc.files.items():
        have = {(e.get("attr") or e.get("args") or {}).get("CollGroup") for e in evs}
        if not names <= have:
            return False
    return True


def expected_pairs(sc):
    """ground truth of the arrows --flow must draw: for every COMPLETE group, one (send uid, recv uid, sync) per
    single-cast or multicast-segment send whose matching receive exists."""
    out = []
    for g in sc.coll["groups"]:
        if g["complete"]:
            out += [(s["uid"], s["recv_uid"], s["sync"]) for s in g["sends"] if s["recv_uid"]]
    return out


# ---------------------------------------------------------------------------------------------------------------------
_HDMA = None


def host_dma_fragments():
    """step names of the Host-DMA / HCOLL / P2P protocol events, harvested from the CURRENT source
    (categorize.py::classify_flex, the string literals tested inside its collective branch)"""
    global _HDMA
    if _HDMA is not None:
        return _HDMA
    import ast
    repo = os.environ.get("AIU_REPO", "/repo")
    out = []
    try:
        t = ast.parse(open(os.path.join(repo, "src/aiu_trace_analyzer/pipeline/categorize.py")).read())
        for f in ast.walk(t):
            if isinstance(f, ast.FunctionDef) and f.name in ("classify_flex", "_classify_host_dma_event", "_classify_p2p_rdma_event"):
                for n in ast.walk(f):
                    if isinstance(n, ast.Compare) and isinstance(n.ops[0], ast.In) and isinstance(n.left, ast.Constant) \
                            and isinstance(n.left.value, str):
                        x = n.left.value
                        if any(k in x for k in ("Wait", "Send", "R5", "BcList", "Xseg", "DLM", "Wdone", "HCOLL Signal", "Notice")):
                            out.append(x)
    except Exception:  # noqa: BLE001
        out = []
    _HDMA = sorted(set(out)) or ["Wait for ACK"]
    return _HDMA


def add_host_dma(rng, sc, per_rank=None):
    """Append Host-DMA style protocol slices (device events carrying CollGroup, named after the step names the two event
    classifiers know) to every rank of a scenario that already went through add_chain_allreduce (needs sc.hbase).
    They form their own collective group, to which every rank contributes; clock alignment ignores it as long as an
    AllReduce group exists.  Ground truth goes to sc.truth like any other device slice."""
    f = int(sc.freq)
    frags = host_dma_fragments()
    uid = 200000
    for r, (H, _c0) in sorted(sc.hbase.items()):
        last = max([t["true_ts"][4] for t in sc.truth.values() if t["rank"] == r and t.get("true_ts")] or [0])
        c = last + 20000 + rng.randrange(0, 4096)
        fn = [k for k in sc.files if k.startswith(f"rank{r}_")][0]
        for _ in range(per_rank or rng.randrange(1, 4)):
            gaps = [rng.randrange(1, 400), rng.randrange(1, 400), rng.randrange(1, 400), rng.randrange(1, 400)]
            ts = [c]
            for g in gaps:
                ts.append(ts[-1] + g)
            kw, a, b, tid = rng.choice([("DmaI", 0, 1, TID_DMAI), ("DmaO", 3, 4, TID_DMAO)])
            uid += 1
            u = f"h{uid}"
            nm = f"{rng.choice(['Host DMA ', 'HCOLL ', ''])}{rng.choice(frags)} {kw}"
            attr = {"TS" + str(i + 1): str(ts[i] % W) for i in range(5)}
            attr.update({"Power": str(rng.randrange(1 << 20, 1 << 30)), "uid": u, "CollGroup": "HostDmaProtocol_7"})
            t0, t1 = H + ts[a] / f, H + ts[b] / f
            sc.files[fn].append({"name": nm, "ph": "X", "pid": r, "tid": tid, "ts": _grid_ok(t0), "dur": _grid_ok(t1 - t0),
                                 "attr": attr})
            sc.truth[u] = {"rank": r, "kind": "host_dma", "name": nm, "true_ts": list(ts), "start": t0, "end": t1,
                           "device": True, "job": 0, "user_keys": [], "tid": tid, "coll": True}
            c = ts[4] + rng.randrange(100, 3000)
    return sc
