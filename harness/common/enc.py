"""Encoding of Python values as Coq terms (cases files).  Numbers always carry an explicit scope."""
from fractions import Fraction
import math


class Err:
    """error enum value (exception class name) -> Base.VE"""
    def __init__(self, tag):
        self.tag = tag

    def __repr__(self):
        return f"Err({self.tag})"

    def __eq__(self, o):
        return isinstance(o, Err) and o.tag == self.tag

    def __hash__(self):
        return hash(("Err", self.tag))


def Z(n) -> str:
    n = int(n)
    return f"({n})%Z"


def N(n) -> str:
    n = int(n)
    assert 0 <= n < 5000, "nat literals must stay small"
    return f"{n}%nat"


def frac(x) -> Fraction:
    if isinstance(x, Fraction):
        return x
    if isinstance(x, bool):
        raise TypeError("bool is not a number here")
    if isinstance(x, int):
        return Fraction(x)
    if isinstance(x, float):
        if not math.isfinite(x):
            raise ValueError("non-finite float")
        return Fraction(*x.as_integer_ratio())
    raise TypeError(type(x))


def Q(x) -> str:
    f = frac(x)
    return f"(({f.numerator})%Z # {f.denominator}%positive)"


def S(s: str) -> str:
    assert all(31 < ord(c) < 127 for c in s), f"non printable/ascii in {s!r}"
    return '"' + s.replace('"', '""') + '"%string'


def B(b) -> str:
    return "true" if b else "false"


def L(items) -> str:
    return "[" + "; ".join(items) + "]"


def P(*items) -> str:
    return "(" + ", ".join(items) + ")"


def O(x, f=None) -> str:
    if x is None:
        return "None"
    return f"(Some {f(x) if f else x})"


def V(x) -> str:
    """Python value -> Base.val term."""
    if isinstance(x, Err):
        return f"(VE {S(x.tag)})"
    if x is None:
        return "VN"
    if isinstance(x, bool):
        return f"(VB {B(x)})"
    if isinstance(x, int):
        return f"(VZ {Z(x)})"
    if isinstance(x, (float, Fraction)):
        return f"(VQ {Q(x)})"
    if isinstance(x, str):
        return f"(VS {S(x)})"
    if isinstance(x, (list, tuple)):
        return f"(VL {L([V(i) for i in x])})"
    raise TypeError(f"cannot encode {type(x)}: {x!r}")
