"""Shared generator of well-formed FLEX scenarios with ground truth (DESIGN Appendix A).

A scenario = R rank files (one JSON file per rank and job; a FLEX file is ONE rank), each a list of X events
or adjacent B/E pairs.  Everything is on the exact grid of DESIGN 2.2: SoC frequency a power of two (MHz),
all host times multiples of 2^-10 us below 2^43, so that every float operation of the tool is exact.

Ground truth kept beside the events (never read by the tool): per slice uid -> rank, lane, kind, true 64-bit
counters, true [start, end) in host time, user keys; per rank the charge/time series.

Every random choice derives from the rng handed in.
"""
import json
import os
from fractions import Fraction

TID_PREP, TID_EXEC, TID_DMAO, TID_DMAI, TID_OTHER = (15514734831341844875, 2009867741857745393,
                                                      3789868786995959152, 14212308887215440790, 7777000111222333444)
GLOBAL_NAMES = ["Execute graph 7", "AIU Roundtrip", "Flex RoundTrip", "PostKeys", "FetchKeys", "HostPrep x",
                "Update CBs"]
KERNELS = ["add_11", "convolution_1", "convolution_2", "relu_3", "addmm_MatMul", "mean", "bmm-BMM_1", "add",
           "max_pool2d_with_indices", "convolution"]
W = 1 << 32

_POOL = None


def host_name_pool():
    """host-side event names the classifiers know about, harvested from the CURRENT source: plain entries of the FLEX
    dialect table (types.py) and the name fragments tested by the reference classifier (categorize.py::classify_flex)
    outside its collective branch"""
    global _POOL
    if _POOL is not None:
        return _POOL
    import ast
    repo = os.environ.get("AIU_REPO", "/repo")
    pool = []
    try:
        t = ast.parse(open(os.path.join(repo, "src/aiu_trace_analyzer/types.py")).read())
        for n in ast.walk(t):
            if isinstance(n, ast.Assign) and getattr(n.targets[0], "id", "") == "_FLEX_DIALECT" and isinstance(n.value, ast.Dict):
                for k, v in zip(n.value.keys, n.value.values):
                    if isinstance(v, ast.Constant) and isinstance(v.value, str) and k.value != "NAME":
                        x = v.value
                        if x != "-" and not x.startswith(("is.", "has.")) and x not in ("kernel", "cuda_runtime"):
                            pool.append(x.replace("$NodeName", "node7"))
        t = ast.parse(open(os.path.join(repo, "src/aiu_trace_analyzer/pipeline/categorize.py")).read())
        for f in ast.walk(t):
            if isinstance(f, ast.FunctionDef) and f.name == "classify_flex":
                for n in ast.walk(f):
                    if isinstance(n, ast.Compare) and isinstance(n.ops[0], (ast.In, ast.NotIn)) and isinstance(n.left, ast.Constant) \
                            and isinstance(n.left.value, str):
                        x = n.left.value
                        # fragments that the dialect table matches EXACTLY (plain entries) are used verbatim only:
                        # the dialect classifier compares them with ==, the reference classifier with `in`, and the
                        # tool asserts that both agree - a suffixed name is outside the well-formed domain
                        if not any(k in x for k in ("Cmpt", "Dma", "DMA", "HCOLL", "Wait", "Send", "R5", "BcList", "Xseg", "DLM")) \
                                and x not in pool:
                            pool.append(x + " 3")
    except Exception:  # noqa: BLE001
        pool = []
    _POOL = sorted(set(pool)) or ["Execute Graph"]
    return _POOL


class Scenario:
    def __init__(self):
        self.freq = 1024.0
        self.files = {}        # file name -> list of event dicts (in file order)
        self.truth = {}        # uid -> dict
        self.ranks = 0
        self.meta = {}
        self.power = {}        # rank -> list of (host time of TS4, charge reading) of non-Prep device slices

    def summary(self):
        kinds = {}
        for t in self.truth.values():
            kinds[t["kind"]] = kinds.get(t["kind"], 0) + 1
        return {"ranks": self.ranks, "files": len(self.files), "slices": len(self.truth), "kinds": kinds,
                "wraps": self.meta.get("wraps", 0), "freq": self.freq}


def _q(x):
    """float on the 2^-10 grid -> exact; assert"""
    f = Fraction(x)
    assert 2048 % f.denominator == 0, x
    return x


def gen_scenario(rng, ranks=None, kernels=None, host=None, wraps=True, be_ratio=0.5, hexfmt=True, jobs_per_rank=1,
                 metadata=True, globals_=True, overlap_depth=2, freq=None, zero_dur=True, user_keys=True,
                 per_rank_tids=None):
    """Generate one well-formed scenario.  Returns Scenario.
    per_rank_tids: thread ids are those of the rank's own process (distinct across ranks, as OS thread ids are) instead
    of the same small set of numbers in every rank file; None = decided at random (30 %)."""
    s = Scenario()
    s.freq = float(freq or rng.choice([256, 512, 1024, 1024, 2048]))
    f = int(s.freq)
    R = ranks or rng.choice([1, 1, 2, 3, 4])
    s.ranks = R
    uid = [0]
    nwraps = 0
    for r in range(R):
        for job in range(jobs_per_rank):
            evs = []
            # host clock: this rank's host time base; device counter: true 64-bit value at tbase
            tbase = rng.randrange(1 << 20, 1 << 34) + rng.randrange(1024) / 1024.0
            if wraps and rng.random() < 0.6:
                # place the counter so that a 2^32 wrap falls inside the trace
                c0 = W * rng.randrange(0, 3) + W - rng.randrange(1, 400000)
            else:
                c0 = rng.randrange(1000, W // 2)
            H = tbase - c0 / f if (c0 % f == 0) else None
            # keep H on the grid: force c0 to a multiple of f/… simply make c0 a multiple of f
            c0 -= c0 % f
            H = tbase - c0 // f
            charge = rng.randrange(1 << 20, 1 << 31)
            one_lane = rng.random() < 0.1
            nk = kernels if kernels is not None else rng.randrange(2, 9)
            c = c0 + rng.randrange(10, 2000)
            pow_series = []
            for k in range(nk):
                name = rng.choice(KERNELS)
                if k > 0 and rng.random() < 0.2:
                    gaps = list(prev_gaps)                 # twin: same phase lengths as the previous kernel (exact ties
                    name = rng.choice([n for n in KERNELS if n != prev_name])   # in totals, durations, statistics)
                else:
                    gaps = [rng.choice([0, rng.randrange(1, 400), rng.randrange(400, 60000)]) for _ in range(4)]
                if gaps[1] == 0:
                    gaps[1] = rng.randrange(1, 5000)       # Prep phase non-empty
                if gaps[2] == 0:
                    gaps[2] = rng.randrange(1, 90000)      # Exec phase non-empty
                prev_gaps, prev_name = list(gaps), name
                ts = [c]
                for g in gaps:
                    ts.append(ts[-1] + g)
                if (ts[0] // W) != (ts[4] // W):
                    nwraps += 1
                charge = (charge + rng.randrange(1, 4000) * (ts[4] - ts[0]) // 64 + 1) % W
                phases = [("Cmpt Prep", 1, 2, TID_PREP), ("Cmpt Exec", 2, 3, TID_EXEC)]
                if gaps[0] > 0 and rng.random() < 0.5:
                    phases.insert(0, ("DmaI", 0, 1, TID_DMAI))
                if gaps[3] > 0 and rng.random() < 0.5:
                    phases.append(("DmaO", 3, 4, TID_DMAO))
                if rng.random() < 0.06:
                    # the same Exec interval logged on a second stream as well (two compute streams starting together):
                    # two Exec slices of one rank with the same host time
                    phases.append(("Cmpt Exec", 2, 3, TID_OTHER))
                if rng.random() < 0.12:
                    phases = [("", 0, 4, TID_OTHER)]       # "other" device event: whole TS1..TS5 span
                if one_lane:
                    # a device that logs all phases of a kernel on ONE stream (phases follow each other: no overlap)
                    phases = [(kw, a, b, (TID_EXEC if tid != TID_OTHER or kw == "" else tid)) for (kw, a, b, tid) in phases]
                for (kw, a, b, tid) in phases:
                    if ts[a] == ts[b]:
                        continue
                    uid[0] += 1
                    u = f"u{uid[0]}"
                    nm = f"{name} {kw}".strip() if kw else f"{name}-Other"
                    attr = {"TS" + str(i + 1): (hex(ts[i] % W) if hexfmt and rng.random() < 0.5 else str(ts[i] % W))
                            for i in range(5)}
                    attr["Power"] = hex(charge) if hexfmt and rng.random() < 0.5 else str(charge)
                    attr["uid"] = u
                    t0, t1 = H + ts[a] / f, H + ts[b] / f
                    e = {"name": nm, "pid": r, "tid": tid, "ts": _q(t0), "attr": attr}
                    ukeys = []
                    if user_keys and rng.random() < 0.3:
                        e["comment"] = f"user note {u}"
                        ukeys.append("comment")
                    if user_keys and rng.random() < 0.25:
                        # a device event may carry an args section of its own next to attr (both are merged)
                        e["args"] = {"unote": rng.randrange(100)}
                        ukeys.append("args.unote")
                    s.truth[u] = {"rank": r, "kind": kw or "other", "name": nm, "true_ts": list(ts), "start": t0,
                                  "end": t1, "device": True, "job": job, "user_keys": ukeys,
                                  "charge": charge, "tid": tid}
                    evs.append((t0, t1, e))
                    if kw != "Cmpt Prep":
                        pow_series.append((H + ts[3] / f, charge))
                c = ts[4] + rng.choice([0, rng.randrange(1, 300), rng.randrange(300, 200000)])
                if overlap_depth and rng.random() < 0.25:
                    c = max(ts[2] + 1, c - rng.randrange(0, max(1, ts[4] - ts[2])))   # pipelined: next kernel starts early
            s.power[r] = pow_series
            # host slices
            t_lo, t_hi = H + c0 / f, H + c / f + 50
            nh = host if host is not None else rng.randrange(0, 7)
            for k in range(nh):
                uid[0] += 1
                u = f"u{uid[0]}"
                a = t_lo + rng.randrange(0, int((t_hi - t_lo) * 1024) + 1) / 1024.0
                d = rng.choice([rng.randrange(1, 3000), rng.randrange(1, 200000)]) / 1024.0
                u_ = rng.random()
                if globals_ and u_ < 0.2:
                    nm = rng.choice(GLOBAL_NAMES)
                elif globals_ and u_ < 0.35:
                    nm = rng.choice(host_name_pool())
                else:
                    nm = f"HostFn_{rng.randrange(5)}"
                e = {"name": nm, "pid": r, "tid": rng.choice([11, 12, 13]), "ts": _q(a), "args": {"uid": u}}
                if user_keys and rng.random() < 0.4:
                    e["args"]["note"] = rng.randrange(100)
                if user_keys and rng.random() < 0.2:
                    e["mykey"] = "v" + u
                s.truth[u] = {"rank": r, "kind": "host", "name": nm, "start": a, "end": a + d, "device": False,
                              "job": job, "user_keys": [k for k in ("mykey",) if k in e] +
                              (["args.note"] if "note" in e["args"] else []), "tid": e["tid"]}
                evs.append((a, a + d, e))
            if overlap_depth and rng.random() < 0.3:
                depth = rng.choice([2, 3, 4, 5, 6, 6])
                # placed after everything else of the rank, so that its depth is exactly [depth] (the tool's limit is
                # five extra lanes per lane = six mutually overlapping slices)
                a0 = float(int(t_hi) + 512 + rng.randrange(0, 64))
                for i in range(depth):
                    uid[0] += 1
                    u = f"u{uid[0]}"
                    a, d = a0 + i * 0.5, 10.0
                    e = {"name": f"Stair_{i}", "pid": r, "tid": 12, "ts": _q(a), "args": {"uid": u}}
                    s.truth[u] = {"rank": r, "kind": "host", "name": e["name"], "start": a, "end": a + d, "device": False,
                                  "job": job, "user_keys": [], "tid": 12}
                    evs.append((a, a + d, e))
            if zero_dur and rng.random() < 0.3:     # documented removal rule: zero / negative duration
                uid[0] += 1
                u = f"u{uid[0]}"
                a = t_lo + rng.randrange(0, 1000) / 1024.0
                neg = rng.random() < 0.5
                e = {"name": "HostFn_z", "pid": r, "tid": 11, "ts": _q(a), "args": {"uid": u}}
                s.truth[u] = {"rank": r, "kind": "host", "name": "HostFn_z", "start": a, "end": a - (1 if neg else 0),
                              "device": False, "job": job, "user_keys": [], "tid": 11, "nonpositive": True}
                evs.append((a, a - (1.0 if neg else 0.0), e))
            # file order: by start time (a trace file is written in time order); ties keep generation order
            evs.sort(key=lambda x: x[0])
            out = []
            if metadata and rng.random() < 0.6:
                out.append({"ph": "M", "name": "process_name", "pid": r, "ts": 0, "args": {"name": f"rank{r}"}})
            for (a, b, e) in evs:
                if rng.random() < be_ratio:
                    eb = dict(e, ph="B")
                    ee = {"name": e["name"], "ph": "E", "pid": e["pid"], "tid": e["tid"], "ts": _q(b)}
                    if "attr" in e:
                        ee["attr"] = dict(e["attr"])
                    out += [eb, ee]
                else:
                    out.append(dict(e, ph="X", dur=_q(b - a)))
            s.files[f"rank{r}_job{job}.json"] = out
    s.meta["wraps"] = nwraps
    if per_rank_tids is None:
        per_rank_tids = rng.random() < 0.3
    if per_rank_tids:
        def own(rank, tid):
            return tid + 100003 * (rank + 1) if isinstance(tid, int) else tid
        for evs in s.files.values():
            for e in evs:
                if "tid" in e and isinstance(e.get("pid"), int):
                    e["tid"] = own(e["pid"], e["tid"])
        for t in s.truth.values():
            if "tid" in t:
                t["tid"] = own(t["rank"], t["tid"])
        s.meta["per_rank_tids"] = True
    return s


def colliding_path(first, directory, stem):
    """a path <directory>/<stem>_c<n>.json with the same 4-digit job id (crc32(path) % 10000) as `first`"""
    import zlib
    want = zlib.crc32(first.encode()) % 10000
    i = 0
    while True:
        p = os.path.join(directory, f"{stem}_c{i}.json")
        if p != first and zlib.crc32(p.encode()) % 10000 == want:
            return p
        i += 1


def write(s, directory, as_object=False, collide=False):
    """writes the files; returns the -i argument. collide: the second file gets a name whose job id equals the
    first file's (two different inputs of one run sharing a job id: 1e-4 per pair of paths in the field)"""
    os.makedirs(directory, exist_ok=True)
    names = []
    for k, (fn, evs) in enumerate(s.files.items()):
        p = os.path.join(directory, fn)
        if collide and k == 1:
            p = colliding_path(names[0], directory, fn[:-5])
        with open(p, "w") as fh:
            json.dump({"traceEvents": evs} if as_object else evs, fh)
        names.append(p)
    return ",".join(names)


def compiler_log(s, path, rng, allow_zero_total=False, force=None):
    """one ideal-cycle table covering the kernel names of the scenario (some zero, some unlisted).
    A table whose cycles are all zero makes the tool divide by zero (fingerprint similarity); it is produced only
    on request (C02/C11 treat that case explicitly)."""
    names = sorted({t["name"].rsplit(" Cmpt Exec", 1)[0] for t in s.truth.values() if t["kind"] == "Cmpt Exec"})
    cats = ["opCatConv_fp16", "opCatBroadcast", "opCatPooling", "opCatBmm_fp16", "opCatScalar"]
    lines = ["[DeepRT] ===== Perf BEGIN =====", "====== Perf Summary ======", "~~~~ Ideal/Total Cycles ~~~~",
             "-" * 91, "Name" + " " * 76 + "Ideal Cy.", "-" * 91]
    table, total = {}, 0
    if force == "empty":
        names = []
    for n in names:
        if rng.random() < 0.2 and force is None:
            continue
        cyc = 0 if (rng.random() < 0.25 or force == "all_zero") else rng.randrange(1, 200000)
        cat = rng.choice(cats)
        table[n] = (cyc, cat)
        total += cyc
        lines.append(f"{n}-{cat}".ljust(80) + f"{cyc}".ljust(15))
    if total == 0 and not allow_zero_total and force is None:
        n = names[0] if names else "add_11"
        table[n] = (4096, cats[0])
        total = 4096
        lines = [ln for ln in lines if not ln.startswith(f"{n}-")]
        lines.append(f"{n}-{cats[0]}".ljust(80) + "4096".ljust(15))
    lines += ["-" * 91, f"Total\t\t\t\t\t\t\t\t\t\t{total}", "-" * 91, "====== Perf Summary End ======",
              "[DeepRT] ===== Perf END ====="]
    if force == "no_table":          # a log file in which no ideal-cycle table is found at all
        lines = ["[DeepRT] compile started", "some unrelated line", "[DeepRT] compile finished"]
        table = {}
    if force == "autopilot_first":   # an autopilot section ahead of the (only) table
        lines = ["[DeepRT] ===== DSM-AutoPilot BEGIN =====", "[DeepRT] ===== DSM-AutoPilot END ====="] + lines
    open(path, "w").write("\n".join(lines) + "\n")
    return table
