#!/venv/bin/python
"""Single entry point:  check.py <Cxx> [--tier quick|thorough] [--replay <file>]

One run = regenerate coq/gen from /repo, (re)build the property's proofs, hygiene scan, capture
Print Assumptions, run the correspondence (model inside coqc vs implementation) and the
independent oracle on generated inputs, write evidence/<id>.json, and on any broken obligation
or tie search for a concrete failing input and print the VIOLATION line (see DESIGN.md 1.2).
"""
import argparse
import importlib
import json
import os
import random
import sys
import time
import traceback

HERE = os.path.dirname(os.path.abspath(__file__))
sys.path.insert(0, HERE)
os.environ.setdefault("PYTHONHASHSEED", "0")
REPO = os.environ.get("AIU_REPO", "/repo")
# always the working tree of /repo, never an installed copy
sys.path.insert(0, os.path.join(REPO, "src"))
os.environ["PYTHONPATH"] = os.path.join(REPO, "src")
os.environ["AIU_TRACE_ANALYZER_VERIF"] = "1"

from common import coqrun, report  # noqa: E402


class Ctx:
    def __init__(self, prop, tier, seed):
        self.prop = prop
        self.tier = tier
        self.seed = seed
        self.rng = random.Random(seed)
        self.work = os.path.join(coqrun.BUILD, "run", prop)
        os.makedirs(self.work, exist_ok=True)
        self.notes = []

    def quick(self):
        return self.tier == "quick"

    def pick(self, q, t):
        return q if self.tier == "quick" else t


def regen():
    """translators: /repo source -> coq/gen/*.v  (fail-closed)"""
    tdir = os.path.join(coqrun.VERIF, "tools")
    sys.path.insert(0, tdir)
    import translate_all
    return translate_all.main(REPO, os.path.join(coqrun.COQ, "gen"))


def main():
    ap = argparse.ArgumentParser()
    ap.add_argument("prop")
    ap.add_argument("--tier", default=os.environ.get("VERIF_TIER", "quick"), choices=["quick", "thorough"])
    ap.add_argument("--replay", default=None)
    a = ap.parse_args()
    prop = a.prop.upper()
    seed = int(os.environ.get("VERIF_SEED", "0"))
    mod = importlib.import_module(f"props.{prop.lower()}")
    ctx = Ctx(prop, a.tier, seed)

    if a.replay:
        payload = json.load(open(a.replay))
        ok, detail = mod.replay(ctx, payload)
        print(json.dumps({"property": prop, "replay": a.replay, "still_fails": not ok, "detail": detail},
                         indent=1, default=str))
        if not ok:
            print(f"VIOLATION property={prop} replay={a.replay}")
        return 0 if ok else 1

    # coq/gen and the compiled model are shared: runs against /repo may overlap each other, a run against any other
    # tree (seeded changes in scratch worktrees) must have the build directory to itself
    import fcntl
    os.makedirs(coqrun.BUILD, exist_ok=True)
    _lock = open(os.path.join(coqrun.BUILD, "tree.lock"), "w")
    fcntl.flock(_lock, fcntl.LOCK_SH if os.path.realpath(REPO) == "/repo" else fcntl.LOCK_EX)

    t0 = time.time()
    broken = []          # obligations / ties that no longer check
    assumptions_out = ""
    n_closed, axioms = 0, []
    obligations = discharged = 0
    vfiles = []

    # 1. regenerate the translated part of the model from the current source
    try:
        gen_info = regen()
    except Exception as e:  # translator refuses the source: broken tie
        gen_info = {"error": str(e)}
        broken.append({"kind": "translator", "name": "tools/translate_all.py",
                       "detail": "".join(traceback.format_exception_only(type(e), e))[-1500:]})

    # 2. proofs
    proof_ok = False
    try:
        coqrun.make([mod.PROP_FILE[:-2] + ".vo"], keep_going=True)
        assumptions_out = coqrun.compile_prop(mod.PROP_FILE)
        n_closed, axioms = coqrun.parse_assumptions(assumptions_out)
        vfiles = coqrun.deps_of(mod.PROP_FILE)
        obligations = coqrun.count_obligations(vfiles)
        discharged = obligations
        proof_ok = True
    except coqrun.BuildError as e:
        broken.append({"kind": "proof", "name": mod.PROP_FILE + " (" + e.what + ")", "detail": e.log[-3000:]})
        try:
            vfiles = coqrun.deps_of(mod.PROP_FILE)
            obligations = coqrun.count_obligations(vfiles)
        except Exception:
            pass
    # the executable model must be available to the tie even when a proof broke
    try:
        if getattr(mod, "MODEL_TARGETS", None):
            coqrun.make(list(mod.MODEL_TARGETS), keep_going=True)
    except coqrun.BuildError as e:
        broken.append({"kind": "tie", "name": "model files do not build (" + e.what + ")", "detail": e.log[-3000:]})
    hy = coqrun.hygiene(vfiles or None)
    if hy:
        broken.append({"kind": "hygiene", "name": "forbidden construct in the development", "detail": hy})
    allowed = set(getattr(mod, "ALLOWED_AXIOMS", []))
    extra_ax = [x for x in axioms if x not in allowed]
    if extra_ax:
        broken.append({"kind": "axioms", "name": "Print Assumptions lists axioms not named in the trusted base",
                       "detail": extra_ax})
    # thorough tier: the compiled property file and all it depends on re-checked by the independent checker
    coqchk_info = None
    if proof_ok and a.tier == "thorough" and not a.replay:
        ok_chk, chk_axioms, chk_tail = coqrun.coqchk_axioms(mod.PROP_FILE)
        coqchk_info = {"ran": True, "clean": bool(ok_chk), "axioms": chk_axioms}
        if not ok_chk or chk_axioms is None:
            broken.append({"kind": "proof", "name": "coqchk -o does not accept the compiled development", "detail": chk_tail})
        elif [x for x in chk_axioms if x.split(":")[0].strip() not in allowed]:
            broken.append({"kind": "axioms", "name": "coqchk -o lists axioms not named in the trusted base",
                           "detail": chk_axioms})
    n_thm = len(getattr(mod, "THEOREMS", []))
    if proof_ok and n_thm and (n_closed + (1 if axioms else 0)) < 1:
        broken.append({"kind": "proof", "name": "no Print Assumptions output under the property theorems",
                       "detail": assumptions_out[-1000:]})

    # 3. correspondence + oracle
    res = {"evaluations": 0, "distinct_nontrivial": 0, "rule": "", "samples": [], "mismatches": [],
           "oracle_failures": [], "ties": [], "distribution": {}}
    try:
        res.update(mod.run(ctx))
    except coqrun.BuildError as e:
        broken.append({"kind": "tie", "name": "model does not evaluate: " + e.what, "detail": e.log[-3000:]})
    except Exception as e:
        broken.append({"kind": "tie", "name": "harness error: " + repr(e)[:300],
                       "detail": traceback.format_exc()[-3000:]})
    for m in res["mismatches"]:
        broken.append({"kind": "tie", "name": m.get("name", "correspondence"), "detail": m})

    # 4. failing inputs: from the oracle of this run, else a dedicated search
    failing = list(res["oracle_failures"])
    if broken and not failing and hasattr(mod, "search"):
        try:
            failing = list(mod.search(ctx, res, broken))
        except Exception:
            ctx.notes.append("search crashed: " + traceback.format_exc()[-1500:])

    known = report.load_known(prop)
    violations = 0
    lines = []
    reported_known = set()
    unexplained = []
    for f in failing:
        k = report.matches_known(f.get("signature", {}), known)
        if k:
            if k["id"] not in reported_known:
                reported_known.add(k["id"])
                lines.append(f"KNOWN-FINDING: property={prop} {k['what']}")
        else:
            unexplained.append(f)
    if unexplained:
        f = unexplained[0]
        p = report.write_replay(prop, {"kind": "failing_input", "failing": f, "others": len(unexplained) - 1,
                                       "broken": [b["name"] for b in broken], "seed": seed, "tier": a.tier})
        lines.append(f"VIOLATION property={prop} replay={p}")
        violations = len(unexplained)
    elif broken:
        p = report.write_replay(prop, {"kind": "unproved", "broken": broken, "seed": seed, "tier": a.tier,
                                       "note": "no concrete failing input found by the oracle search; "
                                               "the named obligations/ties no longer check"})
        lines.append(f"VIOLATION property={prop} replay={p} no-failing-input-found")
        violations = 1

    # 5. evidence
    cov = {
        "obligations": max(obligations, 0), "discharged": discharged if proof_ok else 0,
        "checker_cmd": f"cd /verif/coq && make {mod.PROP_FILE[:-2]}.vo && coqc -Q theories AiuModel -Q gen AiuGen "
                       f"-Q props AiuProps {mod.PROP_FILE}   (full .vo build, Print Assumptions captured)",
        "trusted_base": report.TRUSTED_BASE_COMMON + list(getattr(mod, "TRUSTED", [])),
        "theorems": list(getattr(mod, "THEOREMS", [])),
        "print_assumptions": {"closed_under_global_context": n_closed, "axioms": axioms},
        "coqchk": coqchk_info or {"ran": False, "note": "coqchk -o runs in the thorough tier"},
        "proof_files": vfiles,
        "generated_from_source": gen_info,
        "evaluations": int(res["evaluations"]), "distinct_nontrivial": int(res["distinct_nontrivial"]),
        "rule": res["rule"], "samples": res["samples"][:6],
        "traces_validated_against_impl": int(res.get("traces_validated_against_impl", res["evaluations"])),
        "ties": res["ties"], "distribution": res["distribution"],
        "exhaustive": bool(res.get("exhaustive", False)),
        "broken": [{"kind": b["kind"], "name": b["name"]} for b in broken],
        "known_findings_reported": sorted(reported_known),
        "notes": ctx.notes + list(res.get("notes", [])),
    }
    if obligations == 0:
        cov["obligations"] = 1
        cov["discharged"] = 0
    report.write_evidence(prop, a.tier, seed, cov, time.time() - t0, violations,
                          list(getattr(mod, "ASSUMPTIONS", [])))
    for ln in lines:
        print(ln)
    print(f"[{prop}] tier={a.tier} seed={seed} obligations={obligations} proof_ok={proof_ok} "
          f"closed={n_closed} axioms={axioms} evaluations={res['evaluations']} "
          f"nontrivial={res['distinct_nontrivial']} broken={len(broken)} violations={violations} "
          f"wall={time.time() - t0:.1f}s")
    return 1 if violations else 0


if __name__ == "__main__":
    sys.exit(main())
