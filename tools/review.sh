#!/bin/sh
# usage: tools/review.sh C10 C19 ...   runs the quick check on /repo, validates the evidence file against the schema
cd /verif
for p in "$@"; do
  VERIF_JOBS=${VERIF_JOBS:-16} /venv/bin/python harness/check.py $p --tier quick 2>&1 | grep -v HINT | tail -2
  python3-vt - <<PY
import json, jsonschema
e = json.load(open('/verif/evidence/$p.json')); s = json.load(open('/root/.vp/EVIDENCE.schema.json'))
try:
    jsonschema.validate(e, s); print('$p evidence valid: obligations', e['coverage']['obligations'], 'discharged', e['coverage']['discharged'], 'eval', e['coverage']['evaluations'], 'nontrivial', e['coverage']['distinct_nontrivial'], 'wall', e['wall_s'])
except Exception as ex:
    print('$p EVIDENCE INVALID', str(ex)[:300])
PY
done
