#!/venv/bin/python
"""Write /verif/MANIFEST.json from harness/manifest_meta.py."""
import json
import os
import sys

HERE = os.path.dirname(os.path.abspath(__file__))
VERIF = os.path.dirname(HERE)
sys.path.insert(0, os.path.join(VERIF, "harness"))
import manifest_meta as mm  # noqa: E402

props = [json.loads(l)["id"] for l in open(os.path.join(VERIF, "properties.jsonl"))]
checks, na = [], []
import importlib  # noqa: E402
for p in props:
    c = None
    if p in mm.READY and os.path.exists(os.path.join(VERIF, "harness", "props", p.lower() + ".py")):
        c = getattr(importlib.import_module("props." + p.lower()), "MANIFEST", None)
    if c:
        checks.append({
            "property_id": p,
            "quick_cmd": f"/venv/bin/python harness/check.py {p} --tier quick",
            "thorough_cmd": f"/venv/bin/python harness/check.py {p} --tier thorough",
            "evidence_file": f"/verif/evidence/{p}.json",
            "replay_cmd_template": f"/venv/bin/python harness/check.py {p} --replay {{path}}",
            "engine": "coq-model+tie",
            "level_claimed": {"category": "proof", "text": c["text"], "design_ref": c["design_ref"]},
            "level_note": c["note"],
            "technique": c["technique"],
        })
    else:
        na.append({"property_id": p, "reason": getattr(mm, "NOT_APPLICABLE", {}).get(p, mm.PENDING_REASON)})
m = {
    "version": 1,
    "setup_cmd": "./setup.sh",
    "hooks": {
        "guard": "AIU_TRACE_ANALYZER_VERIF",
        "enable": "no source hooks: all observation is through public APIs, recording subclasses/wrappers in the "
                  "harness, -I snapshots and output files; checks set AIU_TRACE_ANALYZER_VERIF=1 only as a marker",
        "baseline_off_cmd": "cd /repo && /venv/bin/python -m pytest -ra -q -p no:cacheprovider --timeout=900 "
                            "--continue-on-collection-errors",
        "source_commits": [],
        "add_only": True,
    },
    "engines": [{
        "name": "coq-model+tie", "path": "/verif/harness/check.py",
        "serves_properties": [c["property_id"] for c in checks],
        "kind_free_text": "Coq 8.16.1 development (coq/theories, coq/props, coq/gen regenerated from /repo by "
                          "tools/translate_*.py) + correspondence harness evaluating the Gallina model with vm_compute "
                          "against the real implementation + Python oracles for failing-input search",
    }],
    "checks": checks,
    "not_applicable": na,
    "notes": "Technique family: machine-checked proof in Coq 8.16.1. See DESIGN.md. known_findings.json lists "
             "genuine defects (fixed ones as 'fixed:' entries).",
}
json.dump(m, open(os.path.join(VERIF, "MANIFEST.json"), "w"), indent=1)
print(f"MANIFEST.json: {len(checks)} checks, {len(na)} not claimed")
