#!/venv/bin/python
"""re-run the repo's own suite for every kept seeded change with PYTHONPATH pointing at the patched tree
(the package is an editable install of /repo, so a plain pytest in a worktree tests /repo's code)"""
import json, os, subprocess, sys, glob
for d in sorted(glob.glob("/verif/seeded/C*_*")):
    m = json.load(open(d + "/meta.json"))
    P = m["property"]
    wt = f"/tmp/seed_{P}/wt"
    if not os.path.isdir(wt):
        continue
    subprocess.run(f"git -C {wt} checkout -- . && git -C {wt} apply {d}/patch.diff", shell=True)
    r = subprocess.run(f"cd {wt} && PYTHONPATH={wt}/src /venv/bin/python -m pytest -q -p no:cacheprovider 2>&1 | tail -1", shell=True, capture_output=True, text=True)
    subprocess.run(f"git -C {wt} checkout -- .", shell=True)
    m["suite_with_patch"] = r.stdout.strip()
    m["suite_checked_with_pythonpath"] = True
    json.dump(m, open(d + "/meta.json", "w"), indent=1)
    print(d, r.stdout.strip())
