"""Translator: Acelyzer.register_processing_functions + profiles/*.json  ->  coq/gen/Registration.v, Profiles.v

Fail-closed: every statement shape of register_processing_functions that is not one of
  * process.register_stage(callback=event_pipe.<fn>[, context=<expr>][, kw=<expr>...])   (keywords only)
  * <name> = <expr>                      (simple local assignment; context constructors get a fresh object id)
  * if <test>: ... [else: ...]           (nested arbitrarily)
  * a bare string/constant expression    (docstring)
raises TranslationError.  Every register_stage call must name its callback as event_pipe.<fn>, <fn> must be
imported without alias in pipeline/__init__.py from a module that defines `def <fn>` without decorators (so
callback.__name__ == <fn>).  Tests of `if` statements become guard atoms (source text after substituting
uniquely-assigned pure locals, `not X` becomes GNot).  Must run under /venv/bin/python (3.12 syntax in the sources).
"""
import ast
import json
import os


class TranslationError(Exception):
    pass


def coq_str(s):
    if not all(31 < ord(c) < 127 for c in s):
        raise TranslationError(f"non-ascii in {s!r}")
    return '"' + s.replace('"', '""') + '"'


def _pipeline_exports(repo):
    """name -> module file for every `from aiu_trace_analyzer.pipeline.X import name` (no alias)"""
    p = os.path.join(repo, "src/aiu_trace_analyzer/pipeline/__init__.py")
    tree = ast.parse(open(p).read())
    out = {}
    for node in tree.body:
        if isinstance(node, ast.ImportFrom) and node.module and node.module.startswith("aiu_trace_analyzer.pipeline."):
            for a in node.names:
                if a.asname is not None:
                    out[a.asname] = None  # aliased: __name__ differs, refuse if used as callback
                else:
                    out[a.name] = os.path.join(repo, "src", node.module.replace(".", "/") + ".py")
    return out


_DEF_CACHE = {}


def _has_plain_def(path, name):
    if path not in _DEF_CACHE:
        tree = ast.parse(open(path).read())
        _DEF_CACHE[path] = {n.name: n for n in tree.body if isinstance(n, ast.FunctionDef)}
    d = _DEF_CACHE[path].get(name)
    return d is not None and not d.decorator_list


class _Subst(ast.NodeTransformer):
    def __init__(self, env):
        self.env = env

    def visit_Name(self, node):
        if node.id in self.env:
            return ast.parse(self.env[node.id], mode="eval").body
        return node


ANALYSIS = {}    # filled by translate(): atoms (source text) and registrations as Python data, for the harness


def coq_guard(g):
    if g[0] == "T":
        return "GTrue"
    if g[0] == "A":
        return f"(GAtom {g[1]})"
    if g[0] == "N":
        return f"(GNot {coq_guard(g[1])})"
    return f"(GAnd {coq_guard(g[1])} {coq_guard(g[2])})"


def py_guard(g, v):
    if g[0] == "T":
        return True
    if g[0] == "A":
        return bool(v[g[1]])
    if g[0] == "N":
        return not py_guard(g[1], v)
    return py_guard(g[1], v) and py_guard(g[2], v)


ALLOWED_FREE = {"args", "self", "event_pipe", "any", "len", "TS_CYCLE_KEY", "exporter", "process"}


def translate(repo):
    _DEF_CACHE.clear()
    src_path = os.path.join(repo, "src/aiu_trace_analyzer/core/acelyzer.py")
    tree = ast.parse(open(src_path).read())
    fn = None
    for node in ast.walk(tree):
        if isinstance(node, ast.FunctionDef) and node.name == "register_processing_functions":
            if fn is not None:
                raise TranslationError("two definitions of register_processing_functions")
            fn = node
    if fn is None:
        raise TranslationError("register_processing_functions not found")
    exports = _pipeline_exports(repo)

    # pass 1: locals assigned exactly once with an expression free of context constructors -> substitutable in tests
    assigns = {}
    for node in ast.walk(fn):
        if node is fn:
            continue
        if isinstance(node, (ast.AugAssign, ast.AnnAssign, ast.For, ast.While, ast.With, ast.Try, ast.Return,
                             ast.FunctionDef, ast.Lambda, ast.Delete, ast.Global, ast.Nonlocal, ast.Match)):
            raise TranslationError(f"unsupported statement {type(node).__name__} at line {node.lineno}")
        if isinstance(node, ast.Assign):
            if len(node.targets) != 1 or not isinstance(node.targets[0], ast.Name):
                raise TranslationError(f"unsupported assignment target at line {node.lineno}")
            assigns.setdefault(node.targets[0].id, []).append(node)
    pure = {}
    for name, nodes in assigns.items():
        if len(nodes) == 1 and "Context(" not in ast.unparse(nodes[0].value) and "EventLimiter" not in ast.unparse(nodes[0].value):
            pure[name] = ast.unparse(nodes[0].value)

    atoms = []          # source text of each atom

    def atom_of(test):
        t = _Subst(pure).visit(ast.parse(ast.unparse(test), mode="eval").body)
        ast.fix_missing_locations(t)
        txt = ast.unparse(t)
        for n in ast.walk(t):
            if isinstance(n, ast.Name) and n.id not in ALLOWED_FREE:
                raise TranslationError(f"guard refers to unknown local {n.id!r}: {txt}")
        if txt not in atoms:
            atoms.append(txt)
        return ("A", atoms.index(txt))

    def guard_of(test):
        if isinstance(test, ast.UnaryOp) and isinstance(test.op, ast.Not):
            return ("N", guard_of(test.operand))
        return atom_of(test)

    def conj(path):
        g = ("T",)
        for x in path:
            g = x if g == ("T",) else ("&", g, x)
        return g

    regs = []
    ctx_ids = {}         # variable -> (object id, ctor text)
    next_id = [2]        # 0 = None, 1 = event_pipe._main_barrier_context

    def ctx_of(expr):
        if expr is None or (isinstance(expr, ast.Constant) and expr.value is None):
            return 0, "None"
        txt = ast.unparse(expr)
        if txt == "event_pipe._main_barrier_context":
            return 1, txt
        if isinstance(expr, ast.Name):
            if expr.id not in ctx_ids:
                raise TranslationError(f"context variable {expr.id} used before assignment")
            return ctx_ids[expr.id]
        if isinstance(expr, ast.Call):
            i = next_id[0]
            next_id[0] += 1
            return i, txt
        raise TranslationError(f"unsupported context expression {txt}")

    def walk(stmts, path):
        for st in stmts:
            if isinstance(st, ast.Pass) or (isinstance(st, ast.Expr) and isinstance(st.value, ast.Constant)):
                continue
            if isinstance(st, ast.Assign):
                name = st.targets[0].id
                if isinstance(st.value, ast.Call) and "Context" in ast.unparse(st.value.func):
                    i = next_id[0]
                    next_id[0] += 1
                    ctx_ids[name] = (i, ast.unparse(st.value))
                continue
            if isinstance(st, ast.If):
                g = guard_of(st.test)
                walk(st.body, path + [g])
                if st.orelse:
                    walk(st.orelse, path + [("N", g)])
                continue
            if isinstance(st, ast.Expr) and isinstance(st.value, ast.Call):
                c = st.value
                if ast.unparse(c.func) != "process.register_stage":
                    raise TranslationError(f"unsupported call {ast.unparse(c.func)} at line {st.lineno}")
                if c.args:
                    raise TranslationError(f"positional arguments in register_stage at line {st.lineno}")
                kw = {k.arg: k.value for k in c.keywords}
                if None in kw or "callback" not in kw:
                    raise TranslationError(f"register_stage without callback= or with ** at line {st.lineno}")
                cb = kw.pop("callback")
                if not (isinstance(cb, ast.Attribute) and isinstance(cb.value, ast.Name) and cb.value.id == "event_pipe"):
                    raise TranslationError(f"callback is not event_pipe.<fn> at line {st.lineno}: {ast.unparse(cb)}")
                name = cb.attr
                mod = exports.get(name)
                if not mod or not _has_plain_def(mod, name):
                    raise TranslationError(f"cannot establish __name__ of callback {name}")
                cid, ctor = ctx_of(kw.pop("context", None))
                kws = [(k, ast.unparse(v)) for k, v in kw.items()]
                regs.append((conj(path), name, cid, ctor, kws, st.lineno))
                continue
            raise TranslationError(f"unsupported statement {type(st).__name__} at line {st.lineno}")

    walk(fn.body, [])
    ANALYSIS.clear()
    ANALYSIS.update({"atoms": list(atoms), "regs": [dict(guard=g, name=n, ctx=c, ctor=t, kwargs=k, lineno=ln)
                                                     for g, n, c, t, k, ln in regs]})

    lines = ["(* GENERATED by tools/translate_registration.py from src/aiu_trace_analyzer/core/acelyzer.py — do not edit *)",
             "From Coq Require Import List String.", "Import ListNotations.",
             "From AiuModel Require Import Profile.", "Local Open Scope string_scope.", "",
             "Definition atoms : list string := ["]
    lines.append(";\n".join("  " + coq_str(a) for a in atoms))
    lines.append("].\n")
    lines.append("Definition the_program : program := [")
    items = []
    for g, name, cid, ctor, kws, _ in regs:
        kwt = "[" + "; ".join(f"({coq_str(k)}, {coq_str(v)})" for k, v in kws) + "]"
        items.append(f"  {{| r_guard := {coq_guard(g)}; r_name := {coq_str(name)}; r_ctx := {cid}; r_ctor := {coq_str(ctor)}; "
                     f"r_kwargs := {kwt} |}}")
    lines.append(";\n".join(items))
    lines.append("].\n")
    # string constants the program refers to
    consts = {}
    for node in ast.walk(tree):
        if isinstance(node, ast.Assign) and len(node.targets) == 1 and isinstance(node.targets[0], ast.Name) \
                and node.targets[0].id == "_default_sort_ts_and_rev_dur" and isinstance(node.value, ast.Constant):
            consts["default_sort_ts_and_rev_dur"] = node.value.value
    if "default_sort_ts_and_rev_dur" not in consts:
        raise TranslationError("Acelyzer._default_sort_ts_and_rev_dur not found as a string constant")
    lines.append(f"Definition default_sort_ts_and_rev_dur : string := {coq_str(consts['default_sort_ts_and_rev_dur'])}.\n")
    reg_txt = "\n".join(lines)

    # profiles
    pdir = os.path.join(repo, "src/aiu_trace_analyzer/profiles")
    plines = ["(* GENERATED by tools/translate_registration.py from src/aiu_trace_analyzer/profiles/*.json — do not edit *)",
              "From Coq Require Import List String.", "Import ListNotations.",
              "From AiuModel Require Import Profile.", "Local Open Scope string_scope.", ""]
    pinfo = {}
    for fn_ in sorted(os.listdir(pdir)):
        if not fn_.endswith(".json"):
            continue
        data = json.load(open(os.path.join(pdir, fn_)))
        ident = "profile_" + fn_[:-5]
        if not ident.replace("_", "").isalnum():
            raise TranslationError(f"profile file name {fn_}")
        if data == {}:
            plines.append(f"Definition {ident} : option prof := None.   (* empty file: means everything *)\n")
            pinfo[fn_] = "empty"
            continue
        if set(data.keys()) != {"stages"} or not isinstance(data["stages"], list):
            raise TranslationError(f"profile {fn_}: expected exactly the key 'stages' with a list")
        ent = []
        for d in data["stages"]:
            if not (isinstance(d, dict) and len(d) == 1):
                raise TranslationError(f"profile {fn_}: stage entry {d!r}")
            (k, v), = d.items()
            if not isinstance(v, bool):
                raise TranslationError(f"profile {fn_}: flag of {k} is not a bool")
            ent.append(f"({coq_str(k)}, {'true' if v else 'false'})")
        plines.append(f"Definition {ident} : option prof := Some [\n  " + ";\n  ".join(ent) + "\n].\n")
        pinfo[fn_] = len(ent)
    for need in ("everything.json", "default.json", "torch_minimal.json"):
        if need not in pinfo:
            raise TranslationError(f"profile {need} missing")
    if pinfo["everything.json"] == "empty":
        raise TranslationError("everything.json is empty")
    plines.append("Definition everything : prof := match profile_everything with Some p => p | None => [] end.\n")
    # which profile does acelyzer select by default / with --tb  (parse_inputs)
    src = open(src_path).read()
    for needle in ('"../profiles/default.json"', '"../profiles/torch_minimal.json"'):
        if needle not in src:
            raise TranslationError(f"acelyzer.py no longer refers to {needle}")
    prof_txt = "\n".join(plines)
    return [("Registration.v", reg_txt, {"registrations": len(regs), "atoms": len(atoms),
                                         "lines": [r[5] for r in regs]}),
            ("Profiles.v", prof_txt, {"profiles": pinfo})]


def analyze(repo):
    """atoms and registrations as Python data (same walk as translate)."""
    translate(repo)
    return dict(ANALYSIS)
