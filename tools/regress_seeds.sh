#!/bin/bash
# Re-runs every kept seeded change (seeded/*/patch.diff) against the CURRENT checks in an isolated copy of /verif
# (so that /verif's build directory and evidence are not touched): applies the patch to a scratch worktree at the current
# /repo head, runs the quick check of the owning property with AIU_REPO=<worktree>, prints one line per change.
# usage: tools/regress_seeds.sh [pattern]     e.g.  tools/regress_seeds.sh 'C0*'
set -u
PAT=${1:-*}
COPY=/tmp/verif_regress${REGRESS_TAG:-}
WT=/tmp/verif_regress_wt${REGRESS_TAG:-}
rm -rf $COPY; mkdir -p $COPY
rsync -a --exclude .git --exclude build/run --exclude build/cases --exclude replays /verif/ $COPY/
git -C /repo worktree remove --force $WT 2>/dev/null; git -C /repo worktree prune
git -C /repo worktree add --detach $WT HEAD >/dev/null 2>&1
cd $COPY
for d in /verif/seeded/$PAT/; do
  n=$(basename $d)
  [ -f $d/patch.diff ] || continue
  if [ -f $d/meta.json ] && grep -q '"kept": false' $d/meta.json; then echo "$n SKIP (not kept)"; continue; fi
  P=$(python3 -c "import json;print(json.load(open('$d/meta.json')).get('property',''))" 2>/dev/null)
  [ -z "$P" ] && P=$(echo $n | grep -o 'C[0-9][0-9]' | head -1)
  git -C $WT checkout -q -- . ; git -C $WT clean -fdq
  if ! git -C $WT apply --check $d/patch.diff 2>/dev/null; then echo "$n $P PATCH-DOES-NOT-APPLY"; continue; fi
  git -C $WT apply $d/patch.diff
  out=$(AIU_REPO=$WT VERIF_JOBS=${VERIF_JOBS:-6} timeout 1800 /venv/bin/python harness/check.py $P --tier quick 2>&1 | grep "VIOLATION\|^\[$P\]" | tr '\n' ' ')
  echo "$n $P $(echo "$out" | grep -q 'VIOLATION' && (echo "$out" | grep -q 'no-failing-input-found' && echo DETECTED-NO-INPUT || echo DETECTED) || echo MISSED) | $(echo "$out" | cut -c1-160)"
done
git -C $WT checkout -q -- . ; git -C /repo worktree remove --force $WT; rm -rf $COPY
