#!/venv/bin/python
"""prints the markdown tables of DESIGN.md section 8.5/8.6 from the property modules, evidence files and seeded/*/meta.json"""
import glob, importlib, json, os, re, sys
sys.path.insert(0, "/verif/harness")
props = [json.loads(l) for l in open("/verif/properties.jsonl")]
print("| Prop | Theorems (coq/props) | Qed-closed obligations in cone | quick tie (evaluations / distinct non-trivial) |")
print("|---|---|---|---|")
for p in props:
    pid = p["id"]
    mod = importlib.import_module("props." + pid.lower())
    ev = json.load(open(f"/verif/evidence/{pid}.json"))["coverage"]
    print(f"| {pid} | {', '.join(t.replace(pid + '_', '') for t in mod.THEOREMS)} | {ev['obligations']} | {ev['evaluations']} / {ev['distinct_nontrivial']} |")
print()
print("| Seeded change | What it is / what it needs | Suite | Detected by (exit 1) | with failing input |")
print("|---|---|---|---|---|")
for d in sorted(glob.glob("/verif/seeded/C*_*")):
    m = json.load(open(d + "/meta.json"))
    notes = m.get("needs", "")
    first = ""
    for ln in notes.splitlines():
        ln = ln.strip().lstrip("#").strip()
        if len(ln) > 25 and not ln.lower().startswith(("notes", "seeded", "change ")):
            first = ln
            break
    first = re.sub(r"[|`]", "", first)[:230]
    det = m.get("detected_by", [])
    wfi = m.get("detected_with_failing_input", [])
    allc = list(m.get("checks_on_patched_tree", {}).keys())
    missed = [c for c in allc if c not in det]
    print(f"| {os.path.basename(d)} | {first} | {m.get('suite_with_patch','')[:22]} | {', '.join(det) or '-'}{' (not by ' + ', '.join(missed) + ')' if missed else ''} | {', '.join(wfi) or '-'} |")
