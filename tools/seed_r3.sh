#!/bin/bash
# verifies the round-3 seeds in an isolated copy of /verif (evidence and build dirs of /verif stay untouched)
cd /verif
export SEED_ROUND=${SEED_ROUND:-3} VERIF_JOBS=${VERIF_JOBS:-8} SEED_VERIF=${SEED_VERIF:-/tmp/verif_seed3}
rm -rf $SEED_VERIF; mkdir -p $SEED_VERIF
rsync -a --exclude .git --exclude build/run --exclude build/cases --exclude replays /verif/ $SEED_VERIF/
run() { echo "=== $*"; tools/seedtest.py "$@" 2>&1 | tail -3; }
for p in "$@"; do
  for k in 1 2; do
    [ -f /tmp/seed${SEED_ROUND:-3}_$p/out/$k/patch.diff ] && run $p $k
  done
done
rm -rf $SEED_VERIF
