"""Run every translator: /repo source -> coq/gen/*.v.  Fail-closed: any source shape a translator
does not know raises, which check.py reports as a broken tie.  Files are rewritten only when their
content changes so that `make` stays incremental."""
import importlib
import os
import sys

HERE = os.path.dirname(os.path.abspath(__file__))
sys.path.insert(0, HERE)

TRANSLATORS = ["translate_registration", "translate_tables"]  # module names


def write_if_changed(path, txt):
    if os.path.exists(path) and open(path).read() == txt:
        return False
    os.makedirs(os.path.dirname(path), exist_ok=True)
    with open(path, "w") as f:
        f.write(txt)
    return True


def main(repo, gen_dir):
    info = {}
    for name in TRANSLATORS:
        mod = importlib.import_module(name)
        for fn, txt, meta in mod.translate(repo):
            changed = write_if_changed(os.path.join(gen_dir, fn), txt)
            info[fn] = dict(meta, rewritten=changed)
    return info


if __name__ == "__main__":
    print(main(sys.argv[1] if len(sys.argv) > 1 else "/repo",
               os.path.join(os.path.dirname(HERE), "coq", "gen")))
