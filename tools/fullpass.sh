#!/bin/bash
cd /verif
tier=${1:-quick}; seed=${2:-0}
for c in C01 C02 C03 C04 C05 C06 C07 C08 C09 C10 C11 C12 C13 C14 C15 C16 C17 C18 C19 C20; do echo $c; done | \
  VERIF_SEED=$seed VERIF_JOBS=4 xargs -P 4 -I{} sh -c "harness/check.py {} --tier $tier > build/pass_${tier}_${seed}_{}.log 2>&1; echo {} exit=\$? \$(grep -c VIOLATION build/pass_${tier}_${seed}_{}.log) \$(grep '^\[' build/pass_${tier}_${seed}_{}.log | tail -1)"
