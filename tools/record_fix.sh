#!/bin/bash
# usage: tools/record_fix.sh <Cxx> <revert-dir-suffix> "<commit message (starts with fix:)>" "<what failed>" "<what the revert needs to manifest>"
# commits the staged-or-unstaged change of /repo/src as ONE fix: commit, stores the revert patch and the fixed: line
set -e
P=$1; SUF=$2; MSG=$3; WHAT=$4; NEEDS=$5
cd /repo
git add -A src
git commit -q -m "$MSG"
H=$(git rev-parse --short HEAD)
mkdir -p /verif/seeded/revert_fix_$SUF
git diff HEAD HEAD~1 > /verif/seeded/revert_fix_$SUF/patch.diff
cd /verif
python3 - "$P" "$H" "$WHAT" "$NEEDS" "$SUF" <<'PY'
import json, sys
P, H, WHAT, NEEDS, SUF = sys.argv[1:6]
p = '/verif/known_findings.json'
d = json.load(open(p))
d['fixed'].append(f"fixed: property={P} {H} {WHAT}")
json.dump(d, open(p, 'w'), indent=1)
json.dump({"property": P, "kind": f"revert of fix commit {H} (re-introduces the genuine defect)", "needs": NEEDS},
          open(f'/verif/seeded/revert_fix_{SUF}/meta.json', 'w'))
PY
echo $H
