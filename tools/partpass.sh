#!/bin/bash
# usage: build/partpass.sh <tier> <seed> <parallel> Cxx ...
cd /verif
tier=$1; seed=$2; par=$3; shift 3
for c in "$@"; do echo $c; done | \
  VERIF_SEED=$seed VERIF_JOBS=${VERIF_JOBS:-3} xargs -P $par -I{} sh -c "harness/check.py {} --tier $tier > build/pass_${tier}_${seed}_{}.log 2>&1; echo {} exit=\$? \$(grep -c VIOLATION build/pass_${tier}_${seed}_{}.log) \$(grep '^\[' build/pass_${tier}_${seed}_{}.log | tail -1)"
