#!/venv/bin/python
"""usage: tools/seedtest.py <Cxx> <k> [other checks to run too]
Verifies an independently seeded change /tmp/seed_<Cxx>/out/<k>/ in its scratch worktree /tmp/seed_<Cxx>/wt:
suite still green with the patch, demo FAILs with / PASSes without, then runs the /verif check(s) against the patched
worktree and records everything under /verif/seeded/<Cxx>_<k>/ (patch.diff, demo.py, notes.md, meta.json)."""
import json
import os
import re
import shutil
import subprocess
import sys

P, K = sys.argv[1], sys.argv[2]
CHECKS = [P] + sys.argv[3:]
ROUND = os.environ.get("SEED_ROUND", "")          # "" = first round (/tmp/seed_<P>), "2" = second round (/tmp/seed2_<P>)
WT = f"/tmp/seed{ROUND}_{P}/wt"
SRC = f"/tmp/seed{ROUND}_{P}/out/{K}"
DST = f"/verif/seeded/{P}_{'r' + ROUND + '_' if ROUND else ''}{K}"


def sh(cmd, **kw):
    return subprocess.run(cmd, shell=True, stdout=subprocess.PIPE, stderr=subprocess.STDOUT, text=True, **kw)


if not os.path.isdir(WT):        # scratch worktrees are removed when a round is done; recreate on demand
    os.makedirs(os.path.dirname(WT), exist_ok=True)
    sh(f"git -C /repo worktree prune; git -C /repo worktree add --detach {WT} HEAD")
if not os.path.isdir(SRC) and os.path.isdir(DST):      # re-test a kept change from /verif/seeded
    SRC = DST
sh(f"git -C {WT} checkout -- . && git -C {WT} clean -fdq")
base = sh(f"git -C /repo rev-parse --short HEAD").stdout.strip()
wt_head = sh(f"git -C {WT} rev-parse --short HEAD").stdout.strip()
# the seeded change is tested on top of the CURRENT /repo head (later fix: commits included)
sh(f"git -C {WT} checkout -q --detach {base}")
meta = {"property": P, "source": "independent sub-agent given only the property text and a scratch worktree",
        "repo_head_at_seeding": wt_head, "repo_head_now": base}
r = sh(f"git -C {WT} apply --check {SRC}/patch.diff")
if r.returncode != 0:
    print("patch does not apply:", r.stdout)
    sys.exit(2)
sh(f"git -C {WT} apply {SRC}/patch.diff")
meta["diffstat"] = sh(f"git -C {WT} diff --stat").stdout.strip().splitlines()[-1:]
# the package is installed in editable mode from /repo: PYTHONPATH must point at the patched tree
t = sh(f"cd {WT} && PYTHONPATH={WT}/src /venv/bin/python -m pytest -q -p no:cacheprovider 2>&1 | tail -1").stdout.strip()
meta["suite_with_patch"] = t
env = dict(os.environ, AIU_TREE=WT, PYTHONPATH=f"{WT}/src", PYTHONHASHSEED="0")
d1 = subprocess.run(["/venv/bin/python", f"{SRC}/demo.py"], env=env, stdout=subprocess.PIPE, stderr=subprocess.STDOUT, text=True, timeout=600)
meta["demo_with_patch"] = {"rc": d1.returncode, "tail": d1.stdout.strip().splitlines()[-2:]}
results = {}
for c in CHECKS:
    e2 = dict(os.environ, AIU_REPO=WT, VERIF_JOBS=os.environ.get("VERIF_JOBS", "8"))
    rr = subprocess.run(["/venv/bin/python", "harness/check.py", c, "--tier", "quick"], cwd=os.environ.get("SEED_VERIF", "/verif"), env=e2,
                        stdout=subprocess.PIPE, stderr=subprocess.STDOUT, text=True, timeout=3600)
    lines = [ln for ln in rr.stdout.splitlines() if ln.startswith(("VIOLATION", "KNOWN-FINDING", f"[{c}]"))]
    det = {"exit": rr.returncode, "lines": lines}
    m = re.search(r"replay=(\S+)", "\n".join(lines))
    if m and os.path.exists(m.group(1)):
        rp = json.load(open(m.group(1)))
        f = rp.get("failing")
        det["replay_kind"] = rp.get("kind")
        det["signature"] = f.get("signature") if f else None
        det["broken"] = [b if isinstance(b, str) else b.get("name") for b in rp.get("broken", [])][:4]
    results[c] = det
meta["checks_on_patched_tree"] = results
sh(f"git -C {WT} checkout -- . && git -C {WT} clean -fdq")
d2 = subprocess.run(["/venv/bin/python", f"{SRC}/demo.py"], env=env, stdout=subprocess.PIPE, stderr=subprocess.STDOUT, text=True, timeout=600)
meta["demo_without_patch"] = {"rc": d2.returncode, "tail": d2.stdout.strip().splitlines()[-2:]}
ok = ("passed" in t and not re.search(r"\b\d+ (failed|error)", t)) and d1.returncode != 0 and d2.returncode == 0
meta["confirmed"] = ok
meta["detected_by"] = [c for c, d in results.items() if d["exit"] == 1]
meta["detected_with_failing_input"] = [c for c, d in results.items() if d["exit"] == 1 and d.get("replay_kind") == "failing_input"]
notes = open(f"{SRC}/notes.md").read() if os.path.exists(f"{SRC}/notes.md") else ""
meta["needs"] = notes[:1500]
if ok:
    os.makedirs(DST, exist_ok=True)
    for fn in ("patch.diff", "demo.py", "notes.md"):
        if os.path.exists(f"{SRC}/{fn}"):
            shutil.copy(f"{SRC}/{fn}", f"{DST}/{fn}")
    json.dump(meta, open(f"{DST}/meta.json", "w"), indent=1)
print(json.dumps({k: meta[k] for k in ("confirmed", "suite_with_patch", "demo_with_patch", "demo_without_patch",
                                       "detected_by", "detected_with_failing_input")}, indent=1))
for c, d in results.items():
    print(c, d["exit"], d["lines"][-2:], d.get("signature"))
# restore evidence of the checks to the /repo state is the caller's job (re-run the check on /repo)
