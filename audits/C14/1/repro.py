"""C14 audit candidate 1: ASSUMPTION 'integer pids/tids' (c14.py:55) + torch_scn (c14.py:150) only emits integer pid/tid.
Real torch.profiler (Kineto) traces carry slices with string pid/tid ("Spans"/"PyTorch Profiler", python thread names).
Property: exports identical for every PYTHONHASHSEED."""
import json, os, shutil, sys, tempfile
sys.path.insert(0, "/tmp/audit_C14"); import lib

def torch_profile():
    evs = []
    t = 2000.0
    for k in range(4):
        evs.append({"ph": "X", "cat": "cpu_op", "name": "aten::mm", "pid": 0, "tid": 7, "ts": t, "dur": 100.0,
                    "args": {"External id": k + 1}})
        evs.append({"ph": "X", "cat": "kernel", "name": "mm_kernel", "pid": 0, "tid": 9, "ts": t + 5.0, "dur": 25.0,
                    "args": {"External id": k + 1, "correlation": 10 + k}})
        t += 150.0
    # what Kineto writes for the profiler span itself, and two python-side lanes with string thread names
    evs.append({"ph": "X", "cat": "Trace", "name": "PyTorch Profiler (0)", "pid": "Spans", "tid": "PyTorch Profiler",
                "ts": 1990.0, "dur": 700.0, "args": {"Op count": 0}})
    evs.append({"ph": "X", "cat": "user_annotation", "name": "ProfilerStep#1", "pid": 0, "tid": "thread main", "ts": 1995.0,
                "dur": 300.0, "args": {}})
    evs.append({"ph": "X", "cat": "user_annotation", "name": "ProfilerStep#2", "pid": 0, "tid": "thread main", "ts": 2200.0,
                "dur": 300.0, "args": {}})   # overlaps partially with step 1 -> lane move
    evs.append({"ph": "X", "cat": "user_annotation", "name": "dataloader", "pid": 0, "tid": "thread worker", "ts": 2001.0,
                "dur": 50.0, "args": {}})
    return {"deviceProperties": [{"id": 0, "name": "AIU", "type": "aiu"}], "traceEvents": evs}

def main():
    d = tempfile.mkdtemp(prefix="c14a1_")
    os.makedirs(d + "/in")
    json.dump(torch_profile(), open(d + "/in/torch_rank0.json", "w"))
    res = {}
    for variant, opts in (("default", []), ("tb", ["--tb"]), ("notb", ["--disable_tb"])):
        for sd in ("0", "1", "2", "12345"):
            out = f"{d}/out_{variant}_{sd}"
            os.makedirs(out)
            rc, err = lib.cli(d, ["-i", "in/torch_rank0.json", "-o", out + "/o.json", "-D", "0", "-M"] + opts, sd)
            res[(variant, sd)] = (rc, lib.strict_canon(out), err)
    ok = True
    for variant in ("default", "tb", "notb"):
        base = res[(variant, "0")]
        for sd in ("1", "2", "12345"):
            cur = res[(variant, sd)]
            if cur[0] != base[0] or cur[1] != base[1]:
                ok = False
                dk = lib.diff_keys(base[1], cur[1])
                print(f"[{variant}] seed 0 vs seed {sd}: rc {base[0]} vs {cur[0]}, differing files {dk}")
                if dk:
                    x, y = lib.first_event_diff(base[1], cur[1], dk[0])
                    print("   seed 0 :", json.dumps(x)[:300]); print(f"   seed {sd}:", json.dumps(y)[:300])
                if cur[0] != 0: print("   stderr:", cur[2][-300:])
            else:
                print(f"[{variant}] seed 0 vs seed {sd}: identical (rc {cur[0]})")
    print("EXPECTED (property): identical exports for every hash seed")
    print("PASS" if ok else "FAIL")
    shutil.rmtree(d, ignore_errors=True)
main()
