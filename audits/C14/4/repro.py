"""C14 audit candidate 4: hash-seed independence is proved only for "hash used as a dictionary key" under the hypothesis
"h injective on the keys in use" (C14.v:44-51, MANIFEST) and the compiler logs of the generator hold ONE ideal-cycle table
(scenario.compiler_log), so the table-matching by fingerprint never has a choice.  rcu_utilization.py builds the
fingerprint TEXT from str-hashes (`hash(name) % 65535`, joined with '_') and matches it with str.find(): the hash value
is data, not a key.  With a compiler log that holds two tables (e.g. two graphs of one model; the tool supports and
counts "unique tables"), the table chosen for a job - and with it pt_active, the utilization counters and the
categories CSV - can depend on PYTHONHASHSEED.
The decoy kernel name is SEARCHED so that the effect shows for seed 1 vs seed 0 (exotic as a concrete input: for a
fixed log the chance is about 1e-4 per seed; the property quantifies over every seed)."""
import json, os, random, shutil, subprocess, sys, tempfile
sys.path.insert(0, "/tmp/audit_C14"); import lib
from common import scenario

SEARCH = r'''
import sys
first, stem, want_seed = sys.argv[1], sys.argv[2], sys.argv[3]
v = str(hash(first + " Cmpt Exec") % 65535)
for i in range(3000000):
    n = f"{stem}_{i}"
    if str(hash(n + " Cmpt Exec") % 65535).endswith(v) :
        print(n); break
'''

def table(rows):
    lines = ["[DeepRT] ===== Perf BEGIN =====", "====== Perf Summary ======", "~~~~ Ideal/Total Cycles ~~~~", "-" * 91,
             "Name" + " " * 76 + "Ideal Cy.", "-" * 91]
    lines += [f"{n}-opCatConv_fp16".ljust(80) + f"{c}".ljust(15) for n, c in rows]
    lines += ["-" * 91, f"Total\t\t\t\t\t\t\t\t\t\t{sum(c for _, c in rows)}", "-" * 91, "====== Perf Summary End ======",
              "[DeepRT] ===== Perf END ====="]
    return lines

def main():
    d = tempfile.mkdtemp(prefix="c14a4_", dir="/tmp/audit_C14/out/4")
    r = random.Random(11)
    s = scenario.gen_scenario(r, ranks=1, kernels=6, host=2, wraps=False)
    os.makedirs(d + "/in")
    fn = list(s.files)[0]
    json.dump(s.files[fn], open(f"{d}/in/{fn}", "w"))
    ex = sorted((t for t in s.truth.values() if t["kind"] == "Cmpt Exec"), key=lambda t: t["start"])
    seq = [t["name"].rsplit(" Cmpt Exec", 1)[0] for t in ex]
    t_obs = float(sum(t["end"] - t["start"] for t in ex))          # us
    core = 1100.0
    cyc_total_B, cyc_total_A = t_obs * core * 0.5, t_obs * core * 0.9   # ideal time = cycles / core MHz
    # decoy name: its hash text ends with the hash text of the job's first kernel under seed 1
    decoy = subprocess.run([lib.PY, "-c", SEARCH, seq[0], seq[0] + "_v", "1"], env=dict(os.environ, PYTHONHASHSEED="1"),
                           capture_output=True, text=True).stdout.strip()
    per = {}
    for n in seq: per.setdefault(n, None)
    cB = {n: max(1, int(cyc_total_B / len(seq))) for n in per}
    cA = {n: max(1, int(cyc_total_A / len(seq))) for n in per}
    rowsB = [(n, cB[n]) for n in seq]
    rowsA = [(decoy, cA[seq[0]])] + [(n, cA[n]) for n in seq[1:]]
    open(d + "/in/comp.log", "w").write("\n".join(table(rowsA) + table(rowsB)) + "\n")
    print("kernel sequence of the job:", seq); print("table 1 (other graph) starts with:", decoy, "; table 2 is the job's own graph")
    res = {}
    for sd in ("0", "1", "2", "3"):
        shutil.rmtree(d + "/out", ignore_errors=True); os.makedirs(d + "/out")
        rc, err = lib.cli(d, ["-i", "in/" + fn, "-o", "out/o.json", "-c", "in/comp.log", "-D", "0", "--freq", f"{s.freq}:{core}"], sd)
        c = lib.strict_canon(d + "/out")
        ev = json.loads(c["o.json"])["traceEvents"]
        pt = [round(e["args"]["pt_active"], 4) for e in ev if e.get("ph") == "X" and "pt_active" in e.get("args", {})]
        res[sd] = (rc, c, pt)
        print(f"seed {sd}: rc={rc} pt_active of the kernels = {pt[:6]}")
    ok = all(res[sd][0] == res["0"][0] and res[sd][1] == res["0"][1] for sd in res)
    for sd in ("1", "2", "3"):
        if res[sd][1] != res["0"][1]:
            print(f"seed 0 vs seed {sd}: differing files {lib.diff_keys(res['0'][1], res[sd][1])}")
    print("EXPECTED (property): identical exports and CSVs for every PYTHONHASHSEED")
    print("PASS" if ok else "FAIL")
    shutil.rmtree(d, ignore_errors=True)
main()
