"""C14 audit candidate 3: the check only compares FILES (json/csv) written by file-based runs (canon, c14.py:88-105);
the README's documented integration path - Acelyzer(args) with `--disable_file`, `-f pddf|json`, `-i api://...` +
in_data, result via get_output_data() - is never exercised (gen_opts never draws -f / --disable_file; C14 notes in
DESIGN: "does not notice leaks that need -f pddf").  Property: results identical when run repeatedly in one process
through the documented API, also after an aborted run, and for every hash seed."""
import json, os, random, shutil, subprocess, sys, tempfile
sys.path.insert(0, "/tmp/audit_C14"); import lib
from common import scenario, collectives
from props import c14

WORKER = r'''
import sys, os, json, io, contextlib, hashlib
sys.path.insert(0, "/tmp/audit_C14"); import lib
sys.path.insert(0, lib.WT + "/src")
from aiu_trace_analyzer.core.acelyzer import Acelyzer
plan = json.load(open(sys.argv[1])); rep = []
def canon(fmt, data):
    if fmt == "pddf":
        return data.to_csv(index=False)
    d = json.loads(data)
    d = {k: v for k, v in d.items() if k not in ("otherData", "traceName")}
    return json.dumps(d, sort_keys=True)
for step in plan:
    os.chdir(step["cwd"]); sink = io.StringIO(); e = {}
    try:
        with contextlib.redirect_stdout(sink), contextlib.redirect_stderr(sink):
            in_data = open(step["in_data"], "rb").read() if step.get("in_data") else None
            ace = Acelyzer(step["argv"], in_data=in_data)
            e["rc"] = ace.run()
            e["data"] = canon(step["fmt"], ace.get_output_data())
    except BaseException as x:
        e["exc"] = type(x).__name__ + ": " + str(x)[:100]
    rep.append(e)
json.dump(rep, open(sys.argv[2], "w"))
'''

def run_plan(work, plan, seed, tag):
    pf, rf = f"{work}/plan_{tag}.json", f"{work}/rep_{tag}.json"
    json.dump(plan, open(pf, "w"))
    subprocess.run([lib.PY, work + "/worker.py", pf, rf], env=dict(os.environ, PYTHONHASHSEED=seed),
                   stdout=subprocess.DEVNULL, stderr=subprocess.DEVNULL, timeout=900)
    return json.load(open(rf))

def main():
    work = tempfile.mkdtemp(prefix="c14a3_", dir="/tmp/audit_C14/out/3")
    open(work + "/worker.py", "w").write(WORKER)
    ok, n = True, 0
    for k in range(10):
        r = random.Random(300 + k)
        d = f"{work}/t{k}"
        s, inp = c14.write_scn(r, d, torch=(k % 5 == 4))
        fmt = ["pddf", "json"][k % 2]
        opts = [o for o in c14.gen_opts(r) if o != "--tb"] + ["--disable_file", "-f", fmt]
        if k % 3 == 0 and len(s.files) == 1:     # memory input as in the README
            inp_argv, in_data = "api://jsonbuffer", f"{d}/in/{list(s.files)[0]}"
        else:
            inp_argv, in_data = inp, None
        targ = c14.argv_for(s, inp_argv, "out", opts, d, r)
        os.makedirs(d + "/out", exist_ok=True)
        tstep = {"cwd": d, "argv": targ, "fmt": fmt, "in_data": in_data}
        # history: an aborting run, another scenario through the same API path, the target itself
        d1, d2 = f"{d}/pre_abort", f"{d}/pre_other"
        s1, inp1 = c14.malformed(r, d1, r.choice(["bad_counter", "be_mismatch", "freq_contradiction"]))
        s2, inp2 = c14.write_scn(r, d2, torch=(k % 4 == 1))
        for x in (d1, d2): os.makedirs(x + "/out", exist_ok=True)
        f2 = r.choice(["pddf", "json"])
        hist = [{"cwd": d2, "argv": c14.argv_for(s2, inp2, "out", [o for o in c14.gen_opts(r) if o != "--tb"] + ["--disable_file", "-f", f2], d2, r), "fmt": f2},
                {"cwd": d1, "argv": c14.argv_for(s1, inp1, "out", ["--disable_file", "-f", fmt], d1, r), "fmt": fmt},
                tstep, tstep]
        fresh = {sd: run_plan(work, [tstep], sd, f"{k}_fresh{sd}")[0] for sd in ("0", "1", "4242")}
        rep = run_plan(work, hist, "0", f"{k}_hist")
        base = fresh["0"]
        if "data" not in base:
            print(f"case {k}: baseline run failed ({base.get('exc', base.get('rc'))}) - skipped"); continue
        n += 1
        for sd in ("1", "4242"):
            if fresh[sd].get("data") != base["data"]:
                ok = False; print(f"case {k} fmt={fmt}: get_output_data() differs between PYTHONHASHSEED 0 and {sd}; argv={targ}")
        for i in (2, 3):
            if rep[i].get("data") != base["data"] or rep[i].get("rc") != base["rc"]:
                ok = False
                print(f"case {k} fmt={fmt}: in-process run #{i+1} (after other run + aborted run{' + itself' if i == 3 else ''}) "
                      f"differs from the fresh process: rc {rep[i].get('rc')} exc {rep[i].get('exc')} vs rc {base['rc']}; "
                      f"history results: {[ (x.get('rc'), x.get('exc')) for x in rep[:2]]}; argv={targ}")
    print(f"{n} cases compared. EXPECTED (property): get_output_data() identical in all of them")
    print("PASS" if ok else "FAIL")
    shutil.rmtree(work, ignore_errors=True)
main()
