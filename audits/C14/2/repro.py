"""C14 audit candidate 2: the wildcard cases of the check (c14.py:186-187) always compare runs that read the SAME
directory on the SAME filesystem, so the expansion order of `-i "in/rank*.json"` (pathlib.Path.glob = raw readdir
order, ingestion.py:596, not sorted) is the same in every compared run.  Property: "identical ... across runs and
environments", "a function of the input files and options only".
Here: identical file names, identical file contents, identical argv, identical relative paths; the only difference is
the order in which the files were copied into the directory (tmpfs lists newest first; ext4 lists in hash order).
Needs a tmpfs at /tmp/audit_C14/shm (mounted by this script if missing; root)."""
import json, os, random, shutil, subprocess, sys
sys.path.insert(0, "/tmp/audit_C14"); import lib
from common import scenario, collectives
import pathlib

SHM = "/tmp/audit_C14/shm"
os.makedirs(SHM, exist_ok=True)
if not os.path.ismount(SHM):
    subprocess.run(["mount", "-t", "tmpfs", "-o", "size=64m", "tmpfs", SHM], check=False)

r = random.Random(1002)
s = scenario.gen_scenario(r, ranks=3)
names = list(s.files)
assert all(n.startswith("rank") for n in names), names
envs = {"tmpfs_copied_0_1_2": (SHM + "/A", names), "tmpfs_copied_2_1_0": (SHM + "/B", list(reversed(names))),
        "ext4": ("/tmp/audit_C14/out/2/work_ext4", names)}
argv = ["-i", "in/rank*.json", "-o", "out/o.json", "-D", "0", "--freq", f"{s.freq}:1100.0"]
res = {}
for tag, (d, order) in envs.items():
    shutil.rmtree(d, ignore_errors=True)
    os.makedirs(d + "/in"); os.makedirs(d + "/out")
    for fn in order:
        json.dump(s.files[fn], open(f"{d}/in/{fn}", "w"))
    listing = [p.name for p in pathlib.Path(d + "/in").glob("rank*.json")]
    rc, err = lib.cli(d, argv, "0")
    res[tag] = (rc, lib.strict_canon(d + "/out"), listing)
    print(f"{tag}: rc={rc} directory lists {listing}")
ok = True
base = res["tmpfs_copied_0_1_2"]
for tag in ("tmpfs_copied_2_1_0", "ext4"):
    cur = res[tag]
    dk = lib.diff_keys(base[1], cur[1])
    if dk or cur[0] != base[0]:
        if cur[2] == base[2]:
            continue
        ok = False
        print(f"tmpfs_copied_0_1_2 vs {tag}: argv identical {argv}; differing files {dk}")
        x, y = lib.first_event_diff(base[1], cur[1], dk[0])
        print("   first differing exported event:", json.dumps(x)[:200]); print("                               vs:", json.dumps(y)[:200])
    else:
        print(f"tmpfs_copied_0_1_2 vs {tag}: identical")
if len({tuple(v[2]) for v in res.values()}) == 1:
    print("INCONCLUSIVE: all directories list in the same order on this machine")
print("EXPECTED (property): same file set + same options => identical traceEvents/CSVs in every environment")
print("PASS" if ok else "FAIL")
for d, _ in envs.values():
    shutil.rmtree(d, ignore_errors=True)
