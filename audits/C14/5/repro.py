"""C14 audit candidate 5 (several narrowings of the generator / oracle at once, all found harmless):
 - gen_opts (c14.py:117-147) never draws -S -T -s -k -R --flex_ts_fix --ignore_crit -P -f pddf --time_unit, -C bandwidth/power_ts3
 - histories (c14.py:306-327) never contain the target's own inputs (same run earlier / same inputs, other options)
 - canon (c14.py:88-105) keeps only traceEvents and *.csv; files present only in the variant are ignored (c14.py:283);
   results are read after the worker process has exited, not when run() returns
Here: the check's own scenario generator + those options/histories, compared with a strict canonical form (every file
next to the output, every top-level key but otherData/traceName), also at the moment run() returns.
usage: repro.py [N=40] [seed=5000]"""
import sys
if len(sys.argv) < 3: sys.argv = [sys.argv[0], "40", "5000"]
import json, os, sys, tempfile, random, shutil, subprocess
sys.path.insert(0, "/tmp/audit_C14"); import lib
from common import scenario, collectives
from props import c14
from concurrent.futures import ThreadPoolExecutor
PROFILES = lib.WT + "/src/aiu_trace_analyzer/profiles/"
N = int(sys.argv[1]); SEED0 = int(sys.argv[2])

def wide_opts(r):
    o = c14.gen_opts(r)
    for sw, p in (("-S", 0.2), ("-T", 0.2), ("-s", 0.15), ("-k", 0.15), ("--flex_ts_fix", 0.2), ("--ignore_crit", 0.1)):
        if r.random() < p and sw not in o: o.append(sw)
    if r.random() < 0.3:
        if "--flow" not in o: o.append("--flow")
        o.append("-R")
    if r.random() < 0.2 and "-P" not in o:
        o += ["-P", PROFILES + r.choice(["everything.json", "torch_minimal.json", "default.json"])]
    if r.random() < 0.15:
        o += ["-f", "pddf"]
    if r.random() < 0.2:
        o += ["--time_unit", r.choice(["ms", "ns"])]
    if "-C" not in o and r.random() < 0.25:
        o += ["-C"] + r.choice([["power_ts3", "bandwidth"], ["bandwidth", "coll_bw"], ["power_ts3"], ["bandwidth", "power_ts4", "prep_queue"]])
    return o

WORKER = r'''
import sys, os, json, io, contextlib
sys.path.insert(0, "/tmp/audit_C14"); import lib
sys.path.insert(0, lib.WT + "/src")
from aiu_trace_analyzer.core.acelyzer import Acelyzer
plan = json.load(open(sys.argv[1])); rep = []
for step in plan:
    os.chdir(step["cwd"]); sink = io.StringIO(); e = {}
    try:
        with contextlib.redirect_stdout(sink), contextlib.redirect_stderr(sink):
            e["rc"] = Acelyzer(step["argv"]).run()
    except BaseException as x:
        e["exc"] = type(x).__name__ + ": " + str(x)[:120]
    if step.get("snap"):
        e["snap"] = lib.strict_canon(step["snap"])      # what a caller sees when run() has returned
    rep.append(e)
json.dump(rep, open(sys.argv[2], "w"))
'''
work = tempfile.mkdtemp(prefix="fz3_", dir="/tmp/audit_C14")
open(work + "/worker.py", "w").write(WORKER)

def one(k):
    r = random.Random(SEED0 + k)
    d = f"{work}/s{k}"
    s, inp = c14.write_scn(r, d, torch=(k % 7 == 3))
    opts = wide_opts(r)
    out = {}
    fails = []
    def av(o, oo): return c14.argv_for(s, inp, o, oo, d, r)
    for tag, oo, sd in (("s0", opts, "0"), ("s1", opts, "1"), ("sr", opts, str(r.randrange(2, 1 << 30))), ("I", opts + ["-I"], "0")):
        os.makedirs(f"{d}/out_{tag}", exist_ok=True)
    # all variants write to out/o.json in turn (same output name), results moved away afterwards
    res = {}
    for tag, oo, sd in (("s0", opts, "0"), ("s1", opts, "1"), ("sr", opts, "77"), ("I", opts + ["-I"], "0")):
        shutil.rmtree(d + "/out", ignore_errors=True); os.makedirs(d + "/out")
        rc, err = lib.cli(d, av("out", oo), sd)
        res[tag] = (rc, lib.strict_canon(d + "/out"), err)
    base = res["s0"]
    for tag in ("s1", "sr", "I"):
        cur = {kk: v for kk, v in res[tag][1].items() if tag != "I" or kk in base[1]}
        if res[tag][0] != base[0] or (base[0] == 0 and cur != base[1]):
            fails.append({"k": k, "kind": tag, "opts": opts, "rc": (base[0], res[tag][0]), "files": lib.diff_keys(base[1], cur),
                          "err": res[tag][2][-200:] if res[tag][0] else ""})
    # history
    plan = []
    for j in range(r.randrange(1, 4)):
        u = r.random(); dd = f"{d}/pre{j}"
        if u < 0.3:      # the target's own inputs, other options, other output
            os.makedirs(f"{d}/preout{j}", exist_ok=True)
            plan.append({"cwd": d, "argv": av(f"preout{j}", wide_opts(r)), "kind": "same_inputs_other_opts"})
        elif u < 0.45:   # exactly the target run, earlier
            os.makedirs(f"{d}/preout{j}", exist_ok=True)
            plan.append({"cwd": d, "argv": av(f"preout{j}", opts), "kind": "same_run"})
        elif u < 0.65:
            s2, inp2 = c14.malformed(r, dd, r.choice(["bad_counter", "be_mismatch", "freq_contradiction"]))
            os.makedirs(dd + "/o", exist_ok=True)
            plan.append({"cwd": dd, "argv": c14.argv_for(s2, inp2, "o", wide_opts(r), dd, r), "kind": "abort"})
        else:
            s2, inp2 = c14.write_scn(r, dd, torch=(r.random() < 0.2))
            os.makedirs(dd + "/o", exist_ok=True)
            plan.append({"cwd": dd, "argv": c14.argv_for(s2, inp2, "o", wide_opts(r), dd, r), "kind": "other"})
    shutil.rmtree(d + "/out", ignore_errors=True); os.makedirs(d + "/out")
    plan.append({"cwd": d, "argv": av("out", opts), "snap": d + "/out", "kind": "target"})
    json.dump(plan, open(d + "/plan.json", "w"))
    env = dict(os.environ, PYTHONHASHSEED="0")
    subprocess.run([lib.PY, work + "/worker.py", d + "/plan.json", d + "/rep.json"], env=env, cwd=d,
                   stdout=subprocess.DEVNULL, stderr=subprocess.DEVNULL, timeout=900)
    try:
        rep = json.load(open(d + "/rep.json"))
    except Exception:
        fails.append({"k": k, "kind": "worker_crash", "opts": opts}); return fails, (base[0], opts, base[2][-160:])
    after_exit = lib.strict_canon(d + "/out")
    last = rep[-1]
    hrc = last.get("rc", last.get("exc"))
    kinds = [p["kind"] for p in plan[:-1]]
    if hrc != base[0] and not (base[0] != 0 and "exc" in last):
        fails.append({"k": k, "kind": "hist_rc", "opts": opts, "rc": (base[0], hrc), "history": kinds, "pre": [p["argv"] for p in plan[:-1]]})
    elif base[0] == 0:
        if last.get("snap") != base[1]:
            fails.append({"k": k, "kind": "hist_at_return", "opts": opts, "history": kinds, "files": lib.diff_keys(base[1], last.get("snap") or {}),
                          "pre": [p["argv"] for p in plan[:-1]]})
        elif after_exit != base[1]:
            fails.append({"k": k, "kind": "hist_after_exit", "opts": opts, "history": kinds, "files": lib.diff_keys(base[1], after_exit)})
    return fails, (base[0], opts, base[2][-160:])

with ThreadPoolExecutor(10) as ex:
    rs = list(ex.map(one, range(N)))
allf = [f for fs, _ in rs for f in fs]
print("scenarios", N, "baseline rc!=0:", sum(1 for _, rc in rs if rc[0] != 0), "failures", len(allf))
for _, rc in rs:
    if rc[0] != 0: print("  BASEFAIL", rc[1], rc[2].strip().splitlines()[-1][:150] if rc[2].strip() else "")
for f in allf: print(json.dumps(f)[:900])
json.dump(allf, open(f"/tmp/audit_C14/fz3_{SEED0}.json", "w"))
print("work", work)
print("EXPECTED (property): every variant equals the fresh seed-0 run")
print("PASS" if not allf else "FAIL")
shutil.rmtree(work, ignore_errors=True)
