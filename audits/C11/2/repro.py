"""Candidate 2: a table row WITHOUT -opCat/-NA token (harness: hypothesis no_total, ASSUMPTION 3, oracle 'total_cat'
skips).  Property: every kernel slice counted exactly once ...; Total row = sum of the category rows; ratios."""
import sys; sys.path.insert(0, "/tmp/audit_C11/out")
import aud
rows = [aud.row("convolution_1", "Conv_fp16", 2048), aud.row("mean", None, 1024)]      # 'mean' has no category token
tr = aud.make_trace([("convolution_1", 4000), ("mean", 6000)])
r, evs, csvrows = aud.run("/tmp/audit_C11/out/2/w", {"job-1.json": tr}, aud.table_log(rows), ["--freq", "1000:1024"])
if csvrows is None:
    print("FAIL no csv", r.stderr[-600:]); sys.exit(1)
for x in csvrows:
    print("  ", x["Category"], x["Kernel_Time"], x["Calls"], x["Ideal_Cyc"], x["Frac_Time"], x["Frac_Ideal"])
tot = [x for x in csvrows if x["Category"] == "Total"]
oth = [x for x in csvrows if x["Category"] != "Total"]
ok = len(tot) == 1
t = tot[0]
ks = aud.kernel_slices(evs)
print("  kernel slices exported:", len(ks), " with pt_active:", [(e["name"], e["args"].get("pt_active")) for e in ks])
sc, st, sy = sum(int(x["Calls"]) for x in oth), sum(float(x["Kernel_Time"]) for x in oth), sum(int(x["Ideal_Cyc"]) for x in oth)
print(f"  expected Total: Calls 2 = sum of rows, Kernel_Time 10.0, Ideal_Cyc 3072; observed Total Calls {t['Calls']} time {t['Kernel_Time']} cyc {t['Ideal_Cyc']};"
      f" sum of category rows: Calls {sc} time {st} cyc {sy}")
ok &= int(t["Calls"]) == 2 == sc and float(t["Kernel_Time"]) == 10.0 == st and int(t["Ideal_Cyc"]) == 3072 == sy
conv = [x for x in csvrows if x["Category"] == "Conv_fp16"][0]
print(f"  Conv_fp16 Frac_Time expected 0.4 observed {conv['Frac_Time']}")
ok &= abs(float(conv["Frac_Time"]) - 0.4) < 1e-4
print("PASS" if ok else "FAIL")
