"""Candidate 3: -O async (not in E2E_OPTS; the direct generator only builds '[N]'+fn_idx names, a form no stage of the
tool produces).  remove_ids_from_name runs BEFORE the utilization stages and strips '_<digits>' from kernel names, so
the name no longer matches its table row.  Property: each kernel slice listed with non-zero cycles gets pt_active ..."""
import sys; sys.path.insert(0, "/tmp/audit_C11/out")
import aud
log = open(aud.WT + "/tests/test_data/sample_comp_log_ideal.txt").read()
# fixture table: convolution_2 112896, convolution_1 12544, convolution 115248 (three DIFFERENT kernels)
tr = aud.make_trace([("convolution_2", 400000), ("convolution_1", 50000), ("convolution", 500000)])
res = {}
for tag, extra in (("default", []), ("async", ["-O", "async"])):
    r, evs, csvrows = aud.run("/tmp/audit_C11/out/3/w_" + tag, {"job-1.json": tr}, log, ["--freq", "1000:1024"] + extra)
    if evs is None:
        print("FAIL run aborted", tag, r.stderr[-600:]); sys.exit(1)
    ks = sorted(aud.kernel_slices(evs), key=lambda e: e["ts"])
    res[tag] = [(e["args"].get("orig_name", e["name"]), e["dur"], e["args"].get("pt_active")) for e in ks]
    print(" ", tag, res[tag], "counters:", len(aud.counters(evs)))
    print("     csv:", [(x["Category"], x["Calls"], x["Ideal_Cyc"]) for x in csvrows or [] if int(x["Calls"])])
exp = [112896 / 1024 / 400.0, 12544 / 1024 / 50.0, 115248 / 1024 / 500.0]
print("  expected pt_active per slice (cycles/1024/dur):", exp)
ok = all(g[2] is not None and abs(g[2] - x) < 1e-9 for g, x in zip(res["async"], exp)) and len(res["async"]) == 3
print("PASS" if ok else "FAIL")
