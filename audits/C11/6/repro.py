"""Candidate 6 (EXOTIC): kernel name with a character outside [_\\-a-zA-Z0-9] (JUNK 'name.with.dot-opCatX 55' is
classified as junk by the generator = mirrors _data_pattern).  Property: 'any kernels'."""
import sys; sys.path.insert(0, "/tmp/audit_C11/out")
import aud
rows = [aud.row("aten.add_1", "Broadcast", 2048), aud.row("mean", "Pooling", 1024)]
tr = aud.make_trace([("aten.add_1", 4000), ("mean", 2000)])
r, evs, csvrows = aud.run("/tmp/audit_C11/out/6/w", {"job-1.json": tr}, aud.table_log(rows), ["--freq", "1000:1024"])
ks = aud.kernel_slices(evs)
got = [(e["args"].get("orig_name", e["name"]), e["args"].get("pt_active")) for e in ks]
print("  observed:", got, [(x["Category"], x["Calls"]) for x in csvrows or [] if int(x["Calls"])])
print("  expected: pt_active 0.5 for both; aten.add_1 counted under Broadcast")
ok = all(p is not None and abs(p - 0.5) < 1e-9 for _, p in got) and any(x["Category"] == "Broadcast" and x["Calls"] == "1" for x in csvrows or [])
print("PASS" if ok else "FAIL")
