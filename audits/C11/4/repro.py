"""Candidate 4: zero-length Exec slice (TS3 == TS4) of a listed kernel.  scenario.gen_scenario forces 'Exec phase
non-empty'; c11 ASSUMPTION 2 / oracle skip 'degenerate durations'.  Property formula is undefined for dur = 0, so the
only thing asked here: the run completes and every REMAINING kernel slice is treated per the property."""
import sys; sys.path.insert(0, "/tmp/audit_C11/out")
import aud
rows = [aud.row("convolution_1", "Conv_fp16", 2048), aud.row("mean", "Pooling", 1024)]
ok = True
for extra in ([], ["-t"]):
    tr = aud.make_trace([("convolution_1", 4000), ("mean", 0), ("mean", 2000)])
    r, evs, csvrows = aud.run("/tmp/audit_C11/out/4/w", {"job-1.json": tr}, aud.table_log(rows), ["--freq", "1000:1024"] + extra)
    if evs is None:
        print("  ", extra, "run aborted:", r.stderr.strip().split("\n")[-1][:300]); ok = False; continue
    ks = aud.kernel_slices(evs)
    print("  ", extra, "exported kernel slices:", [(e["args"].get("orig_name", e["name"]), e["dur"], e["args"].get("pt_active")) for e in ks])
    print("      csv:", [(x["Category"], x["Calls"], x["Kernel_Time"]) for x in csvrows or []])
    n = sum(int(x["Calls"]) for x in csvrows if x["Category"] == "Total")
    ok &= n == len(ks) and all((e["args"].get("pt_active") is not None) for e in ks if e["dur"] > 0)
print("PASS" if ok else "FAIL")
