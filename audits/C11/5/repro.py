"""Candidate 5: 'DSM-AutoPilot BEGIN' line BEFORE the table (gen_log emits it only after the table; C11_single_table
requires not_start_auto for the prefix).  Property: 'Given a compiler log with one ideal-cycle table ...'"""
import sys; sys.path.insert(0, "/tmp/audit_C11/out")
import aud
rows = [aud.row("convolution_1", "Conv_fp16", 2048), aud.row("mean", "Pooling", 1024)]
tr = aud.make_trace([("convolution_1", 4000), ("mean", 2000)])
log = aud.table_log(rows, pre=["[DeepRT] ===== DSM-AutoPilot BEGIN =====", "[DeepRT] ===== DSM-AutoPilot END ====="])
r, evs, csvrows = aud.run("/tmp/audit_C11/out/5/w", {"job-1.json": tr}, log, ["--freq", "1000:1024"])
if evs is None:
    print("  observed: run ABORTED, rc", r.returncode, "-", r.stderr.strip().split("\n")[-1][:120], "(raised in compute_utilization -> accumulate_categories); no output json, no csv")
    print("  expected per property text: pt_active 0.5 for both slices, 4 counters, csv with Conv_fp16/Pooling rows")
    print("  (expected under the tool's own 'autopilot -> ignore table' intent: run completes without utilisation data)")
    print("FAIL"); sys.exit(0)
ks = aud.kernel_slices(evs)
got = [(e["args"].get("orig_name", e["name"]), e["args"].get("pt_active")) for e in ks]
print("  observed:", got, "counters:", len(aud.counters(evs)), "csv:", csvrows)
print("  expected per property text: pt_active 0.5 for both slices, 4 counters, csv with Conv_fp16/Pooling rows")
print("  tool messages:", [l for l in (r.stdout + r.stderr).split("\n") if "UTL" in l or "utopilot" in l][:5])
ok = all(p is not None and abs(p - 0.5) < 1e-9 for _, p in got) and csvrows
print("PASS" if ok else "FAIL")
