"""Candidate 1: Ideal_Cyc in <out>_categories.csv at the DEFAULT --freq (1000:1100), with the repository's OWN fixture
compiler log (tests/test_data/sample_comp_log_ideal.txt): int(ideal/(1/core)) truncates a double quotient.
Property: every slice counted once in its category; Total row = sum of the category rows."""
import sys; sys.path.insert(0, "/tmp/audit_C11/out")
import aud
log = open(aud.WT + "/tests/test_data/sample_comp_log_ideal.txt").read()
# one slice each of three kernels of the fixture table: convolution_2 (112896, Conv_fp16), addmm_MatMul (2048, Bmm_fp16),
# convolution (115248, ConvOs1_fp16)
tr = aud.make_trace([("convolution_2", 400000), ("addmm_MatMul", 30000), ("convolution", 500000)])
r, evs, csvrows = aud.run("/tmp/audit_C11/out/1/w", {"job-1.json": tr}, log, [])     # default --freq 1000:1100
if csvrows is None:
    print("FAIL run produced no csv", r.stderr[-800:]); sys.exit(1)
by = {x["Category"]: x for x in csvrows}
exp = {"Conv_fp16": 112896, "Bmm_fp16": 2048, "ConvOs1_fp16": 115248}
ok = True
for k, v in exp.items():
    got = int(by[k]["Ideal_Cyc"])
    print(f"  {k}: Ideal_Cyc expected {v} (one slice of a kernel listed with {v} cycles), observed {got}")
    ok &= got == v
s = sum(int(x["Ideal_Cyc"]) for x in csvrows if x["Category"] != "Total")
t = int(by["Total"]["Ideal_Cyc"])
print(f"  Total.Ideal_Cyc observed {t}; sum of the category rows observed {s}; expected both {sum(exp.values())}")
ok &= (t == s == sum(exp.values()))
f = 1.0 / 1100.0
print("  (cycle values 1..200000 that lose a unit at core=1100:", sum(int((c * f) / f) != c for c in range(1, 200000)), ")")
# part B: Total row vs. sum of the category rows (small cycle counts, still default frequency)
rows = [aud.row("convolution_1", "Conv_fp16", 35), aud.row("addmm_MatMul", "Bmm_fp16", 70), aud.row("mean", "Pooling", 2048)]
tr = aud.make_trace([("convolution_1", 4000), ("addmm_MatMul", 3000), ("mean", 5000)])
r, evs, csvrows = aud.run("/tmp/audit_C11/out/1/w2", {"job-1.json": tr}, aud.table_log(rows), [])
s = sum(int(x["Ideal_Cyc"]) for x in csvrows if x["Category"] != "Total")
t = [int(x["Ideal_Cyc"]) for x in csvrows if x["Category"] == "Total"][0]
print(f"  part B: Total.Ideal_Cyc observed {t}; sum of the category rows observed {s}; expected equal (2153)")
ok &= (t == s == 2153)
print("PASS" if ok else "FAIL")
