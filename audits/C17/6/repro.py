"""C17 audit #6: 'enlarging ... the window never removes a previously kept slice' is only checked/proved when the count
bound is not binding under the wider window (c17.py ASSUMPTIONS[3], check_mono `return None`, run(): window_binding_skipped;
C17.v C17_monotone_window hypothesis cntd c2 es <= limit_of c).  Literal clause on a binding bound:"""
import sys; sys.path.insert(0, "/tmp/audit_C17/out")
from common import *
ev = [X(0, 1, 2), X(1, 12, 2, tid=1)]
a = run(ev, cfg={"count": 1, "ts_start": 10.0, "ts_end": 20.0})["uids"]
b = run(ev, cfg={"count": 1, "ts_start": 0.0, "ts_end": 20.0})["uids"]
print("window [10,20] count 1 keeps", a, "; wider window [0,20] count 1 keeps", b)
lit = set(a) <= set(b)
print("literal monotone-in-window clause:", "PASS" if lit else "FAIL")
print("position rule (first clause of the same property) on the wider window demands exactly [0]:", "PASS" if b == [0] else "FAIL")
print("=> the two clauses of the statement cannot both hold here; no implementation can PASS both")
