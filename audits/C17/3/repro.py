"""C17 audit #3: events that are neither slices nor metadata (counter 'C', instant 'i') in the input.
Property: a slice's position is its rank AMONG SUCH SLICES (in-window slices) in arrival order; filter: a SLICE is
dropped iff ...  The check redefines 'slice' as 'every event whose type is not in no_count_types' for the limit
(ASSUMPTIONS[1], o_limit_keep) but as 'X only' for the filter (o_expected: ph != 'X' -> keep).  Whatever 'slice' means,
one of the two clauses is read differently from the other.  Input: an acelyzer output fed back (it contains counters),
or any trace with instant events."""
import sys; sys.path.insert(0, "/tmp/audit_C17/out")
from common import *
C = lambda k, ts: {"ph": "C", "name": "ctr", "pid": 0, "tid": 0, "ts": float(ts), "args": {"v": k}}
I = lambda k, ts: {"ph": "i", "name": "mark", "pid": 0, "tid": 0, "ts": float(ts), "s": "g", "args": {"v": k}}
ev = [C(0, 1), I(1, 1), X(0, 1, 2), X(1, 4, 2, tid=1), X(2, 7, 2, tid=2)]
ok = True
r = run(ev, cfg={"count": 2})
exp = [0, 1]
print("limit {count:2} with a counter and an instant event first: expected slices (rank among slices)", exp,
      "observed", r.get("uids"), r.get("error") or "")
ok &= r.get("uids") == exp
r = run(ev, cfg={"skip": 2, "count": 1})
exp = [2]
print("limit {skip:2,count:1}: expected", exp, "observed", r.get("uids"), r.get("error") or "")
ok &= r.get("uids") == exp
print("PASS" if ok else "FAIL (reading 'slice' = X; under the reading 'slice' = every non-metadata event the limit part "
      "passes and the filter part - counters named by a filter are not dropped - fails instead)")
r = run(ev, flt="name:^ctr$,name:^mark$", raw=True)
print("filter name:^ctr$,name:^mark$ : C/i events still in output:",
      [(e["ph"], e["name"]) for e in r.get("events", []) if e.get("ph") in "Ci"])
