"""C17 audit #5: WHICH representation of the slice does the filter see?  c17.py o_view copies the implementation's four
normalisation steps (attr->args, hex->decimal TS/Power, Receive/RDMA name unification, Bytes->bytes) into the oracle
(corpus 05, 06, 07, 12 expect the same).  The property only says 'matches the named attribute'.
Two readings: INPUT view (the attribute as written in the trace file the user has) / OUTPUT view (as exported)."""
import sys; sys.path.insert(0, "/tmp/audit_C17/out")
from common import *
ev = [X(0, 1, 2, name="alpha Receive", Power="0x1f", Bytes=128), X(1, 4, 2, tid=1, name="beta Recv", Power="31"),
      X(2, 7, 2, tid=2, name="gamma")]
base = run(ev)
print("exported names/args:", [(e["name"], {k: e["args"].get(k) for k in ("Power", "Bytes", "bytes") if k in e["args"]})
                               for e in base["events"] if e.get("ph") == "X"])
rows = [("name:Receive", [1, 2], [0, 1, 2]), ("name:Recv", [0, 2], [2]), ("args.Power:^0x1f$", [1, 2], [0, 1, 2]),
        ("args.Power:^31$", [0, 2], [2]), ("args.Bytes:128", [1, 2], [0, 1, 2]), ("args.bytes:128", [0, 1, 2], [1, 2])]
inp_ok = out_ok = True
for flt, exp_in, exp_out in rows:
    r = run(ev, flt=flt)
    print(f"{flt:22s} observed {r.get('uids')}  input-view expects {exp_in}  output-view expects {exp_out}")
    inp_ok &= r.get("uids") == exp_in
    out_ok &= r.get("uids") == exp_out
print("input view :", "PASS" if inp_ok else "FAIL")
print("output view:", "PASS" if out_ok else "FAIL")
