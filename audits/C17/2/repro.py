"""C17 audit #2: an attribute:regex pair whose REGEX contains ':' (aten::add, (?:a|b), [[:...]]) is thrown away whole.
Property: dropped iff one of the attribute:regex pairs matches the named attribute.  'name:aten::add' is the pair
(attribute 'name', regex 'aten::add'): the first ':' ends the attribute (attribute names never contain ':').
The check mirrors str.split(':') == 2 parts (c17.py filter_entries: f.count(':') == 1; gen_filter lists 'a:b:c' and
'name:(?:Recv|XYZ)' as 'malformed' entries that must be ignored)."""
import sys; sys.path.insert(0, "/tmp/audit_C17/out")
from common import *
ok = True
ev = [X(0, 1, 2, name="aten::add"), X(1, 4, 2, tid=1, name="aten::mul"), X(2, 7, 2, tid=2, name="other Recv")]
for flt, exp in (("name:aten::add", [1, 2]), ("name:(?:add|mul)$", [2]), ("name:^aten::", [2])):
    r = run(ev, flt=flt)
    warn = [l.split("WARNING")[-1].strip() for l in r.get("log", "").splitlines() if "FLTR" in l and "WARN" in l]
    print(f"filter {flt!r}: expected uids {exp} observed {r.get('uids')} {r.get('error') or ''} log: {warn}")
    ok &= r.get("uids") == exp
print("PASS" if ok else "FAIL")
# the same on a torch-profiler style input (object with deviceProperties; operator names are 'aten::...')
tev = []
for k, (n, kn) in enumerate([("aten::mm", "mm_kernel"), ("aten::add", "add_kernel"), ("aten::mm", "mm_kernel")]):
    t = 1000.0 + 300 * k
    tev.append({"ph": "X", "cat": "cpu_op", "name": n, "pid": 0, "tid": 7, "ts": t, "dur": 100.0, "args": {"External id": k + 1, "uid": 2 * k}})
    tev.append({"ph": "X", "cat": "kernel", "name": kn, "pid": 0, "tid": 9, "ts": t + 5, "dur": 25.0,
                "args": {"External id": k + 1, "correlation": 10 + k, "uid": 2 * k + 1}})
prof = {"deviceProperties": [{"id": 0, "name": "AIU", "type": "aiu"}], "traceEvents": tev}
r0 = run(prof, name="torch_rank0.json")
r = run(prof, flt="name:aten::mm", name="torch_rank0.json")
exp = [u for u in r0.get("uids", []) if u not in (0, 4)]
print(f"torch profile, filter 'name:aten::mm': baseline {r0.get('uids')} expected {exp} observed {r.get('uids')} {r.get('error') or ''}")
print("PASS" if r.get("uids") == exp else "FAIL")
