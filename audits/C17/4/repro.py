"""C17 audit #4: slices given as B/E pairs (what the FLEX test data of /repo contains) - the check's end-to-end generator
(c17.py gen_e2e_events) only ever writes complete 'X' events.  Adjacent pairs: arrival order is unambiguous.
(Zero-length slices are skipped by ingestion with a documented warning and 'Cmpt Prep' slices are consumed by the default
prep_queue counter - both also WITHOUT any limit/filter, see notes.md - so they are left out of the expectation here.)"""
import re
import sys; sys.path.insert(0, "/tmp/audit_C17/out")
from common import *
def BE(uid, ts, dur, name="alpha", tid=0, **a):
    args = {"uid": uid}; args.update(a)
    return [{"ph": "B", "name": name, "pid": 0, "tid": tid, "ts": float(ts), "args": args},
            {"ph": "E", "name": name, "pid": 0, "tid": tid, "ts": float(ts + dur), "args": args}]
def oracle(sl, cfg, flt_name=None):
    a, b = cfg.get("ts_start", 0.0), cfg.get("ts_end", 1e308); sk, ct = cfg.get("skip", 0), cfg.get("count", 1 << 60)
    pos, keep = 0, []
    for uid, ts, dur, name in sl:
        if ts + dur >= a and ts <= b:
            pos += 1
            if sk < pos <= sk + ct and not (flt_name and re.search(flt_name, name)):
                keep.append(uid)
    return sorted(keep)
sl = [(0, 2, 3, "alpha"), (1, 5, 1, "beta Recv"), (2, 4, 4, "gamma"), (3, 8, 1, "alpha"), (4, 10, 2, "delta"), (5, 12, 1, "eps")]
ev = [M(0)]
for i, (u, ts, d, n) in enumerate(sl):
    ev += BE(u, ts, d, n, tid=i)
    if i == 2:
        ev.append(M(1))
ok = True
for cfg, fl in (({}, None), ({"count": 3}, None), ({"skip": 1, "count": 2}, None), ({"ts_start": 5.0, "ts_end": 8.0}, None),
                ({"ts_start": 5.0 + 1 / 1024, "ts_end": 8.0 - 1 / 1024, "count": 2}, None), ({"skip": 1}, "^alpha$"),
                ({"ts_start": 12.0}, None), ({"ts_end": 2.0}, None), ({"ts_start": 6.0, "ts_end": 8.0, "skip": 1, "count": 1}, None)):
    r = run(ev, cfg=cfg or None, flt=("name:" + fl) if fl else None)
    exp = oracle(sl, cfg, fl)
    metas = sum(1 for e in r.get("events", []) if e.get("ph") == "M" and str(e.get("args", {}).get("name", "")).startswith("c17m"))
    good = r.get("uids") == exp and metas == 2
    ok &= good
    print("ok  " if good else "DIFF", cfg, fl, "expected", exp, "observed", r.get("uids"), "metadata", metas, r.get("error") or "")
print("PASS" if ok else "FAIL")
