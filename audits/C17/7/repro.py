"""C17 audit #7 (exotic input): inverted window ts_start > ts_end.  c17.py o_limit_keep states 'intersects' as
ts+dur >= a and ts <= b, which is the implementation's formula and equals set intersection only for a <= b;
gen_cfg draws both bounds independently, so inverted windows ARE generated and the mirrored formula is expected.
Literal property: [ts_start, ts_end] is empty, nothing intersects it, no slice may be kept."""
import sys; sys.path.insert(0, "/tmp/audit_C17/out")
from common import *
ev = [X(0, 1, 20), X(1, 4, 2, tid=1), X(2, 30, 2, tid=2)]
r = run(ev, cfg={"ts_start": 10.0, "ts_end": 5.0})
print("window [10, 5]: expected [] observed", r.get("uids"), r.get("error") or "")
print("PASS" if r.get("uids") == [] else "FAIL")
