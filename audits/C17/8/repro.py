"""C17 audit #8: ASSUMPTIONS[4] 'times on the exact grid (multiples of 2^-10 below 2^43) so that ts+dur is exact'.
Real traces carry epoch microseconds (~1.7e15, binary64 spacing 0.25 us) with arbitrary fractions.  The implementation
compares fl(ts+dur) >= ts_start.  Rounding is monotone, so a slice whose exact end reaches ts_start is never lost; the
only possible deviation is a slice kept although its exact end lies < 1 ulp below ts_start."""
import sys; sys.path.insert(0, "/tmp/audit_C17/out")
from fractions import Fraction
from common import *
T = 1.7e15
ev = [X(0, T, 0.2), X(1, T + 4, 2, tid=1)]
start = T + 0.25
exact_end = Fraction(T) + Fraction(0.2)
print("exact end of slice 0 < ts_start:", exact_end < Fraction(start), " float end >= ts_start:", T + 0.2 >= start)
r = run(ev, cfg={"ts_start": start})
print("expected (real arithmetic) [1] observed", r.get("uids"), r.get("error") or "")
print("PASS" if r.get("uids") == [1] else "FAIL (by less than one ulp = 0.25 us at this magnitude)")
# the direction that would LOSE a slice cannot occur: exhaustive-ish random search
import random
rnd = random.Random(1); bad = 0
for _ in range(200000):
    ts = rnd.uniform(0, 2e15); dur = rnd.uniform(0, 1e3); a = rnd.choice([ts + dur, ts + dur + rnd.uniform(-1, 1)])
    if Fraction(ts) + Fraction(dur) >= Fraction(a) and not (ts + dur >= a):
        bad += 1
print("slices lost by rounding in 200000 random triples:", bad)
