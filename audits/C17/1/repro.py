"""C17 audit #1: attribute path that continues below a string leaf (args.Type.x).
Property: a slice is dropped IFF one of the attribute:regex pairs matches the NAMED (possibly nested) attribute, every
other slice is still exported.  No slice has an attribute args.Type.x, so nothing may be dropped and the run must finish.
The check excludes this ("outside the claimed domain", ASSUMPTIONS[2], o_filtered -> None, corpus 08 tagged quirk)."""
import sys; sys.path.insert(0, "/tmp/audit_C17/out")
from common import *
ok = True
ev = [X(0, 1, 2, Type="T1"), X(1, 4, 2, tid=1, Type="T0"), X(2, 7, 2, tid=2, Type="T10")]
r = run(ev, flt="args.Type.x:^T1$")
exp = [0, 1, 2]
print("A filter args.Type.x:^T1$   expected uids", exp, "observed", r.get("uids"), r.get("error"))
ok &= r.get("uids") == exp
# B: the last path component happens to be a substring of the leaf: the run aborts
r = run(ev, flt="args.Type.T:zzz")
print("B filter args.Type.T:zzz    expected uids", exp, "observed", r.get("uids"), r.get("error"))
ok &= r.get("uids") == exp
# C: path below an int leaf (pid)
r = run(ev, flt="pid.x:zzz")
print("C filter pid.x:zzz          expected uids", exp, "observed", r.get("uids"), r.get("error"))
ok &= r.get("uids") == exp
# D: heterogeneous trace: args.info is a dict in one slice and a plain string in another; filter on args.info.kind
ev2 = [X(0, 1, 2, info={"kind": "dma"}), X(1, 4, 2, tid=1, info="dma summary"), X(2, 7, 2, tid=2, info={"kind": "cmp"})]
r = run(ev2, flt="args.info.kind:^dma")
print("D filter args.info.kind:^dma    expected uids [1, 2] (slice 1 has no args.info.kind) observed", r.get("uids"), r.get("error"))
ok &= r.get("uids") == [1, 2]
print("PASS" if ok else "FAIL")
