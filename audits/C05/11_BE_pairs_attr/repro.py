# ---- shared helper (inlined into every repro.py) -------------------------------------------------------------
import contextlib, io, json, os, shutil, sys, tempfile, traceback
WT = "/tmp/audit_C05/wt"
sys.path.insert(0, WT + "/src")
W = 1 << 32
PH_REF = {"DmaI": 0, "Cmpt Prep": 1, "Cmpt Exec": 2, "DmaO": 3}
PH_AB = {"DmaI": (0, 1), "Cmpt Prep": (1, 2), "Cmpt Exec": (2, 3), "DmaO": (3, 4)}


def phase(name):
    for p in PH_REF:
        if name.endswith(" " + p):
            return p
    return None


def dev(uid, pid, name, cs, f, H, be=False, attr=False, fmt=hex, dur=None, numeric=False):
    """device slice per the property: raw TSk = ck mod 2^32, host ts = H + c_ref/f, dur = phase length"""
    p = phase(name)
    r = PH_REF.get(p, 0)
    a, b = PH_AB.get(p, (0, 4))
    ts = H + cs[r] / f
    d = (cs[b] - cs[a]) / f if dur is None else dur
    args = {f"TS{k+1}": ((c % W) if numeric else fmt(c % W)) for k, c in enumerate(cs)}
    args["uid"] = uid
    key = "attr" if attr else "args"
    if be:
        return [{"ph": "B", "pid": pid, "tid": 7, "name": name, "ts": ts, key: dict(args)},
                {"ph": "E", "pid": pid, "tid": 7, "name": name, "ts": ts + d, key: dict(args)}]
    return [{"ph": "X", "pid": pid, "tid": 7, "name": name, "ts": ts, "dur": d, key: args}]


def run_acelyzer(files, f, opts=(), keep_prep=True):
    """files: {filename: [events]} -> (error string | None, {uid: exported X slice})"""
    from aiu_trace_analyzer.core.acelyzer import Acelyzer
    d = tempfile.mkdtemp(prefix="c05a_")
    try:
        paths = []
        for fn, evs in files.items():
            p = os.path.join(d, fn)
            json.dump(evs, open(p, "w"))
            paths.append(p)
        outp = os.path.join(d, "out.json")
        argv = ["-i", ",".join(paths), "-o", outp, "--freq", repr(f), "-D", "0"] + (["--keep_prep"] if keep_prep else []) + list(opts)
        buf = io.StringIO()
        try:
            with contextlib.redirect_stdout(buf), contextlib.redirect_stderr(buf):
                rc = Acelyzer(argv).run()
        except SystemExit as ex:
            return f"SystemExit({ex.code})", {}
        except BaseException as ex:  # noqa
            tb = traceback.extract_tb(ex.__traceback__)[-1]
            return f"{type(ex).__name__}: {ex} @ {os.path.basename(tb.filename)}:{tb.lineno} {tb.name}", {}
        if rc not in (0, None):
            return f"rc={rc}", {}
        # output may be split in several files
        out = {}
        cands = [x for x in os.listdir(d) if x.startswith("out") and x.endswith(".json")]
        for c in cands:
            res = json.load(open(os.path.join(d, c)))
            for x in (res["traceEvents"] if isinstance(res, dict) else res):
                a = x.get("args")
                if x.get("ph") == "X" and isinstance(a, dict) and "uid" in a and "TS1" in a:
                    out.setdefault(a["uid"], []).append(x)
        return None, out
    finally:
        shutil.rmtree(d, ignore_errors=True)


def judge(truth, err, out, rank_of=None, expect_all=True):
    """truth: {uid: (rankkey, name, [c1..c5])}. Property text: per rank ONE multiple of 2^32; sorted; congruent."""
    ok = True
    if err:
        print("  run aborted:", err)
        print("  expected (property): every slice exported with TSk' = ck + C(rank)*2^32")
        return False
    consts = {}
    for uid, (rk, name, cs) in sorted(truth.items()):
        xs = out.get(uid, [])
        if len(xs) != 1:
            print(f"  uid {uid} {name!r}: exported {len(xs)} times")
            ok = ok and not expect_all
            continue
        a = xs[0]["args"]
        ts = [int(a[f"TS{k}"]) for k in range(1, 6)]
        dl = [t - c for t, c in zip(ts, cs)]
        srt = all(ts[k] <= ts[k + 1] for k in range(4))
        cong = all((t - c) % W == 0 for t, c in zip(ts, cs))
        one = len(set(dl)) == 1
        print(f"  rank {rk} uid {uid} {name!r}: true={cs} out={ts} OVC={a.get('OVC')} "
              f"offset/2^32={[x / W for x in dl] if not one else dl[0] / W} sorted={srt} congruent={cong}")
        ok = ok and srt and cong and one
        consts.setdefault(rk, set()).update(dl)
    for rk, s in consts.items():
        if len(s) != 1:
            print(f"  rank {rk}: offsets differ between slices: {sorted(x / W for x in s)} x 2^32  (expected ONE)")
            ok = False
    # ordering consequence
    byrank = {}
    for uid, (rk, name, cs) in truth.items():
        if len(out.get(uid, [])) == 1:
            byrank.setdefault(rk, []).append((cs[0], int(out[uid][0]["args"]["TS1"]), uid))
    for rk, l in byrank.items():
        if [u for _, _, u in sorted(l)] != [u for _, _, u in sorted(l, key=lambda t: (t[1], t[0]))]:
            print(f"  rank {rk}: order by corrected TS1 differs from order by true device time")
            ok = False
    return ok
# ---- end helper ----------------------------------------------------------------------------------------------

import io, contextlib
def K(base, g=1000): return [base, base + g, base + 2 * g, base + 3 * g, base + 4 * g]
def mk(specs, H=4096.0, f=1024.0, uid0=0, rk=None, **kw):
    evs, truth = [], {}
    for i, (pid, name, cs) in enumerate(specs):
        uid = uid0 + i
        evs += dev(uid, pid, name, cs, f, H, **kw); truth[uid] = ((pid if rk is None else rk), name, cs)
    return evs, truth
def verdict(ok): print("PASS" if ok else "FAIL")

f = 1024.0
specs = [(0, "k0 DmaI", K(2*W-5000)), (0, "k0 Cmpt Exec", K(2*W-2500)), (0, "k1 DmaO", K(3*W+10000)), (0, "k2 Cmpt Exec", K(3*W+20000))]
evs, truth = mk(specs, f=f, be=True, attr=True)
verdict(judge(truth, *run_acelyzer({"r0.json": evs}, f)))
