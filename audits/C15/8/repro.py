# common header, copied verbatim into each repro (kept self-contained)
import sys, os, json, tempfile, subprocess
WT = "/tmp/audit_C15/wt/src"
sys.path.insert(0, WT)
def write(files, names=None):
    d = tempfile.mkdtemp(prefix="c15_")
    ps = []
    for i, f in enumerate(files):
        p = os.path.join(d, names[i] if names else f"rank{i}.json")
        with open(p, "w") as fh: json.dump(f, fh)
        ps.append(p)
    return d, ps
def ingest(paths):
    """the anchor: iterate the real MultifileIngest exactly as Engine.run does (one for loop)"""
    import aiu_trace_analyzer.logger as aiulog
    from aiu_trace_analyzer.ingest.ingestion import MultifileIngest
    old = aiulog.loglevel; aiulog.loglevel = -1
    out, err = [], None
    m = MultifileIngest(",".join(paths))
    try:
        for e in m: out.append(e)
    except Exception as ex: err = ex
    cnt = [(g.warnings["zero_duration"].args_list["count"], g.warnings["negative_duration"].args_list["count"], g.rank_pid) for g in m.ingesters]
    for g in list(m.ingesters) + [m]:
        for w in g.warnings.values(): w.auto_log = False
    aiulog.loglevel = old
    return out, err, cnt
def cli(paths, d):
    """the documented entry point, as a subprocess: returns (returncode, combined output, events of the result file or None)"""
    o = os.path.join(d, "out.json")
    p = subprocess.run([sys.executable, "-c", "import sys; from aiu_trace_analyzer.core.acelyzer import Acelyzer; sys.exit(Acelyzer(sys.argv[1:]).run())",
                        "-i", ",".join(paths), "-o", o], env=dict(os.environ, PYTHONPATH=WT), capture_output=True, text=True)
    evs = None
    if os.path.exists(o):
        j = json.load(open(o)); evs = j["traceEvents"] if isinstance(j, dict) else j
    return p.returncode, p.stdout + p.stderr, evs
def X(uid, ts, pid, dur=1.0, **kw):
    e = {"uid": uid, "ph": "X", "name": "op", "ts": ts, "dur": dur, "pid": pid, "tid": 1, "args": {}}
    e.update(kw); return e
# ---- candidate 8: expectations that follow the code, judged OUTSIDE the property's domain (observations only)
def show(tag, files, expect):
    d, ps = write(files); out, err, cnt = ingest(ps)
    print(f"{tag}\n    expected by the property text: {expect}\n    observed: uids {[e.get('uid') for e in out]}, error {err!r}, (zero, neg, rank) {cnt}")
# 8a processed file (otherData.Application = Acelyzer...) -> all events dropped, WARN "Dropping ALL Events from file"
show("8a processed file", [{"traceEvents": [X(1, 1, 0), X(2, 2, 0)], "otherData": {"Application": "Acelyzer 1.0"}}, [X(1001, 1, 1)]],
     "uids 1, 2, 1001 (text) / deliberate guard against re-importing results")
# 8b 0 < dur <= 1e-9 us counted as zero
show("8b dur 5e-10", [[X(1, 1, 0, dur=5e-10)]], "kept (positive) / zero up to float tolerance")
# 8c file ending in B without E: silently dropped, no warning, no error
show("8c trailing B", [[X(1, 1, 0), {"uid": 2, "ph": "B", "name": "p", "ts": 2, "pid": 0, "tid": 1}]], "not a B/E pair: outside 'mixes of X and B/E pairs'")
# 8d counter / instant with dur 0: dropped as 'zero duration CompleteEvent'
show("8d counter with dur 0", [[X(1, 1, 0), {"uid": 2, "ph": "C", "name": "c", "ts": 2, "pid": 0, "dur": 0, "args": {"v": 1}}]], "uid 2 kept (not a slice) - exotic: counters carry no dur")
# 8e distributedInfo.rank in a FLEX file overrides the first pid
show("8e preset rank", [{"traceEvents": [X(1, 1, 2), X(2, 2, 4)], "distributedInfo": {"rank": 6}}], "rank 2 (text) / explicit rank source wins")
print("PASS (no verdict: all five are outside the domain or deliberate; see notes.md)")
