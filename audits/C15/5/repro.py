# common header, copied verbatim into each repro (kept self-contained)
import sys, os, json, tempfile, subprocess
WT = "/tmp/audit_C15/wt/src"
sys.path.insert(0, WT)
def write(files, names=None):
    d = tempfile.mkdtemp(prefix="c15_")
    ps = []
    for i, f in enumerate(files):
        p = os.path.join(d, names[i] if names else f"rank{i}.json")
        with open(p, "w") as fh: json.dump(f, fh)
        ps.append(p)
    return d, ps
def ingest(paths):
    """the anchor: iterate the real MultifileIngest exactly as Engine.run does (one for loop)"""
    import aiu_trace_analyzer.logger as aiulog
    from aiu_trace_analyzer.ingest.ingestion import MultifileIngest
    old = aiulog.loglevel; aiulog.loglevel = -1
    out, err = [], None
    m = MultifileIngest(",".join(paths))
    try:
        for e in m: out.append(e)
    except Exception as ex: err = ex
    cnt = [(g.warnings["zero_duration"].args_list["count"], g.warnings["negative_duration"].args_list["count"], g.rank_pid) for g in m.ingesters]
    for g in list(m.ingesters) + [m]:
        for w in g.warnings.values(): w.auto_log = False
    aiulog.loglevel = old
    return out, err, cnt
def cli(paths, d):
    """the documented entry point, as a subprocess: returns (returncode, combined output, events of the result file or None)"""
    o = os.path.join(d, "out.json")
    p = subprocess.run([sys.executable, "-c", "import sys; from aiu_trace_analyzer.core.acelyzer import Acelyzer; sys.exit(Acelyzer(sys.argv[1:]).run())",
                        "-i", ",".join(paths), "-o", o], env=dict(os.environ, PYTHONPATH=WT), capture_output=True, text=True)
    evs = None
    if os.path.exists(o):
        j = json.load(open(o)); evs = j["traceEvents"] if isinstance(j, dict) else j
    return p.returncode, p.stdout + p.stderr, evs
def X(uid, ts, pid, dur=1.0, **kw):
    e = {"uid": uid, "ph": "X", "name": "op", "ts": ts, "dur": dur, "pid": pid, "tid": 1, "args": {}}
    e.update(kw); return e
# ---- candidate 5: oracle checks the global order only if every file's stream is sorted by the CODE's key (missing ts = 0)
# (c15.py:321-326, hypothesis streams_sorted of C15_merge_sorted).  A file "X ts=5, M without ts, X ts=6" is ordered by ts
# in the property's sense (its events that have a ts are ordered) but is never order-checked.
# Property reading used here: if the ts-carrying events of every file are non-decreasing, the ts-carrying events of the
# merged stream are non-decreasing (and nothing is lost).
import random
r = random.Random(15)
bad = 0; n_mid = 0
for it in range(4000):
    files = []
    for fi in range(r.choice([1, 2, 3, 4, 5])):
        t = r.choice([0, 0, 1, 2.5]); evs = []
        for j in range(r.choice([0, 1, 2, 3, 5, 8])):
            uid = fi * 1000 + 2 * j
            t += r.choice([0, 0, 1, 0.5, 2])
            x = r.random()
            if x < 0.35:
                evs.append({"uid": uid, "ph": "M", "name": "thread_name", "pid": fi, "tid": 1, "args": {"name": "t"}})
                n_mid += j > 0
            elif x < 0.7:
                evs.append(X(uid, t, fi))
            else:
                evs += [{"uid": uid, "ph": "B", "name": "p", "ts": t, "pid": fi, "tid": 1},
                        {"uid": uid + 1, "ph": "E", "name": "p", "ts": t + 1, "pid": fi, "tid": 1}]
        files.append(evs)
    d, ps = write(files)
    out, err, cnt = ingest(ps)
    want = sorted(e["uid"] for f in files for e in f if e["ph"] != "E")
    ts = [e["ts"] for e in out if "ts" in e]
    if err is not None or sorted(e["uid"] for e in out) != want or any(a > b for a, b in zip(ts, ts[1:])):
        bad += 1; print("violation:", json.dumps(files), ts, err)
    import shutil; shutil.rmtree(d)
print(f"4000 random sets, {n_mid} ts-less metadata events in mid-file: violations {bad}")
# exotic sub-case: NEGATIVE timestamps together with a ts-less event (key 0 is then not the minimum)
d, ps = write([[{"uid": 1, "ph": "M", "name": "process_name", "pid": 0, "args": {"name": "a"}}, X(2, -5.0, 0)], [X(1001, -3.0, 1)]])
out, err, cnt = ingest(ps)
ts = [e["ts"] for e in out if "ts" in e]
print("exotic (negative ts): merged ts sequence", ts, "-> out of order" if ts != sorted(ts) else "-> ordered")
print("PASS" if bad == 0 else "FAIL", "(non-negative timestamps; the negative-ts sub-case is exotic and reported separately)")
