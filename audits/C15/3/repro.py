# common header, copied verbatim into each repro (kept self-contained)
import sys, os, json, tempfile, subprocess
WT = "/tmp/audit_C15/wt/src"
sys.path.insert(0, WT)
def write(files, names=None):
    d = tempfile.mkdtemp(prefix="c15_")
    ps = []
    for i, f in enumerate(files):
        p = os.path.join(d, names[i] if names else f"rank{i}.json")
        with open(p, "w") as fh: json.dump(f, fh)
        ps.append(p)
    return d, ps
def ingest(paths):
    """the anchor: iterate the real MultifileIngest exactly as Engine.run does (one for loop)"""
    import aiu_trace_analyzer.logger as aiulog
    from aiu_trace_analyzer.ingest.ingestion import MultifileIngest
    old = aiulog.loglevel; aiulog.loglevel = -1
    out, err = [], None
    m = MultifileIngest(",".join(paths))
    try:
        for e in m: out.append(e)
    except Exception as ex: err = ex
    cnt = [(g.warnings["zero_duration"].args_list["count"], g.warnings["negative_duration"].args_list["count"], g.rank_pid) for g in m.ingesters]
    for g in list(m.ingesters) + [m]:
        for w in g.warnings.values(): w.auto_log = False
    aiulog.loglevel = old
    return out, err, cnt
def cli(paths, d):
    """the documented entry point, as a subprocess: returns (returncode, combined output, events of the result file or None)"""
    o = os.path.join(d, "out.json")
    p = subprocess.run([sys.executable, "-c", "import sys; from aiu_trace_analyzer.core.acelyzer import Acelyzer; sys.exit(Acelyzer(sys.argv[1:]).run())",
                        "-i", ",".join(paths), "-o", o], env=dict(os.environ, PYTHONPATH=WT), capture_output=True, text=True)
    evs = None
    if os.path.exists(o):
        j = json.load(open(o)); evs = j["traceEvents"] if isinstance(j, dict) else j
    return p.returncode, p.stdout + p.stderr, evs
def X(uid, ts, pid, dur=1.0, **kw):
    e = {"uid": uid, "ph": "X", "name": "op", "ts": ts, "dur": dur, "pid": pid, "tid": 1, "args": {}}
    e.update(kw); return e
# ---- candidate 3: the first event of a FLEX file is not a slice/metadata event (counter 'C' or flow 's') and carries
# another pid than the following slices.  Property: "all events of a FLEX file are attributed to the rank given by the
# pid of its first event".  Check (harness oracle + C15_rank_attr): "first ANNOTATED event", counters left untouched.
fails = []
for tag, first in {"counter first": {"uid": 1, "ph": "C", "name": "power", "ts": 0.5, "pid": 7, "args": {"W": 3}},
                   "flow start first": {"uid": 1, "ph": "s", "name": "fl", "cat": "c", "id": 9, "ts": 0.5, "pid": 7, "tid": 1}}.items():
    f0 = [first, X(2, 1.0, 3), X(3, 2.0, 7), {"uid": 4, "ph": "C", "name": "power", "ts": 2.5, "pid": 7, "args": {"W": 4}}]
    d, ps = write([f0])
    out, err, cnt = ingest(ps)
    exp_rank = 7                        # pid of the first event of the file
    obs = [(e["uid"], e["ph"], e["pid"], (e.get("args") or {}).get("rank")) for e in out]
    ok = err is None and all(p == exp_rank for _, _, p, _ in obs) and all(r == exp_rank for _, ph, _, r in obs if ph == "X")
    print(f"{tag}: expected every event on pid/rank {exp_rank}; observed (uid, ph, pid, args.rank) = {obs}, rank_pid of the file = {cnt[0][2]}")
    if not ok: fails.append(tag)
print("FAIL" if fails else "PASS", fails)
