# common header, copied verbatim into each repro (kept self-contained)
import sys, os, json, tempfile, subprocess
WT = "/tmp/audit_C15/wt/src"
sys.path.insert(0, WT)
def write(files, names=None):
    d = tempfile.mkdtemp(prefix="c15_")
    ps = []
    for i, f in enumerate(files):
        p = os.path.join(d, names[i] if names else f"rank{i}.json")
        with open(p, "w") as fh: json.dump(f, fh)
        ps.append(p)
    return d, ps
def ingest(paths):
    """the anchor: iterate the real MultifileIngest exactly as Engine.run does (one for loop)"""
    import aiu_trace_analyzer.logger as aiulog
    from aiu_trace_analyzer.ingest.ingestion import MultifileIngest
    old = aiulog.loglevel; aiulog.loglevel = -1
    out, err = [], None
    m = MultifileIngest(",".join(paths))
    try:
        for e in m: out.append(e)
    except Exception as ex: err = ex
    cnt = [(g.warnings["zero_duration"].args_list["count"], g.warnings["negative_duration"].args_list["count"], g.rank_pid) for g in m.ingesters]
    for g in list(m.ingesters) + [m]:
        for w in g.warnings.values(): w.auto_log = False
    aiulog.loglevel = old
    return out, err, cnt
def cli(paths, d):
    """the documented entry point, as a subprocess: returns (returncode, combined output, events of the result file or None)"""
    o = os.path.join(d, "out.json")
    p = subprocess.run([sys.executable, "-c", "import sys; from aiu_trace_analyzer.core.acelyzer import Acelyzer; sys.exit(Acelyzer(sys.argv[1:]).run())",
                        "-i", ",".join(paths), "-o", o], env=dict(os.environ, PYTHONPATH=WT), capture_output=True, text=True)
    evs = None
    if os.path.exists(o):
        j = json.load(open(o)); evs = j["traceEvents"] if isinstance(j, dict) else j
    return p.returncode, p.stdout + p.stderr, evs
def X(uid, ts, pid, dur=1.0, **kw):
    e = {"uid": uid, "ph": "X", "name": "op", "ts": ts, "dur": dur, "pid": pid, "tid": 1, "args": {}}
    e.update(kw); return e
# ---- candidate 6: ASSUMPTION "FLEX dialect (no deviceProperties)"; TORCH is "outside the model".  The merge / pairing /
# skip / order clauses of the property speak about any set of input files, only the last clause is FLEX specific.
# Random sets of 1..5 torch profiles (deviceProperties present, some with distributedInfo.rank), X + adjacent B/E +
# metadata (with/without ts), zero/negative durations, ties across files; mixed sets of torch and FLEX files too.
import random, shutil
r = random.Random(6)
bad = 0; nmixed = 0
for it in range(3000):
    files, want, zc, ngc = [], [], [], []
    for fi in range(r.choice([1, 2, 2, 3, 4, 5])):
        t = r.choice([0, 0, 1, 2.5]); evs = []; z = ng = 0
        for j in range(r.choice([0, 1, 2, 3, 5, 8])):
            uid = fi * 1000 + 2 * j
            t += r.choice([0, 0, 1, 0.5, 2])
            pid = r.choice([0, 0, fi, "Spans"])
            x = r.random(); dur = r.choice([1, 1, 2, 0.5, 0, -1])
            if x < 0.2:
                m = {"uid": uid, "ph": "M", "name": r.choice(["process_name", "process_labels", "process_sort_index", "thread_name"]),
                     "pid": pid, "tid": 1, "args": {"name": "t", "labels": "AIU 0", "sort_index": 1}}
                if r.random() < 0.5: m["ts"] = t
                evs.append(m); want.append(uid)
            elif x < 0.6:
                evs.append(X(uid, t, pid, dur=dur))
                if dur > 0: want.append(uid)
                z += dur == 0; ng += dur < 0
            else:
                evs += [{"uid": uid, "ph": "B", "name": "p", "ts": t, "pid": pid, "tid": 1},
                        {"uid": uid + 1, "ph": "E", "name": "p", "ts": t + dur, "pid": pid, "tid": 1}]
                if dur > 0: want.append(uid)
                z += dur == 0; ng += dur < 0
        if r.random() < 0.85:
            f = {"deviceProperties": [{"id": 0, "name": "aiu"}], "traceEvents": evs}
            if r.random() < 0.5: f["distributedInfo"] = {"rank": fi}
        else:
            f = [dict(e, pid=fi) for e in evs]; nmixed += 1          # a FLEX file in the same set
        files.append(f); zc.append(z); ngc.append(ng)
    d, ps = write(files)
    out, err, cnt = ingest(ps)
    ts = [e["ts"] for e in out if "ts" in e]
    durs_ok = all(e["ph"] != "X" or e["dur"] > 0 for e in out)
    if (err is not None or sorted(e["uid"] for e in out) != sorted(want) or any(a > b for a, b in zip(ts, ts[1:]))
            or [c[0] for c in cnt] != zc or [c[1] for c in cnt] != ngc or not durs_ok):
        bad += 1; print("violation:", json.dumps(files)[:400], err, cnt, zc, ngc)
    shutil.rmtree(d)
print(f"3000 random sets of torch profiles ({nmixed} FLEX files mixed in): violations {bad}")
print("PASS" if bad == 0 else "FAIL")
