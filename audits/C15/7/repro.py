# common header, copied verbatim into each repro (kept self-contained)
import sys, os, json, tempfile, subprocess
WT = "/tmp/audit_C15/wt/src"
sys.path.insert(0, WT)
def write(files, names=None):
    d = tempfile.mkdtemp(prefix="c15_")
    ps = []
    for i, f in enumerate(files):
        p = os.path.join(d, names[i] if names else f"rank{i}.json")
        with open(p, "w") as fh: json.dump(f, fh)
        ps.append(p)
    return d, ps
def ingest(paths):
    """the anchor: iterate the real MultifileIngest exactly as Engine.run does (one for loop)"""
    import aiu_trace_analyzer.logger as aiulog
    from aiu_trace_analyzer.ingest.ingestion import MultifileIngest
    old = aiulog.loglevel; aiulog.loglevel = -1
    out, err = [], None
    m = MultifileIngest(",".join(paths))
    try:
        for e in m: out.append(e)
    except Exception as ex: err = ex
    cnt = [(g.warnings["zero_duration"].args_list["count"], g.warnings["negative_duration"].args_list["count"], g.rank_pid) for g in m.ingesters]
    for g in list(m.ingesters) + [m]:
        for w in g.warnings.values(): w.auto_log = False
    aiulog.loglevel = old
    return out, err, cnt
def cli(paths, d):
    """the documented entry point, as a subprocess: returns (returncode, combined output, events of the result file or None)"""
    o = os.path.join(d, "out.json")
    p = subprocess.run([sys.executable, "-c", "import sys; from aiu_trace_analyzer.core.acelyzer import Acelyzer; sys.exit(Acelyzer(sys.argv[1:]).run())",
                        "-i", ",".join(paths), "-o", o], env=dict(os.environ, PYTHONPATH=WT), capture_output=True, text=True)
    evs = None
    if os.path.exists(o):
        j = json.load(open(o)); evs = j["traceEvents"] if isinstance(j, dict) else j
    return p.returncode, p.stdout + p.stderr, evs
def X(uid, ts, pid, dur=1.0, **kw):
    e = {"uid": uid, "ph": "X", "name": "op", "ts": ts, "dur": dur, "pid": pid, "tid": 1, "args": {}}
    e.update(kw); return e
# ---- candidate 7: "skipped and counted in a warning": the harness reads the counters of the ingester objects with the
# log switched off (c15.py:116,145-153) and never looks at the warning a user gets.  CLI run, counts taken from the log.
import re
_X = X
def X(*a, **k): return _X(*a, **dict(k, name='op'))   # plain name: ' Cmpt Exec' names need TSx attributes downstream
def BE(uid, ts, te, pid): return [{"uid": uid, "ph": "B", "name": "p", "ts": ts, "pid": pid, "tid": 1}, {"uid": uid + 1, "ph": "E", "name": "p", "ts": te, "pid": pid, "tid": 1}]
a = [X(1, 1, 0), X(2, 2, 0, dur=0), X(3, 3, 0, dur=0), X(4, 4, 0, dur=-1)] + BE(5, 5, 5, 0) + BE(7, 6, 5.5, 0) + [X(9, 7, 0)]   # zero 3, negative 2
b = [X(1001, 1, 1), X(1002, 2, 1, dur=0)] + BE(1003, 3, 2, 1) + BE(1005, 3, 2.5, 1) + BE(1007, 3, 2.75, 1) + [X(1009, 7, 1)]   # zero 1, negative 3
c = [X(2001, 1, 2)]                                                                                                        # nothing skipped
d, ps = write([a, b, c], names=["rank_a.json", "rank_b.json", "rank_c.json"])
rc, log, evs = cli(ps, d)
zero = {m.group(1): int(m.group(2)) for m in re.finditer(r"\.\.(\S*rank_\w\.json) Detected 'CompleteEvent'.*?Events skipped: (\d+)", log)}
neg = sorted(int(x) for x in re.findall(r"negative duration event\(s\)\. Events ignored:(\d+)", log))
zero = {k[-11:]: v for k, v in zero.items()}
print("expected: zero-duration warnings {rank_a: 3, rank_b: 1}, negative-duration warnings with counts [2, 3], none for rank_c")
print("observed:", zero, neg, "rc", rc)
ok = rc == 0 and zero == {"rank_a.json": 3, "rank_b.json": 1} and neg == [2, 3]
print("PASS" if ok else "FAIL")
if rc != 0: print(log[-1500:])
