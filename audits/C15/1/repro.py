# common header, copied verbatim into each repro (kept self-contained)
import sys, os, json, tempfile, subprocess
WT = "/tmp/audit_C15/wt/src"
sys.path.insert(0, WT)
def write(files, names=None):
    d = tempfile.mkdtemp(prefix="c15_")
    ps = []
    for i, f in enumerate(files):
        p = os.path.join(d, names[i] if names else f"rank{i}.json")
        with open(p, "w") as fh: json.dump(f, fh)
        ps.append(p)
    return d, ps
def ingest(paths):
    """the anchor: iterate the real MultifileIngest exactly as Engine.run does (one for loop)"""
    import aiu_trace_analyzer.logger as aiulog
    from aiu_trace_analyzer.ingest.ingestion import MultifileIngest
    old = aiulog.loglevel; aiulog.loglevel = -1
    out, err = [], None
    m = MultifileIngest(",".join(paths))
    try:
        for e in m: out.append(e)
    except Exception as ex: err = ex
    cnt = [(g.warnings["zero_duration"].args_list["count"], g.warnings["negative_duration"].args_list["count"], g.rank_pid) for g in m.ingesters]
    for g in list(m.ingesters) + [m]:
        for w in g.warnings.values(): w.auto_log = False
    aiulog.loglevel = old
    return out, err, cnt
def cli(paths, d):
    """the documented entry point, as a subprocess: returns (returncode, combined output, events of the result file or None)"""
    o = os.path.join(d, "out.json")
    p = subprocess.run([sys.executable, "-c", "import sys; from aiu_trace_analyzer.core.acelyzer import Acelyzer; sys.exit(Acelyzer(sys.argv[1:]).run())",
                        "-i", ",".join(paths), "-o", o], env=dict(os.environ, PYTHONPATH=WT), capture_output=True, text=True)
    evs = None
    if os.path.exists(o):
        j = json.load(open(o)); evs = j["traceEvents"] if isinstance(j, dict) else j
    return p.returncode, p.stdout + p.stderr, evs
def X(uid, ts, pid, dur=1.0, **kw):
    e = {"uid": uid, "ph": "X", "name": "op", "ts": ts, "dur": dur, "pid": pid, "tid": 1, "args": {}}
    e.update(kw); return e
# ---- candidate 1: instant / metadata / async events WITHOUT an "args" dict (args is optional in the Trace Event Format)
fails = []
variants = {
  "instant 'i' without args": {"uid": 2, "ph": "i", "name": "marker", "ts": 1.5, "pid": 0, "tid": 1, "s": "t"},
  "metadata 'M' without args": {"uid": 2, "ph": "M", "name": "process_sort_index", "pid": 0},
  "async 'b' without args": {"uid": 2, "ph": "b", "name": "req", "cat": "c", "id": 1, "ts": 1.5, "pid": 0, "tid": 1},
}
for tag, ev in variants.items():
    f0 = [X(1, 1.0, 0), ev, X(3, 2.0, 0)]
    f1 = [X(1001, 1.0, 1), X(1002, 3.0, 1)]
    d, ps = write([f0, f1])
    out, err, cnt = ingest(ps)
    want = [1, 2, 3, 1001, 1002]
    got = sorted(e.get("uid") for e in out)
    rc, log, evs = cli(ps, d)
    ok = err is None and got == want and rc == 0
    print(f"{tag}: expected uids {want} each once, no error; observed uids {got}, ingestion error {err!r}; CLI rc={rc}, "
          f"result file {'written' if evs is not None else 'NOT written'}; last log line: {log.strip().splitlines()[-1][:120] if log.strip() else ''}")
    if not ok: fails.append(tag)
# control: the same events WITH args pass
f0 = [X(1, 1.0, 0), dict(variants["instant 'i' without args"], args={}), X(3, 2.0, 0)]
d, ps = write([f0]); out, err, cnt = ingest(ps)
rc, log, evs = cli(ps, d)
print("control (i with empty args):", sorted(e["uid"] for e in out), err, "CLI rc", rc, "result events", None if evs is None else len(evs))
print("FAIL" if fails else "PASS", fails)
