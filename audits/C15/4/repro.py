# common header, copied verbatim into each repro (kept self-contained)
import sys, os, json, tempfile, subprocess
WT = "/tmp/audit_C15/wt/src"
sys.path.insert(0, WT)
def write(files, names=None):
    d = tempfile.mkdtemp(prefix="c15_")
    ps = []
    for i, f in enumerate(files):
        p = os.path.join(d, names[i] if names else f"rank{i}.json")
        with open(p, "w") as fh: json.dump(f, fh)
        ps.append(p)
    return d, ps
def ingest(paths):
    """the anchor: iterate the real MultifileIngest exactly as Engine.run does (one for loop)"""
    import aiu_trace_analyzer.logger as aiulog
    from aiu_trace_analyzer.ingest.ingestion import MultifileIngest
    old = aiulog.loglevel; aiulog.loglevel = -1
    out, err = [], None
    m = MultifileIngest(",".join(paths))
    try:
        for e in m: out.append(e)
    except Exception as ex: err = ex
    cnt = [(g.warnings["zero_duration"].args_list["count"], g.warnings["negative_duration"].args_list["count"], g.rank_pid) for g in m.ingesters]
    for g in list(m.ingesters) + [m]:
        for w in g.warnings.values(): w.auto_log = False
    aiulog.loglevel = old
    return out, err, cnt
def cli(paths, d):
    """the documented entry point, as a subprocess: returns (returncode, combined output, events of the result file or None)"""
    o = os.path.join(d, "out.json")
    p = subprocess.run([sys.executable, "-c", "import sys; from aiu_trace_analyzer.core.acelyzer import Acelyzer; sys.exit(Acelyzer(sys.argv[1:]).run())",
                        "-i", ",".join(paths), "-o", o], env=dict(os.environ, PYTHONPATH=WT), capture_output=True, text=True)
    evs = None
    if os.path.exists(o):
        j = json.load(open(o)); evs = j["traceEvents"] if isinstance(j, dict) else j
    return p.returncode, p.stdout + p.stderr, evs
def X(uid, ts, pid, dur=1.0, **kw):
    e = {"uid": uid, "ph": "X", "name": "op", "ts": ts, "dur": dur, "pid": pid, "tid": 1, "args": {}}
    e.update(kw); return e
# ---- candidate 4 (EXOTIC input): first pid of a FLEX file is -1 (the code's "unset" sentinel) or another negative number.
# harness: "a first pid of -1 does not latch: outside the rank claim" (c15.py:229,237), theorem hypothesis first_rank <> -1,
# oracle line 306 expects pids to stay unchanged for a negative rank (mirrors the code).
fails = []
for tag, p0 in {"first pid -1": -1, "first pid -5": -5}.items():
    d, ps = write([[X(1, 1.0, p0), X(2, 2.0, 3), X(3, 3.0, 5)]])
    out, err, cnt = ingest(ps)
    obs = [(e["uid"], e["pid"], e["args"].get("rank")) for e in out]
    ok = err is None and len({(p, r) for _, p, r in obs}) == 1 and obs[0][2] == p0
    print(f"{tag}: expected all three slices on one rank = {p0}; observed (uid, pid, args.rank) = {obs}")
    if not ok: fails.append(tag)
print("FAIL" if fails else "PASS", fails, "(exotic: no tracer writes negative pids)")
