# common header, copied verbatim into each repro (kept self-contained)
import sys, os, json, tempfile, subprocess
WT = "/tmp/audit_C15/wt/src"
sys.path.insert(0, WT)
def write(files, names=None):
    d = tempfile.mkdtemp(prefix="c15_")
    ps = []
    for i, f in enumerate(files):
        p = os.path.join(d, names[i] if names else f"rank{i}.json")
        with open(p, "w") as fh: json.dump(f, fh)
        ps.append(p)
    return d, ps
def ingest(paths):
    """the anchor: iterate the real MultifileIngest exactly as Engine.run does (one for loop)"""
    import aiu_trace_analyzer.logger as aiulog
    from aiu_trace_analyzer.ingest.ingestion import MultifileIngest
    old = aiulog.loglevel; aiulog.loglevel = -1
    out, err = [], None
    m = MultifileIngest(",".join(paths))
    try:
        for e in m: out.append(e)
    except Exception as ex: err = ex
    cnt = [(g.warnings["zero_duration"].args_list["count"], g.warnings["negative_duration"].args_list["count"], g.rank_pid) for g in m.ingesters]
    for g in list(m.ingesters) + [m]:
        for w in g.warnings.values(): w.auto_log = False
    aiulog.loglevel = old
    return out, err, cnt
def cli(paths, d):
    """the documented entry point, as a subprocess: returns (returncode, combined output, events of the result file or None)"""
    o = os.path.join(d, "out.json")
    p = subprocess.run([sys.executable, "-c", "import sys; from aiu_trace_analyzer.core.acelyzer import Acelyzer; sys.exit(Acelyzer(sys.argv[1:]).run())",
                        "-i", ",".join(paths), "-o", o], env=dict(os.environ, PYTHONPATH=WT), capture_output=True, text=True)
    evs = None
    if os.path.exists(o):
        j = json.load(open(o)); evs = j["traceEvents"] if isinstance(j, dict) else j
    return p.returncode, p.stdout + p.stderr, evs
def X(uid, ts, pid, dur=1.0, **kw):
    e = {"uid": uid, "ph": "X", "name": "op", "ts": ts, "dur": dur, "pid": pid, "tid": 1, "args": {}}
    e.update(kw); return e
# ---- candidate 2: FLEX files whose pid is a JSON string ("3", or a process label).  ASSUMPTIONS say "integer pids";
# the property's quantifier does not restrict the pid type, and the code has _pid_correction() for exactly this input.
fails = []
for tag, pid in {"numeric string pid": "3", "label pid": "AIU 3"}.items():
    f0 = [X(1, 1.0, pid), X(2, 2.0, pid)]
    f1 = [X(1001, 1.5, 1)]
    d, ps = write([f0, f1])
    out, err, cnt = ingest(ps)
    got = sorted(e.get("uid") for e in out)
    rc, log, evs = cli(ps, d)
    ok = err is None and got == [1, 2, 1001] and rc == 0
    print(f"{tag} {pid!r}: expected uids [1, 2, 1001] each once and one rank for file 0; observed {got}, error {err!r}; CLI rc={rc}, "
          f"result {'written' if evs is not None else 'NOT written'}; {log.strip().splitlines()[-1][:120] if log.strip() else ''}")
    if not ok: fails.append(tag)
# control: the same file as a torch profile (deviceProperties present) is ingested
d, ps = write([{"deviceProperties": [{"id": 0}], "traceEvents": [X(1, 1.0, "3"), X(2, 2.0, "3")]}])
out, err, cnt = ingest(ps)
print("control (torch dialect, string pid):", sorted(e["uid"] for e in out), err)
d, ps = write([[X(1, 1.0, 3), X(2, 2.0, 3)], [X(1001, 1.5, 1)]]); rc, log, evs = cli(ps, d)
print("control (FLEX, integer pid 3): CLI rc", rc, "result events", None if evs is None else len(evs))
print("FAIL" if fails else "PASS", fails)
