import contextlib, io, json, os, re, shutil, sys, tempfile
TREE = os.environ.get("C20_TREE", "/tmp/audit_C20/wt" if os.path.isdir("/tmp/audit_C20/wt/src") else "/repo")  # unmodified HEAD 1d57203
sys.path.insert(0, os.path.join(TREE, "src"))


def acelyzer(argv):
    from aiu_trace_analyzer.core.acelyzer import Acelyzer
    import aiu_trace_analyzer.pipeline.barrier as barrier
    buf = io.StringIO()
    try:
        with contextlib.redirect_stdout(buf), contextlib.redirect_stderr(buf):
            Acelyzer(argv).run()
        return None
    except BaseException as ex:  # noqa
        barrier._main_barrier_context.drain()
        return "%s: %s" % (type(ex).__name__, ex)


def paired(files, opts, disable_tb=True):
    """files: [(name, [events])]; returns (slices without option, slices with option) or error strings"""
    d = tempfile.mkdtemp(prefix="c20r_")
    try:
        paths = []
        for name, evs in files:
            p = os.path.join(d, name)
            os.makedirs(os.path.dirname(p), exist_ok=True)
            json.dump(evs, open(p, "w"))
            paths.append(p)
        base = ["-i", ",".join(paths), "-D", "0"] + (["--disable_tb"] if disable_tb else []) + list(opts)
        out = []
        for extra in ([], ["--comm_summarize_seq"]):
            o = os.path.join(d, "o%d.json" % len(out))
            err = acelyzer(base + ["-o", o] + extra)
            out.append(err if err else [x for x in json.load(open(o))["traceEvents"] if x.get("ph") == "X"])
        return out
    finally:
        shutil.rmtree(d, ignore_errors=True)


def peers(v):
    if v is None:
        return []
    if isinstance(v, (list, tuple)):
        return sorted({int(x) for x in v})
    if isinstance(v, str):
        return sorted({int(x) for x in v.split(",") if x.strip()})
    return [int(v)]


def part_peers(x):
    a = x["args"]
    return set(peers(a.get("Peer"))) | set(peers(a.get("Peers")))


def by_uid(sl):
    return {x["args"].get("uid"): x for x in sl}


def ev(uid, ts, dur, name, peer):
    return {"ph": "X", "pid": 0, "tid": 1, "ts": ts, "dur": dur, "name": name, "args": {"uid": uid, "Peer": peer}}


# one input file, three communication sequences of two parts each, disjoint in time:
#   82227 (names without a sync tag), 82237 and 82241 (two different sequences of the same sync step)
evs = [ev(1, 10.0, 2.0, "SenRdmaSend_82227 - Xseg to rank 1", "1"),
       ev(2, 13.0, 2.0, "SenRdmaSend_82227 Data", "1"),
       ev(3, 20.0, 2.0, "SenRdmaSend_82237 - Xseg to rank 2 [sync=AllReduce_all_reduce_4_s1_r2_2]", "2"),
       ev(4, 23.0, 2.0, "SenRdmaSend_82237 Data [sync=AllReduce_all_reduce_4_s1_r2_2]", "2"),
       ev(6, 40.0, 2.0, "SenRdmaSend_82241 - Xseg to rank 3 [sync=AllReduce_all_reduce_4_s1_r2_2]", "3"),
       ev(7, 43.0, 2.0, "SenRdmaSend_82241 Data [sync=AllReduce_all_reduce_4_s1_r2_2]", "3"),
       ev(5, 50.0, 1.0, "host op", "0")]
SEQS = {"82227": [1, 2], "82237": [3, 4], "82241": [6, 7]}         # by the names of the INPUT file
ok = True
for opts in (["-O", "tid"], ["-O", "async"]):
    a, b = paired([("rank0.json", evs)], opts)
    if isinstance(a, str) or isinstance(b, str):
        print(opts, "run failed", a if isinstance(a, str) else b)
        ok = False
        continue
    A, B = by_uid(a), by_uid(b)
    print(opts, "names exported WITHOUT the option:", sorted({x["name"] for x in a})[:3], "...")
    for num, uids in SEQS.items():
        ps = [A[u] for u in uids]
        ms = [B[u] for u in uids if u in B]
        want = (min(p["ts"] for p in ps), max(p["ts"] + p["dur"] for p in ps))
        got = [(m["ts"], m["ts"] + m["dur"], m["args"].get("Peers")) for m in ms]
        good = len(ms) == 1 and (ms[0]["ts"], ms[0]["ts"] + ms[0]["dur"]) == want
        print("   sequence %s: expected exactly one slice %s; observed %d slice(s) %s -> %s" %
              (num, want, len(ms), got, "ok" if good else "VIOLATED"))
        ok &= good
print("PASS" if ok else "FAIL")
