import contextlib, io, json, os, re, shutil, sys, tempfile
TREE = os.environ.get("C20_TREE", "/tmp/audit_C20/wt" if os.path.isdir("/tmp/audit_C20/wt/src") else "/repo")  # unmodified HEAD 1d57203
sys.path.insert(0, os.path.join(TREE, "src"))


def acelyzer(argv):
    from aiu_trace_analyzer.core.acelyzer import Acelyzer
    import aiu_trace_analyzer.pipeline.barrier as barrier
    buf = io.StringIO()
    try:
        with contextlib.redirect_stdout(buf), contextlib.redirect_stderr(buf):
            Acelyzer(argv).run()
        return None
    except BaseException as ex:  # noqa
        barrier._main_barrier_context.drain()
        return "%s: %s" % (type(ex).__name__, ex)


def paired(files, opts, disable_tb=True):
    """files: [(name, [events])]; returns (slices without option, slices with option) or error strings"""
    d = tempfile.mkdtemp(prefix="c20r_")
    try:
        paths = []
        for name, evs in files:
            p = os.path.join(d, name)
            os.makedirs(os.path.dirname(p), exist_ok=True)
            json.dump(evs, open(p, "w"))
            paths.append(p)
        base = ["-i", ",".join(paths), "-D", "0"] + (["--disable_tb"] if disable_tb else []) + list(opts)
        out = []
        for extra in ([], ["--comm_summarize_seq"]):
            o = os.path.join(d, "o%d.json" % len(out))
            err = acelyzer(base + ["-o", o] + extra)
            out.append(err if err else [x for x in json.load(open(o))["traceEvents"] if x.get("ph") == "X"])
        return out
    finally:
        shutil.rmtree(d, ignore_errors=True)


def peers(v):
    if v is None:
        return []
    if isinstance(v, (list, tuple)):
        return sorted({int(x) for x in v})
    if isinstance(v, str):
        return sorted({int(x) for x in v.split(",") if x.strip()})
    return [int(v)]


def part_peers(x):
    a = x["args"]
    return set(peers(a.get("Peer"))) | set(peers(a.get("Peers")))


def by_uid(sl):
    return {x["args"].get("uid"): x for x in sl}


def ev(uid, ts, dur, name, peer):
    return {"ph": "X", "pid": 0, "tid": 1, "ts": ts, "dur": dur, "name": name, "args": {"uid": uid, "Peer": peer}}


# EXOTIC input: a Peer attribute that is not one rank number (here a list in the singular attribute)
evs = [ev(1, 10.0, 2.0, "SenRdmaSend_5 - Xseg", "1,2"), ev(2, 13.0, 2.0, "SenRdmaSend_5 Data", "2")]
a, b = paired([("rank0.json", evs)], [])
print("without the option:", "run failed: " + a if isinstance(a, str) else "%d slices exported" % len(a))
print("with the option   :", "run failed: " + b if isinstance(b, str) else "%d slices exported" % len(b))
print("PASS" if not isinstance(b, str) else "FAIL (run with the option aborts; the property promises one slice with peers {1,2})")
