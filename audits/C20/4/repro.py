import contextlib, io, json, os, re, shutil, sys, tempfile
TREE = os.environ.get("C20_TREE", "/tmp/audit_C20/wt" if os.path.isdir("/tmp/audit_C20/wt/src") else "/repo")  # unmodified HEAD 1d57203
sys.path.insert(0, os.path.join(TREE, "src"))


def acelyzer(argv):
    from aiu_trace_analyzer.core.acelyzer import Acelyzer
    import aiu_trace_analyzer.pipeline.barrier as barrier
    buf = io.StringIO()
    try:
        with contextlib.redirect_stdout(buf), contextlib.redirect_stderr(buf):
            Acelyzer(argv).run()
        return None
    except BaseException as ex:  # noqa
        barrier._main_barrier_context.drain()
        return "%s: %s" % (type(ex).__name__, ex)


def paired(files, opts, disable_tb=True):
    """files: [(name, [events])]; returns (slices without option, slices with option) or error strings"""
    d = tempfile.mkdtemp(prefix="c20r_")
    try:
        paths = []
        for name, evs in files:
            p = os.path.join(d, name)
            os.makedirs(os.path.dirname(p), exist_ok=True)
            json.dump(evs, open(p, "w"))
            paths.append(p)
        base = ["-i", ",".join(paths), "-D", "0"] + (["--disable_tb"] if disable_tb else []) + list(opts)
        out = []
        for extra in ([], ["--comm_summarize_seq"]):
            o = os.path.join(d, "o%d.json" % len(out))
            err = acelyzer(base + ["-o", o] + extra)
            out.append(err if err else [x for x in json.load(open(o))["traceEvents"] if x.get("ph") == "X"])
        return out
    finally:
        shutil.rmtree(d, ignore_errors=True)


def peers(v):
    if v is None:
        return []
    if isinstance(v, (list, tuple)):
        return sorted({int(x) for x in v})
    if isinstance(v, str):
        return sorted({int(x) for x in v.split(",") if x.strip()})
    return [int(v)]


def part_peers(x):
    a = x["args"]
    return set(peers(a.get("Peer"))) | set(peers(a.get("Peers")))


def by_uid(sl):
    return {x["args"].get("uid"): x for x in sl}
import copy
SEQ = re.compile(r"[_-](\d+)")


def holds(files, opts, disable_tb=True):
    """property by the text, sequences identified by the names of the INPUT files; returns list of failures"""
    a, b = paired(copy.deepcopy(files), opts, disable_tb)
    if isinstance(a, str):
        return ["INCONCLUSIVE (run without the option fails: %s)" % a[:80]]
    if isinstance(b, str):
        return ["run with the option fails: " + b]
    A, B = by_uid(a), by_uid(b)
    groups, fails = {}, []
    for k, (_, evs) in enumerate(files):
        for e in evs:
            at = e.get("args") or e.get("attr")
            if e["ph"] in ("X", "B") and "SenRdma" in e["name"] and SEQ.search(e["name"]) and at["uid"] in A:
                groups.setdefault((k, SEQ.search(e["name"]).group(1)), []).append(at["uid"])
    parts = {u for v in groups.values() for u in v}
    fails += ["slice %s changed" % u for u in set(A) | set(B) if u not in parts and A.get(u) != B.get(u)]
    for g, uids in groups.items():
        ps, ms = [A[u] for u in uids], [B[u] for u in uids if u in B]
        if len(ms) != 1:
            fails.append("%s: %d slices" % (g, len(ms)))
            continue
        m = ms[0]
        if m["ts"] != min(p["ts"] for p in ps) or m["ts"] + m["dur"] != max(p["ts"] + p["dur"] for p in ps):
            fails.append("%s: hull wrong" % (g,))
        if peers(m["args"].get("Peers")) != sorted(set().union(*[part_peers(p) for p in ps])):
            fails.append("%s: peers %s" % (g, m["args"].get("Peers")))
    return fails


evs = json.load(open(os.path.join(TREE, "tests/test_data/allreduce_tp4.json")))     # real device slices: B/E, TS1..TS5
uid, open_ = 0, {}
for e in evs:
    k = (e["pid"], e["tid"], e["name"])
    if e["ph"] == "B":
        uid += 1
        open_.setdefault(k, []).append(uid)
        e["attr"]["uid"] = uid
    else:
        e["attr"]["uid"] = open_[k].pop()
one = [("allreduce_tp4.json", evs)]
per_rank = [("rank%d.json" % p, [e for e in evs if e["pid"] == p]) for p in range(4)]
two_jobs = []
for p in range(4):
    two_jobs.append(("job1/rank%d.json" % p, [e for e in evs if e["pid"] == p]))
    j2 = copy.deepcopy(two_jobs[-1][1])
    for e in j2:
        e["ts"] += 5000.0
        e["attr"]["uid"] += 1000
        for t in ("TS1", "TS2", "TS3", "TS4", "TS5"):
            e["attr"][t] = str(int(e["attr"][t]) + 5000000)
    two_jobs.append(("job2/rank%d.json" % p, j2))


def x(uid, ts, dur, name, peer, tid=1):
    return {"ph": "X", "pid": 0, "tid": tid, "ts": ts, "dur": dur, "name": name, "args": {"uid": uid, "Peer": peer}}


t0 = 2097962447952.137      # off the 1/8 grid, partially overlapping parts of two interleaved sequences on one lane
ovl = [("rank0.json", [x(1, t0, 7.3, "SenRdmaSend_11 a", "1"), x(2, t0 + 3.1, 9.7, "SenRdmaSend_12 a", "2"),
                       x(3, t0 + 5.9, 11.2, "SenRdmaSend_11 b", "3"), x(4, t0 + 8.4, 2.6, "SenRdmaSend_12 b", "1"),
                       x(5, t0 + 9.0, 30.1, "host op", "0")])]
ok = True
for label, files, opts, dtb in [
        ("device slices (B/E, TS1..5), one file, CLI default (tb refinement ON)", one, [], False),
        ("device slices, one file per rank, tb refinement ON", per_rank, [], False),
        ("device slices, one file per rank, --disable_tb", per_rank, [], True),
        ("device slices, one file per rank, --flow, tb refinement ON", per_rank, ["--flow"], False),
        ("device slices, two jobs per rank, same numbers in both jobs", two_jobs, [], True),
        ("device slices, two jobs per rank, --flow -C coll_bw", two_jobs, ["--flow", "-C", "coll_bw"], True),
        ("device slices, one file, --flow -R (excluded by ASSUMPTION 5)", one, ["--flow", "-R"], True),
        ("partially overlapping parts, off-grid times", ovl, [], True),
        ("partially overlapping parts, off-grid times, -O shift", ovl, ["-O", "shift"], True),
        ("partially overlapping parts, off-grid times, tb refinement ON", ovl, [], False)]:
    f = holds(files, opts, dtb)
    print("%-75s %s" % (label, "holds" if not f else f[:3]))
    ok &= not f
print("PASS" if ok else "FAIL")
