import contextlib, io, json, os, re, shutil, sys, tempfile
TREE = os.environ.get("C20_TREE", "/tmp/audit_C20/wt" if os.path.isdir("/tmp/audit_C20/wt/src") else "/repo")  # unmodified HEAD 1d57203
sys.path.insert(0, os.path.join(TREE, "src"))


def acelyzer(argv):
    from aiu_trace_analyzer.core.acelyzer import Acelyzer
    import aiu_trace_analyzer.pipeline.barrier as barrier
    buf = io.StringIO()
    try:
        with contextlib.redirect_stdout(buf), contextlib.redirect_stderr(buf):
            Acelyzer(argv).run()
        return None
    except BaseException as ex:  # noqa
        barrier._main_barrier_context.drain()
        return "%s: %s" % (type(ex).__name__, ex)


def paired(files, opts, disable_tb=True):
    """files: [(name, [events])]; returns (slices without option, slices with option) or error strings"""
    d = tempfile.mkdtemp(prefix="c20r_")
    try:
        paths = []
        for name, evs in files:
            p = os.path.join(d, name)
            os.makedirs(os.path.dirname(p), exist_ok=True)
            json.dump(evs, open(p, "w"))
            paths.append(p)
        base = ["-i", ",".join(paths), "-D", "0"] + (["--disable_tb"] if disable_tb else []) + list(opts)
        out = []
        for extra in ([], ["--comm_summarize_seq"]):
            o = os.path.join(d, "o%d.json" % len(out))
            err = acelyzer(base + ["-o", o] + extra)
            out.append(err if err else [x for x in json.load(open(o))["traceEvents"] if x.get("ph") == "X"])
        return out
    finally:
        shutil.rmtree(d, ignore_errors=True)


def peers(v):
    if v is None:
        return []
    if isinstance(v, (list, tuple)):
        return sorted({int(x) for x in v})
    if isinstance(v, str):
        return sorted({int(x) for x in v.split(",") if x.strip()})
    return [int(v)]


def part_peers(x):
    a = x["args"]
    return set(peers(a.get("Peer"))) | set(peers(a.get("Peers")))


def by_uid(sl):
    return {x["args"].get("uid"): x for x in sl}


def check_sequence(a, b, uids, label):
    """a/b: slices without/with the option; uids: parts of ONE sequence of one input file"""
    A, B = by_uid(a), by_uid(b)
    ps = [A[u] for u in uids if u in A]
    ms = [B[u] for u in uids if u in B]
    want = sorted(set().union(*[part_peers(p) for p in ps]))
    if len(ms) != 1:
        print("FAIL %s: %d parts -> %d slices" % (label, len(ps), len(ms)))
        return False
    got = peers(ms[0]["args"].get("Peers"))
    hull_ok = ms[0]["ts"] == min(p["ts"] for p in ps) and \
        ms[0]["ts"] + ms[0]["dur"] == max(p["ts"] + p["dur"] for p in ps)
    print("  %s: parts exported without the option:" % label)
    for p in ps:
        print("     %-70s Peer=%r Peers=%r" % (p["name"][:70], p["args"].get("Peer"), p["args"].get("Peers")))
    print("     merged slice: hull ok=%s  Peers observed=%r  expected (union of the parts' peers)=%r" % (hull_ok, got, want))
    return hull_ok and got == want


ok = True
# ---- case A: the repository's own test trace, documented option -O drop (only the "Set BcList" part of rank 3's
#      multicast 82233 survives overlap dropping; it lists its peers in "Peers": "0,1,2" as every multicast does)
evs = json.load(open(os.path.join(TREE, "tests/test_data/allreduce_tp4.json")))
uid, open_ = 0, {}
for e in evs:                      # B/E pairs: the same uid on both halves, only to match slices between the two runs
    k = (e["pid"], e["tid"], e["name"])
    if e["ph"] == "B":
        uid += 1
        open_.setdefault(k, []).append(uid)
        e["attr"]["uid"] = uid
    else:
        e["attr"]["uid"] = open_[k].pop()
seq = sorted({e["attr"]["uid"] for e in evs if e["pid"] == 3 and "SenRdmaSend_82233" in e["name"]})
a, b = paired([("allreduce_tp4.json", evs)], ["-O", "drop"])
print("case A: tests/test_data/allreduce_tp4.json, -O drop")
ok &= check_sequence(a, b, seq, "rank 3, sequence 82233")
# ---- case B: same trace, default options, the Xseg sub-steps filtered (--event_filter is a documented option)
a, b = paired([("allreduce_tp4.json", evs)], ["--event_filter", "name:Xseg"])
print("case B: tests/test_data/allreduce_tp4.json, --event_filter name:Xseg")
ok &= check_sequence(a, b, seq, "rank 3, sequence 82233")
# ---- case C: minimal: a multicast whose Xseg sub-steps name only one of the three peers
mc = [{"ph": "X", "pid": 0, "tid": 1, "ts": 10.0, "dur": 2.0, "name": "SenRdmaSend_7 - Set BcList",
       "args": {"uid": 1, "Peers": "0,1,2", "Type": "Set BCList"}},
      {"ph": "X", "pid": 0, "tid": 1, "ts": 13.0, "dur": 2.0, "name": "SenRdmaSend_7 - Xseg to rank 0",
       "args": {"uid": 2, "Peer": "0", "Type": "MultiCast XSEG"}},
      {"ph": "X", "pid": 0, "tid": 1, "ts": 16.0, "dur": 2.0, "name": "SenRdmaSend_7 Data",
       "args": {"uid": 3, "Type": "MultiCast"}}]
a, b = paired([("rank0.json", mc)], [])
print("case C: synthetic multicast, default options")
ok &= check_sequence(a, b, [1, 2, 3], "sequence 7")
print("PASS" if ok else "FAIL")
