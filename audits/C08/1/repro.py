import sys, os, json, copy; sys.path.insert(0, "/tmp/audit_C08/out"); from common import *
V = []
# option sets the end-to-end tie leaves out (c08.py MANIFEST note / ASSUMPTIONS / E2E_OPTS)
for opts in (["-I"], ["-R", "--flow"], ["-s", "--flow"], ["-O", "shift"], ["-O", "warn"], ["--flex_ts_fix"], ["-T", "--flow"],
             ["-k", "-C", "power_ts4", "--power-stats"], ["-C", "power_ts3", "bandwidth"], ["--time_unit", "ms"], ["-F", "X,C", "-C", "prep_queue"],
             ["--event_limit", '{"count": 9}'], ["--event_filter", "name:Prep$"], ["--freq", "560:1100"], ["-P", "everything.json", "--flow", "-C", "power_ts4", "prep_queue", "coll_bw"]):
    judge(" ".join(opts), run(scenario(), opts), V)
final(V)
