import sys, os, json, copy; sys.path.insert(0, "/tmp/audit_C08/out"); from common import *
V = []
# the oracle counts a missing dur as 0 (mirrors sort.py: x[k] if k in x else 0.0), so "zero-length slice vs event without dur"
# is left unordered although the property says events without duration come last.  Try to get a zero-length slice exported.
f0 = [
 {"ph": "C", "name": "mem", "pid": 0, "tid": 0, "ts": 1000.0, "args": {"v": 1}},
 {"ph": "i", "name": "mark", "pid": 0, "tid": 3, "ts": 1000.0, "s": "t", "args": {}},
 {"ph": "X", "name": "zeroX", "pid": 0, "tid": 3, "ts": 1000.0, "dur": 0, "args": {}},
 {"ph": "B", "name": "zeroBE", "pid": 0, "tid": 5, "ts": 1000.0, "args": {}},
 {"ph": "E", "name": "zeroBE", "pid": 0, "tid": 5, "ts": 1000.0, "args": {}},
 {"ph": "X", "name": "long", "pid": 0, "tid": 4, "ts": 1000.0, "dur": 5.0, "args": {}},
 {"ph": "X", "name": "later", "pid": 0, "tid": 3, "ts": 1002.0, "dur": 1.0, "args": {}},
]
for opts in ([], ["--tb"], ["-P", "torch_minimal.json"], ["-O", "shift"]):
    res = run([copy.deepcopy(f0)], opts)
    judge(" ".join(opts) or "(default)", res, V)
    for fn, te in res.get("files", {}).items():
        z = [e["name"] for e in te if e.get("ph") == "X" and e.get("dur") == 0]
        print("     zero-length slices in the export:", z, "(input had zeroX and zeroBE; ingestion drops them: ingestion.py sane_event)")
final(V)
