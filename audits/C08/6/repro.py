import sys, os, json, copy; sys.path.insert(0, "/tmp/audit_C08/out"); from common import *
V = []
# --tb writes out.pt.trace.json AND one out_worker_<r>.pt.trace.json per rank; the check reads only the combined file
for opts in (["--tb"], ["--tb", "--flow"], ["--tb", "--flow", "-C", "power_ts4", "prep_queue", "coll_bw"]):
    judge(" ".join(opts), run(scenario(), opts), V)
final(V)
