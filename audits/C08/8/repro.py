import sys, os, json, copy; sys.path.insert(0, "/tmp/audit_C08/out"); from common import *
V = []
# EXOTIC: integer timestamps beyond 2**53 (nanosecond epoch as int; the trace format's unit is microseconds).  sort.py compares
# float(ts); ingestion turns ts of X/B/E into floats (ts *= 1.0) but leaves counters/instants as ints, which are exported unrounded.
B = 1727870000000000000
f0 = [
 {"ph": "X", "name": "a", "pid": 0, "tid": 3, "ts": B + 300, "dur": 50, "args": {}},
 {"ph": "C", "name": "mem", "pid": 0, "tid": 0, "ts": B + 200, "args": {"v": 1}},
 {"ph": "i", "name": "mark", "pid": 0, "tid": 3, "ts": B + 290, "s": "t", "args": {}},
 {"ph": "X", "name": "b", "pid": 0, "tid": 4, "ts": B + 1000, "dur": 500, "args": {}},
]
judge("ns-epoch integer ts", run([f0], []), V)
final(V)
