import sys, os, json, copy; sys.path.insert(0, "/tmp/audit_C08/out"); from common import *
V = []
# EXOTIC: non-slice INPUT events that carry a positive "dur" (instants / counters have no dur in the trace format).  They are sorted
# with that dur and exported without it (from_dict drops it) - the hidden-dur pattern of 818affa / dbd55f3, reached from the input.
f0 = [
 {"ph": "i", "name": "mark", "pid": 0, "tid": 3, "ts": 1000.0, "dur": 3.0, "s": "t", "args": {}},
 {"ph": "C", "name": "mem", "pid": 0, "tid": 0, "ts": 1000.0, "dur": 2.0, "args": {"v": 1}},
 {"ph": "X", "name": "short", "pid": 0, "tid": 4, "ts": 1000.0, "dur": 1.0, "args": {}},
 {"ph": "X", "name": "later", "pid": 0, "tid": 3, "ts": 1002.0, "dur": 1.0, "args": {}},
]
judge("instant and counter with dur in the input", run([f0], []), V)
final(V)
