import sys, os, json, copy; sys.path.insert(0, "/tmp/audit_C08/out"); from common import *
V = []
# C08_any_profile needs "last profile entry enabled": a user profile (-P) that switches the final sort_events off
prof = json.load(open("/tmp/audit_C08/wt/src/aiu_trace_analyzer/profiles/everything.json"))
assert list(prof["stages"][-1]) == ["sort_events"]
prof["stages"][-1] = {"sort_events": False}
os.makedirs(W, exist_ok=True); json.dump(prof, open(W + "/nofinal.json", "w"))
judge("-P <everything with the last sort_events disabled> --flow -C prep_queue power_ts4",
      run(scenario(), ["-P", W + "/nofinal.json", "--flow", "-C", "prep_queue", "power_ts4"]), V)
final(V)
