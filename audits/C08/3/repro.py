import sys, os, json, copy; sys.path.insert(0, "/tmp/audit_C08/out"); from common import *
V = []
import zlib
# input names whose job ids (crc32(path) % 10000) coincide - the check re-rolls names until they are distinct
by = {}
for k in range(300000):
    n = f"job{k}.json"; h = zlib.crc32((W + "/in/" + n).encode()) % 10000
    by.setdefault(h, []).append(n)
    if len(by[h]) == 3: names = by[h]; break
print("  names", names, "share job id", h)
for opts in ([], ["--flow", "-C", "power_ts4", "prep_queue", "coll_bw"], ["--tb", "--flow"], ["--flow", "--comm_summarize_seq"]):
    judge(" ".join(opts) or "(default)", run(scenario(), opts, names=names), V)
final(V)
