import sys, os, json, copy; sys.path.insert(0, "/tmp/audit_C08/out"); from common import *
V = []
# -S and -O async: named "outside the end-to-end tie"; the run never reaches the export
for opts in (["-S"], ["-S", "--flow"], ["-O", "async"], ["-O", "async", "--flow", "-C", "prep_queue"]):
    judge(" ".join(opts), run(scenario(), opts), V)
T = "/tmp/audit_C08/wt/tests/test_data/"
import io, contextlib
for inp in ("allreduce_tp4.json", "basic_event_test_cases.json"):
    for opts in (["-S"], ["-O", "async"]):
        try:
            with contextlib.redirect_stdout(io.StringIO()), contextlib.redirect_stderr(io.StringIO()):
                Acelyzer(["-i", T + inp, "-o", W + "/out/x.json", "-D", "0"] + opts).run()
            print("  repo test data", inp, opts, "completed")
        except Exception as e:
            print("  repo test data", inp, opts, "NO EXPORT -", type(e).__name__, str(e)[:60]); V.append("abort")
final(V)
