import sys, os, json, copy; sys.path.insert(0, "/tmp/audit_C08/out"); from common import *
V = []
import random
r = random.Random(4)
# (a) FLEX files that also hold counter / instant / metadata events at tied timestamps, off-grid timestamps
files = scenario()
for pid, evs in enumerate(files):
    tss = [e["ts"] for e in evs]
    for e in evs:
        if "TS1" not in e["args"] and e["ph"] == "X":
            e["ts"] += r.choice([0, 0.001, 1 / 3]); e["dur"] += r.choice([0, 0.001, 0.1])
    evs.insert(0, {"ph": "M", "name": "process_name", "pid": pid, "tid": 0, "ts": tss[0], "args": {"name": "p"}})
    evs.insert(1, {"ph": "C", "name": "mem", "pid": pid, "tid": 0, "ts": tss[1], "args": {"v": 1}})
    evs.insert(2, {"ph": "i", "name": "mark", "pid": pid, "tid": 3, "ts": tss[1], "s": "t", "args": {}})
    evs.append({"ph": "C", "name": "mem", "pid": pid, "tid": 0, "ts": tss[-1], "args": {"v": 2}})
for opts in ([], ["--flow", "-C", "power_ts4", "prep_queue", "coll_bw"], ["--tb", "--flow"]):
    judge("FLEX + C/i/M input events: " + " ".join(opts), run(files, opts), V)
# (b) torch-profile shaped input (deviceProperties => TORCH dialect): cpu ops, launches, kernels, ac2g flow pairs, instants, metadata
def torch(rank):
    evs, t = [], 1000.0
    for nm, a in (("process_name", {"name": "python"}), ("process_labels", {"labels": "CPU"}), ("process_sort_index", {"sort_index": 1})):
        evs.append({"ph": "M", "name": nm, "pid": 0, "tid": 0, "ts": t, "args": a})
    for k in range(6):
        d = r.choice([1.0, 2.0, 4.0]); kt = t + r.choice([0.0, 1.0])
        evs.append({"ph": "X", "cat": "cpu_op", "name": f"aten::op{k}", "pid": 0, "tid": 5, "ts": t, "dur": d, "args": {"External id": k}})
        evs.append({"ph": "X", "cat": "cuda_runtime", "name": "aiuLaunchComputeStream", "pid": 0, "tid": 5, "ts": t, "dur": d / 2, "args": {"External id": k, "correlation": k}})
        evs.append({"ph": "X", "cat": "kernel", "name": f"kern{k}", "pid": 0, "tid": 7, "ts": kt, "dur": 1.0, "args": {"External id": k, "correlation": k, "device": 0, "stream": 7}})
        evs.append({"ph": "s", "id": k + 1, "pid": 0, "tid": 5, "ts": t, "cat": "ac2g", "name": "ac2g"})
        evs.append({"ph": "f", "id": k + 1, "pid": 0, "tid": 7, "ts": kt, "cat": "ac2g", "name": "ac2g", "bp": "e"})
        evs.append({"ph": "i", "name": "[memory]", "pid": 0, "tid": 5, "ts": t, "s": "t", "args": {"Bytes": 512}})
        t += d + r.choice([1.0, 2.0])
    return {"schemaVersion": 1, "deviceProperties": [{"id": 0, "name": "AIU"}], "distributedInfo": {"rank": rank}, "traceEvents": evs}
for opts in ([], ["--tb"], ["-M", "--flow"], ["-C", "power_ts4", "prep_queue", "coll_bw"]):
    judge("torch-shaped input, 2 ranks: " + " ".join(opts), run([torch(0), torch(1)], opts), V)
final(V)
