import sys, os, json, copy; sys.path.insert(0, "/tmp/audit_C08/out"); from common import *
V = []
# more than 4 ranks (the tie's domain is 1..4): 6 ranks = the scenario twice, second copy on pids 3..5
a, b = scenario(), scenario()
for evs in b:
    for e in evs:
        e["pid"] += 3
        if "Peer" in e["args"]:
            e["args"]["Peer"] = str(int(e["args"]["Peer"]) + 3)
for opts in ([], ["--flow", "-C", "power_ts4", "prep_queue", "coll_bw"], ["--tb", "--flow"]):
    judge("6 ranks " + " ".join(opts), run(a + b, opts), V)
final(V)
