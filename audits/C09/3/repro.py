"""stale rule: a complete 2-rank group with 21 s of silence between its single-cast and its broadcast phase, while a
second collective (other CollGroup) has a slice during the silence.  Control: 19 s."""
import sys, os; sys.path.insert(0, os.path.dirname(os.path.dirname(os.path.abspath(__file__))))
import auditlib as A
rc = 0
for secs, expect_fail in ((19, False), (21, True)):
    sc, bld, rng = A.new_scenario(2, freq=1024)
    gap = secs * 1000 * 1000 * 1024 // A.K      # in K cycles
    sA, _ = A.std_sched(2, 10, early=False)
    for k in ("bclist", "data"): sA[k] = (sA[k][0] + gap, sA[k][1] + gap)
    sA["xseg"] = [(a + gap, b + gap) for a, b in sA["xseg"]]; sA["mrecv"] = [(a + gap, b + gap) for a, b in sA["mrecv"]]
    A.chain(bld, sc, "AllReduce_all_reduce_4", [0, 1], sA)
    sB, _ = A.std_sched(2, sA["bclist"][0] - 40, early=True)      # B runs just before A resumes
    A.chain(bld, sc, "AllReduce_all_reduce_7", [0, 1], sB)
    A.finish(bld, sc)
    res = A.run(sc, ["--flow"], "/tmp/audit_C09/scratch/w3")
    v, st = A.check(sc, res)
    rc |= A.report(f"{secs} s silence inside a complete group", v, st)
sys.exit(rc)
