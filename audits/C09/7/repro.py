"""more than two groups in flight (harness: max_in_flight=2): four 4-rank groups started 3 units apart."""
import sys, os; sys.path.insert(0, os.path.dirname(os.path.dirname(os.path.abspath(__file__))))
import auditlib as A
sc, bld, rng = A.new_scenario(4)
for k in range(4):
    s, t = A.std_sched(4, 10 + 3 * k); A.chain(bld, sc, f"AllReduce_all_reduce_{4 + 3 * k}", [0, 1, 2, 3], s)
A.finish(bld, sc)
rc = 0
for opts in (["--flow"], ["--flow", "--no_mp_sync"]):
    res = A.run(sc, opts, "/tmp/audit_C09/scratch/w7")
    v, st = A.check(sc, res)
    rc |= A.report("4 groups in flight, " + " ".join(opts), v, st)
sys.exit(rc)
