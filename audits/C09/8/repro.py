"""30 s of silence BETWEEN complete groups (kernel generator marks every group of such a stream 'not clean')."""
import sys, os; sys.path.insert(0, os.path.dirname(os.path.dirname(os.path.abspath(__file__))))
import auditlib as A
sc, bld, rng = A.new_scenario(3)
s, t = A.std_sched(3, 10); A.chain(bld, sc, "AllReduce_all_reduce_4", [0, 1, 2], s)
s, t = A.std_sched(3, t + 30 * 1000 * 1024); A.chain(bld, sc, "AllReduce_all_reduce_7", [0, 1, 2], s)
s, t = A.std_sched(3, t + 5); A.chain(bld, sc, "AllReduce_all_reduce_10", [0, 1, 2], s)
A.finish(bld, sc)
res = A.run(sc, ["--flow"], "/tmp/audit_C09/scratch/w8")
v, st = A.check(sc, res)
sys.exit(A.report("30 s between groups", v, st))
