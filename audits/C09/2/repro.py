"""CollGroup name used by two collectives of one run (same graph executed twice: the all-reduce of the second iteration
has the same CollGroup and the same sync tags).  Variant a: both iterations in one file per rank; variant b: second
iteration in a second job file per rank.  Property: 2 complete groups x 2 sends (2 ranks) / x 4 sends (3 ranks)."""
import sys, os; sys.path.insert(0, os.path.dirname(os.path.dirname(os.path.abspath(__file__))))
import auditlib as A
import copy
rc = 0
for N in (2, 3):
    # a) one file per rank
    sc, bld, rng = A.new_scenario(N)
    s, t = A.std_sched(N, 10); A.chain(bld, sc, "AllReduce_all_reduce_4", list(range(N)), s)
    s, t = A.std_sched(N, t + 500); A.chain(bld, sc, "AllReduce_all_reduce_4", list(range(N)), s)
    A.finish(bld, sc)
    res = A.run(sc, ["--flow"], "/tmp/audit_C09/scratch/w2")
    v, st = A.check(sc, res)
    rc |= A.report(f"{N} ranks, same CollGroup twice in one file per rank", v, st)
    # b) two job files per rank
    sc1, bld1, _ = A.new_scenario(N); s, t = A.std_sched(N, 10); A.chain(bld1, sc1, "AllReduce_all_reduce_4", list(range(N)), s); A.finish(bld1, sc1)
    sc2, bld2, _ = A.new_scenario(N); s, t2 = A.std_sched(N, t + 500); A.chain(bld2, sc2, "AllReduce_all_reduce_4", list(range(N)), s, uidp="d"); A.finish(bld2, sc2)
    for fn, evs in sc2.files.items(): sc1.files[fn.replace("job0", "job1")] = evs
    sc1.coll["groups"] += sc2.coll["groups"]
    res = A.run(sc1, ["--flow"], "/tmp/audit_C09/scratch/w2")
    v, st = A.check(sc1, res)
    rc |= A.report(f"{N} ranks, same CollGroup in job0 and job1 files of every rank", v, st)
sys.exit(rc)
