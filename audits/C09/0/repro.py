"""sanity baseline: canonical early-posted receives, 3 ranks, 2 sequential groups -> property must hold (PASS)"""
import sys, os; sys.path.insert(0, os.path.dirname(os.path.dirname(os.path.abspath(__file__))))
import auditlib as A
sc, bld, rng = A.new_scenario(3)
s, t = A.std_sched(3, 10); A.chain(bld, sc, "AllReduce_all_reduce_4", [0, 1, 2], s)
s, t = A.std_sched(3, t + 50); A.chain(bld, sc, "AllReduce_all_reduce_7", [0, 1, 2], s)
A.finish(bld, sc)
res = A.run(sc, ["--flow"], "/tmp/audit_C09/scratch/w0")
v, st = A.check(sc, res)
sys.exit(A.report("baseline --flow", v, st))
