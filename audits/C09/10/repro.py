"""other option sets next to --flow that the harness never combines with it (E2E_OPTS has only -M, --keep_prep, --disable_tb)."""
import sys, os; sys.path.insert(0, os.path.dirname(os.path.dirname(os.path.abspath(__file__))))
import auditlib as A
rc = 0
for extra in (["-S"], ["--tb"], ["-s"], ["-T"], ["--keep_names"], ["--flex_ts_fix"], ["-t"], ["--drop_globals"], ["-k"], ["--time_unit", "ns"], ["-O", "shift"], ["-O", "tid"], ["-O", "drop"]):
    sc, bld, rng = A.new_scenario(4)
    s, t = A.std_sched(4, 10); A.chain(bld, sc, "AllReduce_all_reduce_4", [0, 1, 2, 3], s)
    s, t = A.std_sched(4, 14); A.chain(bld, sc, "AllReduce_all_reduce_7", [0, 1, 2, 3], s)     # interleaved with the first
    s, t = A.std_sched(4, t + 50); A.chain(bld, sc, "AllReduce_all_reduce_10", [0, 1, 2, 3], s)
    A.finish(bld, sc, be_ratio=0.5)
    res = A.run(sc, ["--flow"] + extra, "/tmp/audit_C09/scratch/w10")
    v, st = A.check(sc, res)
    rc |= A.report("--flow " + " ".join(extra), v, st)
    if v and not st: print("  log tail:", res["log"][-300:].replace("\n", " | "))
sys.exit(rc)
