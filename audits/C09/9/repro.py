"""host time stamps at epoch scale (us since 1970, ~1.76e15 > 2^42): the ASSUMPTIONS restrict times to < 2^42 us.
Slices last 10..40 us (K = 4096 cycles at 1024 MHz = 4 us per unit) so that they survive the 0.25 us float spacing."""
import sys, os; sys.path.insert(0, os.path.dirname(os.path.dirname(os.path.abspath(__file__))))
import auditlib as A
A.C._grid_ok = lambda x: x
rc = 0
for base in (1 << 41, 1 << 44, 1_760_000_000_000_000):
    A.K = 4096
    sc, bld, rng = A.new_scenario(3)
    for r in range(3):
        H, c0 = sc.hbase[r]; sc.hbase[r] = (base - c0 // 1024, c0)
    s, t = A.std_sched(3, 10); A.chain(bld, sc, "AllReduce_all_reduce_4", [0, 1, 2], s)
    s, t = A.std_sched(3, t + 50); A.chain(bld, sc, "AllReduce_all_reduce_7", [0, 1, 2], s)
    A.finish(bld, sc)
    for opts in (["--flow"], ["--flow", "--no_mp_sync"]):
        res = A.run(sc, opts, "/tmp/audit_C09/scratch/w9")
        v, st = A.check(sc, res)
        rc |= A.report(f"host base {base} us, " + " ".join(opts), v, st)
        if v and not st: print("  log tail:", res["log"][-300:].replace("\n", " | "))
sys.exit(rc)
