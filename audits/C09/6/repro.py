"""default options (multi-AIU alignment on): 3 rank files, one all-reduce over all ranks and one over the sub-chain 1..2
(rank 0 has no slice of it).  The harness re-rolls such scenarios unless -M is given."""
import sys, os; sys.path.insert(0, os.path.dirname(os.path.dirname(os.path.abspath(__file__))))
import auditlib as A
rc = 0
for opts in (["--flow"], ["--flow", "--no_mp_sync"]):
    sc, bld, rng = A.new_scenario(3)
    s, t = A.std_sched(3, 10); A.chain(bld, sc, "AllReduce_all_reduce_4", [0, 1, 2], s)
    s, t = A.std_sched(2, t + 50); A.chain(bld, sc, "AllReduce_all_reduce_7", [1, 2], s)
    A.finish(bld, sc)
    res = A.run(sc, opts, "/tmp/audit_C09/scratch/w6")
    v, st = A.check(sc, res)
    rc |= A.report("sub-chain group, " + " ".join(opts), v, st)
    if v: print("  log tail:", res["log"][-400:].replace("\n", " | "))
# sub-chain that leaves the LAST rank out, and a truncated trace: trailing group lacks every slice of rank 2
for label, build in (("group 7 on ranks 0..1 of 3", "sub"), ("trailing group 7 truncated: rank 2 has none of its slices", "trunc")):
    sc, bld, rng = A.new_scenario(3)
    s, t = A.std_sched(3, 10); A.chain(bld, sc, "AllReduce_all_reduce_4", [0, 1, 2], s)
    if build == "sub":
        s, t = A.std_sched(2, t + 50); A.chain(bld, sc, "AllReduce_all_reduce_7", [0, 1], s)
    else:
        s, t = A.std_sched(3, t + 50); g = A.chain(bld, sc, "AllReduce_all_reduce_7", [0, 1, 2], s)
        g["complete"] = False
        bld.ev[2] = [x for x in bld.ev[2] if x[3]["attr"].get("CollGroup") != "AllReduce_all_reduce_7"]
    A.finish(bld, sc)
    for opts in (["--flow"], ["--flow", "--no_mp_sync"]):
        res = A.run(sc, opts, "/tmp/audit_C09/scratch/w6")
        v, st = A.check(sc, res)
        rc |= A.report(label + ", " + " ".join(opts), v, st)
        if v: print("  log tail:", res["log"][-260:].replace("\n", " | "))
sys.exit(rc)
