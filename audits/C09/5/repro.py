"""option sets the ASSUMPTIONS exclude: --flow with --build_coll_event (-R) and with --comm_summarize_seq."""
import sys, os; sys.path.insert(0, os.path.dirname(os.path.dirname(os.path.abspath(__file__))))
import auditlib as A
rc = 0
for opts in (["--flow", "--build_coll_event"], ["--flow", "--comm_summarize_seq"], ["--flow", "--build_coll_event", "--comm_summarize_seq"]):
    for N in (2, 4):
        sc, bld, rng = A.new_scenario(N)
        s, t = A.std_sched(N, 10); A.chain(bld, sc, "AllReduce_all_reduce_4", list(range(N)), s)
        s, t = A.std_sched(N, t + 50); A.chain(bld, sc, "AllReduce_all_reduce_7", list(range(N)), s)
        A.finish(bld, sc)
        res = A.run(sc, opts, "/tmp/audit_C09/scratch/w5")
        v, st = A.check(sc, res)
        rc |= A.report(f"{N} ranks " + " ".join(opts), v, st)
sys.exit(rc)
