"""receive slice shorter than 1 ns: --freq 2048, a receive that lasts 1 or 2 device cycles (0.49 / 0.98 ns)."""
import sys, os; sys.path.insert(0, os.path.dirname(os.path.dirname(os.path.abspath(__file__))))
import auditlib as A
rc = 0
for cyc in (1, 2, 3):
    sc, bld, rng = A.new_scenario(2, freq=2048)
    s, t = A.std_sched(2, 10, early=True)
    A.K = 1
    # schedule in single cycles: scale everything by 1000 except the first receive, which lasts cyc cycles at the send end
    s = {k: ([tuple((x * 1000 for x in p)) if not isinstance(p[0], tuple) else tuple(tuple(x * 1000 for x in q) for q in p) for p in v]
             if isinstance(v, list) else tuple(x * 1000 for x in v)) for k, v in s.items()}
    (sa, sb), _ = s["single"][0]
    s["single"][0] = ((sa, sb), (sb, sb + cyc))
    A.chain(bld, sc, "AllReduce_all_reduce_4", [0, 1], s)
    A.K = 1000
    A.finish(bld, sc)
    res = A.run(sc, ["--flow"], "/tmp/audit_C09/scratch/w4")
    v, st = A.check(sc, res)
    rc |= A.report(f"receive of {cyc} cycle(s) at 2048 MHz = {cyc/2.048:.3f} ns", v, st)
sys.exit(rc)
