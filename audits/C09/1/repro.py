"""premature 'final': 3-rank group A whose receives are posted shortly before the data arrives (not at group start), and a
second collective B (other CollGroup) that starts between A's single-cast phase and A's broadcast phase (groups
interleaved in time).  Property: both groups are complete -> 4 arrows each."""
import sys, os; sys.path.insert(0, os.path.dirname(os.path.dirname(os.path.abspath(__file__))))
import auditlib as A
sc, bld, rng = A.new_scenario(3)
sA, tA = A.std_sched(3, 10, early=False)
# A: single-cast phase ends at unit 37; push the broadcast phase of A back by 40 units to open a window
shift = 60
for k in ("bclist", "data"): sA[k] = (sA[k][0] + shift, sA[k][1] + shift)
sA["xseg"] = [(a + shift, b + shift) for a, b in sA["xseg"]]; sA["mrecv"] = [(a + shift, b + shift) for a, b in sA["mrecv"]]
A.chain(bld, sc, "AllReduce_all_reduce_4", [0, 1, 2], sA)
# B: first hop inside the window (units 59..71; A pauses from unit 37 to unit 85), the rest after A has finished
sB, tB = A.std_sched(3, 150, early=True)
sB["single"][0] = ((60, 70), (59, 71))
A.chain(bld, sc, "AllReduce_all_reduce_7", [0, 1, 2], sB)
A.finish(bld, sc)
rc = 0
for opts in (["--flow"], ["--flow", "--no_mp_sync"]):
    res = A.run(sc, opts, "/tmp/audit_C09/scratch/w1")
    v, st = A.check(sc, res)
    rc |= A.report("late-posted receives + interleaved foreign group, " + " ".join(opts), v, st)
sys.exit(rc)
