import sys, random, json, collections, copy, os, itertools
sys.path.insert(0, "/verif/harness"); sys.path.insert(0, "/verif/harness/props")
import c07
def sub(sc, keep):
    s = copy.deepcopy(sc); s["files"] = {fn: v for fn, v in sc["files"].items() if int(fn[4:].split(".")[0]) in keep}
    return s
def view(by): return {u: (x[0]["ts"], x[0]["dur"]) for u, x in by.items()}
res = collections.defaultdict(collections.Counter); ex = {}
for i in range(14):
    rng = random.Random(900+i)
    sc = c07.gen_e2e(rng, ranks=rng.choice([3,4]))
    if sc.get("incomplete") or not sc["groups"]: continue
    n = sc["ranks"]
    sc["deltas"] = [rng.randrange(1, c07.W) for _ in range(n)]
    subsets = [(r,) for r in range(n)] + [(0,2),(1,2),(0,1),(0,1,3)][: 4 if n==4 else 3]
    for opts in ([], ["--flow"]):
        for keep in subsets:
            s = sub(sc, keep); s["opts"] = opts
            st, by, _ = c07.run_e2e(s, capture=False, workdir="/tmp/audit_C07/work")
            stn, byn, _ = c07.run_e2e(s, extra=["-M"], capture=False, workdir="/tmp/audit_C07/work")
            sb = sub(c07.bump_e2e(sc, sc["deltas"]), keep); sb["opts"] = opts
            stb, byb, _ = c07.run_e2e(sb, capture=False, workdir="/tmp/audit_C07/work")
            key = ("single" if len(keep)==1 else "subset%s" % (keep,), " ".join(opts))
            if st != "ok": r = "base:"+st+"/-M:"+stn
            else:
                r = "ok"
                if len(keep)==1 and view(by) != view(byn): r = "single rank shifted vs -M"
                if stb != "ok" or view(by) != view(byb): r += "+epoch_dependent(%s)" % stb
                hostmoved = [u for u in by if not sc["truth"][u]["device"] and (by[u][0]["ts"], by[u][0]["dur"]) != (byn[u][0]["ts"], byn[u][0]["dur"])]
                if hostmoved: r += "+host moved"
            res[key][r] += 1
            if r != "ok": ex.setdefault((key, r), (i, n, sc["groups"]))
for k, v in sorted(res.items()): print(k, dict(v))
for k, v in ex.items(): print("EX", k, v)
