import sys, random, json, collections
sys.path.insert(0, "/verif/harness")
sys.path.insert(0, "/verif/harness/props")
import c07
import aiu_trace_analyzer, os
print(aiu_trace_analyzer.__file__)
extra_sets = [[], ["--flex_ts_fix"], ["-T"], ["--comm_summarize_seq"], ["--flow","-R"], ["-O","shift"], ["-O","drop"], ["-O","async"],["-O","warn"], ["--tb"], ["-s"], ["-c","prep_queue"], ["-c","coll_bw","--flow"], ["--ignore_crit"], ["-k"], ["-I"]]
N = int(sys.argv[1]) if len(sys.argv)>1 else 12
for ex in extra_sets:
    rng = random.Random(1234)
    res = collections.Counter()
    first = None
    for i in range(N):
        sc = c07.gen_e2e(rng)
        sc["opts"] = [o for o in sc["opts"]] + ex
        try:
            runs = c07.e2e_runs(sc, workdir="/tmp/audit_C07/work", rng=random.Random(i))
            fs = c07.oracle_e2e(sc, runs)
        except Exception as e:
            fs = [{"signature": {"kind": "EXC " + type(e).__name__ + str(e)[:80]}, "observed": None, "expected": None}]
        for f in fs[:1]:
            res[f["signature"]["kind"]] += 1
            if first is None:
                first = (i, sc["ranks"], sc["groups"], sc["opts"], f["signature"], str(f["expected"])[:200], str(f["observed"])[:300])
        if not fs: res["ok"] += 1
    print(ex, dict(res), first, flush=True)
