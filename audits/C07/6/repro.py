import sys, random, json, collections, copy
from fractions import Fraction
sys.path.insert(0, "/verif/harness"); sys.path.insert(0, "/verif/harness/props")
import c07
N = int(sys.argv[1]) if len(sys.argv)>1 else 20
# (G) big host clock offsets between ranks
res = collections.Counter(); first=None
rng = random.Random(77)
for i in range(N):
    sc = c07.gen_e2e(rng)
    n = sc["ranks"]
    ds = [0.0]+[float(rng.choice([-1,1])*rng.randrange(1<<28, 1<<33)) for _ in range(n-1)]   # up to 2.4 h
    for fn, evs in sc["files"].items():
        r = int(fn[4:].split(".")[0])
        for e in evs:
            if e.get("ph") != "M": e["ts"] = e["ts"] + ds[r]
    runs = c07.e2e_runs(sc, workdir="/tmp/audit_C07/work", rng=random.Random(i))
    fs = c07.oracle_e2e(sc, runs)
    for f in fs[:1]:
        res[f["signature"]["kind"]] += 1
        if first is None: first=(i, sc["ranks"], sc["groups"], sc["opts"], ds, f["signature"], str(f["expected"])[:200], str(f["observed"])[:300])
    if not fs: res["ok"]+=1
print("big host offsets", dict(res), first, flush=True)

# (H) realistic frequencies, tolerant oracle
class R(random.Random):
    f = None
    first = True
    def choice(self, seq):
        if self.first:
            self.first = False
            super().choice(seq)
            return self.f
        return super().choice(seq)
TOL = 1e-3
for f in [560, 800, 1100, 1000]:
    res = collections.Counter(); first=None
    for i in range(N):
        rng = R(1000+i); rng.f = f; rng.first=True
        sc = c07.gen_e2e(rng)
        assert sc["freq"] == f
        runs = c07.e2e_runs(sc, workdir="/tmp/audit_C07/work", rng=random.Random(i))
        st, by, cap = runs["base"]
        active, used, tree = c07.e2e_class(sc)
        if sc.get("incomplete") and active:
            res["incomplete:"+st]+=1; continue
        if st != "ok":
            res["ERR "+st]+=1; continue
        stn, byn, _ = runs["nosync"]; stb, byb, _ = runs["bumped"]
        bad=None
        offs = collections.defaultdict(list)
        for u,(x,) in by.items():
            t = sc["truth"][u]; xn = byn[u][0]
            if abs(x["dur"]-xn["dur"])>TOL: bad=("dur",u,x["dur"],xn["dur"])
            if not t["device"] or not active:
                if abs(x["ts"]-xn["ts"])>TOL: bad=("host/noop moved",u,x["ts"],xn["ts"])
            else:
                tsa=int(x["args"]["TS%d"%(t["a"]+1)])
                offs[t["rank"]].append(x["ts"]-tsa/f)
            if stb!="ok" or u not in byb or abs(byb[u][0]["ts"]-x["ts"])>TOL or abs(byb[u][0]["dur"]-x["dur"])>TOL:
                bad=("epoch",u,x["ts"], stb if stb!="ok" else byb.get(u,[{}])[0].get("ts"))
        for r,l in offs.items():
            if max(l)-min(l)>TOL: bad=("nonrigid",r,min(l),max(l))
        if bad:
            res[bad[0]]+=1
            if first is None: first=(i,sc["ranks"],sc["groups"],sc["opts"],sc["deltas"],bad)
        else: res["ok"]+=1
    print("freq",f,dict(res),first,flush=True)
