"""Candidate 1: c07.py:761-770 re-rolls the input file names until the job ids (crc32(path) % 10000) are pairwise
distinct.  Here: multi-rank chain-allreduce scenarios whose rank files DO collide; the C07 oracle (property text) is
applied unchanged.  Run: PYTHONPATH=/tmp/audit_C07/wt/src /venv/bin/python repro.py"""
import sys, os, json, random, zlib, tempfile, shutil, contextlib, io
sys.path.insert(0, "/verif/harness"); sys.path.insert(0, "/verif/harness/props")
import c07
import aiu_trace_analyzer.core.acelyzer as acel

def run(sc, extra=()):
    d = tempfile.mkdtemp(prefix="c07c_", dir="/tmp/audit_C07/work")
    try:
        paths, jid0 = [], None
        for fn, evs in sc["files"].items():
            k = 0
            while True:     # all files of the run get the SAME job id
                p = os.path.join(d, (f"c{k}_" if k else "") + fn)
                j = zlib.crc32(p.encode()) % 10000
                if jid0 is None or j == jid0:
                    jid0 = j
                    break
                k += 1
            json.dump(evs, open(p, "w")); paths.append(p)
        outp = os.path.join(d, "out.json")
        argv = ["-i", ",".join(paths), "-o", outp, "--freq", repr(float(sc["freq"])), "-D", "0"] + list(sc["opts"]) + list(extra)
        st = "ok"
        with contextlib.redirect_stdout(io.StringIO()), contextlib.redirect_stderr(io.StringIO()):
            try:
                rc = acel.Acelyzer(argv).run()
                if rc != 0: st = "rc%s" % rc
            except SystemExit as ex: st = "SystemExit%s" % ex.code
            except Exception as ex: st = type(ex).__name__
        by = {}
        if st == "ok":
            for x in json.load(open(outp))["traceEvents"]:
                a = x.get("args")
                if x.get("ph") == "X" and isinstance(a, dict) and "uid" in a:
                    by.setdefault(a["uid"], []).append(x)
        return st, by, None
    finally:
        shutil.rmtree(d, ignore_errors=True)

bad = 0; tot = 0
for i in range(12):
    rng = random.Random(4000 + i)
    sc = c07.gen_e2e(rng, ranks=rng.choice([2, 3, 4]))
    if not sc["groups"] or sc.get("incomplete"): continue
    sc["deltas"] = [rng.randrange(0, 3 * c07.W) for _ in range(sc["ranks"])]
    runs = {"base": run(sc), "nosync": run(sc, ["-M"]), "bumped": run(c07.bump_e2e(sc, sc["deltas"]))}
    fs = c07.oracle_e2e(sc, runs)
    tot += 1
    if fs:
        bad += 1
        print("scenario", i, sc["ranks"], sc["groups"], fs[0]["signature"], "expected", str(fs[0]["expected"])[:120], "observed", str(fs[0]["observed"])[:200])
print("PASS" if not bad else "FAIL", f"{tot - bad}/{tot} colliding-job-id scenarios satisfy rigid/noop/dur/epoch clauses")
