import sys, random, json, collections, copy
sys.path.insert(0, "/verif/harness"); sys.path.insert(0, "/verif/harness/props")
import c07
N = int(sys.argv[1]); lo=int(sys.argv[2]); hi=int(sys.argv[3])
res = collections.Counter(); firsts=[]
rng = random.Random(78)
for i in range(N):
    sc = c07.gen_e2e(rng)
    n = sc["ranks"]
    ds = [0.0]+[float(rng.randrange(1<<lo, 1<<hi)) for _ in range(n-1)]
    rng.shuffle(ds)
    for fn, evs in sc["files"].items():
        r = int(fn[4:].split(".")[0])
        for e in evs:
            if e.get("ph") != "M": e["ts"] = e["ts"] + ds[r]
    runs = c07.e2e_runs(sc, workdir="/tmp/audit_C07/work", rng=random.Random(i))
    fs = c07.oracle_e2e(sc, runs)
    for f in fs[:1]:
        res[f["signature"]["kind"]] += 1
        firsts.append((i, sc["ranks"], sc["groups"], sc["opts"], ds, sc.get("incomplete"), f["signature"]))
        if len(firsts)==1: json.dump(sc, open("/tmp/audit_C07/bigoff_fail.json","w"))
    if not fs: res["ok"]+=1
print("big host offsets", lo, hi, dict(res), flush=True)
for x in firsts[:6]: print(x)
