"""Candidate 2: host-only events without an args dict (corpus 09 expects KeyError; generator gives every host event
args={'uid':..}).  Property: 'all host-only slices are left untouched'.  Adds arg-less non-slice events (flow s/f,
counter C without args is not valid; we use flow events, which carry no args in the trace-event format) and an
arg-less X host slice to rank files of an aligned multi-rank run."""
import sys, random, copy
sys.path.insert(0, "/verif/harness"); sys.path.insert(0, "/verif/harness/props")
import c07
rng = random.Random(11)
sc = c07.gen_e2e(rng, ranks=3)
while not sc["groups"] or sc.get("incomplete"): sc = c07.gen_e2e(rng, ranks=3)
sc["opts"] = []
t0 = min(e["ts"] for e in sc["files"]["rank1.json"] if e.get("ph") != "M")
variants = {
  "X host slice without args": [{"ph": "X", "name": "HostFn_noargs", "pid": 1, "tid": 12, "ts": t0 + 1.0, "dur": 2.0}],
  "flow s/f pair without args": [{"ph": "s", "id": 7, "name": "fl", "cat": "c", "pid": 1, "tid": 12, "ts": t0 + 1.0},
                                 {"ph": "f", "id": 7, "name": "fl", "cat": "c", "pid": 1, "tid": 13, "ts": t0 + 2.0, "bp": "e"}],
  "counter C with args": [{"ph": "C", "name": "ctr", "pid": 1, "ts": t0 + 1.0, "args": {"v": 3}}],
  "instant i with args": [{"ph": "i", "name": "mark", "pid": 1, "tid": 12, "ts": t0 + 1.0, "s": "t", "args": {}}],
}
ok = True
for name, add in variants.items():
    s = copy.deepcopy(sc)
    l = s["files"]["rank1.json"]; k = next(i for i, e in enumerate(l) if e.get("ph") in ("X", "E")) + 1
    for a in add: a["ts"] = l[k - 1]["ts"] + (a["ts"] - t0 - 1.0) * 0.001
    s["files"]["rank1.json"] = l[:k] + add + l[k:]
    st, by, _ = c07.run_e2e(s, capture=False, workdir="/tmp/audit_C07/work")
    stn, byn, _ = c07.run_e2e(s, extra=["-M"], capture=False, workdir="/tmp/audit_C07/work")
    print(f"{name}: aligned run -> {st}; with -M -> {stn}")
    if st != stn: ok = False
print("PASS" if ok else "FAIL", "(expected: aligned run succeeds whenever the -M run does; host-only events untouched)")
