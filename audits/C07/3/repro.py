"""Candidate 3: ASSUMPTION 'ranks are numbered 0..N-1' / wf flag (c07.py:552-554), corpus 10 expects IndexError.
A rank whose file holds device slices but no collective event (e.g. a 3-file run where rank 2 only computed), and rank
files 0,1,3 of a 4-rank job."""
import sys, random, copy
sys.path.insert(0, "/verif/harness"); sys.path.insert(0, "/verif/harness/props")
import c07
rng = random.Random(21)
sc = c07.gen_e2e(rng, ranks=3)
while not sc["groups"] or sc.get("incomplete"): sc = c07.gen_e2e(rng, ranks=3)
sc["opts"] = []
s = copy.deepcopy(sc)
s["files"]["rank2.json"] = [e for e in s["files"]["rank2.json"] if "CollGroup" not in e.get("attr", {})]
st, by, _ = c07.run_e2e(s, capture=False, workdir="/tmp/audit_C07/work")
stn, byn, _ = c07.run_e2e(s, extra=["-M"], capture=False, workdir="/tmp/audit_C07/work")
print("rank 2 without collectives (ranks 0,1 chain): aligned run ->", st, "; -M ->", stn)
print("PASS" if st in ("ok", "SystemExit1") else "FAIL",
      "(expected by the property: placement with one offset per rank, or at least the documented refusal 'use -M' (SystemExit1); observed %s)" % st)
