"""C12 candidate 2: -F/--filter (ASSUMPTION 'no -F/--filter'). The filter stage is registered AFTER calculate_stats, so
the CSVs describe slices that the exported trace does not contain."""
import os, sys
sys.path.insert(0, os.path.join(os.path.dirname(os.path.abspath(__file__)), ".."))
from common import *   # noqa
from scen import rank, two_ranks

ok = True
for o in (["-F", "C"], ["-F", "X"]):
    r = run_acelyzer(two_ranks(), opts=o)
    ok &= verdict("two ranks, filter " + " ".join(o), r)
print("PASS" if ok else "FAIL")
