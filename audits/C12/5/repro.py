"""C12 candidate 5: ASSUMPTION 'kernel slices have args.TS1..TS5' / oracle expects KeyError (corpus 10)."""
import os, sys
sys.path.insert(0, os.path.join(os.path.dirname(os.path.abspath(__file__)), ".."))
from common import *   # noqa
from scen import rank, two_ranks

import traceback
r = run_acelyzer({"r0.json": rank(0, nots=2)}, keep=False)
print("CLI run with one 'Cmpt Exec' slice without TS1..TS5:", r.get("err", "ok"))
print("log tail:", r["log"][-300:].replace("\n", " | "))
print("-> the run aborts in pipeline/overlap.py assert_ts_sequence (KeyError 'TS3'), BEFORE calculate_stats; no CSV and "
      "no export exist, so the property has nothing to compare.")
print("PASS (vacuous: no files)" if "err" in r else ("PASS" if not check_property(r) else "FAIL"))
