"""C12 candidate 7: ASSUMPTION 'pids are integers'. Torch-profiler style input (deviceProperties => TORCH dialect)
whose kernel slices carry a string pid: ingestion replaces it by hash(pid), tb_refinement_lightweight restores it
AFTER calculate_stats. EXOTIC: torch profiles use integer device pids for kernels."""
import os, sys
sys.path.insert(0, os.path.join(os.path.dirname(os.path.abspath(__file__)), ".."))
from common import *   # noqa
from scen import rank, two_ranks

def torch_file(pid):
    evs, c, f = [], 1000, 1000.0
    for i in range(5):
        cs = [c, c + 300, c + 500, c + 900 + 37 * i, c + 1050 + 37 * i]
        a = {"External id": i + 1, "correlation": 10 + i}
        a.update({f"TS{j + 1}": str(cs[j]) for j in range(5)})
        evs.append({"ph": "X", "cat": "cpu_op", "name": "aten::mm", "pid": pid, "tid": 7, "ts": 1000 + cs[0] / f - .2,
                    "dur": 0.1, "args": {"External id": i + 1}})
        evs.append({"ph": "X", "cat": "kernel", "name": ("addmm_1 Cmpt Exec", "conv-2 Cmpt Exec")[i % 2], "pid": pid,
                    "tid": 9, "ts": 1000 + cs[2] / f, "dur": (cs[3] - cs[2]) / f, "args": a})
        c = cs[-1] + 500
    return {"deviceProperties": [{"id": 0, "name": "AIU", "type": "aiu"}], "traceEvents": evs}
ok = verdict("torch profile, integer pid (control)", run_acelyzer({"t0.json": torch_file(0)}, opts=["--tb"]))
ok2 = verdict("torch profile, pid 'AIU 0'", run_acelyzer({"t0.json": torch_file("AIU 0")}, opts=["--tb"]))
print("PASS" if ok and ok2 else "FAIL")
