"""C12 candidate 9: generator narrowings of gen_e2e that turn out to be harmless: FLEX only, one file per rank,
strictly sequential kernels on one tid, power-of-two frequencies, 8 option sets. Matrix over three scenarios."""
import os, sys, random
sys.path.insert(0, os.path.join(os.path.dirname(os.path.abspath(__file__)), ".."))
from common import *   # noqa
f = 1000.0
ALLPH = ("DmaI", "Cmpt Prep", "Cmpt Exec", "DmaO")


def rank(pid, H=1000.0, n=6, seed=1, c0=1000, overlap=False, tids=(7,),
         names=("addmm_1_MatMul", "conv-2", "addmm_7_MatMul", "k")):
    r = random.Random(seed); evs = []; c = c0
    for i in range(n):
        seg = [r.randint(50, 400) for _ in range(4)]
        cs = [c]
        for s in seg:
            cs.append(cs[-1] + s)
        evs += flex_kernel(r.choice(names), pid, H, cs, f, phases=ALLPH, tid=r.choice(tids))
        c = cs[-1] + r.randint(10, 900) if not overlap else cs[2] + r.randint(1, 200)
    evs.sort(key=lambda x: x["ts"])
    return evs


base = {"r0.json": rank(0, seed=1), "r1.json": rank(1, H=1003.5, seed=2)}
twofiles = {"r0a.json": rank(0, seed=1), "r0b.json": rank(0, seed=3, c0=20000),
            "r1a.json": rank(1, H=1003.5, seed=2), "r1b.json": rank(1, H=1003.5, seed=4, c0=20000)}
over = {"r0.json": rank(0, seed=5, overlap=True), "r1.json": rank(1, H=1001.0, seed=6, overlap=True, tids=(7, 8))}
EV = os.path.join(WT, "src/aiu_trace_analyzer/profiles/everything.json")
OPTS = [[], ["--tb"], ["--flow"], ["--flow", "-R"], ["-T"], ["-s"], ["--flex_ts_fix"], ["-O", "drop"], ["-O", "tid"],
        ["-O", "warn"], ["-O", "shift"], ["-C", "power_ts4", "prep_queue", "bandwidth", "coll_bw"],
        ["--time_unit", "ms"], ["-I"], ["--comm_summarize_seq"], ["-k"], ["--keep_prep"], ["--drop_globals"],
        ["--event_limit", '{"count": 7}'], ["--event_limit", '{"ts_start": 1002.0}'], ["--event_filter", "name:conv"],
        ["-P", EV], ["--tb", "-P", EV], ["-F", "X"]]
ok = True
for sn, sc in (("two ranks", base), ("two files per rank", twofiles), ("overlapping kernels, 2 tids", over)):
    for fq in ("1000.0", "560.0"):
        for o in (OPTS if fq == "1000.0" else [[], ["--tb"]]):
            r = run_acelyzer(sc, opts=o, freq=fq)
            if "err" in r:
                v = "RUN FAILED " + r["err"][:80]; ok = False
            else:
                b = check_property(r)
                v = "PASS" if not b else "FAIL " + "; ".join(b[:2])[:200]
                ok &= not b
            print(f"{sn} | freq {fq} | {' '.join(o) or '(default)'} -> {v}", flush=True)
print("PASS" if ok else "FAIL")
