"""C12 candidate 6: 'quirk kept' end = max(0.0, ends) (ASSUMPTION 2, in_domain(), corpus 08, hypothesis of
C12_active_true_extremes). (a) stage called directly with slices ending below 0; (b) CLI with negative timestamps."""
import os, sys
sys.path.insert(0, os.path.join(os.path.dirname(os.path.abspath(__file__)), ".."))
from common import *   # noqa
from scen import rank, two_ranks

from aiu_trace_analyzer.pipeline.stats import StatsExtractionContext, calculate_stats
os.makedirs("/tmp/audit_C12/repro6", exist_ok=True)
ctx = StatsExtractionContext(stats_filename="/tmp/audit_C12/repro6/res.json")
for ts, dur in ((-10.0, 2.0), (-20.0, 3.0)):
    calculate_stats({"ph": "X", "name": "n Cmpt Exec", "pid": 0, "tid": 0, "ts": ts, "dur": dur,
                     "args": {f"TS{k}": str(k) for k in range(1, 6)}}, ctx)
ctx.drain()
row = open("/tmp/audit_C12/repro6/res_active.csv").read().split("\n")[1].split("\t")
print("(a) direct: elapsed/start/end/active =", [c.strip() for c in row[1:5]],
      " expected (property): elapsed 12.000, start -20.000, end -8.000, active 41.67")
a_ok = row[1].strip() == "12.000"
print("(a):", "PASS" if a_ok else "FAIL")
r = run_acelyzer({"r0.json": rank(0, H=-50.0, c0=10)}, opts=["--event_limit", '{"ts_start": -1000.0}'])
print("(b) CLI, all timestamps negative, limiter opened:", r.get("err", "ran"))
print("(b): not reachable - the pipeline rejects negative timestamps before the statistics stage"
      if "err" in r else "(b): " + ("PASS" if not check_property(r) else "FAIL"))
print("FAIL (direct stage call only)" if not a_ok else "PASS")
