"""C12 candidate 4: ASSUMPTION 'kernel slices have dur > 0' / oracle expects AssertionError (corpus 09, judge
'malformed_accepted'). (a) realistic CLI input: a kernel whose TS3 == TS4 (zero-length Exec slice);
(b) the stage called directly with such a slice."""
import os, sys
sys.path.insert(0, os.path.join(os.path.dirname(os.path.abspath(__file__)), ".."))
from common import *   # noqa
from scen import rank, two_ranks

ok = True
for o in ([], ["--tb"], ["--disable_tb"], ["-M"]):
    r = run_acelyzer({"r0.json": rank(0, zero=2)}, opts=o)
    ok &= verdict("(a) CLI, one zero-length Exec slice " + " ".join(o), r)
print("(a):", "PASS (slice is dropped before the statistics AND from the export: files agree)" if ok else "FAIL")
from aiu_trace_analyzer.pipeline.stats import StatsExtractionContext, calculate_stats
ctx = StatsExtractionContext(stats_filename="/tmp/audit_C12/repro4.json")
ev = {"ph": "X", "name": "z Cmpt Exec", "pid": 0, "tid": 0, "ts": 3.0, "dur": 0.0,
      "args": {"TS1": "1", "TS2": "2", "TS3": "3", "TS4": "3", "TS5": "4"}}
try:
    calculate_stats(ev, ctx)
    print("(b) direct stage call: accepted")
except AssertionError:
    print("(b) direct stage call: AssertionError (FAIL by the letter: the property would want Calls=1, Min=0.000; "
          "not reachable through the CLI, see (a))")
print("PASS" if ok else "FAIL")
