"""C12 candidate 3: drive_e2e re-rolls input file names until crc32(path) % 10000 job ids are pairwise distinct.
Here: two rank files whose paths collide on the job id."""
import os, sys
sys.path.insert(0, os.path.join(os.path.dirname(os.path.abspath(__file__)), ".."))
from common import *   # noqa
from scen import rank, two_ranks

import shutil, tempfile, zlib
fixed = "/tmp/audit_C12/c12a_fixed"
tempfile.mkdtemp = lambda **kw: (shutil.rmtree(fixed, ignore_errors=True), os.makedirs(fixed), fixed)[2]
j0 = zlib.crc32(f"{fixed}/in/r0.json".encode()) % 10000
s = 0
while zlib.crc32(f"{fixed}/in/r1_{s}.json".encode()) % 10000 != j0:
    s += 1
print(f"r0.json and r1_{s}.json both hash to job id {j0}")
sc = {"r0.json": rank(0, seed=1), f"r1_{s}.json": rank(1, H=1003.5, seed=2)}
ok = True
for o in ([], ["--tb"], ["--flow"], ["-M"]):
    ok &= verdict("colliding job ids " + " ".join(o), run_acelyzer(sc, opts=o))
print("PASS" if ok else "FAIL")
