"""C12 candidate 1: CSV file names for an output path WITHOUT extension whose path contains a '.' (./res, run.v1/res).
Property: the statistics are in <output>_summary.csv / <output>_active.csv."""
import contextlib, io, json, os, shutil, sys
sys.path.insert(0, os.path.join(os.path.dirname(os.path.abspath(__file__)), ".."))
from common import *   # noqa  (puts the worktree on sys.path)
from scen import two_ranks
from aiu_trace_analyzer.core.acelyzer import Acelyzer

d = "/tmp/audit_C12/repro1"
ok = True
for out in ("./res", "run.v1/res", "run.v1/res.json"):
    shutil.rmtree(d, ignore_errors=True)
    os.makedirs(d + "/in"); os.makedirs(d + "/run.v1")
    ps = []
    for k, v in two_ranks().items():
        json.dump(v, open(f"{d}/in/{k}", "w")); ps.append(f"{d}/in/{k}")
    os.chdir(d)
    b = io.StringIO()
    with contextlib.redirect_stdout(b), contextlib.redirect_stderr(b):
        rc = Acelyzer(["-i", ",".join(ps), "-o", out, "--freq", "1000.0", "-D", "0"]).run()
    stem = out[:-5] if out.endswith(".json") else out
    want = [os.path.normpath(stem + "_summary.csv"), os.path.normpath(stem + "_active.csv")]
    got = sorted(os.path.relpath(os.path.join(a, f), d) for a, _, fs in os.walk(d) for f in fs if not a.endswith("/in"))
    good = all(w in got for w in want)
    ok &= good
    print(f"-o {out}: rc={rc}\n   expected (property): {want}\n   files written: {got}\n   -> {'PASS' if good else 'FAIL'}")
print("PASS" if ok else "FAIL")
