"""C12 candidate 8: TRUSTED 'hash((name, pid)) collision-free'; generator pid pool has -1 but never -2.
CPython: hash(-1) == hash(-2), hence hash((name, -1)) == hash((name, -2)): two ranks share one queue. EXOTIC pids."""
import os, sys
sys.path.insert(0, os.path.join(os.path.dirname(os.path.abspath(__file__)), ".."))
from common import *   # noqa
from scen import rank, two_ranks

from aiu_trace_analyzer.pipeline.stats import StatsExtractionContext, calculate_stats
os.makedirs("/tmp/audit_C12/repro8", exist_ok=True)
ctx = StatsExtractionContext(stats_filename="/tmp/audit_C12/repro8/res.json")
for pid, ts, dur in ((-1, 10.0, 2.0), (-2, 20.0, 3.0)):
    calculate_stats({"ph": "X", "name": "k Cmpt Exec", "pid": pid, "tid": 0, "ts": ts, "dur": dur,
                     "args": {f"TS{k}": str(k) for k in range(1, 6)}}, ctx)
ctx.drain()
txt = open("/tmp/audit_C12/repro8/res_summary.csv").read()
print(txt)
rows = [l for l in txt.split("\n")[1:] if l.strip()]
print("expected (property): one row per rank (-1: Calls 1 Total 2.000; -2: Calls 1 Total 3.000)")
print("PASS" if len(rows) == 2 else "FAIL (ranks -1 and -2 merged into one row)")
