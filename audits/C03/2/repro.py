"""Candidate 2: harness pre-drains _main_barrier_context before every case ("a fresh process starts with an empty hold").
Narrowed-away region: an earlier run of the SAME process aborted while events were parked at the module-level barrier.
(A) documented API Acelyzer(argv).run(): run 1 aborts (a stage raises), run 2 on another file; compare with run 2 alone
    in a fresh process.  (B) developer API: two EventProcessors, the first aborts behind its barrier."""
import json, os, subprocess, sys, tempfile
sys.path.insert(0, "/tmp/audit_C03/wt/src")
tmp = tempfile.mkdtemp(prefix="c03a2_")
good = [{"name": f"k{i}", "cat": "c", "ph": "X", "pid": 0, "tid": 0, "ts": 10 * i + 1, "dur": 5} for i in range(6)]
bad = [{"name": f"stale{i}", "cat": "c", "ph": "X", "pid": 7, "tid": 3, "ts": 10 * i + 1, "dur": 5} for i in range(6)]
bad.append({"name": "boom", "cat": "c", "ph": "X", "pid": 7, "tid": 3, "ts": 100, "dur": [1]})   # malformed dur: some stage raises
json.dump(good, open(f"{tmp}/good.json", "w")); json.dump(bad, open(f"{tmp}/bad.json", "w"))

if len(sys.argv) > 1:      # child: fresh process, run 2 only
    from aiu_trace_analyzer.core.acelyzer import Acelyzer
    Acelyzer(["-i", sys.argv[1], "-o", sys.argv[2]]).run()
    sys.exit(0)

from aiu_trace_analyzer.core.acelyzer import Acelyzer
import aiu_trace_analyzer.pipeline.barrier as barrier
aborted = None
try:
    Acelyzer(["-i", f"{tmp}/bad.json", "-o", f"{tmp}/o1.json"]).run()
except BaseException as e:           # noqa
    aborted = type(e).__name__
print("(A) run 1 aborted with", aborted, "; events left at the barrier:", len(barrier._main_barrier_context.hold))
Acelyzer(["-i", f"{tmp}/good.json", "-o", f"{tmp}/o2.json"]).run()
subprocess.run([sys.executable, __file__, f"{tmp}/good.json", f"{tmp}/o2f.json"], check=True,
               stdout=subprocess.DEVNULL, stderr=subprocess.DEVNULL)


def names(p):
    d = json.load(open(p)); ev = d["traceEvents"] if isinstance(d, dict) else d
    return sorted((e.get("ph"), e.get("name"), e.get("pid"), e.get("ts")) for e in ev)


a, b = names(f"{tmp}/o2.json"), names(f"{tmp}/o2f.json")
stale = [x for x in a if "stale" in str(x[1]) or x[2] == 7]
print("(A) run 2 after aborted run: %d events, fresh process: %d events, stale events in run 2: %d" % (len(a), len(b), len(stale)))
okA = aborted is not None and a == b and not stale
print("(A)", "PASS" if okA else ("INCONCLUSIVE (run 1 did not abort)" if aborted is None else "FAIL"))

# (B) developer API, no Acelyzer
import aiu_trace_analyzer.core.processing as processing
import aiu_trace_analyzer.core.engine as engine
from aiu_trace_analyzer.core.stage_profile import StageProfile


def mkproc(cbs):
    n = [{c.__name__: True} for c in cbs]
    p = processing.EventProcessor(profile=StageProfile({"stages": [dict(d) for d in n]}, {"stages": [dict(d) for d in n]}))
    for c in cbs:
        p.register_stage(callback=c, context=barrier._main_barrier_context if c is barrier.pipeline_barrier else None)
    return p


def boom(event, ctx):
    if event["ts"] == 3:
        raise RuntimeError("stage failed")
    return [event]


seen = []


def after(event, ctx):
    seen.append(event["ts"]); return [event]


class Exp:
    def __init__(self): self.out = []
    def export(self, evs): self.out.extend(e.ts for e in evs)
    def flush(self): pass


def ev(n): return {"ph": "X", "ts": n, "dur": 1, "pid": 0, "tid": 0, "name": "e", "args": {}}


barrier._main_barrier_context.drain()
try:   # barrier 1 releases 1,2,3 one by one during drain; 1,2 reach barrier 2, boom raises on 3
    engine.Engine([ev(1), ev(2), ev(3)], mkproc([barrier.pipeline_barrier, boom, barrier.pipeline_barrier]), Exp()).run()
except RuntimeError:
    pass
x = Exp()
engine.Engine([ev(10), ev(11)], mkproc([barrier.pipeline_barrier, after]), x).run()
print("(B) second processor: stage after barrier received", seen, "expected [10, 11]; exported", x.out)
okB = seen == [10, 11] and x.out == [10, 11]
print("(B)", "PASS" if okB else "FAIL")
print("PASS" if okA and okB else "FAIL")
