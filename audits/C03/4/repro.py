"""Candidate 4: ASSUMPTION 'registration happens under an all-enabled profile'.  Region: a profile that disables some of the
callbacks passed to register_stage (incl. one of two barriers).  Property speaks of REGISTERED callbacks: the skipped ones
are simply not part of the sequence; expected = behaviour of the pipeline made of the remaining stages."""
import sys
sys.path.insert(0, "/tmp/audit_C03/wt/src")
import aiu_trace_analyzer.core.processing as processing
import aiu_trace_analyzer.core.engine as engine
import aiu_trace_analyzer.pipeline.barrier as barrier
from aiu_trace_analyzer.pipeline.context import AbstractContext
from aiu_trace_analyzer.core.stage_profile import StageProfile

log = []


class Q(AbstractContext):
    def __init__(self): super().__init__(); self.hold = []
    def drain(self): h, self.hold = self.hold, []; return h


def hold(e, c): log.append(("hold", e["ts"])); c.hold.append(e); return []
def skipme(e, c): log.append(("skipme", e["ts"])); return []
def after(e, c): log.append(("after", e["ts"])); return [e]


def pb(e, c): return barrier.pipeline_barrier(e, c)
pb.__name__ = "pipeline_barrier"
ever = [{"hold": True}, {"skipme": True}, {"pipeline_barrier": True}, {"pipeline_barrier": True}, {"after": True}]
prof = [{"hold": True}, {"skipme": False}, {"pipeline_barrier": False}, {"pipeline_barrier": True}, {"after": True}]
p = processing.EventProcessor(profile=StageProfile({"stages": prof}, {"stages": ever}))
barrier._main_barrier_context.drain()
p.register_stage(callback=hold, context=Q())
p.register_stage(callback=skipme, context=Q())
p.register_stage(callback=barrier.pipeline_barrier, context=barrier._main_barrier_context)
p.register_stage(callback=barrier.pipeline_barrier, context=barrier._main_barrier_context)
p.register_stage(callback=after, context=None)
out = []


class Exp:
    def export(self, evs): out.extend(e.ts for e in evs)
    def flush(self): pass


engine.Engine([{"ph": "X", "ts": k, "dur": 1, "pid": 0, "tid": 0, "name": "e", "args": {}} for k in (1, 2, 3)], p, Exp()).run()
exp_log = [("hold", 1), ("hold", 2), ("hold", 3), ("after", 1), ("after", 2), ("after", 3)]
print("registered stages:", [s[0].__name__ for s in []] or len(p.stages), "log", log, "exported", out)
print("PASS" if log == exp_log and out == [1, 2, 3] else "FAIL")
