"""Candidate 1: one context registered for two non-barrier stages, the LATER of which holds events back.
Built with the developer-README API (EventProcessor.register_stage + Engine), real unmodified code.
Property text: every event a stage returns is handed exactly once to the next stage; held events are released through
the context's drain and then traverse all LATER stages."""
import sys
sys.path.insert(0, "/tmp/audit_C03/wt/src")
import aiu_trace_analyzer.core.processing as processing
import aiu_trace_analyzer.core.engine as engine
from aiu_trace_analyzer.pipeline.context import AbstractContext
from aiu_trace_analyzer.core.stage_profile import StageProfile


class Shared(AbstractContext):          # counts in stage 1, queue used by stage 3 (like the built-in two-stage contexts)
    def __init__(self):
        super().__init__()
        self.seen, self.hold = 0, []

    def drain(self):
        h, self.hold = self.hold, []
        return h


calls = {"count": [], "dup": [], "hold": []}


def count(event, ctx):
    calls["count"].append(event["ts"]); ctx.seen += 1
    return [event]


def dup(event, ctx):
    calls["dup"].append(event["ts"])
    return [event, dict(event)]


def hold(event, ctx):
    calls["hold"].append(event["ts"]); ctx.hold.append(event)
    return []


names = [{"count": True}, {"dup": True}, {"hold": True}]
proc = processing.EventProcessor(profile=StageProfile({"stages": [dict(d) for d in names]},
                                                      {"stages": [dict(d) for d in names]}))
c = Shared()
proc.register_stage(callback=count, context=c)
proc.register_stage(callback=dup, context=None)
proc.register_stage(callback=hold, context=c)
out = []


class Exp:
    def export(self, evs): out.extend(e.ts for e in evs)
    def flush(self): pass


inp = [{"ph": "X", "ts": 1, "dur": 1, "pid": 0, "tid": 0, "name": "e", "args": {}}]
engine.Engine(inp, proc, Exp()).run()
exp_out, exp_dup_calls, exp_hold_calls = [1, 1], [1], [1, 1]
print("exported       observed", out, "expected", exp_out)
print("calls of dup   observed", calls["dup"], "expected", exp_dup_calls, "(stage 1 returned ONE event)")
print("calls of hold  observed", calls["hold"], "expected", exp_hold_calls, "(dup returned TWO events)")
ok = out == exp_out and calls["dup"] == exp_dup_calls and calls["hold"] == exp_hold_calls
print("PASS" if ok else "FAIL")
