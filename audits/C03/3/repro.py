"""Candidate 3: the harness registers pipeline_barrier ONLY with context=_main_barrier_context (and never lets another
stage use that context; theorem hypothesis ~In BC (pcids gs)).  Narrowed-away region: a developer registers the
barrier callback like any other callback - with no context ("the context is an optional parameter", README) or with a
_BarrierContext of his own.  EXOTIC: both names are underscore-private and acelyzer.py always passes the module-level one.
Property text: held events are released through the stage's context's drain and traverse all later stages."""
import sys
sys.path.insert(0, "/tmp/audit_C03/wt/src")
import aiu_trace_analyzer.core.processing as processing
import aiu_trace_analyzer.core.engine as engine
import aiu_trace_analyzer.pipeline.barrier as barrier
from aiu_trace_analyzer.core.stage_profile import StageProfile


def run(specs, inputs):
    n = [{c.__name__: True} for c, _ in specs]
    p = processing.EventProcessor(profile=StageProfile({"stages": [dict(d) for d in n]}, {"stages": [dict(d) for d in n]}))
    for c, ctx in specs:
        p.register_stage(callback=c, context=ctx)
    out = []

    class Exp:
        def export(self, evs): out.extend(e.ts for e in evs)
        def flush(self): pass
    engine.Engine([{"ph": "X", "ts": k, "dur": 1, "pid": 0, "tid": 0, "name": "e", "args": {}} for k in inputs], p, Exp()).run()
    return out


seenA = []


def stageA(event, ctx):
    seenA.append(event["ts"]); return [event]


def stageB(event, ctx):
    return [event]


barrier._main_barrier_context.drain()
o1 = run([(barrier.pipeline_barrier, None), (stageA, None)], [1, 2])
left = len(barrier._main_barrier_context.hold)
print("barrier registered with context=None : exported", o1, "expected [1, 2]; left in module-level hold:", left)
barrier._main_barrier_context.drain(); seenA.clear()
o2 = run([(barrier.pipeline_barrier, barrier._BarrierContext()), (stageA, None),
          (barrier.pipeline_barrier, barrier._main_barrier_context), (stageB, None)], [1, 2])
print("first barrier with its own _BarrierContext: exported", o2, "stageA (between the barriers) received", seenA, "expected [1, 2]")
print("PASS" if o1 == [1, 2] and o2 == [1, 2] and seenA == [1, 2] else "FAIL")
