"""C06 audit 3: host clock relative to trace start (first kernel at ts ~ 0) and --freq scaled by k = 1/2.
Property: for ALL positive --freq: durations rescale by 1/k, only the start moves (it would become negative here), end fixed."""
import json, os, subprocess, sys, tempfile
WT = os.environ.get("C06_TREE", "/tmp/audit_C06/wt" if os.path.isdir("/tmp/audit_C06/wt/src") else "/repo") + "/src"   # unmodified tree (read-only use)
W = 1 << 32
PH = ["DmaI", "Cmpt Prep", "Cmpt Exec", "DmaO"]


def ev(name, ts, dur, cs=None, uid=0, tid=7, fmt=str):
    d = {"ph": "X", "pid": 0, "tid": tid, "name": name, "ts": ts, "dur": dur, "args": {"uid": uid}}
    for k, c in enumerate(cs or []):
        d["args"][f"TS{k + 1}"] = fmt(c)
    return d


def run(events, freq, opts=("--keep_prep",)):
    """documented API Acelyzer(argv).run() in a fresh interpreter on the UNMODIFIED tree; returns (rc, last error line, {uid: exported X slice})"""
    d = tempfile.mkdtemp(prefix="c06audit_")
    p, o = os.path.join(d, "rank0_0.json"), os.path.join(d, "out.json")
    json.dump(events, open(p, "w"))
    r = subprocess.run([sys.executable, "-c", "import sys;from aiu_trace_analyzer.core.acelyzer import Acelyzer;"
                        "sys.exit(Acelyzer(sys.argv[1:]).run())", "-i", p, "-o", o, "--freq", repr(freq), "-D", "0", *opts],
                       env=dict(os.environ, PYTHONPATH=WT, PYTHONDONTWRITEBYTECODE="1"), capture_output=True, text=True)
    err = ([l for l in (r.stdout + r.stderr).splitlines() if "Error" in l] or [""])[-1][:300]
    by = {}
    if r.returncode == 0 and os.path.exists(o):
        for x in json.load(open(o))["traceEvents"]:
            a = x.get("args")
            if x.get("ph") == "X" and isinstance(a, dict) and "uid" in a:
                by[a["uid"]] = x
    return r.returncode, err, by


FAILS = []


def expect(cond, what, exp, got):
    print(("  ok   " if cond else "  BAD  ") + what + f": expected {exp}, observed {got}")
    if not cond:
        FAILS.append(what)


def verdict():
    print("FAIL" if FAILS else "PASS", "(%d violated expectations)" % len(FAILS))
    sys.exit(1 if FAILS else 0)

f, H = 1024.0, 0.0
cs = [10240, 20480, 40960, 81920, 163840]
evs = [ev("k1 DmaI", H, 10, cs, 0), ev("k1 Cmpt Prep", H + 10, 20, cs, 1), ev("k1 Cmpt Exec", H + 30, 40, cs, 2), ev("k1 DmaO", H + 70, 80, cs, 3)]
rc1, err1, by1 = run(evs, f)
expect(rc1 == 0 and len(by1) == 4, "baseline run at f", "rc 0, 4 slices", (rc1, err1, len(by1)))
rc2, err2, by2 = run(evs, f / 2)
expect(rc2 == 0 and len(by2) == 4, "run at f/2", "rc 0, 4 slices", (rc2, err2, len(by2)))
for u in by1:
    if u in by2:
        expect(by2[u]["dur"] == 2 * by1[u]["dur"] and by2[u]["ts"] + by2[u]["dur"] == by1[u]["ts"] + by1[u]["dur"],
               f"uid {u} dur doubled, end fixed", (2 * by1[u]["dur"],), (by2[u]["ts"], by2[u]["dur"]))
verdict()
