"""C06 audit 1: device slice whose OWN phase gap is zero (TSa == TSb) but whose host-recorded duration is positive.
Property text: every exported device slice has dur = (TSb-TSa)/f, STRICTLY POSITIVE and finite."""
import json, os, subprocess, sys, tempfile
WT = os.environ.get("C06_TREE", "/tmp/audit_C06/wt" if os.path.isdir("/tmp/audit_C06/wt/src") else "/repo") + "/src"   # unmodified tree (read-only use)
W = 1 << 32
PH = ["DmaI", "Cmpt Prep", "Cmpt Exec", "DmaO"]


def ev(name, ts, dur, cs=None, uid=0, tid=7, fmt=str):
    d = {"ph": "X", "pid": 0, "tid": tid, "name": name, "ts": ts, "dur": dur, "args": {"uid": uid}}
    for k, c in enumerate(cs or []):
        d["args"][f"TS{k + 1}"] = fmt(c)
    return d


def run(events, freq, opts=("--keep_prep",)):
    """documented API Acelyzer(argv).run() in a fresh interpreter on the UNMODIFIED tree; returns (rc, last error line, {uid: exported X slice})"""
    d = tempfile.mkdtemp(prefix="c06audit_")
    p, o = os.path.join(d, "rank0_0.json"), os.path.join(d, "out.json")
    json.dump(events, open(p, "w"))
    r = subprocess.run([sys.executable, "-c", "import sys;from aiu_trace_analyzer.core.acelyzer import Acelyzer;"
                        "sys.exit(Acelyzer(sys.argv[1:]).run())", "-i", p, "-o", o, "--freq", repr(freq), "-D", "0", *opts],
                       env=dict(os.environ, PYTHONPATH=WT, PYTHONDONTWRITEBYTECODE="1"), capture_output=True, text=True)
    err = ([l for l in (r.stdout + r.stderr).splitlines() if "Error" in l] or [""])[-1][:300]
    by = {}
    if r.returncode == 0 and os.path.exists(o):
        for x in json.load(open(o))["traceEvents"]:
            a = x.get("args")
            if x.get("ph") == "X" and isinstance(a, dict) and "uid" in a:
                by[a["uid"]] = x
    return r.returncode, err, by


FAILS = []


def expect(cond, what, exp, got):
    print(("  ok   " if cond else "  BAD  ") + what + f": expected {exp}, observed {got}")
    if not cond:
        FAILS.append(what)


def verdict():
    print("FAIL" if FAILS else "PASS", "(%d violated expectations)" % len(FAILS))
    sys.exit(1 if FAILS else 0)

f, H = 1024.0, 50000.0
print("(a) DmaO slice, TS4 == TS5, host dur 2us; DmaI slice TS1 == TS2 (as in tests/test_data: TS1 == TS2 is common)")
cs = [10240, 10240, 40960, 81920, 81920]
rc, err, by = run([ev("k1 DmaI", H, 1.5, cs, 0), ev("k1 Cmpt Prep", H + 2, 30, cs, 1), ev("k1 Cmpt Exec", H + 32, 40, cs, 2),
                   ev("k1 DmaO", H + 72, 2.0, cs, 3)], f)
expect(rc == 0, "run exits 0", 0, (rc, err))
for u in (0, 3):
    x = by.get(u)
    expect(x is None or x["dur"] > 0, f"uid {u} exported => dur strictly positive", "> 0 (or slice not exported)", x and (x["name"], x["ts"], x["dur"]))
print("(b) Exec slice, TS3 == TS4, host dur 3us")
cs = [10240, 20480, 40960, 40960, 81920]
rc, err, by = run([ev("k1 Cmpt Exec", H + 30, 3.0, cs, 0), ev("k1 DmaO", H + 33, 40, cs, 1)], f)
expect(rc == 0, "run exits 0", 0, (rc, err))
x = by.get(0)
expect(x is None or x["dur"] > 0, "Exec exported => dur strictly positive", "> 0 (or not exported)", x and (x["ts"], x["dur"]))
verdict()
