"""C06 audit 2: device slice whose name ENDS in a phase keyword that is not preceded by a blank (bare 'Cmpt Exec', 'xCmpt Prep',
'matmul_Cmpt Exec').  Property: dur = delta of its phase pair (or TS1-TS5 if read as 'other'); END stays at the host-recorded end."""
import json, os, subprocess, sys, tempfile
WT = os.environ.get("C06_TREE", "/tmp/audit_C06/wt" if os.path.isdir("/tmp/audit_C06/wt/src") else "/repo") + "/src"   # unmodified tree (read-only use)
W = 1 << 32
PH = ["DmaI", "Cmpt Prep", "Cmpt Exec", "DmaO"]


def ev(name, ts, dur, cs=None, uid=0, tid=7, fmt=str):
    d = {"ph": "X", "pid": 0, "tid": tid, "name": name, "ts": ts, "dur": dur, "args": {"uid": uid}}
    for k, c in enumerate(cs or []):
        d["args"][f"TS{k + 1}"] = fmt(c)
    return d


def run(events, freq, opts=("--keep_prep",)):
    """documented API Acelyzer(argv).run() in a fresh interpreter on the UNMODIFIED tree; returns (rc, last error line, {uid: exported X slice})"""
    d = tempfile.mkdtemp(prefix="c06audit_")
    p, o = os.path.join(d, "rank0_0.json"), os.path.join(d, "out.json")
    json.dump(events, open(p, "w"))
    r = subprocess.run([sys.executable, "-c", "import sys;from aiu_trace_analyzer.core.acelyzer import Acelyzer;"
                        "sys.exit(Acelyzer(sys.argv[1:]).run())", "-i", p, "-o", o, "--freq", repr(freq), "-D", "0", *opts],
                       env=dict(os.environ, PYTHONPATH=WT, PYTHONDONTWRITEBYTECODE="1"), capture_output=True, text=True)
    err = ([l for l in (r.stdout + r.stderr).splitlines() if "Error" in l] or [""])[-1][:300]
    by = {}
    if r.returncode == 0 and os.path.exists(o):
        for x in json.load(open(o))["traceEvents"]:
            a = x.get("args")
            if x.get("ph") == "X" and isinstance(a, dict) and "uid" in a:
                by[a["uid"]] = x
    return r.returncode, err, by


FAILS = []


def expect(cond, what, exp, got):
    print(("  ok   " if cond else "  BAD  ") + what + f": expected {exp}, observed {got}")
    if not cond:
        FAILS.append(what)


def verdict():
    print("FAIL" if FAILS else "PASS", "(%d violated expectations)" % len(FAILS))
    sys.exit(1 if FAILS else 0)

f, H = 1024.0, 50000.0
cs = [10240, 20480, 40960, 81920, 163840]
for nm, k in [("Cmpt Exec", 2), ("matmul_Cmpt Exec", 2), ("xCmpt Prep", 1), ("Cmpt Prep", 1)]:
    ts, dur = H + 30, 40.0
    rc, err, by = run([ev(nm, ts, dur, cs, 0)], f)
    expect(rc == 0 and 0 in by, f"{nm!r}: run exits 0 and slice exported", 0, (rc, err))
    if 0 in by:
        x = by[0]
        ok_dur = x["dur"] in ((cs[k + 1] - cs[k]) / f, (cs[4] - cs[0]) / f)      # either reading of the name
        expect(ok_dur, f"{nm!r}: dur is the phase delta or the TS1-TS5 delta", ((cs[k + 1] - cs[k]) / f, (cs[4] - cs[0]) / f), x["dur"])
        expect(x["ts"] + x["dur"] == ts + dur, f"{nm!r}: end stays at host end", ts + dur, x["ts"] + x["dur"])
verdict()
