"""C06 audit 8: counters written as JSON integers in the trace file (the stage tie uses fmt 'int', the end-to-end generator only
'str'/'hex', c06.py:667)."""
import json, os, subprocess, sys, tempfile
WT = os.environ.get("C06_TREE", "/tmp/audit_C06/wt" if os.path.isdir("/tmp/audit_C06/wt/src") else "/repo") + "/src"   # unmodified tree (read-only use)
W = 1 << 32
PH = ["DmaI", "Cmpt Prep", "Cmpt Exec", "DmaO"]


def ev(name, ts, dur, cs=None, uid=0, tid=7, fmt=str):
    d = {"ph": "X", "pid": 0, "tid": tid, "name": name, "ts": ts, "dur": dur, "args": {"uid": uid}}
    for k, c in enumerate(cs or []):
        d["args"][f"TS{k + 1}"] = fmt(c)
    return d


def run(events, freq, opts=("--keep_prep",)):
    """documented API Acelyzer(argv).run() in a fresh interpreter on the UNMODIFIED tree; returns (rc, last error line, {uid: exported X slice})"""
    d = tempfile.mkdtemp(prefix="c06audit_")
    p, o = os.path.join(d, "rank0_0.json"), os.path.join(d, "out.json")
    json.dump(events, open(p, "w"))
    r = subprocess.run([sys.executable, "-c", "import sys;from aiu_trace_analyzer.core.acelyzer import Acelyzer;"
                        "sys.exit(Acelyzer(sys.argv[1:]).run())", "-i", p, "-o", o, "--freq", repr(freq), "-D", "0", *opts],
                       env=dict(os.environ, PYTHONPATH=WT, PYTHONDONTWRITEBYTECODE="1"), capture_output=True, text=True)
    err = ([l for l in (r.stdout + r.stderr).splitlines() if "Error" in l] or [""])[-1][:300]
    by = {}
    if r.returncode == 0 and os.path.exists(o):
        for x in json.load(open(o))["traceEvents"]:
            a = x.get("args")
            if x.get("ph") == "X" and isinstance(a, dict) and "uid" in a:
                by[a["uid"]] = x
    return r.returncode, err, by


FAILS = []


def expect(cond, what, exp, got):
    print(("  ok   " if cond else "  BAD  ") + what + f": expected {exp}, observed {got}")
    if not cond:
        FAILS.append(what)


def verdict():
    print("FAIL" if FAILS else "PASS", "(%d violated expectations)" % len(FAILS))
    sys.exit(1 if FAILS else 0)

f, H = 1024.0, 50000.0
cs = [10240, 20480, 40960, 81920, 163840]
rc, err, by = run([ev("k1 Cmpt Exec", H + 30, 40, cs, 0, fmt=int)], f)
expect(rc == 0, "run exits 0", 0, (rc, err))
x = by.get(0)
expect(x is not None and x["dur"] == 40.0 and x["ts"] + x["dur"] == H + 70, "Exec slice", (H + 30, 40.0), x and (x["ts"], x["dur"]))
verdict()
