"""C06 audit 5: generator constraint gaps[2] >= 600 (c06.py:655) - Exec slices with SMALL positive gaps (1..599 cycles) and tiny host
durations, other phases zero or tiny."""
import json, os, subprocess, sys, tempfile
WT = os.environ.get("C06_TREE", "/tmp/audit_C06/wt" if os.path.isdir("/tmp/audit_C06/wt/src") else "/repo") + "/src"   # unmodified tree (read-only use)
W = 1 << 32
PH = ["DmaI", "Cmpt Prep", "Cmpt Exec", "DmaO"]


def ev(name, ts, dur, cs=None, uid=0, tid=7, fmt=str):
    d = {"ph": "X", "pid": 0, "tid": tid, "name": name, "ts": ts, "dur": dur, "args": {"uid": uid}}
    for k, c in enumerate(cs or []):
        d["args"][f"TS{k + 1}"] = fmt(c)
    return d


def run(events, freq, opts=("--keep_prep",)):
    """documented API Acelyzer(argv).run() in a fresh interpreter on the UNMODIFIED tree; returns (rc, last error line, {uid: exported X slice})"""
    d = tempfile.mkdtemp(prefix="c06audit_")
    p, o = os.path.join(d, "rank0_0.json"), os.path.join(d, "out.json")
    json.dump(events, open(p, "w"))
    r = subprocess.run([sys.executable, "-c", "import sys;from aiu_trace_analyzer.core.acelyzer import Acelyzer;"
                        "sys.exit(Acelyzer(sys.argv[1:]).run())", "-i", p, "-o", o, "--freq", repr(freq), "-D", "0", *opts],
                       env=dict(os.environ, PYTHONPATH=WT, PYTHONDONTWRITEBYTECODE="1"), capture_output=True, text=True)
    err = ([l for l in (r.stdout + r.stderr).splitlines() if "Error" in l] or [""])[-1][:300]
    by = {}
    if r.returncode == 0 and os.path.exists(o):
        for x in json.load(open(o))["traceEvents"]:
            a = x.get("args")
            if x.get("ph") == "X" and isinstance(a, dict) and "uid" in a:
                by[a["uid"]] = x
    return r.returncode, err, by


FAILS = []


def expect(cond, what, exp, got):
    print(("  ok   " if cond else "  BAD  ") + what + f": expected {exp}, observed {got}")
    if not cond:
        FAILS.append(what)


def verdict():
    print("FAIL" if FAILS else "PASS", "(%d violated expectations)" % len(FAILS))
    sys.exit(1 if FAILS else 0)

f, H = 1024.0, 50000.0
evs, exp, cur = [], {}, 5000
for u, g in enumerate([1, 2, 7, 64, 599]):
    cs = [cur, cur, cur, cur + g, cur + g]
    ts, dur = H + cur / f, max(g / f, 1 / 1024)
    evs.append(ev(f"k{u} Cmpt Exec", ts, dur, cs, u))
    exp[u] = (g / f, ts + dur)
    cur += g + 3000
for fr in (f, 2 * f, f / 4):
    rc, err, by = run(evs, fr)
    expect(rc == 0, f"freq {fr}: run exits 0", 0, (rc, err))
    for u, (d, end) in exp.items():
        x = by.get(u)
        want = d * f / fr
        expect(x is not None and abs(x["dur"] - want) < 1e-12 and x["dur"] > 0 and abs(x["ts"] + x["dur"] - end) < 1e-9,
               f"freq {fr} uid {u}", (want, end), x and (x["dur"], x["ts"] + x["dur"]))
verdict()
