"""C06 audit 7: breadth of the END-TO-END generator (c06.py:637-687).  It only produces: host times that agree exactly with the
counters at f, strictly sequential kernels, X slices with args, grid frequencies (powers of two), un-wrapped counters.
This probe runs randomized single-rank traces OUTSIDE all of that but inside the property's quantifier (positive own gap):
raw 32-bit counters that wrap, kernels overlapping the previous kernel's tail, host slices longer than the device phase
(launch overhead, as in tests/test_data), B/E pairs with `attr` (the form of the real sample traces), host clocks at
5e6 / 1.7e9 / 2e12 us, --freq off-grid (560, 833.3, x1.07, x3.3 ...).
Oracle (property text): dur = ((TSb-TSa) mod 2^32)/freq, > 0, finite; end = host-recorded end."""
import json, math, os, random, subprocess, sys, tempfile
from concurrent.futures import ThreadPoolExecutor
WT = os.environ.get("C06_TREE", "/tmp/audit_C06/wt" if os.path.isdir("/tmp/audit_C06/wt/src") else "/repo") + "/src"   # unmodified tree (read-only use)
W = 1 << 32
PH = ["DmaI", "Cmpt Prep", "Cmpt Exec", "DmaO"]


def gen(seed):
    r = random.Random(seed)
    f0 = r.choice([560.0, 1000.0, 1024.0, 833.3])
    frun = f0 * r.choice([1, 1, 2, 0.5, 1.07, 0.93, 3.3])
    H = r.choice([2.0e12, 5e6, 1.7e9]) + r.random() * 1000
    cur = r.choice([r.randint(0, W - 1), W - r.randint(1, 300000)])
    c0, evs, meta, uid, be = cur, [], {}, 0, r.random() < 0.4
    for ki in range(r.randint(1, 6)):
        if ki:
            cur += r.randint(0, 200000) if be else r.randint(-3000, 200000)
        gaps = [r.choice([0, 0, r.randint(1, 50), r.randint(600, 90000)]) for _ in range(4)]
        cs = [cur]
        for g in gaps:
            cs.append(cs[-1] + g)
        cur = cs[4]
        raw = [c % W for c in cs]
        if r.random() < 0.15:
            names = [(f"op{ki}_x other", 0, 4)] if cs[4] > cs[0] else []
        else:
            names = [(f"op_{ki} {p}", j, j + 1) for j, p in enumerate(PH) if gaps[j] > 0 and r.random() < 0.8]
        for nm, a, b in names:
            tsd = {f"TS{k + 1}": (hex(raw[k]) if r.random() < 0.5 else str(raw[k])) for k in range(5)}
            if be:
                ts, end = H + (cs[a] - c0) / f0, H + (cs[b] - c0) / f0
                if not end > ts:
                    continue
                evs.append({"ph": "B", "pid": 0, "tid": 7, "name": nm, "ts": ts, "attr": dict(tsd, uid=uid)})
                evs.append({"ph": "E", "pid": 0, "tid": 7, "name": nm, "ts": end, "attr": dict(tsd, uid=uid)})
            else:
                end = H + (cs[b] - c0) / f0 + r.choice([0, 0.1])
                dur = (cs[b] - cs[a]) / f0 + r.choice([0, 0.5, 3.0, 20.0])
                ts = end - dur
                end = ts + dur
                evs.append({"ph": "X", "pid": 0, "tid": (10 + a if r.random() < 0.7 else 7), "name": nm, "ts": ts, "dur": dur,
                            "args": dict(tsd, uid=uid)})
            meta[uid] = (nm, a, b, cs, end)
            uid += 1
    evs.sort(key=lambda e: (e["ts"], 0 if e["ph"] == "E" else 1))
    return frun, evs, meta


def one(seed):
    frun, evs, meta = gen(seed)
    if not evs:
        return seed, []
    d = tempfile.mkdtemp(prefix="c06audit_")
    p, o = d + "/rank0_0.json", d + "/out.json"
    json.dump(evs, open(p, "w"))
    r = subprocess.run([sys.executable, "-c", "import sys;from aiu_trace_analyzer.core.acelyzer import Acelyzer;"
                        "sys.exit(Acelyzer(sys.argv[1:]).run())", "-i", p, "-o", o, "--freq", repr(frun), "-D", "0", "--keep_prep"],
                       env=dict(os.environ, PYTHONPATH=WT, PYTHONDONTWRITEBYTECODE="1"), capture_output=True, text=True)
    if r.returncode:
        return seed, [("run failed", ([l for l in (r.stdout + r.stderr).splitlines() if "Error" in l] or [""])[-1][:200])]
    out, seen = [], set()
    for x in json.load(open(o))["traceEvents"]:
        a = x.get("args", {})
        if x.get("ph") == "X" and isinstance(a, dict) and "uid" in a:
            nm, pa, pb, cs, end = meta[a["uid"]]
            seen.add(a["uid"])
            want = (cs[pb] - cs[pa]) / frun
            # a handful of double roundings at the magnitude of the operands the code subtracts (host clock, TS5/f):
            # at a 2e12 us host clock that is ~1e-3 us, far below one cycle
            tol = 4 * math.ulp(max(end, 2 * W / frun))
            if not (math.isfinite(x["dur"]) and x["dur"] > 0 and abs(x["dur"] - want) <= tol):
                out.append(("dur", nm, "expected", want, "observed", x["dur"]))
            if abs(x["ts"] + x["dur"] - end) > tol:
                out.append(("end", nm, "expected", end, "observed", x["ts"] + x["dur"]))
    if len(seen) != len(meta):
        out.append(("slices not exported", len(meta) - len(seen)))
    return seed, out


n = int(sys.argv[1]) if len(sys.argv) > 1 else 64
bad = 0
with ThreadPoolExecutor(8) as ex:
    for seed, out in ex.map(one, range(n)):
        if out:
            bad += 1
            print("  BAD  seed", seed, out[:3])
print(f"  {n - bad}/{n} traces satisfy the property on every exported device slice")
print("FAIL" if bad else "PASS")
sys.exit(1 if bad else 0)
