"""C06 audit 6: RAW 32-bit counters that wrap inside a kernel (TSk+1 < TSk in the file) - what a real AIU emits every ~7.6 s at 560 MHz.
Excluded by ASSUMPTION 'TS1 <= .. <= TS5' and by every generator (they use un-wrapped values above 2^32 instead).
Property read with cycle deltas modulo 2^32."""
import json, os, subprocess, sys, tempfile
WT = os.environ.get("C06_TREE", "/tmp/audit_C06/wt" if os.path.isdir("/tmp/audit_C06/wt/src") else "/repo") + "/src"   # unmodified tree (read-only use)
W = 1 << 32
PH = ["DmaI", "Cmpt Prep", "Cmpt Exec", "DmaO"]


def ev(name, ts, dur, cs=None, uid=0, tid=7, fmt=str):
    d = {"ph": "X", "pid": 0, "tid": tid, "name": name, "ts": ts, "dur": dur, "args": {"uid": uid}}
    for k, c in enumerate(cs or []):
        d["args"][f"TS{k + 1}"] = fmt(c)
    return d


def run(events, freq, opts=("--keep_prep",)):
    """documented API Acelyzer(argv).run() in a fresh interpreter on the UNMODIFIED tree; returns (rc, last error line, {uid: exported X slice})"""
    d = tempfile.mkdtemp(prefix="c06audit_")
    p, o = os.path.join(d, "rank0_0.json"), os.path.join(d, "out.json")
    json.dump(events, open(p, "w"))
    r = subprocess.run([sys.executable, "-c", "import sys;from aiu_trace_analyzer.core.acelyzer import Acelyzer;"
                        "sys.exit(Acelyzer(sys.argv[1:]).run())", "-i", p, "-o", o, "--freq", repr(freq), "-D", "0", *opts],
                       env=dict(os.environ, PYTHONPATH=WT, PYTHONDONTWRITEBYTECODE="1"), capture_output=True, text=True)
    err = ([l for l in (r.stdout + r.stderr).splitlines() if "Error" in l] or [""])[-1][:300]
    by = {}
    if r.returncode == 0 and os.path.exists(o):
        for x in json.load(open(o))["traceEvents"]:
            a = x.get("args")
            if x.get("ph") == "X" and isinstance(a, dict) and "uid" in a:
                by[a["uid"]] = x
    return r.returncode, err, by


FAILS = []


def expect(cond, what, exp, got):
    print(("  ok   " if cond else "  BAD  ") + what + f": expected {exp}, observed {got}")
    if not cond:
        FAILS.append(what)


def verdict():
    print("FAIL" if FAILS else "PASS", "(%d violated expectations)" % len(FAILS))
    sys.exit(1 if FAILS else 0)

f, H = 1024.0, 50000.0
bad = 0
for wrap_at in range(1, 5):                      # the counter that is the first one past 2^32
    true = [0, 10240, 30720, 71680, 153600]
    base = W - true[wrap_at] + 512              # TS[wrap_at] is 512 cycles past the wrap
    true = [base + t for t in true]
    raw = [t % W for t in true]
    evs = [ev(f"k1 {p}", H + (true[j] - true[0]) / f, (true[j + 1] - true[j]) / f, raw, j, fmt=hex) for j, p in enumerate(PH)]
    for fr in (f, 2 * f, f / 2):
        rc, err, by = run(evs, fr)
        expect(rc == 0 and len(by) == 4, f"wrap before TS{wrap_at + 1}, freq {fr}: run ok", "rc 0 / 4 slices", (rc, err, len(by)))
        for j in range(4):
            x = by.get(j)
            want, end = (true[j + 1] - true[j]) / fr, H + (true[j + 1] - true[0]) / f
            if not (x and x["dur"] == want and x["ts"] + x["dur"] == end and x["dur"] > 0):
                expect(False, f"wrap before TS{wrap_at + 1} freq {fr} {PH[j]}", (want, end), x and (x["dur"], x["ts"] + x["dur"]))
print("  (all slice-level expectations not listed above were met)")
verdict()
