"""C18 candidate 2: rank numbering that is not 0..R-1 (ASSUMPTIONS[0] / gen_scenario 'malformed' gaps -> oracle_tb returns
early for non-domain cases).  Realistic: a user analyses a subset of the rank files of a job (ranks 1..3 of 4, or 0,2,3
because one file is missing); the README example itself selects files with a glob."""
import sys; sys.path.insert(0, "/tmp/audit_C18")
from lib import *
ok = True
for ranks in ([1, 2, 3], [0, 2, 3], [2, 3], [4, 5, 6, 7]):
    root = "/tmp/audit_C18/scratch/c2"
    ps = write_inputs(root, [(f"rank{r}.json", flex_rank(r)) for r in ranks])
    os.makedirs(root + "/o")
    a, rc = run(["-i", ",".join(ps), "-o", root + "/o/out.json", "-D", "0", "--tb"])
    errs, info = tb_check(a, root + "/o", ranks, "out.pt.trace.json")
    print("ranks", ranks, "rc", rc, info, "->", "ok" if not errs else errs)
    ok &= not errs
print("PASS" if ok else "FAIL")
