"""C18 candidate 8: oracle_df_rows (c18.py:560) takes the expected Rank from args.rank of the JSON event with default 0, i.e.
it mirrors DataframeExporter's data_map ('args.rank', default 0) instead of the rank the slice belongs to in the JSON
export (its process: pid r or 1000+r).  Checked here on the JSON export of multi-rank FLEX scenarios (plain, and chain
all-reduce with --flow / --flow -R): does every exported slice carry args.rank == pid mod 1000, and does the DataFrame
Rank equal that?"""
import sys, random; sys.path.insert(0, "/tmp/audit_C18"); sys.path.insert(0, "/verif/harness")
from lib import *
from common import collectives
root = "/tmp/audit_C18/scratch/c8"
ok = True
def check(label, ps, extra):
    global ok
    shutil.rmtree(root + "/j", ignore_errors=True); shutil.rmtree(root + "/d", ignore_errors=True)
    os.makedirs(root + "/j"); os.makedirs(root + "/d")
    try:
        aj, _ = run(["-i", ",".join(ps), "-o", root + "/j/out.json", "-D", "0"] + extra)
        ad, _ = run(["-i", ",".join(ps), "-o", root + "/d/out.txt", "-D", "0", "-f", "pddf"] + extra)
    except BaseException as e:
        print(f"[{label}] run aborted {type(e).__name__}: {str(e)[:100]}"); return
    jx = [e for e in json.loads(aj.get_output_data())["traceEvents"] if e.get("ph") == "X"]
    rows = list(ad.get_output_data().itertuples(index=False, name=None))
    norank = [e["name"] for e in jx if not isinstance(e.get("args"), dict) or "rank" not in e["args"]]
    want = [(e["pid"] % 1000, e["ts"], e["dur"], e["name"]) for e in jx]
    got = [(int(r_[0]), r_[1], r_[2], r_[4]) for r_ in rows]
    bad = [(w, g) for w, g in zip(want, got) if w != g]
    good = len(want) == len(got) and not bad
    print(f"[{label}] slices={len(want)} rows={len(got)} slices without args.rank={len(norank)} {norank[:2]} differing rows={len(bad)} {bad[:2]} ->", "ok" if good else "VIOLATED")
    ok &= good
ps = write_inputs(root, [(f"rank{r}.json", flex_rank(r)) for r in range(4)])
check("plain 4 ranks", ps, [])
for seed in range(4):
    rng = random.Random(seed)
    sc = collectives.gen_collective_scenario(rng, ranks=2 + seed, groups=2, interleave=False, be_ratio=0.0, hexfmt=False, touching=False)
    shutil.rmtree(root + "/in", ignore_errors=True)
    inp = collectives.write(sc, root + "/in")
    for extra in (["--flow"], ["--flow", "-R"], ["--flow", "--comm_summary"] if False else ["--flow", "-R", "--tb", "--disable_tb"]):
        check(f"allreduce R={2+seed} {' '.join(extra)}", inp.split(","), extra)
print("PASS" if ok else "FAIL")
