"""C18 candidate 1: end-to-end --tb WITH collective-bandwidth counters on pid -1 (the property's quantifier names them;
the harness' e2e stream never produces pid -1, MANIFEST note 'pid -1 events never arise end to end').
Input: chain all-reduce over R ranks, one FLEX file per rank (shared generator of /verif), receive slices named
'SenRdmaRecv_<n> ...' (the spelling mp_calc_bw.py looks for) and one ordinary 'add_<n> Cmpt Exec' kernel per rank after
the collective (mp_calc_bw closes the bandwidth window on it).  Options: --flow --tb [-P everything.json]; the coll_bw
counter is in the default counter set."""
import sys, os, json, random, shutil, re, io, contextlib, collections
sys.path.insert(0, "/tmp/audit_C18/wt/src"); sys.path.insert(0, "/verif/harness")
os.environ["AIU_REPO"] = "/tmp/audit_C18/wt"
from common import collectives
from aiu_trace_analyzer.core.acelyzer import Acelyzer
import aiu_trace_analyzer
assert aiu_trace_analyzer.__file__.startswith("/tmp/audit_C18/wt")
W = re.compile(r"_worker_(\d+)\.pt\.trace\.json$")
root = "/tmp/audit_C18/scratch/c1"
ok = True
seen_m1 = 0
N = int(sys.argv[1]) if len(sys.argv) > 1 else 14
for seed in range(N):
    rng = random.Random(seed)
    R = 2 + seed % 7
    sc = collectives.gen_collective_scenario(rng, ranks=R, groups=rng.randrange(1, 3), interleave=False, be_ratio=0.0,
                                             hexfmt=False, touching=False, metadata=False)
    f = int(sc.freq)
    for fn, evs in sc.files.items():
        for e in evs:
            e["name"] = e["name"].replace("SenRdmaReceive", "SenRdmaRecv")
        last = max(evs, key=lambda e: e["ts"] + e["dur"])
        c = int(last["attr"]["TS5"]) + 4096
        t = last["ts"] + last["dur"] + 8.0
        evs.append({"name": "add_9 Cmpt Exec", "ph": "X", "pid": evs[0]["pid"], "tid": collectives.TID_EXEC, "ts": t,
                    "dur": 512 / f, "attr": {"TS1": str(c), "TS2": str(c + 8), "TS3": str(c + 16), "TS4": str(c + 16 + 512),
                                             "TS5": str(c + 540), "Power": "12345", "uid": "tail" + fn}})
    shutil.rmtree(root, ignore_errors=True)
    inp = collectives.write(sc, root + "/in")
    os.makedirs(root + "/o")
    argv = ["-i", inp, "-o", root + "/o/out.json", "-D", "0", "--flow", "--tb"] + sys.argv[2:]
    buf = io.StringIO()
    try:
        with contextlib.redirect_stdout(buf):
            a = Acelyzer(argv); rc = a.run()
    except BaseException as e:
        print(f"seed {seed} R={R}: FAIL run aborted {type(e).__name__}: {str(e)[:200]}"); ok = False; continue
    comb = json.loads(a.get_output_data())["traceEvents"]
    pids = collections.Counter(str(e.get("pid")) for e in comb)
    m1 = [e for e in comb if e.get("pid") == -1]
    seen_m1 += bool(m1)
    files = {int(W.search(f).group(1)): json.load(open(root + "/o/" + f))["traceEvents"] for f in os.listdir(root + "/o") if W.search(f)}
    cfile = json.load(open(root + "/o/out.pt.trace.json"))["traceEvents"]
    key = lambda e: json.dumps(e, sort_keys=True)
    errs = []
    if sorted(files) != list(range(R)): errs.append(f"worker files {sorted(files)} expected 0..{R-1}")
    for r in range(R):
        want = [key(e) for e in comb if e.get("pid") in (r, 1000 + r)]
        got = [key(e) for e in files.get(r, [])]
        if want != got: errs.append(f"worker {r}: {len(got)} events, expected {len(want)}")
    allw = sorted(key(e) for r in files for e in files[r])
    wantall = sorted(key(e) for e in comb if e.get("pid") != -1)
    if allw != wantall: errs.append(f"workers together hold {len(allw)} events, exported with pid != -1: {len(wantall)}")
    if [key(e) for e in cfile] != [key(e) for e in comb]: errs.append("combined file != combined view")
    print(f"seed {seed} R={R} rc={rc} events={len(comb)} pid-1={len(m1)} pids={dict(sorted(pids.items()))} ->", "ok" if not errs else errs)
    ok &= not errs
print("scenarios with pid -1 counters:", seen_m1, "of", N)
print("PASS" if ok and seen_m1 else ("FAIL" if not ok else "INCONCLUSIVE (no pid -1 produced)"))
