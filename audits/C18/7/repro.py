"""C18 candidate 7: MANIFEST note ''.json' is replaced everywhere in the output path' (quirk modelled as is; the direct drive
uses odd FILE names but every target lives directly in the scratch dir, the e2e stream uses out.json / t.pt.trace.json).
Input: ordinary 3-rank FLEX trace, output path whose DIRECTORY contains '.json' (e.g. a results dir named after the input
file: results/run1.json.d/out.json).  Expected per property: combined file + 3 worker files exist and are complete."""
import sys; sys.path.insert(0, "/tmp/audit_C18")
from lib import *
root = "/tmp/audit_C18/scratch/c7"
ok = True
for sub, target in (("run1.json.d", "out.json"), ("traces.json", "out.json"), ("plain", "out.json")):
    ps = write_inputs(root, [(f"rank{r}.json", flex_rank(r)) for r in range(3)])
    od = os.path.join(root, sub); os.makedirs(od)
    try:
        a, rc = run(["-i", ",".join(ps), "-o", os.path.join(od, target), "-D", "0", "--tb"])
        errs, info = tb_check(a, od, [0, 1, 2], "out.pt.trace.json")
        print(f"-o {sub}/{target}: rc {rc} {info} ->", "ok" if not errs else errs)
        ok &= not errs
    except BaseException as e:
        print(f"-o {sub}/{target}: run aborted {type(e).__name__}: {str(e)[:160]}; files in output dir: {sorted(os.listdir(od))}")
        ok = False
print("PASS" if ok else "FAIL")
