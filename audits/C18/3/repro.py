"""C18 candidate 3: generator constraint c18.py:643-646 ('keep the rank present in the export': a rank whose slices are all
'Cmpt Prep' gets an extra host slice) + ASSUMPTIONS[0] 'every rank has at least one exported event'.
Input: ranks 0,1,2 (contiguous), rank 1's file holds only Cmpt Prep slices (removed by the prep-queue stage when the full
profile is used, as the README recommends for flex traces: --tb -P everything.json).  Exotic (a rank that only prepares)."""
import sys; sys.path.insert(0, "/tmp/audit_C18")
from lib import *
root = "/tmp/audit_C18/scratch/c3"
files = []
for r in (0, 1, 2):
    evs = flex_rank(r)
    if r == 1:
        evs = [dict(e, name=e["name"].replace("Cmpt Exec", "Cmpt Prep"), tid=9) for e in evs if "Cmpt" in e["name"]]
    files.append((f"rank{r}.json", evs))
ok = True
for extra in ([], ["-P", "/tmp/audit_C18/wt/src/aiu_trace_analyzer/profiles/everything.json"]):
    ps = write_inputs(root, files); os.makedirs(root + "/o")
    a, rc = run(["-i", ",".join(ps), "-o", root + "/o/out.json", "-D", "0", "--tb"] + extra)
    errs, info = tb_check(a, root + "/o", [0, 1, 2], "out.pt.trace.json")
    print("options", extra[:1], "rc", rc, info, "->", "ok" if not errs else errs)
    ok &= not errs
print("PASS" if ok else "FAIL")
