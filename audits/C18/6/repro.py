"""C18 candidate 6: MANIFEST note 'worker files are written even with --disable_file' (quirk modelled as is; oracle_tb only
asserts that the COMBINED file is absent).  --disable_file is in the property's quantifier; its documented meaning
(acelyzer --help / README): 'Disable output to file ... Prevents output file creation for integrated mode', data is
fetched via get_output_data().  The property text itself states nothing about which files exist under --disable_file, so
the expected value below comes from the option's documentation, not from the C18 statement."""
import sys; sys.path.insert(0, "/tmp/audit_C18")
from lib import *
root = "/tmp/audit_C18/scratch/c6"
ps = write_inputs(root, [(f"rank{r}.json", flex_rank(r)) for r in range(3)])
os.makedirs(root + "/o")
a, rc = run(["-i", ",".join(ps), "-o", root + "/o/out.json", "-D", "0", "--tb", "--disable_file"])
left = sorted(f for f in os.listdir(root + "/o") if f.endswith(".json"))
views = [len(json.loads(a.exporter.get_tb_data(r))["traceEvents"]) for r in range(a.exporter.rank_cnt)]
print("rc", rc, "json files written under --disable_file:", left, "(expected per documentation: none); in-memory views:", views)
print("PASS" if not left else "FAIL (documentation of --disable_file, not a clause of C18)")
