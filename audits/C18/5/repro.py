"""C18 candidate 5: generator constraint c18.py:601-608 (input file names chosen so that the job ids crc32(path) % 10000 are
pairwise distinct).  Here two of the rank files collide.  Checks --tb partition and -f pddf vs JSON.  A collision has
probability ~ R^2/20000 per scenario (0.3 % for 8 ranks): rare but a real user cannot avoid it knowingly."""
import sys, zlib; sys.path.insert(0, "/tmp/audit_C18")
from lib import *
root = "/tmp/audit_C18/scratch/c5"
# find names rank0_<a>.json / rank1_<b>.json with equal crc32 % 10000
seen = {}
pair = None
for i in range(100000):
    for r in (0, 1):
        p = f"{root}/in/job{i}/rank{r}.json"
        h = zlib.crc32(p.encode()) % 10000
        if (h, 1 - r) in seen:
            pair = (seen[(h, 1 - r)], p) if r == 1 else (p, seen[(h, 1 - r)]); break
        seen.setdefault((h, r), p)
    if pair: break
names = [os.path.relpath(pair[0], root + "/in"), os.path.relpath(pair[1], root + "/in"), "job0/rank2.json"]
print("colliding inputs:", names[:2], [zlib.crc32((root + "/in/" + n).encode()) % 10000 for n in names])
ps = write_inputs(root, [(n, flex_rank(r)) for r, n in enumerate(names)])
ok = True
os.makedirs(root + "/o")
a, rc = run(["-i", ",".join(ps), "-o", root + "/o/out.json", "-D", "0", "--tb"])
errs, info = tb_check(a, root + "/o", [0, 1, 2], "out.pt.trace.json")
print("[tb] rc", rc, info, "->", "ok" if not errs else errs); ok &= not errs
os.makedirs(root + "/j"); os.makedirs(root + "/d")
aj, _ = run(["-i", ",".join(ps), "-o", root + "/j/out.json", "-D", "0"])
ad, _ = run(["-i", ",".join(ps), "-o", root + "/d/out.txt", "-D", "0", "-f", "pddf"])
jx = [e for e in json.loads(aj.get_output_data())["traceEvents"] if e.get("ph") == "X"]
rows = list(ad.get_output_data().itertuples(index=False, name=None))
want = [(e["pid"] % 1000, e["ts"], e["dur"], e["name"]) for e in jx]
got = [(int(r_[0]), r_[1], r_[2], r_[4]) for r_ in rows]
n_in = 3 * 6
good = want == got and len(jx) == n_in
print(f"[pddf] input slices={n_in} JSON slices={len(want)} rows={len(got)} equal(rank=pid,ts,dur,name)={want == got} ->", "ok" if good else "VIOLATED")
ok &= good
print("PASS" if ok else "FAIL")
