"""C18 candidate 4: multi-rank torch.profiler inputs (the harness' e2e generator makes FLEX files only; README: --tb 'works
best with torch.profiler traces').  One profile per rank as torch writes them: top-level object with deviceProperties and
distributedInfo.rank, cpu_op slices on the OS process id of the rank, kernels on device pid 0, and the profiler's own
'PyTorch Profiler (0)' span with the string pid 'Spans'.
Checks (a) --tb partition by files, (b) -f pddf rows vs JSON export: same count/ts/dur/name and Rank == rank of the file
the slice came from."""
import sys; sys.path.insert(0, "/tmp/audit_C18")
from lib import *

def torch_rank(r, ospid, spans=True):
    evs, t = [], 5000.0 + r
    for k in range(3):
        evs.append({"ph": "X", "cat": "cpu_op", "name": f"aten::mm{k}_r{r}", "pid": ospid, "tid": ospid, "ts": t, "dur": 40.0,
                    "args": {"External id": k + 1}})
        evs.append({"ph": "X", "cat": "kernel", "name": f"mm_kernel{k}_r{r}", "pid": 0, "tid": 7, "ts": t + 5.0, "dur": 10.0,
                    "args": {"External id": k + 1, "correlation": 10 + k}})
        t += 60.0
    if spans:
        evs.append({"ph": "X", "cat": "Trace", "name": "PyTorch Profiler (0)", "pid": "Spans", "tid": "PyTorch Profiler",
                    "ts": 5000.0 + r, "dur": 200.0, "args": {"Op count": 0}})
    return {"schemaVersion": 1, "deviceProperties": [{"id": 0, "name": "AIU", "type": "aiu"}],
            "distributedInfo": {"backend": "gloo", "rank": r, "world_size": 3}, "traceEvents": evs}

ok = True
for label, spans in (("with 'Spans' event", True), ("without 'Spans' event", False)):
    R = 3
    root = "/tmp/audit_C18/scratch/c4"
    ps = write_inputs(root, [(f"torch_rank{r}.json", torch_rank(r, 41880 + 7 * r, spans)) for r in range(R)])
    os.makedirs(root + "/o")
    try:
        a, rc = run(["-i", ",".join(ps), "-o", root + "/o/out.json", "-D", "0", "--tb"])
        comb = json.loads(a.get_output_data())["traceEvents"]
        files = {int(W.search(f).group(1)): json.load(open(root + "/o/" + f))["traceEvents"] for f in os.listdir(root + "/o") if W.search(f)}
        allw = collections.Counter(key(e) for r in files for e in files[r])
        wantall = collections.Counter(key(e) for e in comb if e.get("pid") != -1)
        pids = dict(sorted(collections.Counter(str(e.get("pid")) for e in comb).items()))
        sizes = {r: len(v) for r, v in sorted(files.items())}
        good = allw == wantall and sorted(files) == list(range(R))
        print(f"[tb, {label}] rc={rc} exported pids={pids}; worker files (index: events)={sizes}; "
              f"expected workers 0..{R-1} holding all {sum(wantall.values())} events, got {sum(allw.values())} ->", "ok" if good else "VIOLATED")
        ok &= good
    except BaseException as e:
        print(f"[tb, {label}] run aborted: {type(e).__name__}: {str(e)[:150]}"); ok = False
    # DataFrame vs JSON
    try:
        os.makedirs(root + "/j"); os.makedirs(root + "/d")
        aj, _ = run(["-i", ",".join(ps), "-o", root + "/j/out.json", "-D", "0"])
        ad, _ = run(["-i", ",".join(ps), "-o", root + "/d/out.txt", "-D", "0", "-f", "pddf"])
        jx = [e for e in json.loads(aj.get_output_data())["traceEvents"] if e.get("ph") == "X"]
        df = ad.get_output_data()
        rows = list(df.itertuples(index=False, name=None))
        want = [(int(re.search(r"_r(\d)$", e["name"]).group(1)) if re.search(r"_r(\d)$", e["name"]) else None, e["ts"], e["dur"], e["name"]) for e in jx]
        got = [(int(r_[0]), r_[1], r_[2], r_[4]) for r_ in rows]
        bad = [(w, g) for w, g in zip(want, got) if (w[0] is not None and w[0] != g[0]) or w[1:] != g[1:]]
        good = len(want) == len(got) and not bad
        print(f"[pddf, {label}] JSON slices={len(want)} rows={len(got)} first differences={bad[:3]} ->", "ok" if good else "VIOLATED")
        ok &= good
    except BaseException as e:
        print(f"[pddf, {label}] run aborted: {type(e).__name__}: {str(e)[:150]}"); ok = False
print("PASS" if ok else "FAIL")
