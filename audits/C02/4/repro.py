"""C02 narrowing 4: '-c <log>' is exercised with ONE single-table log for every scenario, also multi-rank ones. The documented
multi-AIU form is a comma-separated per-rank list (README 'compiler_log': one file per process, in rank order).
(a) per-rank list, one log per rank 0..R-1            -> expected PASS
(b) two rank files whose pids are 2 and 3 (a user analysing the upper half of a 4-rank job) with their two logs -> rcuctx is keyed by
    list position but looked up by pid."""
import sys, os
sys.path.insert(0, os.path.dirname(os.path.dirname(os.path.abspath(__file__))))
from common import *
LOG = "\n".join(["[DeepRT] ===== Perf BEGIN =====", "====== Perf Summary ======", "~~~~ Ideal/Total Cycles ~~~~", "-" * 91,
                 "Name" + " " * 76 + "Ideal Cy.", "-" * 91, "add_11-opCatBroadcast".ljust(80) + "2048", "convolution_1-opCatConv_fp16".ljust(80) + "3000",
                 "relu_3-opCatScalar".ljust(80) + "0", "-" * 91, "Total".ljust(80) + "5048", "-" * 91, "====== Perf Summary End ======",
                 "[DeepRT] ===== Perf END ====="]) + "\n"
allok = True
for label, pids in (("(a) ranks 0,1 with logs c0,c1", (0, 1)), ("(b) ranks 2,3 with logs c2,c3", (2, 3))):
    files = {"rank%d.json" % p: device_part(p, host0=2097962447511.0 + p) for p in pids}
    logs = {"c%d.log" % p: LOG for p in pids}
    rc, exc, events = run(files, ["-c", ",".join("@DIR/c%d.log" % p for p in pids)], extra_files=logs)
    allok &= verdict(label, rc, exc, events)
print("RESULT:", "PASS" if allok else "FAIL")
