"""C02 narrowings where the PROPERTY HOLDS on the unchanged tree (narrowing unnecessary). Uses the harness generator read-only
(/verif/harness/common/scenario.py) and varies what c02.py never varies. Compact version; the *_full.py files beside it are the
wider sweeps that were run during the audit (all 0 failures: ~3000 runs)."""
import os, sys
sys.path.insert(0, os.path.dirname(os.path.abspath(__file__)))
from lib import *
sys.argv = ["x", "none"]
import offgrid_full as og, structure_full as st, jitter_full as ji
tot = 0
def chk(label, mk, seeds, **kw):
    global tot
    bad = sweep(label, mk, seeds=seeds, **kw)
    tot += sum(len(v) for v in bad.values())
chk("object form {'traceEvents': [...]} (scenario.write(as_object=True) exists, c02 never uses it)", lambda sd: gen(sd), range(3), as_object=True)
chk("default log level (c02 always passes -D 0) ", lambda sd: gen(sd), range(2), loglevel=[])
chk("two files (jobs) per rank (c02: jobs_per_rank=1)", lambda sd: gen(sd, jobs_per_rank=2), range(3))
chk("--freq 560, host times off the 2^-10 grid (c02: power-of-two MHz, exact grid)", og.mk(560.0), range(4))
chk("--freq 1000, off grid", og.mk(1000.0), range(4))
chk("host B/E times jittered by <= 0.5 us against the counters", ji.mk(0.5), range(4))
chk("all ranks in ONE file (as tests/test_data/allreduce_tp4.json; c02: one rank per file)", st.merged, range(3))
chk("device data under args instead of attr", st.argsdev, range(3))
chk("pids are OS process ids (c02: pid = rank)", st.bigpid, range(3))
chk("300 kernels + 60 host slices per rank (c02: 2-8 kernels)", lambda sd: gen(sd, kernels=300, host=60, ranks=2), range(1))
print("RESULT:", "PASS" if tot == 0 else "FAIL")
