"""C02 narrowing 3: every rank of a generated scenario uses the SAME thread ids (host tids 11/12/13, five device stream ids), so a run
never sees more than ~9 distinct tid values, although the 8-rank case was added "because per-run tables indexed by lane or rank fill
up". tid_mapping.map_tid_to_range indexes a fixed 30-entry table by the number of distinct tid VALUES of the whole run.
Input: 8 ranks (one file each), per rank 4 host threads with OS-style thread ids that differ between the processes (+2 device streams)
= 34 distinct tids; no overlapping slices at all."""
import sys, os
sys.path.insert(0, os.path.dirname(os.path.dirname(os.path.abspath(__file__))))
from common import *
allok = True
for per_rank in (3, 4):
    files = {}
    for r in range(8):
        host = [{"name": "HostFn_%d" % i, "ph": "X", "pid": r, "tid": 52000 + 100 * r + i, "ts": 2097962447000.0 + 20.0 * i, "dur": 10.0,
                 "args": {"note": i}} for i in range(per_rank)]
        files["rank%d.json" % r] = host + device_part(r, host0=2097962447511.0 + r)
    ntid = len({e["tid"] for evs in files.values() for e in evs})
    for opts in ([], ["-M"], ["-t"]):
        rc, exc, events = run(files, opts)
        ok = verdict("8 ranks, %d distinct tids, opts=%s" % (ntid, opts), rc, exc, events)
        if per_rank == 4: allok &= ok
print("RESULT:", "PASS" if allok else "FAIL")
