"""C02 narrowing 1: host slices of DIFFERENT threads of one rank never overlap each other in the generator
(scenario.py: <= 6 random host slices; the 'stairs' only on tid 12, 'placed after everything else of the rank').
Input here: one rank, device kernels + N host threads with ONE slice each (no two slices share a lane, i.e. ZERO partially
overlapping slices per lane - trivially within 'five extra lanes per lane'), the threads' slices staggered by 0.5 us."""
import sys, os
sys.path.insert(0, os.path.dirname(os.path.dirname(os.path.abspath(__file__))))
from common import *
allok = True
for n in (6, 7, 8):
    host = [{"name": "HostFn_%d" % i, "ph": "X", "pid": 0, "tid": 4001 + i, "ts": 2097962447400.0 + 0.5 * i, "dur": 10.0,
             "args": {"note": i}} for i in range(n)]
    evs = host + device_part(0)
    for opts in ([], ["--flow"], ["--keep_prep"], ["-t"]):
        rc, exc, events = run({"rank0.json": evs}, opts)
        allok &= verdict("%d host threads x 1 slice each, staggered, opts=%s" % (n, opts), rc, exc, events)
print("RESULT:", "PASS" if allok else "FAIL")
