"""C02 narrowing 2: scenario.py::host_name_pool uses classifier name fragments that the dialect table matches exactly
'verbatim only' ("a suffixed name is outside the well-formed domain") because 'the tool asserts that both agree'
(categorize.py::EventCategorizerContext.get_event_class - an ANCHOR of the property).
Input: a well-formed one-rank trace with ONE ordinary host slice whose name merely contains such a fragment."""
import sys, os
sys.path.insert(0, os.path.dirname(os.path.dirname(os.path.abspath(__file__))))
from common import *
allok = True
for nm in ("Flex RoundTrip", "Flex RoundTrip 3", "Flex RoundTrip (graph 7)", "PrepareAndSyncRdma rank 1", "barrier: all ranks", "copy_DmaO"):
    host = [{"name": nm, "ph": "X", "pid": 0, "tid": 4001, "ts": 2097962447400.0, "dur": 300.0, "args": {"note": 1}}]
    rc, exc, events = run({"rank0.json": host + device_part(0)}, [])
    ok = verdict("host slice named %r" % nm, rc, exc, events)
    if nm != "Flex RoundTrip": allok &= ok
print("RESULT:", "PASS" if allok else "FAIL")
