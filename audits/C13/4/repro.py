"""C13 audit 4: end-to-end scenarios only on the exact time grid / --freq 1024 (c13.py:592-640, dev_event).
Run: /venv/bin/python repro.py   (uses the unmodified worktree /tmp/audit_C13/wt via the real CLI `python -m acelyzer.acelyzer`)"""
import json, os, re, subprocess, sys, shutil, random
from fractions import Fraction
WT = "/tmp/audit_C13/wt"
PY = "/venv/bin/python"
def dev_prep(name, pid, s, e, tid=1, k=0, freq=1024.0, lead=None):
    cyc = int(round((e - s) * freq)); base = int(round(s * freq)) % (1 << 31) + 4096
    ts1, ts2 = base - 64, base; ts3 = ts2 + cyc; ts4, ts5 = ts3 + 32, ts3 + 48
    if lead is None: lead = 8.0 + k / 64.0
    return {"ph": "X", "name": name + " Cmpt Prep", "pid": pid, "tid": tid, "ts": s - lead, "dur": (e - s) + lead,
            "args": {"TS1": str(ts1), "TS2": str(ts2), "TS3": str(ts3), "TS4": str(ts4), "TS5": str(ts5), "Power": "0x100"}}
def run_cli(files_events, extra, d, freq="1024"):
    shutil.rmtree(d, ignore_errors=True); os.makedirs(d)
    files = []
    for i, evs in enumerate(files_events):
        fn = os.path.join(d, f"rank{i}.json"); json.dump(evs, open(fn, "w")); files.append(fn)
    outp = os.path.join(d, "out.json")
    env = dict(os.environ, PYTHONPATH=os.path.join(WT, "src"), PYTHONHASHSEED="0")
    r = subprocess.run([PY, "-m", "acelyzer.acelyzer", "-i", ",".join(files), "-o", outp, "--freq", freq] + extra,
                       cwd=d, env=env, stdout=subprocess.PIPE, stderr=subprocess.STDOUT, text=True, timeout=300)
    try: ex = json.load(open(outp))["traceEvents"]
    except Exception: ex = None
    return r.returncode, ex, r.stdout
def views(export):
    preps, samples = {}, {}
    for e in export:
        if e.get("ph") == "X" and re.search(r"Cmpt Prep$", str(e.get("name"))):
            preps.setdefault(e["pid"], []).append((e["ts"], e["ts"] + e["dur"]))
        if e.get("ph") == "C" and e.get("name") == "ConcurrentPreps":
            samples.setdefault(e["pid"], []).append((e["ts"], e["args"]["Concurrency"]))
    return preps, samples
def count_at(ivs, t): return sum(1 for s, e in ivs if s <= t < e)
def check(ivs, sm):
    ivs = [(Fraction(s), Fraction(e)) for s, e in ivs]; sm = [(Fraction(t), c) for t, c in sm]; bad = []
    for (a, _), (b, _) in zip(sm, sm[1:]):
        if not a < b: bad.append(("not_strictly_increasing", float(a), float(b))); break
    for t, c in sm:
        if c != count_at(ivs, t): bad.append(("wrong_count", float(t), c, count_at(ivs, t))); break
    pts = sorted({p for iv in ivs for p in iv}); times = {t for t, _ in sm}; prev = None
    for p in pts:
        before = 0 if prev is None else count_at(ivs, (prev + p) / 2)
        if count_at(ivs, p) != before and p not in times: bad.append(("missing_sample_at_change", float(p))); break
        prev = p
    if any(s < e for s, e in ivs) and (not sm or sm[-1][1] != 0): bad.append(("not_ending_at_0", sm[-1:] and (float(sm[-1][0]), sm[-1][1])))
    if not any(s < e for s, e in ivs) and sm: bad.append(("samples_without_prep", len(sm)))
    return bad

# e2e generator uses only the exact grid (multiples of 2^-10 us, --freq 1024, base 1000).  Here: decimal timestamps,
# realistic frequencies (560/1000/1100 MHz), bases up to 1.7e9 us.  Oracle: exported counter vs EXPORTED Prep slices (--keep_prep),
# and the series without --keep_prep must be the same.
r = random.Random(5); fails = 0
for trial in range(12):
    freq = r.choice([560.0, 1000.0, 1100.0]); base = r.choice([1000.0, 1.7e9, 3.2e6]) + r.random()
    n = r.randint(2, 5); ivs = []
    for i in range(n):
        s = base + round(r.uniform(0, 30), 3); ivs.append((s, s + round(r.uniform(0.05, 15), 3)))
    evs = [dev_prep(f"k{i}", 0, s, e, r.choice([1, 1, 2]), i, freq=freq, lead=round(r.uniform(1, 9), 3)) for i, (s, e) in enumerate(ivs)]
    r.shuffle(evs); series = {}
    for keep in (False, True):
        rc, ex, out = run_cli([evs], ["--keep_prep"] if keep else [], "/tmp/audit_C13/work/r4", freq=str(freq))
        if ex is None: print(trial, "run failed rc", rc); fails += 1; continue
        p, s = views(ex); series[keep] = s.get(0)
        if keep:
            bad = check(p.get(0, []), s.get(0, []))
            print(f"trial {trial} freq={freq} n={n}: exported slices={len(p.get(0, []))} counter vs exported slices -> {bad or 'ok'}")
            fails += bool(bad) or len(p.get(0, [])) != n
        elif p: print("Prep slices not removed"); fails += 1
    if series.get(False) != series.get(True): print("series depends on keep_prep"); fails += 1
print("FAIL" if fails else "PASS")
