"""C13 audit 5: end-to-end scenarios contain no collectives, so MpSyncTightContext.drain always takes the "no action" branch;
here the calibration branch runs (mp_alter_event_ts rewrites ts) with overlapping Prep slices on the ranks.
NOT fully self-contained: imports the read-only shared generator /verif/harness/common/collectives.py.
Run: /venv/bin/python repro.py"""
import json, os, re, subprocess, sys, shutil, random, copy
from fractions import Fraction
WT = "/tmp/audit_C13/wt"
PY = "/venv/bin/python"
def dev_prep(name, pid, s, e, tid=1, k=0, freq=1024.0, lead=None):
    cyc = int(round((e - s) * freq)); base = int(round(s * freq)) % (1 << 31) + 4096
    ts1, ts2 = base - 64, base; ts3 = ts2 + cyc; ts4, ts5 = ts3 + 32, ts3 + 48
    if lead is None: lead = 8.0 + k / 64.0
    return {"ph": "X", "name": name + " Cmpt Prep", "pid": pid, "tid": tid, "ts": s - lead, "dur": (e - s) + lead,
            "args": {"TS1": str(ts1), "TS2": str(ts2), "TS3": str(ts3), "TS4": str(ts4), "TS5": str(ts5), "Power": "0x100"}}
def run_cli(files_events, extra, d, freq="1024"):
    shutil.rmtree(d, ignore_errors=True); os.makedirs(d)
    files = []
    for i, evs in enumerate(files_events):
        fn = os.path.join(d, f"rank{i}.json"); json.dump(evs, open(fn, "w")); files.append(fn)
    outp = os.path.join(d, "out.json")
    env = dict(os.environ, PYTHONPATH=os.path.join(WT, "src"), PYTHONHASHSEED="0")
    r = subprocess.run([PY, "-m", "acelyzer.acelyzer", "-i", ",".join(files), "-o", outp, "--freq", freq] + extra,
                       cwd=d, env=env, stdout=subprocess.PIPE, stderr=subprocess.STDOUT, text=True, timeout=300)
    try: ex = json.load(open(outp))["traceEvents"]
    except Exception: ex = None
    return r.returncode, ex, r.stdout
def views(export):
    preps, samples = {}, {}
    for e in export:
        if e.get("ph") == "X" and re.search(r"Cmpt Prep$", str(e.get("name"))):
            preps.setdefault(e["pid"], []).append((e["ts"], e["ts"] + e["dur"]))
        if e.get("ph") == "C" and e.get("name") == "ConcurrentPreps":
            samples.setdefault(e["pid"], []).append((e["ts"], e["args"]["Concurrency"]))
    return preps, samples
def count_at(ivs, t): return sum(1 for s, e in ivs if s <= t < e)
def check(ivs, sm):
    ivs = [(Fraction(s), Fraction(e)) for s, e in ivs]; sm = [(Fraction(t), c) for t, c in sm]; bad = []
    for (a, _), (b, _) in zip(sm, sm[1:]):
        if not a < b: bad.append(("not_strictly_increasing", float(a), float(b))); break
    for t, c in sm:
        if c != count_at(ivs, t): bad.append(("wrong_count", float(t), c, count_at(ivs, t))); break
    pts = sorted({p for iv in ivs for p in iv}); times = {t for t, _ in sm}; prev = None
    for p in pts:
        before = 0 if prev is None else count_at(ivs, (prev + p) / 2)
        if count_at(ivs, p) != before and p not in times: bad.append(("missing_sample_at_change", float(p))); break
        prev = p
    if any(s < e for s, e in ivs) and (not sm or sm[-1][1] != 0): bad.append(("not_ending_at_0", sm[-1:] and (float(sm[-1][0]), sm[-1][1])))
    if not any(s < e for s, e in ivs) and sm: bad.append(("samples_without_prep", len(sm)))
    return bad

sys.path.insert(0, "/verif/harness"); os.environ.setdefault("AIU_REPO", WT)
from common import collectives as co
fails = 0
for seed in range(8):
    rng = random.Random(seed)
    sc = co.gen_collective_scenario(rng, ranks=rng.choice([2, 3, 4]), groups=rng.choice([2, 3, 4]), reduce_kernels=True, max_in_flight=2)
    for fn, evs in sc.files.items():          # add Prep slices nested around / equal to every reduce-kernel Prep
        extra = []; ends = {e["attr"]["uid"]: e["ts"] for e in evs if e.get("ph") == "E" and "attr" in e}
        for e in evs:
            if e.get("ph") == "B" and str(e.get("name", "")).endswith("Cmpt Prep"):
                for j, (a, b) in enumerate([(2, 50), (1, 300), (0, 0)]):
                    c = copy.deepcopy(e); f = sc.freq; A = c["attr"]
                    t = {k: int(A[k], 0) for k in ("TS1", "TS2", "TS3", "TS4", "TS5")}
                    if t["TS2"] - a < t["TS1"]: continue
                    t["TS2"] -= a; t["TS3"] += b; t["TS4"] = max(t["TS4"], t["TS3"]); t["TS5"] = max(t["TS5"], t["TS4"])
                    for k in t: A[k] = str(t[k])
                    A["uid"] += "x%d" % j
                    c["ph"] = "X"; c["dur"] = ends[e["attr"]["uid"]] - e["ts"] + (a + b) / f; c["ts"] -= a / f
                    c["name"] = "extra%d_" % j + c["name"]; extra.append(c)
        evs.extend(extra)
    series = {}
    for keep in (False, True):
        d = "/tmp/audit_C13/work/r5"; shutil.rmtree(d, ignore_errors=True)
        inp = co.write(sc, d + "/in")
        env = dict(os.environ, PYTHONPATH=WT + "/src", PYTHONHASHSEED="0")
        r = subprocess.run([PY, "-m", "acelyzer.acelyzer", "-i", inp, "-o", d + "/out.json", "--freq", str(int(sc.freq))] + (["--keep_prep"] if keep else []),
                           cwd=d, env=env, stdout=subprocess.PIPE, stderr=subprocess.STDOUT, text=True)
        try: ex = json.load(open(d + "/out.json"))["traceEvents"]
        except Exception: print(seed, keep, "run failed rc", r.returncode); fails += 1; continue
        p, s = views(ex); series[keep] = s
        if not keep and p: print("Prep slices not removed"); fails += 1
        if keep:
            for pid in sorted(set(p) | set(s)):
                bad = check(p.get(pid, []), s.get(pid, []))
                print(f"seed {seed} ranks={sc.ranks} sync_active={'no action' not in r.stdout} pid={pid} slices={len(p.get(pid, []))} samples={len(s.get(pid, []))} -> {bad or 'ok'}")
                fails += bool(bad)
    if series.get(False) != series.get(True): print(seed, "series depends on keep_prep"); fails += 1
print("FAIL" if fails else "PASS")
