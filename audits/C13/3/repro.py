"""C13 audit 3: generator makes host starts of device events pairwise distinct (ZeroDivisionError in normalize.frequency_stats).
Run: /venv/bin/python repro.py   (uses the unmodified worktree /tmp/audit_C13/wt via the real CLI `python -m acelyzer.acelyzer`)"""
import json, os, re, subprocess, sys, shutil, random
from fractions import Fraction
WT = "/tmp/audit_C13/wt"
PY = "/venv/bin/python"
def dev_prep(name, pid, s, e, tid=1, k=0, freq=1024.0, lead=None):
    cyc = int(round((e - s) * freq)); base = int(round(s * freq)) % (1 << 31) + 4096
    ts1, ts2 = base - 64, base; ts3 = ts2 + cyc; ts4, ts5 = ts3 + 32, ts3 + 48
    if lead is None: lead = 8.0 + k / 64.0
    return {"ph": "X", "name": name + " Cmpt Prep", "pid": pid, "tid": tid, "ts": s - lead, "dur": (e - s) + lead,
            "args": {"TS1": str(ts1), "TS2": str(ts2), "TS3": str(ts3), "TS4": str(ts4), "TS5": str(ts5), "Power": "0x100"}}
def run_cli(files_events, extra, d, freq="1024"):
    shutil.rmtree(d, ignore_errors=True); os.makedirs(d)
    files = []
    for i, evs in enumerate(files_events):
        fn = os.path.join(d, f"rank{i}.json"); json.dump(evs, open(fn, "w")); files.append(fn)
    outp = os.path.join(d, "out.json")
    env = dict(os.environ, PYTHONPATH=os.path.join(WT, "src"), PYTHONHASHSEED="0")
    r = subprocess.run([PY, "-m", "acelyzer.acelyzer", "-i", ",".join(files), "-o", outp, "--freq", freq] + extra,
                       cwd=d, env=env, stdout=subprocess.PIPE, stderr=subprocess.STDOUT, text=True, timeout=300)
    try: ex = json.load(open(outp))["traceEvents"]
    except Exception: ex = None
    return r.returncode, ex, r.stdout
def views(export):
    preps, samples = {}, {}
    for e in export:
        if e.get("ph") == "X" and re.search(r"Cmpt Prep$", str(e.get("name"))):
            preps.setdefault(e["pid"], []).append((e["ts"], e["ts"] + e["dur"]))
        if e.get("ph") == "C" and e.get("name") == "ConcurrentPreps":
            samples.setdefault(e["pid"], []).append((e["ts"], e["args"]["Concurrency"]))
    return preps, samples
def count_at(ivs, t): return sum(1 for s, e in ivs if s <= t < e)
def check(ivs, sm):
    ivs = [(Fraction(s), Fraction(e)) for s, e in ivs]; sm = [(Fraction(t), c) for t, c in sm]; bad = []
    for (a, _), (b, _) in zip(sm, sm[1:]):
        if not a < b: bad.append(("not_strictly_increasing", float(a), float(b))); break
    for t, c in sm:
        if c != count_at(ivs, t): bad.append(("wrong_count", float(t), c, count_at(ivs, t))); break
    pts = sorted({p for iv in ivs for p in iv}); times = {t for t, _ in sm}; prev = None
    for p in pts:
        before = 0 if prev is None else count_at(ivs, (prev + p) / 2)
        if count_at(ivs, p) != before and p not in times: bad.append(("missing_sample_at_change", float(p))); break
        prev = p
    if any(s < e for s, e in ivs) and (not sm or sm[-1][1] != 0): bad.append(("not_ending_at_0", sm[-1:] and (float(sm[-1][0]), sm[-1][1])))
    if not any(s < e for s, e in ivs) and sm: bad.append(("samples_without_prep", len(sm)))
    return bad

# Generator constraint: dev_event() gives every device event of a file a distinct host start (c13.py:205-227, lead = 8 + k/64).
# Input here: Prep slices with EQUAL host ts (and same / different kernel name), overlapping device intervals.
fails = 0
for name_same in (False, True):
    for ivs, leads in (([(1000.0, 1004.0), (1002.0, 1006.0)], (8.0, 10.0)), ([(1000.0, 1004.0), (1000.0, 1006.0)], (8.0, 8.0))):
        evs = [dev_prep("k" if name_same else f"k{i}", 0, s, e, 1, i, lead=leads[i]) for i, (s, e) in enumerate(ivs)]
        assert evs[0]["ts"] == evs[1]["ts"]
        for keep in (False, True):
            rc, ex, out = run_cli([evs], ["--keep_prep"] if keep else [], "/tmp/audit_C13/work/r3")
            if ex is None: print("run failed rc", rc); fails += 1; continue
            p, s = views(ex); bad = check(ivs, s.get(0, []))
            ok = not bad and (not keep or sorted(p.get(0, [])) == sorted(ivs))
            print(f"same_name={name_same} ivs={ivs} keep={keep}: samples={s.get(0)} -> {bad or 'ok'}"); fails += (not ok)
print("FAIL" if fails else "PASS")
