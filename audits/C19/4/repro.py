"""C19 audit, candidate 4: events with ts == 0 are ignored by the stage (`if not ts`), mirrored by the oracle's
classify() (c19.py:408) and the model ('quirk kept').  Reachability: acelyzer keeps host epoch timestamps (no option
rebases to 0), rejects negative ts (AssertionError in timesync), and a device slice starts at its TS3 > B time, a
Power sample sits at TS4.  So even a trace recorded AT the host epoch (B of the first kernel at ts 0.0 - exotic)
has no kernel slice / sample at ts 0.  This run shows it: partition and with-kernel time are right."""
import sys; sys.path.insert(0, "/tmp/audit_C19/out/common")
from lib import rank_events, run_cli, parse_lines, exported
# first event: a long non-kernel-free layout: kernel0 wide; sample period [TS4_0, TS4_1) ; kernel1 starts at 0?
ks0 = [(0, 200000, 300000), (100000, 400000, 320000), (600000, 200000, 340000)]
host0 = 0.0      # trace recorded AT the host epoch (B of the first kernel at ts 0.0); negative ts are rejected by the tool (AssertionError in timesync)
rc, log, evs = run_cli({"r0.json": rank_events(0, host0, 10**6, ks0)}, "/tmp/audit_C19/out/4/work")
st = parse_lines(log); samples, kernels = exported(evs)
print("rc", rc); print("samples", samples); print("kernels", kernels)
for ln in log.splitlines():
    if "Power with" in ln or "ERROR" in ln: print(ln[-200:])
if st:
    ts = sorted(t for _, t, _ in samples)
    iv = [(max(s, ts[0]), min(e, ts[-1])) for _, s, e, _ in kernels if min(e, ts[-1]) > max(s, ts[0])]
    iv.sort(); tot = 0; cur = None
    for s, e in iv:
        if cur is None or s > cur[1]:
            if cur: tot += cur[1] - cur[0]
            cur = [s, e]
        else: cur[1] = max(cur[1], e)
    if cur: tot += cur[1] - cur[0]
    got = st["Power with kernels"]["dur_total"] if st["Power with kernels"] else 0.0
    print(f"expected with-kernel time {tot:.2f}, observed {got}")
    print("PASS" if abs(tot - got) < 0.02 else "FAIL")
else:
    print("no statistics reported (inconclusive)")
