"""C19 audit, candidate 3: `-C power_ts3 --power-stats` (the other documented power counter).  The harness only
feeds events named exactly 'Power'.  In the ts3 path compute_power renames samples ('Power Cmpt Exec', ...) so the
stage recognises no sample: no statistics at all.  Property is vacuous there (nothing reported), so PASS = no
numbers reported that contradict it."""
import sys; sys.path.insert(0, "/tmp/audit_C19/out/common")
from lib import rank_events, run_cli, parse_lines, exported
ks0 = [(i * 300000, 200000, 300000 + 20000 * i) for i in range(5)]
rc, log, evs = run_cli({"r0.json": rank_events(0, 2.0e6, 10**6, ks0)}, "/tmp/audit_C19/out/3/work", extra=("-C", "power_ts3"))
st = parse_lines(log)
names = sorted({e["name"] for e in evs if e.get("ph") == "C"})
print("rc", rc, "counter names exported:", names)
print([l.split("WARNING")[-1].strip() for l in log.splitlines() if "Insufficient" in l])
print("statistics lines:", st)
print("PASS (vacuous: no statistics reported)" if rc == 0 and not st else "FAIL")
