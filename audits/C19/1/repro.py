"""C19 audit, candidate 1: reported (%.2f) mean_non_zero leaves [min_non_zero, max].
Input: ONE rank, 5 equally spaced 'Cmpt Exec' device kernels, constant charge rate so that every computed Power
sample is 12*2666800/512/1875us = 33.335 W (binary64: 33.3350000000000008...).  --freq 1000, default counters
(power_ts4), --power-stats.  Unmodified tree via the documented API Acelyzer(argv).run() in a subprocess.
Property clause: 'Reported values satisfy ... min_non_zero <= mean_non_zero <= max'."""
import sys; sys.path.insert(0, "/tmp/audit_C19/out/common")
import lib
from lib import rank_events, run_cli, parse_lines, exported
lib.FREQ = 1000.0
period, dq, w, n = 1875 * 1000, 2666800, 820136, 5
ks = [(i * period, w, dq) for i in range(n)]
rc, log, evs = run_cli({"r0.json": rank_events(0, 2000095.119, 1061981, ks)}, "/tmp/audit_C19/out/1/work")
st = parse_lines(log)
samples, kernels = exported(evs)
print("rc", rc)
print("exported Power samples (ts, W):", [(t, w_) for _, t, w_ in samples])
for ln in log.splitlines():
    if "Power with" in ln:
        print(ln.split("INFO")[-1].strip())
ok = True
for lab, v in st.items():
    if v is None:
        continue
    a = v["min_non_zero"] <= v["mean_non_zero"] <= v["max"]
    b = v["min_non_zero"] <= v["median_non_zero"] <= v["max"]
    c = v["dur_non_zero"] <= v["dur_total"]
    print(f"{lab}: expected min_non_zero <= mean_non_zero <= max ; observed min={v['min_non_zero']} "
          f"mean={v['mean_non_zero']} max={v['max']} -> {'ok' if a else 'VIOLATED'}")
    ok = ok and a and b and c
print("PASS" if ok and rc == 0 and st else "FAIL")
