"""C19 audit, candidate 2: two ranks (two input files, the normal multi-AIU use of acelyzer), default counters,
--power-stats.  The harness assumes 'power samples arrive in non-decreasing ts order (registered after the counter
sorting stage)' and its generator sorts samples of pid 0/1 globally by ts.  The real sort stage drains one
(pid,tid) queue after the other, so the stage sees rank 0's samples, then rank 1's (ts jumps back), and it ignores pid.
Expected values are computed from the EXPORTED trace (Power counters, 'Cmpt Exec' slices) by the property text:
 reading A (one shared timeline): with+without = total sampled time = last sample ts - first sample ts
 reading B (one timeline per rank): with = sum over ranks of |rank's sample periods  ∩  rank's own kernels|,
                                    with+without = sum over ranks of (last - first)"""
import sys; sys.path.insert(0, "/tmp/audit_C19/out/common")
from lib import rank_events, run_cli, parse_lines, exported
ks0 = [(i * 300000, 200000, 300000 + 20000 * i) for i in range(5)]
ks1 = [(120000 + i * 300000, 80000, 100000 + 10000 * i) for i in range(5)]
rc, log, evs = run_cli({"r0.json": rank_events(0, 2.0e6, 10**6, ks0), "r1.json": rank_events(1, 2.0e6, 10**6, ks1)},
                       "/tmp/audit_C19/out/2/work")
st = parse_lines(log)
samples, kernels = exported(evs)
for ln in log.splitlines():
    if "Power with" in ln:
        print(ln.split("INFO")[-1].strip())
pids = sorted({p for p, _, _ in samples})
def union_len(iv):
    tot, cur_s, cur_e = 0.0, None, None
    for s, e in sorted(iv):
        if cur_e is None or s > cur_e:
            if cur_e is not None: tot += cur_e - cur_s
            cur_s, cur_e = s, e
        else:
            cur_e = max(cur_e, e)
    return tot + ((cur_e - cur_s) if cur_e is not None else 0.0)
def overlap(a, b, iv):
    return union_len([(max(a, s), min(b, e)) for s, e in iv if min(b, e) > max(a, s)])
allts = [t for _, t, _ in samples]
A_total = max(allts) - min(allts)
B_total = B_with = 0.0
for p in pids:
    ts = sorted(t for q, t, _ in samples if q == p)
    own = [(s, e) for q, s, e, _ in kernels if q == p]
    B_total += ts[-1] - ts[0]
    B_with += overlap(ts[0], ts[-1], own)
got_with = st["Power with kernels"]["dur_total"]; got_wo = st["Power without kernels"]["dur_total"]
print(f"ranks with samples: {pids}")
print(f"observed: with={got_with} without={got_wo} sum={got_with + got_wo:.2f}")
print(f"reading A expects with+without = {A_total:.2f}  -> {'ok' if abs(got_with + got_wo - A_total) < 0.02 else 'VIOLATED (time counted twice)'}")
okB1 = abs(got_with + got_wo - B_total) < 0.02
okB2 = abs(got_with - B_with) < 0.02
print(f"reading B expects with+without = {B_total:.2f} -> {'ok' if okB1 else 'VIOLATED'};  with = {B_with:.2f}, without = {B_total - B_with:.2f} -> "
      f"{'ok' if okB2 else 'VIOLATED (a rank`s power is cut by the other rank`s kernels)'}")
print("PASS" if (abs(got_with + got_wo - A_total) < 0.02 or (okB1 and okB2)) else "FAIL")
