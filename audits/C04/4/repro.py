"""C04 audit #4: inputs excluded by `nonneg` (oracle), `0 <= ts` (C04_no_err_* hypotheses) and `d >= 1` (gen_e2e_case).
End to end these never reach the overlap stage: ingestion drops negative-ts and zero-duration X events.  So the
AssertionError 'quirk' of a fresh lane (cursor 0.0) is kernel-only."""
import sys; sys.path.insert(0, "/tmp/audit_C04/out")
from common import *
mk = lambda tid, s, d, u: {"ph": "X", "name": f"host_{u}", "pid": 0, "tid": tid, "ts": s, "dur": d, "args": {"uid": u}}
res = {}
for name, doc in (("flex", lambda e: e), ("torch", lambda e: dict(TORCH, traceEvents=e))):
    st, xs = run(doc([mk(5, -10.0, 4.0, 0), mk(5, -8.0, 4.0, 1), mk(5, 3.0, 0.0, 2), mk(5, 1.0, 4.0, 3), mk(5, 3.0, 4.0, 4)]), "tid")
    res[name] = (st, sorted((e["args"]["uid"], e["tid"]) for e in xs))
    print(name, res[name])
ok = all(st == "ok" and {u for u, _ in l} == {3, 4} and len({t for _, t in l}) == 2 for st, l in res.values())
print("expected: no exception; uid 3/4 (valid slices) resolved onto two lanes; uid 0,1,2 are removed by ingestion, not by -O tid")
print("PASS (overlap stage never sees ts<0 / dur==0 end to end)" if ok else "FAIL")
