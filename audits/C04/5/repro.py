"""C04 audit #5: E2E_PRELUDE.light_tid mirrors tb_refinement_lightweight (annotated host slices: tid -> tid//10 + tid%10,
applied AFTER overlap resolution).  Can the renaming fold two resolved lanes together (incl. 'AIU Roundtrip' host
slices, which keep their own remapped tid 1000+100k)?  Random FLEX families, dyadic times; exported lanes must be
laminar and annotated/unannotated/roundtrip source lanes must not be folded onto one exported lane with a conflict."""
import sys, random; sys.path.insert(0, "/tmp/audit_C04/out")
from common import *
r = random.Random(5); bad = 0; n = 0
for it in range(int(sys.argv[1]) if len(sys.argv) > 1 else 200):
    T = r.choice([6, 12, 30]); evs = []
    for i in range(r.randint(2, 12)):
        s = r.randint(0, T); d = r.randint(1, max(1, T - s + 2))
        args = {"uid": i}
        if r.random() < 0.4:
            args["External id"] = 100 + i
        name = f"AIU Roundtrip {i}" if r.random() < 0.3 else f"host_{i}"
        evs.append({"ph": "X", "name": name, "pid": 0, "tid": r.choice([1, 2, 3, 100, 101, 110]), "ts": float(s), "dur": float(d), "args": args})
    st, xs = run(evs, "tid"); n += 1
    if st != "ok":
        continue            # deep staircase beyond the limit
    if lane_violations(xs) or len(xs) != len(evs):
        bad += 1; print("FAIL", lane_violations(xs)[:1], len(xs), len(evs))
print(f"{n} cases, {bad} failing ->", "PASS" if bad == 0 else "FAIL")
