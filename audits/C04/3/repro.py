"""C04 audit #3: tid == -1 (EXOTIC input).  collect_tid_space uses key -1 of tid_space[pid] as the 'seen tids' set, so
lane (pid,-1) never gets a spare-lane chain; one partial overlap on it aborts the run with KeyError.  Depth is 2, far
below the tool's limit.  Reachable only for TORCH-dialect input (FLEX tids are remapped to 1000, 1100, ...)."""
import sys; sys.path.insert(0, "/tmp/audit_C04/out")
from common import *
mk = lambda tid, s, d, u: {"ph": "X", "name": f"op_{u}", "cat": "cpu_op", "pid": 0, "tid": tid, "ts": s, "dur": d, "args": {"uid": u}}
st, xs = run(dict(TORCH, traceEvents=[mk(-1, 10.0, 4.0, 0), mk(-1, 12.0, 4.0, 1)]), "tid")
print("status", st, "exported", [(e["args"]["uid"], e["tid"]) for e in xs])
print("expected (property): both slices exported, on different lanes (nesting depth 2 <= limit)")
ok = st == "ok" and len(xs) == 2 and not lane_violations(xs)
# side effect of hash((0,-1)) == hash((0,-2)): a slice alone on lane -2 is moved because of a slice on lane -1
st2, xs2 = run(dict(TORCH, traceEvents=[mk(-1, 10.0, 4.0, 0), mk(-2, 12.0, 4.0, 1)]), "tid")
print("lanes -1/-2 (hash collision):", st2, [(e["args"]["uid"], e["tid"]) for e in xs2], "(uid 1 was alone on its lane; moved anyway, still laminar)")
print("PASS" if ok else "FAIL: run aborted / slices lost")
