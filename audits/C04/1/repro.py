"""C04 audit #1: torch-profiler input whose slices carry a STRING tid ("stream 7", older Kineto traces; acelyzer has
explicit support: ingestion keeps it in args.otid and uses hash(tid)).  -O tid moves the offending slice to hash+1,
but tb_refinement_lightweight/_restore_pid_tid (TORCH dialect) writes args.otid back into tid afterwards, so the
resolution is undone in the exported file."""
import sys; sys.path.insert(0, "/tmp/audit_C04/out")
from common import *
evs = [{"ph": "X", "name": "opA", "cat": "cpu_op", "pid": 0, "tid": "stream 7", "ts": 100.0, "dur": 10.0, "args": {"uid": 0}},
       {"ph": "X", "name": "opB", "cat": "cpu_op", "pid": 0, "tid": "stream 7", "ts": 105.0, "dur": 10.0, "args": {"uid": 1}}]
st, xs = run(dict(TORCH, traceEvents=evs), "tid")
v = lane_violations(xs)
print("status", st, "exported", [(e["args"]["uid"], e["pid"], e["tid"], e["ts"], e["dur"]) for e in xs])
print("expected (property): uid 0 and uid 1 on different (pid,tid) lanes, or nested/disjoint; both exported")
# control: the same input with an integer tid is resolved
for e in evs:
    e["tid"] = 12345
st2, xs2 = run(dict(TORCH, traceEvents=evs), "tid")
print("control int tid:", [(e["args"]["uid"], e["tid"]) for e in xs2], "violations", lane_violations(xs2))
print("FAIL: partially overlapping slices share lane %s" % (v[0][0],) if v or st != "ok" else "PASS")
