"""C04 audit #2: the harness only uses dyadic grids (scale in {4,1,.5,.25,.0625}) 'so that round(ts+dur,4) is the
identity'; the clause 'up to the 0.1 ns rounding the tool itself applies' is therefore never exercised.
Part A: random FLEX host-slice families with decimal times at realistic magnitudes (0, 7.7e9, 1.475e12 us as in
        tests/test_data, 3..6 decimals): laminarity of the exported file checked in exact arithmetic, tolerance 0.1 ns.
Part B: a fixed family at 1.7e15 us (epoch microseconds, float spacing 0.25 us) with sub-us durations."""
import sys, random; sys.path.insert(0, "/tmp/audit_C04/out")
from common import *
r = random.Random(4)
badA = 0; nA = 0
for it in range(int(sys.argv[1]) if len(sys.argv) > 1 else 200):
    big = r.choice([0.0, 7.7e9, 1475000720166.0]); dec = r.choice([3, 3, 4, 6]); T = r.choice([6, 12, 30])
    evs = []
    for i in range(r.randint(2, 12)):
        s = r.randint(0, T) + r.randint(0, 10**dec - 1) / 10**dec
        d = r.randint(1, max(1, T - int(s) + 2)) + r.randint(0, 10**dec - 1) / 10**dec
        evs.append({"ph": "X", "name": f"host_{i}", "pid": 0, "tid": r.choice([1, 2, 3]), "ts": big + s, "dur": d, "args": {"uid": i}})
    st, xs = run(evs, r.choice(["tid", "tid", "drop"]))
    nA += 1
    same = all(any(o["args"]["uid"] == e["args"]["uid"] and o["ts"] == e["ts"] and o["dur"] == e["dur"] for o in evs) for e in xs)
    if st != "ok" and len(evs) <= 6 or lane_violations(xs) or not same:
        badA += 1; print("A-FAIL", st, big, dec, lane_violations(xs)[:1])
print(f"Part A: {nA} cases, {badA} failing ->", "PASS" if badA == 0 else "FAIL")
Tb = 1.7e15
evs = [{"ph": "X", "name": "host_0", "pid": 0, "tid": 1, "ts": Tb + 0.5, "dur": 12.788, "args": {"uid": 0}},
       {"ph": "X", "name": "host_1", "pid": 0, "tid": 1, "ts": Tb + 6.0, "dur": 7.36, "args": {"uid": 1}}]
st, xs = run(evs, "tid")
v = lane_violations(xs)
print("Part B:", st, [(e["args"]["uid"], e["tid"], e["ts"], e["dur"]) for e in xs])
print("  exact ends: uid0", float(F(evs[0]["ts"]) + F(evs[0]["dur"]) - F(Tb)), "uid1", float(F(evs[1]["ts"]) + F(evs[1]["dur"]) - F(Tb)),
      "-> partial overlap of 72 ns; in binary64 both ends are", evs[0]["ts"] + evs[0]["dur"] - Tb)
print("Part B:", "FAIL (same lane, overlap 72 ns > 0.1 ns; float artefact at epoch-us magnitude)" if v else "PASS")
