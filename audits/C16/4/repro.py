"""Candidate 4 - places where the harness drops a case or an oracle clause: SystemExit => 'not a case' (c16.py:305-307),
generator removes power_ts3+power_ts4 (c16.py:125-126), oracle gives up when the source-line correspondence is undefined
(c16.py:193-194).  Count on the harness's OWN generator (5 000 draws, real code of the unmodified worktree) how often each
escape is taken, and show what the excluded vector does."""
import os, random, sys, tempfile, io, contextlib
os.environ["AIU_REPO"] = "/tmp/audit_C16/wt"
sys.path.insert(0, "/tmp/audit_C16/wt/src"); sys.path.insert(0, "/verif/harness"); sys.path.insert(0, "/verif/harness/props")
sys.path.insert(0, "/verif/tools")
import json
import c16
from common import coqrun, enc
import translate_registration as tr
ana = tr.analyze(coqrun.REPO)
atoms, regs = ana["atoms"], ana["regs"]
everything = [(k, v) for d in json.load(open(os.path.join(coqrun.REPO, "src/aiu_trace_analyzer/profiles/everything.json")))["stages"]
              for k, v in d.items()]
en = [n for n, _ in everything]
clog = os.path.join(coqrun.REPO, "tests/test_data/sample_comp_log_ideal.txt")
r = random.Random(4)
work = tempfile.mkdtemp(prefix="c16h_", dir="/tmp/audit_C16"); os.chdir(work)
cnt = {"cases": 0, "SystemExit": 0, "other_error": 0, "oracle_b_evaluated": 0, "oracle_b_gave_up": 0, "oracle_a": 0, "oracle_fail": 0}
l2i = {}
for i, rg in enumerate(regs):
    l2i.setdefault(rg["lineno"], i)
for _ in range(5000):
    argv = c16.gen_argv(r, clog); sel, custom = c16.gen_profile(r, everything)
    if "--tb" in argv and sel == 0:
        sel = 1
    cnt["cases"] += 1
    try:
        with contextlib.redirect_stdout(io.StringIO()), contextlib.redirect_stderr(io.StringIO()):
            impl = c16.run_impl(argv, sel, custom, work, atoms)
    except SystemExit:
        cnt["SystemExit"] += 1; continue
    except Exception as e:
        cnt["other_error"] += 1; continue
    if isinstance(impl, enc.Err):
        cnt["other_error"] += 1; continue
    val, rec, stages, prof = impl
    if all(f for _, f in prof):
        cnt["oracle_a"] += 1
    elif any(l2i.get(ln) is None or l2i[ln] >= len(en) or en[l2i[ln]] != n for n, ln in rec):
        cnt["oracle_b_gave_up"] += 1
    else:
        cnt["oracle_b_evaluated"] += 1
    if c16.oracle((argv, sel, custom), impl, regs, en):
        cnt["oracle_fail"] += 1
print(cnt)
# the excluded vector: both power counters
try:
    with contextlib.redirect_stdout(io.StringIO()) as o, contextlib.redirect_stderr(o):
        c16.run_impl(["-i", "dummy.json", "-C", "power_ts3", "power_ts4"], 0, [], work, atoms)
    both = "accepted"
except SystemExit as e:
    both = f"rejected by the tool (exit {e.code}; help: 'power_ts4 and power_ts3 are mutually exclusive')"
print("-C power_ts3 power_ts4:", both)
ok = cnt["SystemExit"] == 0 and cnt["oracle_b_gave_up"] == 0 and cnt["oracle_fail"] == 0 and both.startswith("rejected")
print("PASS - no in-domain vector is dropped and clause (b) is evaluated whenever a profile disables something" if ok else "FAIL")
