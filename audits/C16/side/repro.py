"""Side observation (NOT C16): `-S` (--use_mp_sync_v2) on the repo's own single-rank sample aborts in drain()."""
import os, sys, tempfile, traceback
sys.path.insert(0, "/tmp/audit_C16/wt/src")
from aiu_trace_analyzer.core.acelyzer import Acelyzer
w = tempfile.mkdtemp(dir="/tmp/audit_C16"); os.chdir(w)
for inp in ("sample_flex_3062_job_4.json", "allreduce_tp4.json"):
    try:
        rc = Acelyzer(["-i", "/tmp/audit_C16/wt/tests/test_data/" + inp, "-o", os.path.join(w, "o.json"), "-S", "-D", "0"]).run()
        print(inp, "rc", rc, "PASS")
    except Exception as e:
        print(inp, "FAIL: run aborted with", repr(e), "at", traceback.extract_tb(e.__traceback__)[-1][:3])
