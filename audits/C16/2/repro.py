"""Candidate 2 - ASSUMPTION (c16.py:55): "a requested stage = a register_stage call executed ... for the parsed arguments".
'Requested' is defined by the code's own if-conditions, so a switch whose stage is guarded by a SECOND switch can never
count as 'requested but skipped'.  Here 'requested' is read off the command line help instead: a switch that the help
describes as enabling an analysis requests the stage implementing it.  Real Acelyzer(argv).run() on the sample trace,
shipped default profile; loglevel 2 (WARN) so that a warning, if any, is visible."""
import io, os, sys, contextlib
sys.path.insert(0, "/tmp/audit_C16")
import lib

CASES = [
    # (switches, stage the help text promises, remark)
    (["--power-stats", "-C", "coll_bw"], "analyze_power_statistics",
     "--power-stats: 'Enable power statistics analysis' - but no power counter selected"),
    (["--power-stats"], "analyze_power_statistics", "--power-stats with the default counters (control)"),
    (["-S", "-M"], "mp_ts_calibration_v2", "-S 'Use the newer version of multi-AIU time alignment' together with -M 'Do not attempt to sync'"),
    (["-C", "rcu_util"], "compute_utilization", "-C rcu_util without -c (help: compiler log 'Required e.g. for rcu_util')"),
    (["-R", "-t"], "calculate_stats_v2", "-R with -t (statistics disabled)"),
    (["-R", "-C", "coll_bw"], "mp_calc_bw_v2", "-R without --flow (help: --flow must be enabled first) (control: registered anyway)"),
    (["-C", "prep_queue", "-C", "coll_bw"], "queueing_counter", "-C given twice: argparse keeps the last list only (exotic spelling)"),
    (["-C"], "queueing_counter", "-C with no values: no counters at all (control: nothing requested)"),
]
bad = 0
for sw, stage, remark in CASES:
    err = io.StringIO()
    argv = list(sw)
    # run with WARN level to see whether the user is told
    import aiu_trace_analyzer.logger as aiulog
    with contextlib.redirect_stdout(err), contextlib.redirect_stderr(err):
        r = lib.run_real([x for x in argv] + ["-D", "2"], dry=False)
    told = [l for l in err.getvalue().splitlines() if "WARN" in l or "ERROR" in l]
    present = stage in r["stages"]
    called = stage in [n for n, _ in r["calls"]]
    print(f"{' '.join(sw):32s} stage {stage:28s} register_stage called: {called!s:5s} in pipeline: {present!s:5s} "
          f"warnings: {len(told)}  # {remark}")
    for l in told[:3]:
        print("      ", l[:160])
    if not present and "control" not in remark:
        bad += 1
print()
print("Under the property's own wording ('none is silently skipped by the profile's forward name matching') none of these is a\n"
      "violation: register_stage is never called, the profile is not involved.  Under the TITLE read literally ('every stage\n"
      "the command line requests is registered') the rows with in pipeline: False are stages a switch asks for and the run\n"
      "does not contain:", bad)
print("PASS - property clause (skipped by the profile's forward matching) not touched; the ASSUMPTION is a reading of\n"
      "'requested', see notes.md")
