"""Candidate 3 - profile SPELLINGS and process history the harness does not generate: it always writes a scratch file for -P
(c16.py:83-86) and passes the 'everything' profile as a copy (c16.py:261).  A user names shipped profiles by bare file name
(`-P everything.json`, `-P torch_minimal.json` without --tb, `-P default.json`), and runs several Acelyzer objects in one
process (TensorBoard plugin).  Expected by the property text: default/everything => stages == requested; torch_minimal =>
requested filtered by the flags written in torch_minimal.json; the order of earlier runs must not matter."""
import json, os, sys
sys.path.insert(0, "/tmp/audit_C16"); sys.path.insert(0, "/verif/tools")
import lib
import translate_registration as tr
regs = tr.analyze(lib.WT)["regs"]
l2i = {}
for i, r in enumerate(regs):
    l2i.setdefault(r["lineno"], i)
tm = [(k, v) for d in json.load(open(os.path.join(lib.WT, "src/aiu_trace_analyzer/profiles/torch_minimal.json")))["stages"]
      for k, v in d.items()]
RICH = ["-C", "power_ts4", "prep_queue", "rcu_util", "coll_bw", "bandwidth", "-c", lib.CLOG, "--flow", "--comm_summarize_seq",
        "--power-stats", "--drop_globals", "-F", "X", "--flex_ts_fix", "-s", "-R"]
fails = []


def check(tag, r, kind, k=None):
    req = [n for n, _ in r["calls"]]
    idx = [l2i[l] for _, l in r["calls"]]
    exp = req if kind == "all" else [n for n, i in zip(req, idx) if tm[i][1]] if kind == "tm" else \
        [n for n, i in zip(req, idx) if i != k]
    ok = exp == r["stages"]
    print(("ok   " if ok else "FAIL ") + tag, "requested", len(req), "expected", len(exp), "observed", len(r["stages"]))
    if not ok:
        fails.append((tag, [n for n in exp if n not in r["stages"]]))


for argv in ([], RICH, ["-O", "async", "-M"], ["-O", "drop", "-S", "-t", "--disable_tb"]):
    t = " ".join(a for a in argv if not a.startswith("/"))[:60]
    check("-P everything.json      | " + t, lib.run_real(argv, profile_name="everything.json"), "all")
    check("-P default.json         | " + t, lib.run_real(argv, profile_name="default.json"), "all")
    check("-P torch_minimal.json   | " + t, lib.run_real(argv, profile_name="torch_minimal.json"), "tm")
    check("--tb                    | " + t, lib.run_real(argv + ["--tb"]), "tm")
    check("(after --tb) default    | " + t, lib.run_real(argv), "all")
    check("--tb -P everything.json | " + t, lib.run_real(argv + ["--tb"], profile_name="everything.json"), "all")
    en = [n for n, _ in lib.EVERYTHING]
    for k in (4, 21, 34, 41, 56):        # barriers share one module-level context; 56 = final sort
        check(f"entry {k} disabled        | " + t, lib.run_real(argv, profile_entries=[(n, i != k) for i, n in enumerate(en)]), "one", k)
        check(f"(after that) default    | " + t, lib.run_real(argv), "all")
print("FAIL" if fails else "PASS", fails[:3])
