import io, contextlib, json, os, sys
sys.path.insert(0, "/tmp/audit_C16"); sys.path.insert(0, "/verif/tools")
import lib
import translate_registration as tr
l2i = {}
for i, r in enumerate(tr.analyze(lib.WT)["regs"]):
    l2i.setdefault(r["lineno"], i)
tm = [(k, v) for d in json.load(open(os.path.join(lib.WT, "src/aiu_trace_analyzer/profiles/torch_minimal.json")))["stages"]
      for k, v in d.items()]
ok = True
for sw, st in ((["--drop_globals"], "drop_global_events"), (["--flex_ts_fix"], "frequency_align_apply"),
               (["-C", "prep_queue"], "queueing_counter"), (["--power-stats"], "analyze_power_statistics")):
    buf = io.StringIO()
    with contextlib.redirect_stdout(buf), contextlib.redirect_stderr(buf):
        r = lib.run_real(sw + ["--tb", "-D", "3"])
    said = any("Skipping registration of " + st in l for l in buf.getvalue().splitlines())
    exp = [n for n, l in r["calls"] if tm[l2i[l]][1]]
    good = exp == r["stages"] and st not in r["stages"] and said
    ok &= good
    print(" ".join(sw), "--tb:", st, "in pipeline:", st in r["stages"], "| announced at INFO:", said,
          "| stages == requested filtered by file flags:", exp == r["stages"])
print("PASS" if ok else "FAIL")
