"""Candidate 1 - the harness SAMPLES argument vectors (1 500 quick / 40 000 thorough, c16.py:268) and its oracle clause (b)
takes the INGESTED profile as the truth (c16.py:195) and gives up when the line->entry correspondence is undefined
(c16.py:193-194).  Here: the FULL cross product of the stage-selecting switches through the real Acelyzer(argv).run()
(Engine.run snapshots the stage list; no events pumped in the bulk part) under the shipped default profile, --tb for a
subset, and every single-entry-disabled profile in two user spellings (flag false / entry deleted) for a random subset.
Expectation from the PROPERTY TEXT only: requested = the register_stage statements executed (identified by source line ->
k-th statement = k-th entry of everything.json); default: stages == requested; profile disabling entry k: stages ==
requested minus the statement of entry k; torch_minimal: requested filtered by the flag written in torch_minimal.json at
that position."""
import itertools, json, os, random, sys, shutil
from multiprocessing import Pool
sys.path.insert(0, "/tmp/audit_C16"); sys.path.insert(0, "/verif/tools")

COUNTERS = ["power_ts4", "power_ts3", "coll_bw", "bandwidth", "prep_queue", "rcu_util"]
BOOLS = ["--flex_ts_fix", "-s", "-M", "-S", "--drop_globals", "--comm_summarize_seq", "--power-stats", "--flow", "-R",
         "-t", "--disable_tb"]


def all_argv():
    csets = [None, []] + [list(c) for n in range(1, 7) for c in itertools.combinations(COUNTERS, n)
                          if not ("power_ts3" in c and "power_ts4" in c)]
    for ov in ["tid", "drop", "async", "warn", "shift"]:
        for cs in csets:
            for clog in (False, True):
                if clog and not (cs and "rcu_util" in cs) and cs is not None:
                    continue        # -c without rcu_util: guard atom identical; sampled separately below
                for F in (None, "C"):
                    for bits in itertools.product((0, 1), repeat=len(BOOLS)):
                        a = ["-O", ov]
                        if cs is not None:
                            a += ["-C"] + cs
                        if clog:
                            a += ["-c", "@CLOG"]
                        if F:
                            a += ["-F", F]
                        a += [s for s, b in zip(BOOLS, bits) if b]
                        yield a


def work(chunk):
    import lib
    import translate_registration as tr
    regs = tr.analyze(lib.WT)["regs"]
    l2i = {}
    for i, r in enumerate(regs):
        l2i.setdefault(r["lineno"], i)
    en = [n for n, _ in lib.EVERYTHING]
    tm = [(k, v) for d in json.load(open(os.path.join(lib.WT, "src/aiu_trace_analyzer/profiles/torch_minimal.json")))["stages"]
          for k, v in d.items()]
    assert [n for n, _ in tm] == en
    fails, n = [], 0
    for mode, argv, k in chunk:
        argv = [lib.CLOG if x == "@CLOG" else x for x in argv]
        try:
            if mode == "default":
                r = lib.run_real(argv, dry=True)
            elif mode == "tb":
                r = lib.run_real(argv + ["--tb"], dry=True)
            elif mode == "flag":
                r = lib.run_real(argv, profile_entries=[(nm, i != k) for i, nm in enumerate(en)], dry=True)
            elif mode == "omit":
                r = lib.run_real(argv, profile_entries=[(nm, True) for i, nm in enumerate(en) if i != k], dry=True)
            elif mode == "full":      # really pump the sample trace through
                r = lib.run_real(argv, dry=False)
        except SystemExit as e:
            fails.append((mode, argv, k, "SystemExit", str(e))); continue
        except Exception as e:
            fails.append((mode, argv, k, "EXC", repr(e))); continue
        finally:
            pass
        shutil.rmtree(r["work"], ignore_errors=True)
        n += 1
        idx = [l2i.get(l) for _, l in r["calls"]]
        if any(i is None or en[i] != nm for i, (nm, _) in zip(idx, r["calls"])):
            fails.append((mode, argv, k, "correspondence undefined", r["calls"])); continue
        if idx != sorted(set(idx)):
            fails.append((mode, argv, k, "a statement executed twice / out of order", idx)); continue
        if mode in ("default", "full"):
            exp = [nm for nm, _ in r["calls"]]
        elif mode == "tb":
            exp = [nm for (nm, _), i in zip(r["calls"], idx) if tm[i][1]]
        else:
            exp = [nm for (nm, _), i in zip(r["calls"], idx) if i != k]
        if exp != r["stages"]:
            fails.append((mode, argv, k, {"expected": exp, "observed": r["stages"]}))
    return n, fails


if __name__ == "__main__":
    quick = len(sys.argv) > 1 and sys.argv[1] == "quick"
    rnd = random.Random(16)
    base = list(all_argv())
    total = len(base)
    # 1.5M vectors x 1.3 ms is beyond the audit's time budget: a uniform sample of the product (argv[1]=N, default 300000)
    base = rnd.sample(base, 20000 if quick else int(sys.argv[1]) if len(sys.argv) > 1 else 300000)
    jobs = [("default", a, None) for a in base]
    jobs += [("tb", a, None) for a in rnd.sample(base, len(base) // 8)]
    for a in rnd.sample(base, 1200 if not quick else 300):
        extra = rnd.sample(["--keep_prep", "-I", "-k", "--keep_names", "--tb"], rnd.randrange(0, 3))
        if "-c" not in a and rnd.random() < 0.3:
            extra += ["-c", "@CLOG"]
        for k in range(57):
            jobs.append(("flag", a + extra, k))
            jobs.append(("omit", a + extra, k))
    jobs += [("full", a, None) for a in rnd.sample(base, 300)]
    rnd.shuffle(jobs)
    chunks = [jobs[i::64] for i in range(64)]
    devnull = os.open(os.devnull, os.O_WRONLY); os.dup2(devnull, 2)
    with Pool(8) as p:
        res = p.map(work, chunks)
    n = sum(r[0] for r in res); fails = [f for r in res for f in r[1]]
    print("evaluated", n, "of", len(jobs), "jobs; argument vectors sampled:", len(base), "of the cross product", total)
    for f in fails[:10]:
        print("  ", f)
    print("FAIL" if fails else "PASS", "- expected (property text): default => stages == requested; entry k disabled => "
          "requested minus statement k; observed mismatches:", len(fails))
