# event names the generator avoids: a dialect keyword with a suffix / a DMA keyword inside a kernel name (EXOTIC inputs)
import sys, os; sys.path.insert(0, os.path.dirname(os.path.abspath(__file__)))
from common import *
T = 2097962447000.0
allok = True
for nm in ("Flex RoundTrip 3", "PrepareAndSyncRdma x"):
    evs = [{"ph": "X", "name": nm, "pid": 0, "tid": 11, "ts": T, "dur": 2.0, "args": {"uid": "u1"}},
           {"ph": "X", "name": "HostFn_1", "pid": 0, "tid": 11, "ts": T + 5, "dur": 2.0, "args": {"uid": "u2"}}]
    rc, exc, xs, _ = run({"rank0.json": evs}, ["-D", "0"])
    ok = exc is None and len(xs) == 2
    allok &= ok
    verdict(ok, f"'{nm}': both slices exported", f"rc={rc} exc={(exc or '')[:90]} exported={len(xs)}")
sys.exit(0 if allok else 1)
