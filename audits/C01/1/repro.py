# -S (documented 'newer version of multi-AIU time alignment'): the repo's own FLEX sample traces
import sys, os; sys.path.insert(0, os.path.dirname(os.path.abspath(__file__)))
from common import *
D = os.path.join(WT, "tests/test_data/")
allok = True
for f in ("sample_flex_3062_job_4.json", "allreduce_tp4.json"):
    n_in = len(input_slices(D + f))
    rc0, exc0, xs0, _ = run([D + f], ["-D", "0"])
    rc, exc, xs, _ = run([D + f], ["-D", "0", "-S"])
    ok = exc is None and rc == 0 and len(xs) == len(xs0)
    allok &= ok
    verdict(ok, f"{f}: {n_in} input slices, {len(xs0)} exported without -S (Prep removed by default rule); -S is no removal rule -> same {len(xs0)}",
            f"rc={rc} exc={exc} exported={len(xs)}")
sys.exit(0 if allok else 1)
