# --flex_ts_fix (README section 'flex_ts_fix', recommended under troubleshooting) + a trace that carries one metadata event
import sys, os, json; sys.path.insert(0, os.path.dirname(os.path.abspath(__file__)))
from common import *
f = os.path.join(WT, "tests/test_data/sample_flex_3062_job_4.json")
evs = json.load(open(f))
rc0, exc0, xs0, _ = run({"job.json": evs}, ["-D", "0", "--flex_ts_fix"])
meta = {"ph": "M", "name": "process_name", "pid": evs[0]["pid"], "ts": 0, "args": {"name": "rank0"}}
rc, exc, xs, _ = run({"job.json": [meta] + evs}, ["-D", "0", "--flex_ts_fix"])
ok = exc is None and rc == 0 and len(xs) == len(xs0)
verdict(ok, f"same {len(xs0)} slices as without the metadata event (rc={rc0} exc={exc0})", f"rc={rc} exc={exc} exported={len(xs)}")
sys.exit(0 if ok else 1)
