# -O async (listed choice of -O; README: deprecated/incomplete): the repo's own FLEX sample trace
import sys, os; sys.path.insert(0, os.path.dirname(os.path.abspath(__file__)))
from common import *
f = os.path.join(WT, "tests/test_data/allreduce_tp4.json")
rc0, exc0, xs0, _ = run([f], ["-D", "0"])
rc, exc, xs, _ = run([f], ["-D", "0", "-O", "async"])
ok = exc is None and rc == 0 and len(xs) >= len(xs0)
verdict(ok, f"{len(input_slices(f))} input slices; -O async is not a removal rule -> at least the {len(xs0)} slices of the default run", f"rc={rc} exc={exc} exported={len(xs)}")
sys.exit(0 if ok else 1)
