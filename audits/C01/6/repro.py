# args on the E event of an adjacent B/E pair (Trace Event Format: args of B and E are merged)
import sys, os; sys.path.insert(0, os.path.dirname(os.path.abspath(__file__)))
from common import *
T = 2097962447000.0
evs = [{"ph": "B", "name": "HostFn_1", "pid": 0, "tid": 11, "ts": T + 1.0, "args": {"uid": "u1", "note": 5}},
       {"ph": "E", "name": "HostFn_1", "pid": 0, "tid": 11, "ts": T + 3.0, "args": {"result": "ok"}}]
rc, exc, xs, _ = run({"rank0.json": evs}, ["-D", "0"])
keys = sorted(xs[0]["args"]) if xs else None
ok = exc is None and len(xs) == 1 and {"uid", "note", "result"} <= set(keys)
verdict(ok, "one slice carrying the user keys uid, note (B part) and result (E part)", f"rc={rc} exc={exc} slices={len(xs)} arg keys={keys}")
sys.exit(0 if ok else 1)
