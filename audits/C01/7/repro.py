# -O drop: a slice that starts exactly where its predecessor on the lane ends (no overlap at all) is dropped,
# because the stage compares against round(ts+dur, 4).  Times are multiples of 1/1024 us (a 1024 MHz cycle).
import sys, os; sys.path.insert(0, os.path.dirname(os.path.abspath(__file__)))
from common import *
a_ts, a_dur = 1000.0, 2.0009765625
evs = [{"ph": "X", "name": "HostFn_1", "pid": 0, "tid": 11, "ts": a_ts, "dur": a_dur, "args": {"uid": "u1"}},
       {"ph": "X", "name": "HostFn_2", "pid": 0, "tid": 11, "ts": a_ts + a_dur, "dur": 3.0, "args": {"uid": "u2"}}]
rc, exc, xs, _ = run({"rank0.json": evs}, ["-D", "0", "-O", "drop"])
got = sorted(e["args"].get("uid") for e in xs)
ok = exc is None and got == ["u1", "u2"]
verdict(ok, "u1 and u2 exported: [1000, 1002.0009765625) and [1002.0009765625, 1005.0009765625) do not overlap, -O drop has nothing to remove",
        f"rc={rc} exc={exc} exported={got}")
sys.exit(0 if ok else 1)
