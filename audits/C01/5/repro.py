# multi-rank traces with collectives, DEFAULT options (clock alignment active):
#  (a) capture stopped inside the last all-reduce (slices ending after a cut time are missing on every rank)
#  (b) all groups complete, but the first all-reduce runs on ranks 0,1 only of three ranks
# inputs were produced by /verif/harness/common/collectives.py (incomplete_tail="tail" / subsets=True), which C01 never uses
import sys, os, json; sys.path.insert(0, os.path.dirname(os.path.abspath(__file__)))
from common import *
here = os.path.dirname(os.path.abspath(__file__))
allok = True
for fn in ("truncated_collective.json", "subset_collectives.json"):
    sc = json.load(open(os.path.join(here, fn)))
    n_in = sum(len(input_slices(v)) for v in sc["files"].values())
    rcM, excM, xsM, _ = run(sc["files"], ["-D", "0", "-M"], freq=sc["freq"])
    rc, exc, xs, log = run(sc["files"], ["-D", "1"], freq=sc["freq"])
    ok = exc is None and rc == 0 and len(xs) == len(xsM)
    allok &= ok
    msg = [ln for ln in log.splitlines() if "ERROR" in ln][-1:]
    verdict(ok, f"{fn}: {n_in} input slices; {len(xsM)} exported with -M (Prep rule); clock alignment is no removal rule -> {len(xsM)}",
            f"rc={rc} exc={exc} exported={len(xs)} {msg}")
sys.exit(0 if allok else 1)
