# --comm_summarize_seq (documented in README: replaces the parts of a communication by one combined slice); not in the
# property's list of removal rules.  Repo's own 4-rank all-reduce trace.
import sys, os; sys.path.insert(0, os.path.dirname(os.path.abspath(__file__)))
from common import *
f = os.path.join(WT, "tests/test_data/allreduce_tp4.json")
rc0, exc0, xs0, _ = run([f], ["-D", "0"])
rc, exc, xs, _ = run([f], ["-D", "0", "--comm_summarize_seq"])
n0, n1 = sorted(e["name"] for e in xs0), sorted(e["name"] for e in xs)
missing = [n for n in n0 if n not in n1]
ok = exc is None and not missing
verdict(ok, f"the {len(xs0)} slices of the default run (the option is not among the rules the property lists)", f"rc={rc} exc={exc} exported={len(xs)}; missing e.g. {missing[:2]}")
sys.exit(0 if ok else 1)
