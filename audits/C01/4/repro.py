# seven partially overlapping slices on one host lane (staircase), default options.  The generator stops at six.
import sys, os; sys.path.insert(0, os.path.dirname(os.path.abspath(__file__)))
from common import *
T = 2097962447000.0
allok = True
for depth in (6, 7):
    evs = [{"ph": "X", "name": f"HostFn_{k}", "pid": 0, "tid": 12, "ts": T + 0.5 * k, "dur": 10.0, "args": {"uid": f"u{k}"}} for k in range(depth)]
    rc, exc, xs, log = run({"rank0.json": evs}, ["-D", "0"])
    got = sorted(e["args"].get("uid") for e in xs)
    ok = exc is None and rc == 0 and got == sorted(f"u{k}" for k in range(depth))
    allok &= ok
    verdict(ok, f"depth {depth}: all {depth} slices exported once (no removal rule applies)", f"rc={rc} exc={exc} exported={got}")
sys.exit(0 if allok else 1)
