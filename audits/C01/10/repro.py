# narrowings that turn out to be unnecessary: file order not by start time, decimal (off-grid) times, {"traceEvents":..}
import sys, os, json, random; sys.path.insert(0, os.path.dirname(os.path.abspath(__file__)))
from common import *
f = os.path.join(WT, "tests/test_data/sample_flex_3062_job_4.json")
evs = json.load(open(f))
rc0, exc0, xs0, _ = run({"j.json": evs}, ["-D", "0"])
base = sorted((e["name"], round(e["ts"], 3)) for e in xs0)
allok = True
# X-only copy, then reordered
pairs = [evs[i:i + 2] for i in range(0, len(evs), 2)] if all(e["ph"] in "BE" for e in evs) else None
for tag, order in (("reversed pairs", lambda p: list(reversed(p))), ("shuffled pairs", lambda p: random.Random(1).sample(p, len(p)))):
    if pairs is None: break
    re_evs = [e for p in order(pairs) for e in p]
    rc, exc, xs, _ = run({"j.json": re_evs}, ["-D", "0"])
    got = sorted((e["name"], round(e["ts"], 3)) for e in xs)
    ok = exc is None and got == base
    allok &= ok
    verdict(ok, f"{tag}: same {len(base)} slices as in file order", f"rc={rc} exc={exc} exported={len(xs)}")
rc, exc, xs, _ = run({"j.json": {"traceEvents": evs}}, ["-D", "0"])
ok = exc is None and len(xs) == len(xs0); allok &= ok
verdict(ok, f"object format: {len(xs0)} slices", f"rc={rc} exc={exc} exported={len(xs)}")
sys.exit(0 if allok else 1)
