import sys, os, json, tempfile, io, contextlib
sys.path.insert(0, "/tmp/audit_C10/wt/src")
from fractions import Fraction as F
W32 = 2**32
import aiu_trace_analyzer
assert aiu_trace_analyzer.__file__.startswith("/tmp/audit_C10/wt/"), aiu_trace_analyzer.__file__

def kernel(pid, name, cyc_ts, host0, cyc0, freq, q, tid=77):
    """cyc_ts: (ts1..ts5) cycles; host consistent with device: B at TS1, E at the name's reference TS"""
    ts1, ts2, ts3, ts4, ts5 = cyc_ts
    ref = ts5
    if name.endswith("Cmpt Exec"): ref = ts4
    elif name.endswith(" DmaI"): ref = ts2
    elif name.endswith("Cmpt Prep"): ref = ts3
    t_b = host0 + (ts1 - cyc0) / freq
    t_e = host0 + (ref - cyc0) / freq
    attr = {"Power": hex(q), "TS1": hex(ts1 % W32), "TS2": hex(ts2 % W32), "TS3": hex(ts3 % W32),
            "TS4": hex(ts4 % W32), "TS5": hex(ts5 % W32)}
    return [{"attr": dict(attr), "name": name, "ph": "B", "pid": pid, "tid": tid, "ts": t_b},
            {"attr": dict(attr), "name": name, "ph": "E", "pid": pid, "tid": tid, "ts": t_e}]

def run_tool(events, extra=(), freq=1024.0, name="in"):
    """events: list of events (one rank/file) or dict {rank: events} (one file per rank)"""
    from aiu_trace_analyzer.core.acelyzer import Acelyzer
    work = tempfile.mkdtemp(prefix="c10a_")
    outp = os.path.join(work, name + "_out.json")
    if isinstance(events, dict):
        fns = []
        for k, ev in events.items():
            fn = os.path.join(work, f"{name}_rank{k}.json"); json.dump(ev, open(fn, "w")); fns.append(fn)
        inp = ",".join(fns)
    else:
        inp = os.path.join(work, name + ".json")
        json.dump(events, open(inp, "w"))
    buf = io.StringIO()
    with contextlib.redirect_stdout(buf), contextlib.redirect_stderr(buf):
        rc = Acelyzer(["-i", inp, "-o", outp, "--freq", str(freq), "-D", "0", *extra]).run()
    assert rc == 0, rc
    data = json.load(open(outp))
    evs = data["traceEvents"] if isinstance(data, dict) else data
    per = {}
    for e in evs:
        if e.get("ph") == "C" and e.get("name") == "Power":
            per.setdefault(e["pid"], []).append((e["ts"], e["args"]["Watts"]))
    return per, evs

def spec(samples):
    """samples: [(t, q)] time-ordered valid samples -> [(t_i, clampedP, rawP)]"""
    out = []
    for (ta, qa), (tb, qb) in zip(samples, samples[1:]):
        w = F(12) * ((qb - qa) % W32) / 512 / (F(tb) - F(ta))
        out.append((ta, F(0) if w > 100 else w, w))
    return out

# ---------------- reproducer body
# candidate 4: equal TS4 - oracle valid_samples keeps "the first of each time" in stream order (c10.py:214-222), corpus 04
# "first wins", generator forces a duplicate to come AFTER the sample it duplicates and gives it a random charge
# (c10.py:501-505).  The property does not say which of two equal-time samples counts; it demands the formula between
# consecutive samples at distinct times, non-negativity and energy.  Realistic source of equal TS4: two streams (tids)
# of one rank whose kernels finish on the same cycle; charge is monotone in time, so both carry plausible readings.
freq = 1024.0
def run(order, extra=()):
    evs, cyc = [], 5_000_000
    cyc0, host0 = cyc, 1.0e6
    U = [1000, 31000, 61000, 61500, 91500, 121500]       # kernel 2 (tid 77) and 3 (tid 78) end on the same TS4
    per_kernel, rd = [], []
    for i, u in enumerate(U):
        w = 40000
        if i == 3:
            cyc -= 60000                                  # same window as kernel 2, other tid
        c = (cyc, cyc + w // 8, cyc + w // 4, cyc + 3 * w // 4, cyc + w)
        if i == 3:
            c = (cyc + 800, cyc + w // 8 + 800, cyc + w // 4 + 800, cyc + 3 * w // 4, cyc + w + 300)   # same TS4 only
        per_kernel.append(kernel(0, f"kern{i} Cmpt Exec", c, host0, cyc0, freq, u, tid=78 if i == 3 else 77))
        rd.append((host0 + (c[3] - cyc0) / freq, u))
        cyc += w + 20000
    if order == "dup_first":
        per_kernel[2], per_kernel[3] = per_kernel[3], per_kernel[2]
    for k in per_kernel: evs += k
    return rd, run_tool(evs, list(extra))[0].get(0, [])
ok = True
for order in ("dup_after", "dup_first"):
    rd, got = run(order)
    alts = [spec(rd[:3] + rd[4:]), spec(rd[:2] + rd[3:])]          # either of the two equal-time samples may count
    e_true = float(F(12, 512) * (rd[-1][1] - rd[0][1]))
    ts = [t for t, _ in got] + [rd[-1][0]]
    e_obs = float(sum(F(w) * (F(ts[i + 1]) - F(ts[i])) for i, (_, w) in enumerate(got)))
    match = any(len(a) == len(got) and all(abs(float(w) - g) < 1e-9 and t == tg for (t, w, _), (tg, g) in zip(a, got)) for a in alts)
    print(order, "observed", got, "energy true %.4f obs %.4f" % (e_true, e_obs))
    ok &= match and abs(e_true - e_obs) < 1e-6 and all(a < b for a, b in zip(ts, ts[1:]))
print("PASS" if ok else "FAIL", "(formula between consecutive distinct-time samples, time order, energy)")
