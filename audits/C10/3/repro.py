import sys, os, json, tempfile, io, contextlib
sys.path.insert(0, "/tmp/audit_C10/wt/src")
from fractions import Fraction as F
W32 = 2**32
import aiu_trace_analyzer
assert aiu_trace_analyzer.__file__.startswith("/tmp/audit_C10/wt/"), aiu_trace_analyzer.__file__

def kernel(pid, name, cyc_ts, host0, cyc0, freq, q, tid=77):
    """cyc_ts: (ts1..ts5) cycles; host consistent with device: B at TS1, E at the name's reference TS"""
    ts1, ts2, ts3, ts4, ts5 = cyc_ts
    ref = ts5
    if name.endswith("Cmpt Exec"): ref = ts4
    elif name.endswith(" DmaI"): ref = ts2
    elif name.endswith("Cmpt Prep"): ref = ts3
    t_b = host0 + (ts1 - cyc0) / freq
    t_e = host0 + (ref - cyc0) / freq
    attr = {"Power": hex(q), "TS1": hex(ts1 % W32), "TS2": hex(ts2 % W32), "TS3": hex(ts3 % W32),
            "TS4": hex(ts4 % W32), "TS5": hex(ts5 % W32)}
    return [{"attr": dict(attr), "name": name, "ph": "B", "pid": pid, "tid": tid, "ts": t_b},
            {"attr": dict(attr), "name": name, "ph": "E", "pid": pid, "tid": tid, "ts": t_e}]

def run_tool(events, extra=(), freq=1024.0, name="in"):
    """events: list of events (one rank/file) or dict {rank: events} (one file per rank)"""
    from aiu_trace_analyzer.core.acelyzer import Acelyzer
    work = tempfile.mkdtemp(prefix="c10a_")
    outp = os.path.join(work, name + "_out.json")
    if isinstance(events, dict):
        fns = []
        for k, ev in events.items():
            fn = os.path.join(work, f"{name}_rank{k}.json"); json.dump(ev, open(fn, "w")); fns.append(fn)
        inp = ",".join(fns)
    else:
        inp = os.path.join(work, name + ".json")
        json.dump(events, open(inp, "w"))
    buf = io.StringIO()
    with contextlib.redirect_stdout(buf), contextlib.redirect_stderr(buf):
        rc = Acelyzer(["-i", inp, "-o", outp, "--freq", str(freq), "-D", "0", *extra]).run()
    assert rc == 0, rc
    data = json.load(open(outp))
    evs = data["traceEvents"] if isinstance(data, dict) else data
    per = {}
    for e in evs:
        if e.get("ph") == "C" and e.get("name") == "Power":
            per.setdefault(e["pid"], []).append((e["ts"], e["args"]["Watts"]))
    return per, evs

def spec(samples):
    """samples: [(t, q)] time-ordered valid samples -> [(t_i, clampedP, rawP)]"""
    out = []
    for (ta, qa), (tb, qb) in zip(samples, samples[1:]):
        w = F(12) * ((qb - qa) % W32) / 512 / (F(tb) - F(ta))
        out.append((ta, F(0) if w > 100 else w, w))
    return out

# ---------------- reproducer body
# candidate 3: oracle `sampled` uses `not dur <= 0.1` (c10.py:210) and corpus 06 note "dur <= 0.1 is dropped (0.1 itself
# too)" - mirrors build_input_events; the property text speaks of slices *below* the 0.1 us cut-off.
# dur is recomputed by the tool from the cycle stamps (tref - fl(tref - x)); for realistic host times (>= 1 us) that
# difference is a multiple of the ulp of tref and can never equal the double 0.1, so the boundary is not reachable
# through the CLI with realistic input (EXOTIC).  It is therefore driven here through the really registered stages
# extract_power_event -> sort_events -> compute_power on the real EventProcessor (same driver idea as the harness).
import copy
import aiu_trace_analyzer.core.processing as processing
import aiu_trace_analyzer.core.engine as engine
from aiu_trace_analyzer.core.stage_profile import StageProfile
from aiu_trace_analyzer.core.acelyzer import Acelyzer
class Rec:
    def __init__(self): self.stages = []
    def register_stage(self, callback, context=None, **kw): self.stages.append((callback, context, kw))
a = Acelyzer(["-i", "/nonexistent/x.json", "-o", "/nonexistent/o.json", "-D", "0"])
r = Rec(); a.register_processing_functions(r, a.args, None)
names = [s[0].__name__ for s in r.stages]
stages = r.stages[names.index("extract_power_event"):names.index("compute_power") + 1]
out = []
def tap(ev, _): out.append(copy.deepcopy(ev)); return []
prof_names = [{cb.__name__: True} for cb, _, _ in stages] + [{"tap": True}]
proc = processing.EventProcessor(profile=StageProfile({"stages": [dict(d) for d in prof_names]}, {"stages": [dict(d) for d in prof_names]}))
for cb, cx, kw in stages: proc.register_stage(callback=cb, context=cx, **kw)
proc.register_stage(callback=tap, context=None)
class Exp:
    def export(self, evs): pass
    def flush(self): pass
def sl(t4, q, dur): return {"ph": "X", "ts": t4 - 1, "pid": 0, "tid": 3, "name": "k Cmpt Exec", "dur": dur,
                            "args": {"Power": q, "ts_all": [t4 - 1, t4 - 1, t4 - 1, t4, t4]}}
slices = [sl(8.0, 512, 2.0), sl(16.0, 1024, 0.1), sl(24.0, 2048, 2.0)]       # middle slice: dur == 0.1, not below it
with contextlib.redirect_stdout(io.StringIO()), contextlib.redirect_stderr(io.StringIO()):
    engine.Engine(slices, proc, Exp()).run()
got = [(e["ts"], e["args"]["Watts"]) for e in out if e.get("ph") == "C" and e.get("name") == "Power"]
exp = [(t, float(w)) for t, w, _ in spec([(8.0, 512), (16.0, 1024), (24.0, 2048)])]
print("expected (slice with dur == 0.1 is not below the cut-off, so it is a sample):", exp)
print("observed:", got)
print("PASS" if got == exp else "FAIL", "(energy is still conserved: the dropped sample is merged into one interval)")
