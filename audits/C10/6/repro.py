import sys, os, json, tempfile, io, contextlib
sys.path.insert(0, "/tmp/audit_C10/wt/src")
from fractions import Fraction as F
W32 = 2**32
import aiu_trace_analyzer
assert aiu_trace_analyzer.__file__.startswith("/tmp/audit_C10/wt/"), aiu_trace_analyzer.__file__

def kernel(pid, name, cyc_ts, host0, cyc0, freq, q, tid=77):
    """cyc_ts: (ts1..ts5) cycles; host consistent with device: B at TS1, E at the name's reference TS"""
    ts1, ts2, ts3, ts4, ts5 = cyc_ts
    ref = ts5
    if name.endswith("Cmpt Exec"): ref = ts4
    elif name.endswith(" DmaI"): ref = ts2
    elif name.endswith("Cmpt Prep"): ref = ts3
    t_b = host0 + (ts1 - cyc0) / freq
    t_e = host0 + (ref - cyc0) / freq
    attr = {"Power": hex(q), "TS1": hex(ts1 % W32), "TS2": hex(ts2 % W32), "TS3": hex(ts3 % W32),
            "TS4": hex(ts4 % W32), "TS5": hex(ts5 % W32)}
    return [{"attr": dict(attr), "name": name, "ph": "B", "pid": pid, "tid": tid, "ts": t_b},
            {"attr": dict(attr), "name": name, "ph": "E", "pid": pid, "tid": tid, "ts": t_e}]

def run_tool(events, extra=(), freq=1024.0, name="in"):
    """events: list of events (one rank/file) or dict {rank: events} (one file per rank)"""
    from aiu_trace_analyzer.core.acelyzer import Acelyzer
    work = tempfile.mkdtemp(prefix="c10a_")
    outp = os.path.join(work, name + "_out.json")
    if isinstance(events, dict):
        fns = []
        for k, ev in events.items():
            fn = os.path.join(work, f"{name}_rank{k}.json"); json.dump(ev, open(fn, "w")); fns.append(fn)
        inp = ",".join(fns)
    else:
        inp = os.path.join(work, name + ".json")
        json.dump(events, open(inp, "w"))
    buf = io.StringIO()
    with contextlib.redirect_stdout(buf), contextlib.redirect_stderr(buf):
        rc = Acelyzer(["-i", inp, "-o", outp, "--freq", str(freq), "-D", "0", *extra]).run()
    assert rc == 0, rc
    data = json.load(open(outp))
    evs = data["traceEvents"] if isinstance(data, dict) else data
    per = {}
    for e in evs:
        if e.get("ph") == "C" and e.get("name") == "Power":
            per.setdefault(e["pid"], []).append((e["ts"], e["args"]["Watts"]))
    return per, evs

def spec(samples):
    """samples: [(t, q)] time-ordered valid samples -> [(t_i, clampedP, rawP)]"""
    out = []
    for (ta, qa), (tb, qb) in zip(samples, samples[1:]):
        w = F(12) * ((qb - qa) % W32) / 512 / (F(tb) - F(ta))
        out.append((ta, F(0) if w > 100 else w, w))
    return out

# ---------------- reproducer body
# candidate 6: "epoch-scale" chains in the generator start at 2^40..2^41 us (c10.py:359-362) so that the 2^-10 us grid stays
# exact; tests/test_data of /repo has host times ~2.1e12 us (2^41), so that is what the field shows.  Unix-epoch
# microseconds (1.7e15 ~ 2^50.6, 0.25 us per ulp; torch-profiler style) are NOT generated.  EXOTIC for FLEX input.
freq = 1024.0
evs, rd, cyc = [], [], 5_000_000
cyc0, host0, q = cyc, 1.7e15, 1000
for i in range(7):
    w = 3000 + 700 * i                                   # slices of a few us
    c = (cyc, cyc + w // 8, cyc + w // 4, cyc + 3 * w // 4, cyc + w)
    q += 9000
    evs += kernel(0, f"kern{i} " + ["Cmpt Exec", " DmaO"][i % 2], c, host0, cyc0, freq, q)
    rd.append((c[3], q)); cyc += w + 5000
got = run_tool(evs, [])[0].get(0, [])
print("observed:", got)
ok = len(got) == len(rd) - 1
worst_own, worst_true = 0.0, 0.0
for i in range(len(got) - 1):
    dq = rd[i + 1][1] - rd[i][1]
    dt_own = F(got[i + 1][0]) - F(got[i][0])                   # the tool's own wall-clock TS4 distance
    dt_true = F(rd[i + 1][0] - rd[i][0]) / F(freq)
    p_own, p_true = float(F(12) * dq / 512 / dt_own), float(F(12) * dq / 512 / dt_true)
    worst_own = max(worst_own, abs(p_own - got[i][1]) / p_own); worst_true = max(worst_true, abs(p_true - got[i][1]) / p_true)
print("max relative deviation from 12*dQ/512/dt with dt = the tool's wall-clock TS4 distance: %.2e" % worst_own)
print("max relative deviation with dt = true cycle distance / freq (double quantisation of the epoch time): %.2e" % worst_true)
ok &= worst_own < 1e-9 and all(0 <= w <= 100 for _, w in got)
print("PASS" if ok else "FAIL", "(property's t is the wall-clock TS4 as the tool holds it; energy telescopes exactly)")
