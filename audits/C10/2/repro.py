import sys, os, json, tempfile, io, contextlib
sys.path.insert(0, "/tmp/audit_C10/wt/src")
from fractions import Fraction as F
W32 = 2**32
import aiu_trace_analyzer
assert aiu_trace_analyzer.__file__.startswith("/tmp/audit_C10/wt/"), aiu_trace_analyzer.__file__

def kernel(pid, name, cyc_ts, host0, cyc0, freq, q, tid=77):
    """cyc_ts: (ts1..ts5) cycles; host consistent with device: B at TS1, E at the name's reference TS"""
    ts1, ts2, ts3, ts4, ts5 = cyc_ts
    ref = ts5
    if name.endswith("Cmpt Exec"): ref = ts4
    elif name.endswith(" DmaI"): ref = ts2
    elif name.endswith("Cmpt Prep"): ref = ts3
    t_b = host0 + (ts1 - cyc0) / freq
    t_e = host0 + (ref - cyc0) / freq
    attr = {"Power": hex(q), "TS1": hex(ts1 % W32), "TS2": hex(ts2 % W32), "TS3": hex(ts3 % W32),
            "TS4": hex(ts4 % W32), "TS5": hex(ts5 % W32)}
    return [{"attr": dict(attr), "name": name, "ph": "B", "pid": pid, "tid": tid, "ts": t_b},
            {"attr": dict(attr), "name": name, "ph": "E", "pid": pid, "tid": tid, "ts": t_e}]

def run_tool(events, extra=(), freq=1024.0, name="in"):
    """events: list of events (one rank/file) or dict {rank: events} (one file per rank)"""
    from aiu_trace_analyzer.core.acelyzer import Acelyzer
    work = tempfile.mkdtemp(prefix="c10a_")
    outp = os.path.join(work, name + "_out.json")
    if isinstance(events, dict):
        fns = []
        for k, ev in events.items():
            fn = os.path.join(work, f"{name}_rank{k}.json"); json.dump(ev, open(fn, "w")); fns.append(fn)
        inp = ",".join(fns)
    else:
        inp = os.path.join(work, name + ".json")
        json.dump(events, open(inp, "w"))
    buf = io.StringIO()
    with contextlib.redirect_stdout(buf), contextlib.redirect_stderr(buf):
        rc = Acelyzer(["-i", inp, "-o", outp, "--freq", str(freq), "-D", "0", *extra]).run()
    assert rc == 0, rc
    data = json.load(open(outp))
    evs = data["traceEvents"] if isinstance(data, dict) else data
    per = {}
    for e in evs:
        if e.get("ph") == "C" and e.get("name") == "Power":
            per.setdefault(e["pid"], []).append((e["ts"], e["args"]["Watts"]))
    return per, evs

def spec(samples):
    """samples: [(t, q)] time-ordered valid samples -> [(t_i, clampedP, rawP)]"""
    out = []
    for (ta, qa), (tb, qb) in zip(samples, samples[1:]):
        w = F(12) * ((qb - qa) % W32) / 512 / (F(tb) - F(ta))
        out.append((ta, F(0) if w > 100 else w, w))
    return out

# ---------------- reproducer body
# candidate 2: generator never lets a monotone charge land on exactly 0 after a wrap (c10.py:414, e2e :654 "or 1"),
# ASSUMPTIONS[1] "a reading of exactly 0 is 'no reading'"
freq = 1024.0
evs, rd, cyc = [], [], 5_000_000
cyc0, host0 = cyc, 1.0e6
U = [W32 - 60000, W32 - 30000, W32, W32 + 30000, W32 + 60000]     # un-wrapped monotone charge; third reading is 0
for i, u in enumerate(U):
    w = 40000
    c = (cyc, cyc + w // 8, cyc + w // 4, cyc + 3 * w // 4, cyc + w)
    evs += kernel(0, f"kern{i} Cmpt Exec", c, host0, cyc0, freq, u % W32)
    rd.append((host0 + (c[3] - cyc0) / freq, u % W32))
    cyc += w + 20000
got = run_tool(evs, [])[0].get(0, [])
exp_strict = spec(rd)                                  # the 0 reading taken as a genuine sample of the counter
exp_skip = spec([x for x in rd if x[1] != 0])          # the 0 reading taken as "no reading"
e_true = float(F(12, 512) * (U[-1] - U[0]))
ts = [t for t, _ in got] + [rd[-1][0]]
e_obs = float(sum(F(w) * (F(ts[i + 1]) - F(ts[i])) for i, (_, w) in enumerate(got)))
print("readings", [q for _, q in rd])
print("expected, 0 is a sample   :", [(t, float(w)) for t, w, _ in exp_strict])
print("expected, 0 is no reading :", [(t, float(w)) for t, w, _ in exp_skip])
print("observed                  :", got)
print("energy true %.6f observed %.6f" % (e_true, e_obs))
ok_vals = len(got) == len(exp_skip) and all(abs(float(w) - g) < 1e-9 for (_, w, _), (_, g) in zip(exp_skip, got))
ok = ok_vals and abs(e_true - e_obs) < 1e-6 and all(0 <= w <= 100 for _, w in got)
print("PASS" if ok else "FAIL", "(energy reproduced across the wrap, values non-negative; the zero sample is merged into its neighbour interval)")
