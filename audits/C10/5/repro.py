import sys, os, json, tempfile, io, contextlib
sys.path.insert(0, "/tmp/audit_C10/wt/src")
from fractions import Fraction as F
W32 = 2**32
import aiu_trace_analyzer
assert aiu_trace_analyzer.__file__.startswith("/tmp/audit_C10/wt/"), aiu_trace_analyzer.__file__

def kernel(pid, name, cyc_ts, host0, cyc0, freq, q, tid=77):
    """cyc_ts: (ts1..ts5) cycles; host consistent with device: B at TS1, E at the name's reference TS"""
    ts1, ts2, ts3, ts4, ts5 = cyc_ts
    ref = ts5
    if name.endswith("Cmpt Exec"): ref = ts4
    elif name.endswith(" DmaI"): ref = ts2
    elif name.endswith("Cmpt Prep"): ref = ts3
    t_b = host0 + (ts1 - cyc0) / freq
    t_e = host0 + (ref - cyc0) / freq
    attr = {"Power": hex(q), "TS1": hex(ts1 % W32), "TS2": hex(ts2 % W32), "TS3": hex(ts3 % W32),
            "TS4": hex(ts4 % W32), "TS5": hex(ts5 % W32)}
    return [{"attr": dict(attr), "name": name, "ph": "B", "pid": pid, "tid": tid, "ts": t_b},
            {"attr": dict(attr), "name": name, "ph": "E", "pid": pid, "tid": tid, "ts": t_e}]

def run_tool(events, extra=(), freq=1024.0, name="in"):
    """events: list of events (one rank/file) or dict {rank: events} (one file per rank)"""
    from aiu_trace_analyzer.core.acelyzer import Acelyzer
    work = tempfile.mkdtemp(prefix="c10a_")
    outp = os.path.join(work, name + "_out.json")
    if isinstance(events, dict):
        fns = []
        for k, ev in events.items():
            fn = os.path.join(work, f"{name}_rank{k}.json"); json.dump(ev, open(fn, "w")); fns.append(fn)
        inp = ",".join(fns)
    else:
        inp = os.path.join(work, name + ".json")
        json.dump(events, open(inp, "w"))
    buf = io.StringIO()
    with contextlib.redirect_stdout(buf), contextlib.redirect_stderr(buf):
        rc = Acelyzer(["-i", inp, "-o", outp, "--freq", str(freq), "-D", "0", *extra]).run()
    assert rc == 0, rc
    data = json.load(open(outp))
    evs = data["traceEvents"] if isinstance(data, dict) else data
    per = {}
    for e in evs:
        if e.get("ph") == "C" and e.get("name") == "Power":
            per.setdefault(e["pid"], []).append((e["ts"], e["args"]["Watts"]))
    return per, evs

def spec(samples):
    """samples: [(t, q)] time-ordered valid samples -> [(t_i, clampedP, rawP)]"""
    out = []
    for (ta, qa), (tb, qb) in zip(samples, samples[1:]):
        w = F(12) * ((qb - qa) % W32) / 512 / (F(tb) - F(ta))
        out.append((ta, F(0) if w > 100 else w, w))
    return out

# ---------------- reproducer body
# candidate 5: the end-to-end stream (c10.py:631-717) is one rank, all "Cmpt Exec", distinct TS4, long slices, non-zero
# readings, host time ~1e6 us, --disable_tb, cycle stamps that never cross 2^32; everything else in the quantifier reaches
# the code only through the mini-pipeline under ASSUMPTIONS[2].  Here: whole tool, default options, one file per rank.
import random
def scenario(seed, host0=1.0e6, names=("Cmpt Exec",), nranks=2, zero=False, short=False, n=6, cyc_lo=10**6, cyc_hi=2**30):
    r = random.Random(seed); freq = 1024.0
    files, truth = {}, {}
    for pid in range(nranks):
        cyc = r.randint(cyc_lo, cyc_hi); cyc0 = cyc; h0 = host0 + r.randint(0, 1000)
        u = W32 - r.randint(1, 200000) if r.random() < 0.5 else r.randint(1, W32 - 1)
        rd, lst = [], []
        for i in range(n):
            w = r.randint(2000, 400000)
            c = (cyc, cyc + w // 8, cyc + w // 4, cyc + 3 * w // 4, cyc + w)
            u += r.randint(0, int(4000 * w / freq)); q = u % W32 or 1
            nm = f"k{i} " + r.choice(names)
            valid = True
            if zero and i == 2: q = 0; valid = False
            if short and i == 3:
                c = (cyc, cyc + 10, cyc + 20, cyc + 40, cyc + 60); valid = False     # < 0.1 us at 1024 MHz
            lst += kernel(pid, nm, c, h0, cyc0, freq, q)
            if valid and "Prep" not in nm: rd.append((h0 + (c[3] - cyc0) / freq, q))
            cyc = c[4] + r.randint(5000, 200000)
        truth[pid] = rd; files[pid] = lst
    return files, truth
def check(per, truth, tol):
    msgs = []
    for pid, rd in truth.items():
        exp, got = spec(rd), per.get(pid, [])
        if len(got) != len(exp): msgs.append(f"pid {pid}: count exp {len(exp)} got {len(got)}"); continue
        for (te, we, raw), (tg, wg) in zip(exp, got):
            if abs(raw - 100) < 0.05: continue
            if abs(float(we) - wg) > tol * max(1, float(we)): msgs.append(f"pid {pid}: t={te} exp {float(we)} got {wg}")
        ts = [t for t, _ in got]
        if any(not a < b for a, b in zip(ts, ts[1:])): msgs.append(f"pid {pid}: time order")
        if any(w < 0 or w > 100 for _, w in got): msgs.append(f"pid {pid}: bounds")
    return msgs
allok = True
for label, kw, extra, tol in [
    ("2 ranks, default options", dict(nranks=2), [], 1e-6),
    ("3 ranks, DmaI/DmaO/Exec names", dict(nranks=3, names=("Cmpt Exec", " DmaI", " DmaO", "Cmpt Exec")), [], 1e-6),
    ("zero reading + sub-cut-off slice", dict(nranks=2, zero=True, short=True), [], 1e-6),
    ("Prep slices mixed in", dict(nranks=2, names=("Cmpt Exec", "Cmpt Prep", "Cmpt Exec")), [], 1e-6),
    ("host time 2^41 us (as in tests/test_data)", dict(nranks=2, host0=float(2 ** 41), names=("Cmpt Exec", " DmaO")), [], 1e-3),
    ("cycle stamps crossing 2^32", dict(nranks=1, cyc_lo=W32 - 900000, cyc_hi=W32 - 300000), [], 1e-6),
]:
    nf = 0
    for seed in range(12):
        files, truth = scenario(seed, **kw)
        try:
            per, _ = run_tool(files, extra)
            msgs = check(per, truth, tol)
        except BaseException as e:
            msgs = ["EXC " + type(e).__name__ + " " + str(e)[:120]]
        if msgs:
            nf += 1
            if nf <= 2: print("  ", label, "seed", seed, msgs[:2])
    print(("ok   " if not nf else "FAIL ") + label, "failing seeds:", nf, "/ 12")
    allok &= not nf
print("PASS" if allok else "FAIL")
