import sys, os, json, tempfile, io, contextlib
sys.path.insert(0, "/tmp/audit_C10/wt/src")
from fractions import Fraction as F
W32 = 2**32
import aiu_trace_analyzer
assert aiu_trace_analyzer.__file__.startswith("/tmp/audit_C10/wt/"), aiu_trace_analyzer.__file__

def kernel(pid, name, cyc_ts, host0, cyc0, freq, q, tid=77):
    """cyc_ts: (ts1..ts5) cycles; host consistent with device: B at TS1, E at the name's reference TS"""
    ts1, ts2, ts3, ts4, ts5 = cyc_ts
    ref = ts5
    if name.endswith("Cmpt Exec"): ref = ts4
    elif name.endswith(" DmaI"): ref = ts2
    elif name.endswith("Cmpt Prep"): ref = ts3
    t_b = host0 + (ts1 - cyc0) / freq
    t_e = host0 + (ref - cyc0) / freq
    attr = {"Power": hex(q), "TS1": hex(ts1 % W32), "TS2": hex(ts2 % W32), "TS3": hex(ts3 % W32),
            "TS4": hex(ts4 % W32), "TS5": hex(ts5 % W32)}
    return [{"attr": dict(attr), "name": name, "ph": "B", "pid": pid, "tid": tid, "ts": t_b},
            {"attr": dict(attr), "name": name, "ph": "E", "pid": pid, "tid": tid, "ts": t_e}]

def run_tool(events, extra=(), freq=1024.0, name="in"):
    """events: list of events (one rank/file) or dict {rank: events} (one file per rank)"""
    from aiu_trace_analyzer.core.acelyzer import Acelyzer
    work = tempfile.mkdtemp(prefix="c10a_")
    outp = os.path.join(work, name + "_out.json")
    if isinstance(events, dict):
        fns = []
        for k, ev in events.items():
            fn = os.path.join(work, f"{name}_rank{k}.json"); json.dump(ev, open(fn, "w")); fns.append(fn)
        inp = ",".join(fns)
    else:
        inp = os.path.join(work, name + ".json")
        json.dump(events, open(inp, "w"))
    buf = io.StringIO()
    with contextlib.redirect_stdout(buf), contextlib.redirect_stderr(buf):
        rc = Acelyzer(["-i", inp, "-o", outp, "--freq", str(freq), "-D", "0", *extra]).run()
    assert rc == 0, rc
    data = json.load(open(outp))
    evs = data["traceEvents"] if isinstance(data, dict) else data
    per = {}
    for e in evs:
        if e.get("ph") == "C" and e.get("name") == "Power":
            per.setdefault(e["pid"], []).append((e["ts"], e["args"]["Watts"]))
    return per, evs

def spec(samples):
    """samples: [(t, q)] time-ordered valid samples -> [(t_i, clampedP, rawP)]"""
    out = []
    for (ta, qa), (tb, qb) in zip(samples, samples[1:]):
        w = F(12) * ((qb - qa) % W32) / 512 / (F(tb) - F(ta))
        out.append((ta, F(0) if w > 100 else w, w))
    return out

# ---------------- reproducer body
# candidate 1: oracle returns [] whenever case["skip"] (c10.py:341) - nothing of C10 is checked under -k/--skip_events
freq = 1024.0
def build(names):
    evs, rd, cyc = [], [], 5_000_000
    cyc0, host0, q = cyc, 1.0e6, 1000
    for i, nm in enumerate(names):
        w = 40000
        c = (cyc, cyc + w // 8, cyc + w // 4, cyc + 3 * w // 4, cyc + w)
        q += 30000 + 1000 * i
        evs += kernel(0, f"kern{i} {nm}", c, host0, cyc0, freq, q)
        rd.append((host0 + (c[3] - cyc0) / freq, q))
        cyc += w + 20000
    return evs, rd
verdict = "PASS"
for label, names in [("all 'Cmpt Exec' (the usual kernel slices)", ["Cmpt Exec"] * 6),
                     ("DmaI/Exec/DmaO triples", [" DmaI", "Cmpt Exec", " DmaO"] * 2)]:
    evs, rd = build(names)
    exp = spec(rd)
    base, _ = run_tool(evs, [])
    skip, _ = run_tool(evs, ["-k"])
    g0, g1 = base.get(0, []), skip.get(0, [])
    e_true = F(12, 512) * (rd[-1][1] - rd[0][1])
    def energy(g):   # sum P_i*dt_i, last counter closed at the last sample time
        ts = [t for t, _ in g] + [rd[-1][0]]
        return float(sum(F(w) * (F(ts[i + 1]) - F(ts[i])) for i, (_, w) in enumerate(g)))
    print(label)
    print("  expected by property: %d counters %s, energy %.4f uJ" % (len(exp), [round(float(w), 3) for _, w, _ in exp], float(e_true)))
    print("  default options     : %d counters %s, energy %.4f" % (len(g0), [round(w, 3) for _, w in g0], energy(g0)))
    print("  with -k             : %d counters %s, energy %.4f" % (len(g1), [round(w, 3) for _, w in g1], energy(g1) if g1 else 0.0))
    if len(g1) != len(exp) or any(abs(float(w) - wg) > 1e-6 for (_, w, _), (_, wg) in zip(exp, g1)):
        verdict = "FAIL"
print(verdict, "(property clause: one value per consecutive pair of valid samples; energy reproduced)")
