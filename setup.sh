#!/bin/sh
# Build the Coq development of every registered property from files on disk (offline).
# Regenerates coq/gen from /repo first.  Full .vo build (no -vos/-vok).
set -e
cd "$(dirname "$0")"
export PYTHONHASHSEED=0
mkdir -p build
/venv/bin/python tools/translate_all.py "${AIU_REPO:-/repo}" >/dev/null
/venv/bin/python - <<'PY'
import importlib, os, subprocess, sys
sys.path.insert(0, "harness")
import manifest_meta as mm
from common import coqrun
coqrun.write_coqproject()
targets = []
for p in mm.READY:
    mod = importlib.import_module("props." + p.lower())
    targets.append(mod.PROP_FILE[:-2] + ".vo")
    targets += list(getattr(mod, "MODEL_TARGETS", []))
try:
    coqrun.make(targets, timeout=3000)
except coqrun.BuildError as e:
    print(e.log[-4000:])
    sys.exit(1)
# hygiene over the dependency cones of all registered properties: nothing Admitted, no axioms declared
files = set()
for p in mm.READY:
    mod = importlib.import_module("props." + p.lower())
    files |= set(coqrun.deps_of(mod.PROP_FILE))
    for t in getattr(mod, "MODEL_TARGETS", []):
        files |= set(coqrun.deps_of(t[:-1]))
h = coqrun.hygiene(sorted(files))
if h:
    print("hygiene scan failed:", h)
    sys.exit(1)
print(f"setup ok: {len(targets)} targets built, hygiene ok over {len(files)} files")
PY
