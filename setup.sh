#!/bin/sh
# Build the whole Coq development from files on disk (offline).  Regenerates coq/gen from /repo first.
set -e
cd "$(dirname "$0")"
export PYTHONHASHSEED=0
/venv/bin/python tools/translate_all.py "${AIU_REPO:-/repo}" >/dev/null
cd coq
/venv/bin/python - <<'PY'
import sys
sys.path.insert(0, "../harness")
from common import coqrun
coqrun.write_coqproject()
PY
timeout 3000 make -j16 --no-print-directory >/dev/null 2>../build/setup_make.log || { tail -40 ../build/setup_make.log; exit 1; }
echo "setup ok: $(ls theories/*.vo props/*.vo gen/*.vo 2>/dev/null | wc -l) compiled files"
# global hygiene scan: nothing Admitted / no axioms declared anywhere in the development
cd ..
/venv/bin/python - <<'PY'
import sys
sys.path.insert(0, "harness")
from common import coqrun
h = coqrun.hygiene()
if h:
    print("hygiene scan failed:", h)
    sys.exit(1)
print("hygiene ok")
PY
