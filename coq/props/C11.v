(* C11 — PT utilization equals ideal cycles over observed kernel time, capped at 100%; the category
   table is consistent.  Property theorems only; model in theories/Util.v (the definitions the tie
   executes), proofs in theories/Util_proofs.v.  All statements hold for every table, every core
   frequency > 0, every event sequence of any length, every number of ranks. *)
From Coq Require Import ZArith QArith Qabs List Bool String Permutation Sorted.
Import ListNotations.
From AiuModel Require Import Base Util Util_proofs.
Local Open Scope Q_scope.

(* (1) the value: pt_active = min(1, (ideal_cycles / core_freq) / dur) for every slice whose duration
   is above the tool's own isclose cut-off (double 1e-9 us) *)
Theorem C11_pt_active_value :
  forall (core : Q) (cyc : Z) (dur : Q),
    0 < core -> (0 <= cyc)%Z -> tol9 < dur ->
    util (ideal_dur core cyc) dur == Qmin 1 ((inject_Z cyc / core) / dur).
Proof. exact util_property. Qed.
Print Assumptions C11_pt_active_value.

(* (2) "iff": a slice gets a positive utilisation exactly when its kernel has non-zero cycles
   (unknown kernels have get_cycles = 0) and its duration is not (close to) zero *)
Theorem C11_pt_active_iff :
  forall (core : Q) (cyc : Z) (dur : Q),
    0 < core -> (0 < util (ideal_dur core cyc) dur <-> cyc <> 0%Z /\ near0 dur = false).
Proof. exact util_pos_iff. Qed.
Print Assumptions C11_pt_active_iff.

(* (3) a kernel slice with utilisation u > 0 (100 u above the cut-off) leaves compute_utilization +
   calculate_stats as: the slice with args.pt_active = u and its category, a 'PT Active' counter of
   100 u at ts, and a 'PT Active' counter of 0 at ts + dur; nothing else *)
Theorem C11_kernel_slice_active :
  forall (core : Q) (t : tbl) (e : uev),
    let u := util (ideal_dur core (get_cycles t (kernel_name e))) (u_dur e) in
    tol9 < u * 100 ->
    flat_map stats_rule (kernel_out true core t e) =
      [OKern e (Some u) (cat_of t (kernel_name e));
       OCnt (u_pid e) (u_ts e) (u * 100) None;
       OCnt (u_pid e) (u_ts e + u_dur e) 0 None].
Proof. exact stats_active. Qed.
Print Assumptions C11_kernel_slice_active.

(* (4) a kernel slice with zero or unknown ideal cycles (u = 0) gets neither pt_active nor a counter *)
Theorem C11_kernel_slice_idle :
  forall (core : Q) (t : tbl) (e : uev),
    let u := util (ideal_dur core (get_cycles t (kernel_name e))) (u_dur e) in
    u <= 0 ->
    flat_map stats_rule (kernel_out true core t e) = [OKern e None (cat_of t (kernel_name e))].
Proof. exact stats_idle. Qed.
Print Assumptions C11_kernel_slice_idle.

(* (4') without the statistics stage (-t, stats_enabled = false; repaired by dbd55f3): the same three
   events for an active slice (the start counter without helper dur), nothing but the slice for an idle one *)
Theorem C11_active_without_stats :
  forall (core : Q) (t : tbl) (e : uev),
    let u := util (ideal_dur core (get_cycles t (kernel_name e))) (u_dur e) in
    0 < u ->
    kernel_out false core t e =
      [OKern e (Some u) (cat_of t (kernel_name e));
       OCnt (u_pid e) (u_ts e) (u * 100) None;
       OCnt (u_pid e) (u_ts e + u_dur e) 0 None].
Proof. exact nostats_active. Qed.
Print Assumptions C11_active_without_stats.

Theorem C11_idle_without_stats :
  forall (core : Q) (t : tbl) (e : uev),
    let u := util (ideal_dur core (get_cycles t (kernel_name e))) (u_dur e) in
    u <= 0 ->
    kernel_out false core t e = [OKern e None (cat_of t (kernel_name e))].
Proof. exact nostats_idle. Qed.
Print Assumptions C11_idle_without_stats.

(* (5) the stream: every event contributes exactly its own output, in order, whatever was
   accumulated before; events that are not kernel slices pass unchanged *)
Theorem C11_events_pointwise :
  forall (sb : bool) (core : Q) (t : tbl) (es : list uev) (st : cats),
    snd (phase2 sb core t st es) = flat_map (out_of sb core t) es.
Proof. exact phase2_out. Qed.
Print Assumptions C11_events_pointwise.

Theorem C11_non_kernel_untouched :
  forall (sb : bool) (core : Q) (t : tbl) (e : uev), is_kernel e = false -> out_of sb core t e = [OPass e].
Proof. intros sb core t e H. unfold out_of. rewrite H. reflexivity. Qed.
Print Assumptions C11_non_kernel_untouched.

(* (6) the whole run with statistics on (default): no exception as long as every '... Cmpt Exec'
   slice has dur > 0 (calculate_stats' own assertion), and the exported events are (5) after the
   counter rule *)
Theorem C11_run_events :
  forall (c : cfg) (t : tbl) (es : list uev),
    c_stats c = true ->
    (forall e, In e es -> String.eqb (u_ph e) "X" = true -> contains CE (u_name e) = true -> 0 < u_dur e) ->
    exists st csv,
      run_tbl c t es = Ok t (flat_map stats_rule (flat_map (out_of true (c_core c) t) es)) st csv /\
      st = fst (phase2 true (c_core c) t [] es).
Proof.
  intros c t es Hs Hd. eexists. eexists. split; [|reflexivity].
  rewrite <- Hs. apply run_tbl_stats; [exact Hs|]. now apply no_assert.
Qed.
Print Assumptions C11_run_events.

(* (7) categories.  [tbl_ok]: the map carries other -> other (true of every parsed table, (11));
   [no_total]: no row of the log is filed under a category literally named "Total" (a row without
   -opCat / -NA token would be: see C11_uncategorised_row_counts_twice). *)

(* every category row of rank p holds exactly the kernel slices of p that the table files under it
   (unknown kernels under 'other'): time, ideal time and calls *)
Theorem C11_category_is_its_slices :
  forall (sb : bool) (core : Q) (t : tbl) (es : list uev) (p : Z) (c : string),
    tbl_ok t -> c <> "Total"%string ->
    let x := cget (fst (phase2 sb core t [] es)) p c in
    fst (fst x) == qsum_on (in_cat t p c) u_dur es /\
    snd (fst x) == qsum_on (in_cat t p c) (fun e => ideal_dur core (get_cycles t (kernel_name e))) es /\
    snd x = Z.of_nat (List.length (filter (in_cat t p c) es)).
Proof. exact category_components. Qed.
Print Assumptions C11_category_is_its_slices.

(* every kernel slice is in exactly one category row *)
Theorem C11_slice_in_one_category :
  forall (t : tbl) (p : Z) (e : uev),
    tbl_ok t -> no_total t -> on_pid p e = true ->
    exists c, In c (cat_keys t) /\ in_cat t p c e = true /\ forall c', in_cat t p c' e = true -> c' = c.
Proof. exact in_cat_unique. Qed.
Print Assumptions C11_slice_in_one_category.

(* invariant after ANY event sequence: Total = sum of the category rows, in all three components *)
Theorem C11_total_is_sum :
  forall (sb : bool) (core : Q) (t : tbl) (es : list uev) (p : Z),
    tbl_ok t -> no_total t ->
    let st := fst (phase2 sb core t [] es) in
    teq (cget st p "Total") (tsum (map (cget st p) (cat_keys t))).
Proof. exact total_is_sum. Qed.
Print Assumptions C11_total_is_sum.

(* sum of Calls = number of kernel slices (per rank) *)
Theorem C11_calls_count :
  forall (sb : bool) (core : Q) (t : tbl) (es : list uev) (p : Z),
    tbl_ok t -> no_total t ->
    snd (cget (fst (phase2 sb core t [] es)) p "Total") = Z.of_nat (List.length (filter (on_pid p) es)).
Proof. exact total_calls. Qed.
Print Assumptions C11_calls_count.

(* (8) the csv: its rows are a permutation of the rows of the category tables, stably sorted by
   (Pid, Kernel_Time); a row carries Kernel_Time, Calls, Ideal_Time of its category and the ratios
   Frac_Time = time/total time, Frac_Ideal = ideal/total ideal, PT_Util = ideal/time (0 when the
   denominator is (close to) zero), printed after round(., 4) *)
Theorem C11_csv_rows :
  forall (core : Q) (ph : string) (st : cats),
    Permutation (csv_rows core ph st) (rows_unsorted core ph st) /\
    StronglySorted (fun a b => crow_leb a b = true) (csv_rows core ph st) /\
    (forall r, In r (rows_unsorted core ph st) <->
       exists p d kx, In (p, d) st /\ In kx d /\ r = row_of core ph p (total_of d) kx).
Proof.
  intros. split; [apply csv_rows_perm|]. split; [apply csv_rows_sorted|]. intros r. apply rows_unsorted_in.
Qed.
Print Assumptions C11_csv_rows.

Theorem C11_csv_ratios :
  forall (core : Q) (ph : string) (p : Z) (total itot : Q) (n : Z) (k : string) (dur ideal : Q) (calls : Z),
    let r := row_of core ph p (total, itot, n) (k, (dur, ideal, calls)) in
    cr_dur r = dur /\ cr_calls r = calls /\ cr_ideal r = ideal /\
    cr_frac r = (if near0 total then 0 else dur / total) /\
    cr_ifrac r = (if near0 itot then 0 else ideal / itot) /\
    cr_util r = (if near0 dur then 0 else ideal / dur).
Proof. intros. repeat split. Qed.
Print Assumptions C11_csv_ratios.

Theorem C11_cell_rounding : forall x : Q, Qabs (round4 x - x) <= 1 # 20000.
Proof. exact round4_err. Qed.
Print Assumptions C11_cell_rounding.

(* Ideal_Cyc of a category row = sum of the table's cycles over its slices *)
Theorem C11_ideal_cyc :
  forall (sb : bool) (core : Q) (t : tbl) (es : list uev) (p : Z) (c : string),
    0 < core -> tbl_ok t -> c <> "Total"%string ->
    Qtrunc (snd (fst (cget (fst (phase2 sb core t [] es)) p c)) / Qabs (1 / core)) =
    zsum_on (in_cat t p c) (fun e => get_cycles t (kernel_name e)) es.
Proof. exact category_ideal_cyc. Qed.
Print Assumptions C11_ideal_cyc.

(* (11) every table the parser finishes satisfies the hypothesis [tbl_ok] of (7) *)
Theorem C11_parsed_tables_ok : forall its : list item, Forall tbl_ok (parse_log its).
Proof. exact parse_log_ok. Qed.
Print Assumptions C11_parsed_tables_ok.

(* (12) what "listed with non-zero ideal cycles" means.  For a log of the shape
   <lines without a table start> START <rows, junk, clock/phase lines> END <lines without a table start>
   the parser finishes exactly one table: the fold of the accepted rows (not Precompute/-LxPreload, not
   Total) between START and END; its phase is the last PREFILL/DECODING line before START *)
Theorem C11_single_table :
  forall pre body post : list item,
    forallb not_start_auto pre = true -> forallb body_item body = true -> forallb not_start post = true ->
    let f := fold_left flag_step pre (true, false) in
    parse_log (pre ++ IStart :: body ++ IEnd :: post) =
      [fold_left body_step body (empty_tbl (phase_of (fst f) (snd f)))].
Proof. exact parse_single_table. Qed.
Print Assumptions C11_single_table.

(* in that table a kernel has the cycles of its FIRST row with non-zero cycles (0 = not listed / only
   zero rows) and the category of its FIRST row (no row: accounted under 'other') *)
Theorem C11_table_lookup :
  forall (body : list item) (ph k : string),
    let t := fold_left body_step body (empty_tbl ph) in
    get_cycles t k = first_nz k (body_rows body) /\
    (k <> "other"%string ->
     alookup k (t_cats t) = first_cat k (body_rows body)).
Proof.
  intros body ph k t. split.
  - unfold t. rewrite get_cycles_body. reflexivity.
  - intros Hk. unfold t. rewrite cat_body. cbn.
    apply String.eqb_neq in Hk. rewrite Hk. reflexivity.
Qed.
Print Assumptions C11_table_lookup.

(* ------------------------------------------------------------------ non-vacuity and quirks *)
Local Open Scope string_scope.
Definition ex_log : list item :=
  [IJunk; IRow "outside" ["-opCat"; "X"] 5; IStart; IJunk;
   IRow "sub" ["-opCat"; "Broadcast"] 0;
   IRow "addmm_MatMul-BMM_1" ["-opCat"; "Bmm_fp16"] 27648;
   IRow "bmm" ["-NA"; ""] 1024;
   IRow "Total" [] 28672; IRow "a-Precompute" ["-opCat"; "Q"] 7; IEnd;
   IRow "late" ["-opCat"; "X"] 5].
Definition ex_ev (nm : string) (pid : Z) (ts dur : Q) : uev := mkUev "X" nm pid ts dur true None None 7.
Definition ex_events : list uev :=
  [ex_ev "sub Cmpt Exec" 0 10 4; ex_ev "addmm_MatMul-BMM_1 Cmpt Exec" 0 20 54;
   ex_ev "bmm Cmpt Exec" 1 30 (1 # 2); ex_ev "zz Cmpt Exec" 1 40 2;
   mkUev "X" "host" 0 1 2 false None None 7].

(* the example log has one table, which meets tbl_ok and no_total; listed non-zero kernel at 50 %,
   clamped kernel at 100 %, zero and unknown kernels idle; Total = sum of rows; 2 slices per rank *)
Example C11_nonvacuous :
  exists t, parse_log ex_log = [t] /\ tbl_ok t /\ no_total t /\
    get_cycles t "addmm_MatMul-BMM_1 Cmpt Exec" = 27648%Z /\ get_cycles t "sub Cmpt Exec" = 0%Z /\
    util (ideal_dur 1024 27648) 54 == 1 # 2 /\
    util (ideal_dur 1024 1024) (1 # 2) == 1 /\
    (forall e, In e ex_events -> String.eqb (u_ph e) "X" = true -> contains CE (u_name e) = true -> 0 < u_dur e) /\
    snd (cget (fst (phase2 true 1024 t [] ex_events)) 0 "Total") = 2%Z /\
    snd (cget (fst (phase2 true 1024 t [] ex_events)) 1 "other") = 1%Z.
Proof.
  eexists. split; [vm_compute; reflexivity|].
  split; [reflexivity|]. split.
  - unfold no_total. cbn. intros [F|[F|[F|[F|[]]]]]; discriminate.
  - repeat split; try reflexivity.
    intros e H. cbn in H.
    repeat (destruct H as [<-|H]; [intros; reflexivity|]). destruct H.
Qed.

Example C11_active_slice_concrete :
  exists t, parse_log ex_log = [t] /\
    flat_map stats_rule (kernel_out true 1024 t (ex_ev "addmm_MatMul-BMM_1 Cmpt Exec" 0 20 54)) =
      [OKern (ex_ev "addmm_MatMul-BMM_1 Cmpt Exec" 0 20 54)
             (Some (util (ideal_dur 1024 27648) 54)) "Bmm_fp16";
       OCnt 0 20 (util (ideal_dur 1024 27648) 54 * 100) None;
       OCnt 0 (20 + 54) 0 None].
Proof. eexists. split; [vm_compute; reflexivity|]. apply stats_active. vm_compute. reflexivity. Qed.

(* quirk (outside the quantifier: the compiler always writes an -opCat / -NA token): a data row with NO
   category token is filed under the category "Total", so its slices are added to the Total row twice
   and appear in no category row.  [no_total] excludes exactly this. *)
Example C11_uncategorised_row_counts_twice :
  exists its t, parse_log its = [t] /\ ~ no_total t /\
    snd (cget (fst (phase2 true 1024 t [] [ex_ev "plain Cmpt Exec" 0 10 4])) 0 "Total") = 2%Z.
Proof.
  exists [IStart; IRow "plain" [] 100; IEnd]. eexists. split; [vm_compute; reflexivity|]. split.
  - intros H. apply H. cbn. auto.
  - reflexivity.
Qed.

Example C11_single_table_concrete :
  parse_log ([IJunk; IPhase true; IRow "outside" ["-opCat"; "X"] 5] ++ IStart ::
             [IRow "a" ["-opCat"; "P"] 0; IRow "a" ["-opCat"; "Q"] 7; IRow "a" ["-opCat"; "R"] 9; IJunk] ++
             IEnd :: [IRow "late" ["-opCat"; "X"] 5; IAuto]) =
    [mkTbl [("a Cmpt Exec", 7%Z)] [("other", "other"); ("a Cmpt Exec", "P")] 16 "TTFT"] /\
  first_nz "a Cmpt Exec" [("a", ["-opCat"; "P"], 0%Z); ("a", ["-opCat"; "Q"], 7%Z); ("a", ["-opCat"; "R"], 9%Z)] = 7%Z.
Proof. split; vm_compute; reflexivity. Qed.
