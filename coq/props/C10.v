(* C10 — the 'Power' counter is the energy-conserving derivative of the charge counter (default power_ts4 path).
   Property theorems only; definitions in theories/Power.v, proofs in theories/Power_proofs.v.

   Objects.  [power_run false (map ESlice ss)] is Engine.run (Pipeline.run, the C03 model of EventProcessor) over the
   three stages registered by Acelyzer.register_processing_functions for power_ts4 — extract_power_event,
   sort_events(event_types ["C"], sortkey TS_cycles), compute_power(skip_events = False) — on an arbitrary list [ss] of
   incoming events (device slices of any number of ranks in any order, events of other phases, slices without
   Power/ts_all, Prep slices, slices below the 0.1 us cut-off).  [valid_samples p ss] is what the property calls the
   consecutive valid power samples of rank p: (TS4 wall-clock, reading) of the sampled slices of pid p, time-ordered
   (stable), zero readings dropped, one sample per time.  [watts_spec a b] = clamp(12 * ((Qb-Qa) mod 2^32) / 512 /
   (tb-ta)) with clamp(w) = 0 if w > 100 else w.  All statements are for every list [ss], no size bound. *)
From Coq Require Import ZArith QArith List Bool String Sorted.
Import ListNotations.
From AiuModel Require Import Base Pipeline Power Power_proofs.
Local Open Scope Z_scope.

(* (1) What leaves compute_power: every incoming event unchanged and in order (they pass at once), then — when the
   counter sorter is drained — rank by rank in order of first sample, exactly one Power event per consecutive pair of
   valid samples, stamped with the earlier sample's time and carrying the property's value.  Nothing else: the
   initial zero counter at TS3 and the helper counters never leak, OverflowError is never raised. *)
Theorem C10_pipeline :
  forall ss : list slice, charges_32bit ss ->
    power_run false (map ESlice ss) =
    map ESlice ss ++ flat_map (fun p => power_spec p ss) (pids_order ss).
Proof. exact power_run_spec. Qed.
Print Assumptions C10_pipeline.

(* (2) the i-th Power event of rank p is (t_i, clamp(12 * ((Q_{i+1} - Q_i) mod 2^32) / 512 / (t_{i+1} - t_i))) and there
   are exactly (number of valid samples - 1) of them *)
Theorem C10_values :
  forall (p : Z) (ss : list slice),
    List.length (power_spec p ss) = pred (List.length (valid_samples p ss)) /\
    forall i a b, nth_error (valid_samples p ss) i = Some a -> nth_error (valid_samples p ss) (S i) = Some b ->
      nth_error (power_spec p ss) i = Some (EPow p (fst a) (watts_spec a b)).
Proof.
  intros p ss. split; [apply pairs_length|]. intros i a b. apply (pairs_nth (fun a b => EPow p (fst a) (watts_spec a b))).
Qed.
Print Assumptions C10_values.

(* (3) values are never negative and never above 100 W; no helper counter and no error marker in the output *)
Theorem C10_bounds :
  forall ss : list slice, charges_32bit ss ->
    Forall ok_ev (power_run false (map ESlice ss)) /\
    out_val (power_run false (map ESlice ss)) = VL (map ev_val (power_run false (map ESlice ss))).
Proof.
  intros ss H. pose proof (power_run_ok ss H) as Hok. split; [exact Hok|].
  unfold out_val. rewrite (ok_no_err _ Hok). reflexivity.
Qed.
Print Assumptions C10_bounds.

(* (4) the samples of a rank are emitted in strictly increasing time order (valid samples have pairwise distinct,
   increasing times) *)
Theorem C10_time_order :
  forall (p : Z) (ss : list slice),
    strict_times (valid_samples p ss) /\ StronglySorted Qlt (map pow_ts (power_spec p ss)).
Proof.
  intros p ss. split; [apply valid_samples_strict|].
  apply (pairs_times_sorted p). apply valid_samples_strict.
Qed.
Print Assumptions C10_time_order.

(* (5) energy: when no value of the rank was zeroed by the 100 W rule, sum_i P_i * (t_{i+1} - t_i) equals
   12 V * (1/512) * sum_i ((Q_{i+1} - Q_i) mod 2^32) *)
Theorem C10_energy :
  forall (p : Z) (ss : list slice), no_clamp (valid_samples p ss) ->
    (energy (valid_samples p ss) == VOLT * LSB * inject_Z (dcharge_sum (valid_samples p ss)))%Q.
Proof. intros p ss. apply energy_eq. apply valid_samples_strict. Qed.
Print Assumptions C10_energy.

(* (6) ... which is the charge really delivered, across any number of wraps of the 32-bit counter: for every
   un-wrapped monotone charge sequence [us] whose residues are the readings and which advances by less than 2^32
   between consecutive valid samples, the sum is 12/512 * (U_last - U_first) *)
Theorem C10_energy_wrap :
  forall (p : Z) (ss : list slice) (us : list Z),
    map snd (valid_samples p ss) = map (fun u => u mod W32) us -> mono_steps us ->
    no_clamp (valid_samples p ss) ->
    (energy (valid_samples p ss) == VOLT * LSB * inject_Z (last us 0%Z - hd 0%Z us)%Z)%Q.
Proof.
  intros p ss us Hm Hs Hn. rewrite <- (dcharge_sum_unwrapped _ us Hm Hs). apply energy_eq; [apply valid_samples_strict|exact Hn].
Qed.
Print Assumptions C10_energy_wrap.

(* (7) regression statement for the defect fixed by b68e6f2 (DESIGN 6/F6): two consecutive valid samples with the
   same reading give 0 W (not a full 2^32 wrap), whatever their distance in time *)
Theorem C10_equal_readings_zero :
  forall a b : Q * Z, snd a = snd b -> (watts_spec a b == 0)%Q.
Proof. exact equal_readings_zero. Qed.
Print Assumptions C10_equal_readings_zero.

(* ---------------------------------------------------------------- non-vacuity *)
Definition ex_slice (id pid : Z) (name : string) (dur t3 t4 : Q) (q : Z) : slice :=
  {| s_id := id; s_pid := pid; s_ph := 0; s_name := name; s_has := true; s_dur := dur; s_ts3 := t3; s_ts4 := t4;
     s_charge := q |}.
(* two ranks interleaved, not in time order; a wrap (4294967040 -> 256), equal readings two seconds apart, an equal
   TS4, a zero reading, a Prep slice, a slice at the cut-off, a value above 100 W *)
Definition ex_ss : list slice :=
  [ ex_slice 1 3 "k Cmpt Exec" 2 71 72 256;
    ex_slice 2 3 "k Cmpt Exec" 2 63 64 4294967040;
    ex_slice 3 0 "k DmaI" 2 999 1000 1000;
    ex_slice 4 3 "k Cmpt Prep" 2 65 66 77;
    ex_slice 5 0 "k DmaO" 2 2098151 2098152 1000;
    ex_slice 6 3 "conv" 2 79 80 0;
    ex_slice 7 3 "conv" 2 71 72 999;
    ex_slice 8 0 "conv" (3602879701896397 # 36028797018963968) 2098153 2098154 5000;
    ex_slice 9 3 "conv" 2 87 88 1280;
    ex_slice 10 0 "conv" 2 2098159 2098160 1512;
    ex_slice 11 0 "conv" 2 2098160 (4297031681 # 2048) 900000 ].

Example C10_nonvacuous :
  charges_32bit ex_ss /\
  pids_order ex_ss = [3; 0] /\
  valid_samples 3 ex_ss = [(64 # 1, 4294967040); (72 # 1, 256); (88 # 1, 1280)] /\
  valid_samples 0 ex_ss = [(1000 # 1, 1000); (2098152 # 1, 1000); (2098160 # 1, 1512); (4297031681 # 2048, 900000)] /\
  val_eqb (out_val (power_run false (map ESlice ex_ss)))
    (VL (map (fun s => VL [VZ 0; VZ (s_id s)]) ex_ss ++
        [ VL [VZ 2; VZ 3; VQ (64 # 1); VQ (3 # 2); VS "Power"; VS "Power4"];
          VL [VZ 2; VZ 3; VQ (72 # 1); VQ (3 # 2); VS "Power"; VS "Power4"];
          VL [VZ 2; VZ 0; VQ (1000 # 1); VQ 0; VS "Power"; VS "Power4"];
          VL [VZ 2; VZ 0; VQ (2098152 # 1); VQ (3 # 2); VS "Power"; VS "Power4"];
          VL [VZ 2; VZ 0; VQ (2098160 # 1); VQ 0; VS "Power"; VS "Power4"] ])) = true.
Proof.
  split; [repeat constructor; vm_compute; intuition discriminate|].
  split; [vm_compute; reflexivity|]. split; [vm_compute; reflexivity|]. split; vm_compute; reflexivity.
Qed.

(* premises of (5)/(6) are met by rank 3 of the example: no clamp, un-wrapped charge 4294967040, 4294967552, 4294968576 *)
Example C10_energy_nonvacuous :
  no_clamp (valid_samples 3 ex_ss) /\
  map snd (valid_samples 3 ex_ss) = map (fun u => u mod W32) [4294967040; 4294967552; 4294968576] /\
  mono_steps [4294967040; 4294967552; 4294968576] /\
  (energy (valid_samples 3 ex_ss) == VOLT * LSB * inject_Z (4294968576 - 4294967040)%Z)%Q /\
  ~ no_clamp (valid_samples 0 ex_ss).
Proof.
  split; [repeat constructor; vm_compute; discriminate|].
  split; [vm_compute; reflexivity|].
  split; [repeat constructor; vm_compute; intuition discriminate|].
  split; [vm_compute; reflexivity|].
  intro H. inversion H as [|? ? _ H1]; subst. inversion H1 as [|? ? _ H2]; subst. inversion H2 as [|? ? H3 _]; subst.
  vm_compute in H3. apply H3. reflexivity.
Qed.

(* the model raises the error marker exactly where the code raises OverflowError: time going backwards at
   compute_power (impossible behind the sorter, by C10_bounds) *)
Example C10_error_branch_reachable_without_sorter :
  model_val ((false, 1), [ECnt {| c_pid := 5; c_cat := "k"; c_ts := 8; c_key := 8; c_q := 105 |};
                          ECnt {| c_pid := 5; c_cat := "k"; c_ts := 0; c_key := 0; c_q := 210 |}]) = VE "OverflowError".
Proof. vm_compute. reflexivity. Qed.
