(* C10 — placeholder while the proofs are being written *)
From Coq Require Import ZArith QArith List Bool String.
Import ListNotations.
From AiuModel Require Import Base Pipeline Power Power_proofs.
Theorem C10_cutoff : (1 # 10 < cutoff)%Q /\ (cutoff < (1 # 10) + (1 # 100000000000000000))%Q.
Proof. exact cutoff_is_double_tenth. Qed.
Print Assumptions C10_cutoff.
