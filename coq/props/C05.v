(* C05 — 32-bit cycle-counter wrap correction is consistent across all events of a rank.
   Property theorems only; model in theories/Overflow.v, proofs in theories/Overflow_proofs.v.

   Reading guide.  A trace is a list of events annotated with ground truth ([atrace]):
   [(e, None)]    an event that carries no counters (host slice, non-X event): passes untouched;
   [(e, Some cs)] a device slice whose TRUE unwrapped counters are cs = [c1;..;c5].
   [dev_ok f H e cs] is the property's hypothesis on such a slice: c1 <= .. <= c5 ([chain]),
   c5 - c1 < 2^32, args.TSk = ck mod 2^32 (as strings), and the host timestamp agrees with the
   counter of the slice's phase start (DmaI->TS1, Prep->TS2, Exec->TS3, DmaO->TS4, other->TS1) at
   frequency f:  ts == H(queue) + c_ref / f,  for an arbitrary rational host epoch H per queue
   (queue = rank: hash(pid)).  Nothing is assumed about where wraps fall, about the order of the
   events, about how many epochs the trace spans, or about names beyond their phase suffix.
   [fguard] is exactly the guard of the float division in frequency_stats (an Exec slice of
   duration 0 raises ZeroDivisionError in the real code; the model returns Err there and the theorem
   excludes it; the second division, by the gap to the previous Exec slice, is guarded since /repo fix C02d).
   [run f ic evs] is the model of normalize_phase1 ; pipeline_barrier ; normalize_phase2. *)
From Coq Require Import ZArith QArith List Bool String Lia.
Import ListNotations.
From AiuModel Require Import Base Pipeline Overflow Overflow_proofs.
Local Open Scope Z_scope.

(* (1) THE property: the run raises nothing and there is ONE multiple of 2^32 per queue, C(queue),
   such that every exported slice carries  TSk' = ck + C * 2^32  for all five k, its OVC equals
   (c1 div 2^32) + C and is non-negative; events without counters are untouched.
   ([out_ok C (e, Some cs) o] unfolds to exactly that; see Overflow_proofs.v.) *)
Theorem C05_consistent :
  forall (f : Q) (ignore_crit : bool) (H : Z -> Q) (tr : atrace),
    (0 < f)%Q -> Forall (ok f H) tr -> fguard [] tr ->
    exists (C : Z -> Z) (os : list out),
      run f ignore_crit (map fst tr) = Ok os /\ Forall2 (out_ok C) tr os.
Proof. exact consistent. Qed.
Print Assumptions C05_consistent.

(* what [out_ok] says, spelled out *)
Theorem C05_out_ok_unfold :
  forall C e cs o, out_ok C (e, Some cs) o ->
    out_cs o = map (fun c => c + C (qid e) * W) cs /\
    out_ovc o = hd 0 cs / W + C (qid e) /\ 0 <= out_ovc o.
Proof. exact out_ok_cs. Qed.
Print Assumptions C05_out_ok_unfold.

(* (2) consequences for one exported slice: non-decreasing TS1..TS5 (what event_sanity_checks
   asserts afterwards), congruent to the input values modulo 2^32 *)
Theorem C05_slice_sorted :
  forall C e cs o, chain (hd 0 cs) cs -> out_ok C (e, Some cs) o -> chain (hd 0 (out_cs o)) (out_cs o).
Proof. exact slice_sorted. Qed.
Print Assumptions C05_slice_sorted.

Theorem C05_slice_congruent :
  forall C e cs o, out_ok C (e, Some cs) o ->
    map (fun c => c mod W) (out_cs o) = map (fun c => c mod W) cs.
Proof. exact slice_congruent. Qed.
Print Assumptions C05_slice_congruent.

(* (3) consequence for two slices of one queue: comparing any corrected counter of one with any
   corrected counter of the other gives the same answer as comparing the true device times *)
Theorem C05_order :
  forall C e1 cs1 o1 e2 cs2 o2 i j,
    qid e1 = qid e2 -> out_ok C (e1, Some cs1) o1 -> out_ok C (e2, Some cs2) o2 ->
    (i < List.length cs1)%nat -> (j < List.length cs2)%nat ->
    (nth i (out_cs o1) 0 ?= nth j (out_cs o2) 0) = (nth i cs1 0 ?= nth j cs2 0).
Proof. exact slices_order. Qed.
Print Assumptions C05_order.

(* (4) the barrier: on Pipeline.v's operational semantics of EventProcessor (C03), the three
   registrations normalize_phase1 (context NORM), pipeline_barrier (shared hold), normalize_phase2
   (same context NORM) compute exactly [run] whenever no callback raises — every event is
   corrected against the FINAL reference epoch. *)
Theorem C05_two_phase :
  forall f ignore_crit evs os,
    run f ignore_crit evs = Ok os -> pipe_run f ignore_crit evs = map IOut os.
Proof. exact pipe_two_phase. Qed.
Print Assumptions C05_two_phase.

(* (5) both chained: the property for the pipeline run *)
Theorem C05_pipeline_consistent :
  forall (f : Q) (ignore_crit : bool) (H : Z -> Q) (tr : atrace),
    (0 < f)%Q -> Forall (ok f H) tr -> fguard [] tr ->
    exists (C : Z -> Z) (os : list out),
      pipe_run f ignore_crit (map fst tr) = map IOut os /\ Forall2 (out_ok C) tr os.
Proof. exact pipe_consistent. Qed.
Print Assumptions C05_pipeline_consistent.

(* ---- non-vacuity: a concrete two-rank trace meeting every hypothesis.  f = 1024 MHz, host epochs
   1000 and -7/2 us.  Rank 0 starts in epoch 3; its Exec slice has TS1,TS2 before and TS3.. after a
   wrap (the position that exposed defect F1 before the fix), its DmaO slice lies after the wrap,
   a later slice is two epochs further and wraps between TS4 and TS5; rank 1 (pid -1, queue -2)
   wraps between TS1 and TS2; a host slice without counters is interleaved. ---- *)
Definition ex_f : Q := 1024 # 1.
Definition ex_H (q : Z) : Q := if q =? 0 then 1000 # 1 else (-7) # 2.
Definition ex_dev (pid : Z) (name : string) (cs : list Z) : ev * option (list Z) :=
  (mkev true pid name
        (ex_H (qid_of pid) + inject_Z (nth (ref_idx name) cs 0%Z) / ex_f)%Q (1 # 1)
        (map (fun c => TStr (c mod W)) cs), Some cs).
Definition ex_tr : atrace :=
  [ ex_dev 0 "k Cmpt Exec" [4*W - 300; 4*W - 200; 4*W + 10; 4*W + 20; 4*W + 30];
    (mkev true 0 "host launch" (5 # 1) (1 # 1) [], None);
    ex_dev 0 "k DmaO"      [4*W + 40; 4*W + 50; 4*W + 60; 4*W + 70; 4*W + 80];
    ex_dev (-1) "j DmaI"     [7*W - 1; 7*W; 7*W + 1; 7*W + 2; 7*W + 3];
    ex_dev 0 "m Cmpt Prep" [6*W + 5; 6*W + 6; 6*W + 7; 7*W - 1; 7*W];
    ex_dev 0 "first"       [3*W + 1; 3*W + 2; 3*W + 3; 3*W + 4; 3*W + 5] ].

Lemma ex_dev_ok pid name cs :
  List.length cs = 5%nat -> chain (hd 0 cs) cs -> (forall c, In c cs -> c - hd 0 cs < W) ->
  ok ex_f ex_H (ex_dev pid name cs).
Proof.
  intros Hl Hc Hs. unfold ok, ex_dev. cbn [snd fst]. unfold dev_ok, qid. cbn [e_x e_tsx e_ts e_name e_pid].
  repeat split; try assumption; reflexivity.
Qed.

Example C05_nonvacuous :
  (0 < ex_f)%Q /\ Forall (ok ex_f ex_H) ex_tr /\ fguard [] ex_tr /\
  run ex_f false (map fst ex_tr) =
    Ok [ OFix [W - 300; W - 200; W + 10; W + 20; W + 30] 0 (Some 3);
         OPass;
         OFix [W + 40; W + 50; W + 60; W + 70; W + 80] 1 None;
         OFix [W - 1; W; W + 1; W + 2; W + 3] 0 (Some 2);
         OFix [3*W + 5; 3*W + 6; 3*W + 7; 4*W - 1; 4*W] 3 (Some 5);
         OFix [1; 2; 3; 4; 5] 0 None ].
Proof.
  split; [reflexivity|]. split.
  - unfold ex_tr.
    repeat (apply Forall_cons;
            [first [ right; reflexivity
                   | apply ex_dev_ok;
                     [reflexivity
                     |cbn; unfold W; repeat split; lia
                     |intros c Hc; cbn in Hc |- *; unfold W in *; intuition lia] ]|]).
    apply Forall_nil.
  - split; [|vm_compute; reflexivity].
    cbn [fguard ex_tr ex_dev].
    eexists; split; [vm_compute; reflexivity|].
    eexists; split; [vm_compute; reflexivity|].
    eexists; split; [vm_compute; reflexivity|].
    eexists; split; [vm_compute; reflexivity|].
    eexists; split; [vm_compute; reflexivity|]. exact I.
Qed.

(* the guards are real: an Exec slice of duration 0 makes the run fail like the code does, and two
   wraps inside one slice (c5 - c1 >= 2^32, outside the hypotheses) trip the assertion *)
Example C05_err_paths :
  run ex_f false [mkev true 0 "k Cmpt Exec" (1 # 1) (0 # 1) [TStr 1; TStr 2; TStr 3; TStr 4; TStr 5]]
    = Err "ZeroDivisionError" /\
  run ex_f false [mkev true 0 "k DmaI" (1 # 1) (1 # 1) [TStr 10; TStr 5; TStr 3; TStr 4; TStr 5]]
    = Err "AssertionError" /\
  run ex_f false [mkev true 0 "k Cmpt Exec" (1 # 1) (1 # 1) [TStr 10; TMissing; TMissing; TStr 4; TStr 5]]
    = Err "KeyError".
Proof. repeat split; vm_compute; reflexivity. Qed.
