(* C13 — ConcurrentPreps counter equals the number of in-flight Prep slices.
   Property theorems only; the model is theories/PrepQueue.v (the definitions the correspondence
   executes: [run_stage si keep] = queueing_counter on every event of the stream with a fresh
   QueueingCounterContext(sorted_input = si), then its drain()), proofs are in theories/PrepQueue_proofs.v.
   si = true is the default pipeline (the clock-alignment stage in front sorts by ts); si = false ("hold"
   mode) is what acelyzer registers under -M / --no_mp_sync, where nothing sorts in front of the stage.

   Vocabulary: [preps_of p evs] = the intervals [ts, ts+dur) of the slices of pid p that the stage
   recognises as Prep (ph "X", dialect entry acc_compute_prep), in arrival order;
   [samples_of p outs] = the (time, Concurrency) pairs of the ConcurrentPreps counters emitted for pid p,
   in emission order (callbacks first, then drain); [count_at I t] = #{(s, e) in I | s <= t < e};
   [den 0 W t] = value at time t of the step function the samples W denote (0 before the first one);
   [passed outs] = the events handed on unchanged.  All statements are for event streams of any length
   over any number of pids, times in Q. *)
From Coq Require Import ZArith QArith List Bool String Sorted.
Import ListNotations.
From AiuModel Require Import Base PrepQueue PrepQueue_proofs.
Local Open Scope Z_scope.

(* (1) The counter is right, default mode.  If the stage does not raise and the Prep slices of pid p
   arrive in non-decreasing order of start, then for pid p:
     - sample times are strictly increasing,
     - every sample's value is the number of Prep slices with start <= t < end at its time,
     - the step function denoted by the samples equals that number at EVERY time t,
     - every start and every end of a non-empty Prep slice is a sample time,
     - over any stretch (t1, t2] without a sample the number does not change (so there is a sample at
       every instant where it changes),
     - the series ends at 0, and a pid without non-empty Prep slices gets no sample.
   No hypothesis on the durations: a slice with end <= start (dur <= 0) is in flight at no time, so it
   does not count in [count_at], and create_counter's guard makes it leave no trace in the series. *)
Theorem C13_counter_correct :
  forall (keep : bool) (evs : list ev) (r : list (list out) * list out) (p : Z),
    run_stage true keep evs = Ok r ->
    StronglySorted (fun a b => (fst a <= fst b)%Q) (preps_of p evs) ->
    let W := samples_of p (all_out r) in
    let I := preps_of p evs in
    StronglySorted (fun a b : bp => (fst a < fst b)%Q) W /\
    (forall t c, In (t, c) W -> c = count_at I t) /\
    (forall t, den 0 W t = count_at I t) /\
    (forall iv, In iv I -> (fst iv < snd iv)%Q ->
       (exists x, In x W /\ (fst x == fst iv)%Q) /\ (exists x, In x W /\ (fst x == snd iv)%Q)) /\
    (forall t1 t2, (t1 <= t2)%Q -> (forall x, In x W -> ~ ((t1 < fst x)%Q /\ (fst x <= t2)%Q)) ->
                   count_at I t1 = count_at I t2) /\
    lastc 0 W = 0 /\
    (Forall (fun iv => ~ (fst iv < snd iv)%Q) I -> W = []).
Proof. exact counter_correct_full. Qed.
Print Assumptions C13_counter_correct.

(* (1') The counter is right, hold mode (-M): the same seven conclusions for ANY arrival order of the
   Prep slices -- no sortedness hypothesis at all.  The stored breakpoint list stays strictly increasing and
   denotes count_at of the intervals seen so far (C13_queue_step_denotation applies wherever the new start
   lies, because nothing has been handed out yet); drain() emits it. *)
Theorem C13_counter_correct_any_order :
  forall (keep : bool) (evs : list ev) (r : list (list out) * list out) (p : Z),
    run_stage false keep evs = Ok r ->
    let W := samples_of p (all_out r) in
    let I := preps_of p evs in
    StronglySorted (fun a b : bp => (fst a < fst b)%Q) W /\
    (forall t c, In (t, c) W -> c = count_at I t) /\
    (forall t, den 0 W t = count_at I t) /\
    (forall iv, In iv I -> (fst iv < snd iv)%Q ->
       (exists x, In x W /\ (fst x == fst iv)%Q) /\ (exists x, In x W /\ (fst x == snd iv)%Q)) /\
    (forall t1 t2, (t1 <= t2)%Q -> (forall x, In x W -> ~ ((t1 < fst x)%Q /\ (fst x <= t2)%Q)) ->
                   count_at I t1 = count_at I t2) /\
    lastc 0 W = 0 /\
    (Forall (fun iv => ~ (fst iv < snd iv)%Q) I -> W = []).
Proof. exact counter_correct_full_any_order. Qed.
Print Assumptions C13_counter_correct_any_order.

(* (1'') In hold mode the callbacks hand out no counter sample (everything comes from drain()). *)
Theorem C13_hold_callbacks_silent :
  forall (keep : bool) (evs : list ev) (r : list (list out) * list out) (p : Z),
    run_stage false keep evs = Ok r -> samples_of p (List.concat (fst r)) = [].
Proof. exact hold_callbacks_silent. Qed.
Print Assumptions C13_hold_callbacks_silent.

(* (2) Prep slices are removed from the stream unless keep_prep; every other event is handed on
   unchanged, exactly once, in order (and with keep_prep the Prep slices are too).  Both modes, any order. *)
Theorem C13_prep_removed_iff_not_keep :
  forall (si keep : bool) (evs : list ev) (r : list (list out) * list out),
    run_stage si keep evs = Ok r ->
    passed (all_out r) = filter (fun e => keep || negb (is_prep_ev e)) evs.
Proof. exact prep_removed. Qed.
Print Assumptions C13_prep_removed_iff_not_keep.

(* (3) The sortedness hypothesis of (1) is what the default pipeline delivers: a stream sorted by ts
   (MpSyncTightContext.drain sorts by ts before anything reaches queueing_counter) is start-sorted
   for every pid. *)
Theorem C13_sorted_by_ts_suffices :
  forall (evs : list ev) (p : Z),
    StronglySorted (fun a b => (e_ts a <= e_ts b)%Q) evs ->
    StronglySorted (fun a b => (fst a <= fst b)%Q) (preps_of p evs).
Proof. exact sorted_by_ts. Qed.
Print Assumptions C13_sorted_by_ts_suffices.

(* (4) One step of update_queues in denotational form (the design spike's den_update, now about the
   model's own [new_list], times in Q): a stored list split as R ++ M ++ P with times < s, in [s, e)
   and >= e becomes R ++ new_list .., which denotes the old step function plus the indicator of [s, e). *)
Theorem C13_queue_step_denotation :
  forall (R M P : list bp) (s e t : Q),
    (s < e)%Q ->
    Forall (fun x => (fst x < s)%Q) R -> Forall (fun x => (s <= fst x)%Q) M ->
    Forall (fun x => (fst x < e)%Q) M -> Forall (fun x => (e <= fst x)%Q) P ->
    den 0 (R ++ new_list (lastc 0 R) M P s e) t
    = den 0 (R ++ M ++ P) t + (if inside t (s, e) then 1 else 0).
Proof. exact queue_step_denotation. Qed.
Print Assumptions C13_queue_step_denotation.

(* (5) The guard of create_counter (added by the fix of the zero-duration defect found by this check):
   an interval with end <= start emits no sample and leaves every pid's stored queue unchanged (the
   pid only gets its dict entry, which drain() turns into nothing).  Both modes. *)
Theorem C13_empty_interval_ignored :
  forall (si : bool) (qs : queues) (p : Z) (s e : Q),
    (e <= s)%Q ->
    snd (create_counter si qs p s e) = [] /\
    forall p', qof p' (fst (create_counter si qs p s e)) = qof p' qs.
Proof. exact empty_interval_ignored. Qed.
Print Assumptions C13_empty_interval_ignored.

(* ---------------------------------------------------------------- non-vacuity *)
(* two ranks; rank 0: [0,10) with [2,5) nested in it (the F2b shape), [5,7) touching, [5,12) equal
   start, chained past the end; rank 1: [1,3); an Exec slice and a counter pass through.  The stream is
   sorted by ts, the stage does not raise, every hypothesis of (1) and (3) holds and the samples are
   the expected ones. *)
Definition ex_stream : list ev :=
  [ E "X" "a Cmpt Prep" 0 (0 # 1) (Some (10 # 1)) 0 0;
    E "X" "b Cmpt Prep" 1 (1 # 1) (Some (2 # 1)) 1 0;
    E "X" "c Cmpt Prep" 0 (2 # 1) (Some (3 # 1)) 2 0;
    E "X" "c Cmpt Exec" 0 (3 # 1) (Some (1 # 1)) 3 0;
    E "X" "d Cmpt Prep" 0 (5 # 1) (Some (2 # 1)) 4 1;
    E "C" "other" 0 (5 # 1) None 5 2;
    E "X" "e Cmpt Prep" 0 (5 # 1) (Some (7 # 1)) 6 0 ].

Definition qz (n : Z) : Q := n # 1.

Example C13_nonvacuous :
  exists r,
    run_stage true false ex_stream = Ok r /\
    StronglySorted (fun a b => (e_ts a <= e_ts b)%Q) ex_stream /\
    map (fun iv => (Qred (fst iv), Qred (snd iv))) (preps_of 0 ex_stream)
      = [(qz 0, qz 10); (qz 2, qz 5); (qz 5, qz 7); (qz 5, qz 12)] /\
    Forall (fun iv => (fst iv < snd iv)%Q) (preps_of 0 ex_stream) /\
    Forall (fun iv => (fst iv < snd iv)%Q) (preps_of 1 ex_stream) /\
    map (fun x => (Qred (fst x), snd x)) (samples_of 0 (all_out r))
      = [(qz 0, 1); (qz 2, 2); (qz 5, 3); (qz 7, 2); (qz 10, 1); (qz 12, 0)] /\
    map (fun x => (Qred (fst x), snd x)) (samples_of 1 (all_out r)) = [(qz 1, 1); (qz 3, 0)] /\
    map e_uid (passed (all_out r)) = [3; 5].
Proof.
  eexists. split; [vm_compute; reflexivity|].
  split; [repeat constructor; unfold Qle; cbn; discriminate|].
  split; [vm_compute; reflexivity|].
  split; [repeat constructor; unfold Qlt; cbn; reflexivity|].
  split; [repeat constructor; unfold Qlt; cbn; reflexivity|].
  split; [vm_compute; reflexivity|]. split; vm_compute; reflexivity.
Qed.

(* the input that broke the property before the fix: a Prep slice with dur = 0 after a normal one, and one on
   a pid of its own; hypotheses of (1) hold (ts-sorted) and the empty slices leave no trace *)
Example C13_zero_duration :
  exists r, run_stage true false zero_witness = Ok r /\
    StronglySorted (fun a b => (e_ts a <= e_ts b)%Q) zero_witness /\
    map (fun x => (Qred (fst x), snd x)) (samples_of 0 (all_out r)) = [(qz 0, 1); (qz 4, 0)] /\
    samples_of 7 (all_out r) = [] /\ passed (all_out r) = [].
Proof.
  eexists. split; [vm_compute; reflexivity|].
  split; [repeat constructor; unfold Qle; cbn; discriminate|].
  repeat split; vm_compute; reflexivity.
Qed.

(* the hypotheses of (4) are met by the stored list [(0,1); (2,2); (5,1); (10,0)] and the interval [5,7) *)
Example C13_step_nonvacuous :
  let R : list bp := [(qz 0, 1); (qz 2, 2)] in let M : list bp := [(qz 5, 1)] in
  let P : list bp := [(qz 10, 0)] in
  Forall (fun x : bp => (fst x < qz 5)%Q) R /\ Forall (fun x : bp => (qz 5 <= fst x)%Q) M /\
  Forall (fun x : bp => (fst x < qz 7)%Q) M /\ Forall (fun x : bp => (qz 7 <= fst x)%Q) P /\
  update_queues true (qz 5) (qz 7) (R ++ M ++ P) = (R, new_list (lastc 0 R) M P (qz 5) (qz 7)) /\
  update_queues false (qz 5) (qz 7) (R ++ M ++ P) = ([], R ++ new_list (lastc 0 R) M P (qz 5) (qz 7)) /\
  new_list (lastc 0 R) M P (qz 5) (qz 7) = [(qz 5, 2); (qz 7, 1); (qz 10, 0)].
Proof.
  cbv zeta. repeat split; try (repeat constructor; unfold Qlt, Qle; cbn; (reflexivity || discriminate)).
Qed.

(* the stream of the replay that led to the fix of the -M defect: [1013,1015) [1015,1024) and then, listed
   late, [1014,1023).  It is NOT start-sorted (so (1) says nothing about it).  In hold mode -- the mode the
   repaired acelyzer uses under -M -- the stage does not raise, the callbacks are silent and drain() gives
   the right series (two in flight from 1014 on, still two at 1015 where one ends and one starts); a context
   that believes its input sorted hands (1013,1) out early and then counts 1 at 1014: the defect. *)
Example C13_any_order_nonvacuous :
  ~ StronglySorted (fun a b => (fst a <= fst b)%Q) (preps_of 0 late_witness) /\
  (exists r,
    run_stage false false late_witness = Ok r /\
    map (fun iv => (Qred (fst iv), Qred (snd iv))) (preps_of 0 late_witness)
      = [(qz 1013, qz 1015); (qz 1015, qz 1024); (qz 1014, qz 1023)] /\
    fst r = [[]; []; []] /\
    map (fun x => (Qred (fst x), snd x)) (samples_of 0 (all_out r))
      = [(qz 1013, 1); (qz 1014, 2); (qz 1015, 2); (qz 1023, 1); (qz 1024, 0)]) /\
  (exists r,
    run_stage true false late_witness = Ok r /\
    map (fun x => (Qred (fst x), snd x)) (samples_of 0 (all_out r))
      = [(qz 1013, 1); (qz 1014, 1); (qz 1015, 2); (qz 1023, 1); (qz 1024, 0)] /\
    count_at (preps_of 0 late_witness) (qz 1014) = 2).
Proof.
  split; [|split].
  - assert (Hp : preps_of 0 late_witness = [(qz 1013, qz 1015); (qz 1015, qz 1024); (qz 1014, qz 1023)])
      by (vm_compute; reflexivity).
    rewrite Hp. intros H. inversion H as [|? ? Hs _]; subst. inversion Hs as [|? ? _ Hf]; subst.
    inversion Hf as [|? ? Hle _]; subst. vm_compute in Hle. apply Hle. reflexivity.
  - eexists. split; [vm_compute; reflexivity|]. repeat split; vm_compute; reflexivity.
  - eexists. split; [vm_compute; reflexivity|]. repeat split; vm_compute; reflexivity.
Qed.
