(* C14 — same inputs and options give identical results across runs and environments.
   Property theorems only; proofs in theories/History.v, theories/Groupby.v, theories/C14Model.v.
   What a model can carry is proved here; what lives in the runtime (CPython's real hash randomisation,
   set iteration order, garbage-collection timing of __del__ output, other module-level singletons) is
   exercised by the paired-run comparisons of harness/props/c14.py and NOT claimed as proved. *)
From Coq Require Import List Arith ZArith.
Import ListNotations.
From AiuModel Require Import Base Pipeline C03Model History Groupby C14Model.

(* (a) History.  A run that first resets the shared barrier cell BC (Acelyzer.run since fix 1950fab) exports the
   same events whatever earlier runs of the process - completed or aborted at any point - left in that cell;
   [st] and [st'] are arbitrary stores that agree off BC (all other contexts are built afresh for every run).
   Arbitrary stages, arbitrary sharing, arbitrary inputs. *)
Theorem C14_history_independent :
  forall (E St : Type) (BC : nat) (hempty : St) (gs : list (stage E St)) (st st' : store St) (es : list E),
    eqx BC st st' -> fresh_run BC hempty gs st es = fresh_run BC hempty gs st' es.
Proof. exact history_independent. Qed.
Print Assumptions C14_history_independent.

(* ... and the reset is necessary: an aborted run leaves its input in the hold, and without the reset the
   next run of the same process exports it (the defect repaired by 1950fab; concrete witness) *)
Theorem C14_history_needs_reset :
  let g := [(Pass, 2%nat); (Barrier, 0%nat); (Pass, 3%nat)] in
  let st := aborted_state g [7; 8]%Z in
  fst (st BCELL) = [7; 8]%Z /\
  next_run_no_reset g st [1]%Z = [7; 8; 1]%Z /\
  next_run g st [1]%Z = [1]%Z /\ next_run g st0 [1]%Z = [1]%Z.
Proof. exact stale_hold_leaks. Qed.
Print Assumptions C14_history_needs_reset.

(* (b) -I.  Inserting after every registered stage a stage that returns its event unchanged and whose context
   drains to [] (duplicate_and_hold + IntermediateDuplicateAndHoldContext), each with its own fresh context,
   does not change what Engine.run exports.  Arbitrary pipeline, arbitrary sharing among the original stages. *)
Theorem C14_intermediate_transparent :
  forall (E St : Type) (gs ds : list (stage E St)) (st : store St) (es : list E),
    Forall (@inert E St) ds -> NoDup (map (@cid E St) ds) ->
    (forall d, In d ds -> ~ In (cid d) (map (@cid E St) gs)) ->
    run (intersperse ds gs) st es = run gs st es.
Proof. exact intermediate_transparent. Qed.
Print Assumptions C14_intermediate_transparent.

(* (c) Hash seed.  Wherever a hash of a string is only a dictionary key, the insertion-ordered buckets do not
   depend on the hash function [h], provided [h] is injective on the keys that occur. *)
Theorem C14_hash_independent :
  forall (A K H : Type) (keqb : K -> K -> bool) (heqb : H -> H -> bool),
    (forall a b, keqb a b = true <-> a = b) -> (forall a b, heqb a b = true <-> a = b) ->
    forall (h : K -> H) (key : A -> K) (l : list A),
      (forall x y, In x l -> In y l -> h (key x) = h (key y) -> key x = key y) ->
      groupby heqb (fun x => h (key x)) l = relabel h (groupby keqb key l) /\
      map snd (groupby heqb (fun x => h (key x)) l) = map snd (groupby keqb key l).
Proof. exact groupby_hash_independent. Qed.
Print Assumptions C14_hash_independent.

(* non-vacuity of (b): the -I stage is inert, and a five-stage pipeline with a barrier and a holding stage *)
Example C14_nonvacuous :
  inert (dup_hold 50) /\
  let gs := graph [(Hold, 2%nat); (Barrier, 0%nat); (Dup, 3%nat)] in
  let ds := map dup_hold [50; 51; 52; 53]%nat in
  run (intersperse ds gs) st0 [1; 2]%Z = run gs st0 [1; 2]%Z /\ run gs st0 [1; 2]%Z = [1; 1; 2; 2]%Z.
Proof. split; [apply dup_hold_inert|vm_compute; split; reflexivity]. Qed.
