(* C12 — kernel summary CSVs agree with the exported trace.
   Property theorems only; the model is theories/Stats.v (calculate_stats, StatsExtractionContext.drain,
   generate_filename of src/aiu_trace_analyzer/pipeline/{stats,tools}.py), the proofs are in theories/Stats_proofs.v.
   Every statement quantifies over ALL event streams (any number of ranks, kernels, names, calls; no bound).
   Vocabulary (Stats_proofs.v): [kern evs] = the kernel slices (ph "X", name contains "Cmpt Exec");
   key = (name with [_-]digits masked, pid); [durs_of k evs] = durations of the kernel slices with key k;
   [of_rank p evs] = kernel slices of rank p; [stat_ok ds s] = s holds Calls/Total/Mean/Median/Min/Max/Var of the
   multiset ds; [active_ok es a] = a holds total/start/end/elapsed/active of the slices es. *)
From Coq Require Import ZArith QArith Qabs List String Permutation Sorted.
Import ListNotations.
From AiuModel Require Import Base Stats Stats_proofs Filenames.
Local Open Scope Q_scope.

(* (0) the stage raises exactly when a kernel slice lacks TS1..TS5 (KeyError) or has dur <= 0 (AssertionError) *)
Theorem C12_run_guard :
  forall evs, (exists s, run evs = Ok s) <-> (forall e, In e (kern evs) -> e_tsx e = true /\ 0 < e_dur e).
Proof. exact run_ok_iff. Qed.
Print Assumptions C12_run_guard.

(* (1) the groups partition the kernel slices: keys are pairwise distinct, a group holds exactly (in order, with
   multiplicity) the durations of the slices with its key and is never empty, every slice's key has a group, and the
   calls add up to the number of kernel slices - no slice is omitted, none is counted twice. *)
Theorem C12_groups_partition :
  forall evs s, run evs = Ok s ->
    NoDup (keys (s_q s)) /\
    (forall g, In g (s_q s) -> g_durs g = durs_of (g_key g) evs /\ g_durs g <> []) /\
    (forall k, In k (keys (s_q s)) <-> exists e, In e (kern evs) /\ ekey e = k) /\
    sum_calls (s_q s) = List.length (kern evs).
Proof. exact groups_partition. Qed.
Print Assumptions C12_groups_partition.

(* (2) the rows of <out>_summary.csv are the groups, each exactly once (sorting by pid and by total loses and
   duplicates nothing); row keys are distinct, are exactly the keys of the kernel slices, and the Calls column sums
   to the number of kernel slices. *)
Theorem C12_rows_are_the_groups :
  forall evs s, run evs = Ok s ->
    Permutation (map r_gs (summary s)) (map gstats (s_q s)) /\
    NoDup (map row_key (summary s)) /\
    (forall k, In k (map row_key (summary s)) <-> exists e, In e (kern evs) /\ ekey e = k) /\
    fold_right (fun r n => (gs_calls (r_gs r) + n)%Z) 0%Z (summary s) = Z.of_nat (List.length (kern evs)).
Proof. intros evs s H. split; [apply rows_perm|exact (row_keys evs s H)]. Qed.
Print Assumptions C12_rows_are_the_groups.

(* (3) every row carries the statistics of the multiset of durations of the kernel slices with its key:
   Calls = how many, Total = their sum, Mean * Calls = Total, Min / Max are attained lower / upper bounds,
   Median = middle of a sorted permutation (mean of the two middle values for an even count),
   Var * (Calls - 1) = sum of squared deviations from the mean (0 for a single call);
   its pid column is the pid of the key and its Time column is Total over the rank's total, times 100. *)
Theorem C12_row_statistics :
  forall evs s r, run evs = Ok s -> In r (summary s) ->
    let k := gs_key (r_gs r) in
    snd k = r_pid r /\
    (exists e, In e (kern evs) /\ ekey e = k) /\
    stat_ok (durs_of k evs) (r_gs r) /\
    r_share r == gs_total (r_gs r) / qsum (map e_dur (of_rank (r_pid r) evs)) * 100.
Proof. exact row_statistics. Qed.
Print Assumptions C12_row_statistics.

(* what [stat_ok] says, spelled out *)
Theorem C12_stat_ok_unfold :
  forall ds s, stat_ok ds s ->
    gs_calls s = Z.of_nat (List.length ds) /\ gs_total s == qsum ds /\
    gs_mean s * inject_Z (gs_calls s) == qsum ds /\
    (In (gs_min s) ds /\ forall d, In d ds -> gs_min s <= d) /\
    (In (gs_max s) ds /\ forall d, In d ds -> d <= gs_max s) /\
    (exists sl, Permutation sl ds /\ Sorted Qle sl /\ gs_median s = middle sl) /\
    ((2 <= List.length ds)%nat ->
       gs_var s * (inject_Z (gs_calls s) - 1) == qsum (map (sqd (gs_mean s)) ds)) /\
    ((List.length ds < 2)%nat -> gs_var s = 0).
Proof. intros ds s [H1 H2 H3 H4 H5 H6 H7 H8 H9 H10]. repeat split; auto. Qed.
Print Assumptions C12_stat_ok_unfold.

(* (4) the printed StDev cell (thousandths) is within half a printed unit of the square root of the variance:
   (2S-1)^2 <= 4 * 10^6 * Var <= (2S+1)^2; every other printed cell is within half a unit of its exact value. *)
Theorem C12_stdev_cell :
  forall v, 0 <= v ->
    let S := stdev_cell v in
    let x := v * 1000000 in
    (0 <= S)%Z /\ 4 * x <= inject_Z (sq (2 * S + 1)) /\ (S = 0%Z \/ inject_Z (sq (2 * S - 1)) <= 4 * x).
Proof. exact stdev_cell_spec. Qed.
Print Assumptions C12_stdev_cell.

Theorem C12_cell_rounding : forall q, Qabs (inject_Z (rhe q) - q) <= 1 # 2.
Proof. exact rhe_half. Qed.
Print Assumptions C12_cell_rounding.

(* (5) the Time column of each rank sums to 100 *)
Theorem C12_shares :
  forall evs s p, run evs = Ok s -> In p (pids_of (s_q s)) ->
    qsum (map r_share (filter (fun r => Z.eqb (r_pid r) p) (summary s))) == 100.
Proof. exact shares_sum. Qed.
Print Assumptions C12_shares.

(* (6) <out>_active.csv has one row per rank that has kernel slices, in ascending pid order; the row holds
   total = sum of the rank's kernel durations, start = min(1e30, starts), end = max(0, ends) (the code's initial
   values), elapsed = end - start, active = total / elapsed * 100. *)
Theorem C12_active :
  forall evs s, run evs = Ok s ->
    map a_pid (active s) = pids_of (s_q s) /\
    NoDup (pids_of (s_q s)) /\ Sorted Z.le (pids_of (s_q s)) /\
    (forall p, In p (pids_of (s_q s)) <-> of_rank p evs <> []) /\
    (forall a, In a (active s) -> active_ok (of_rank (a_pid a) evs) a).
Proof. exact active_spec. Qed.
Print Assumptions C12_active.

(* ... and for slices that end at or after 0 and start at or below 1e30 (the default event limiter guarantees the
   former) start / end are the true extremes: elapsed = latest end - earliest start. *)
Theorem C12_active_true_extremes :
  forall es a, active_ok es a -> (forall e, In e es -> 0 <= e_end e /\ e_ts e <= BIG) ->
    (exists e, In e es /\ a_start a == e_ts e) /\ (exists e, In e es /\ a_end a == e_end e) /\
    (forall e, In e es -> a_start a <= e_ts e /\ e_end e <= a_end a).
Proof. exact active_true_extremes. Qed.
Print Assumptions C12_active_true_extremes.

(* (7) agreement with the exported trace: if the kernel slices of the exported file (name = args.orig_name when the
   name was rewritten) are, as (masked name, pid, ts, dur), a PERMUTATION of the kernel slices the stage saw - the
   contract on the stages registered after calculate_stats, see (8), checked end to end on every run - then every
   row of the two CSV files carries the statistics recomputed from the exported slices, and rows / ranks are exactly
   the keys / ranks occurring in the export. *)
Theorem C12_export_agrees :
  forall evs evs' s, run evs = Ok s ->
    Permutation (map proj (kern evs)) (map proj (kern evs')) ->
    (forall r, In r (summary s) ->
       snd (row_key r) = r_pid r /\
       stat_ok (durs_of (row_key r) evs') (r_gs r) /\
       r_share r == gs_total (r_gs r) / qsum (map e_dur (of_rank (r_pid r) evs')) * 100) /\
    (forall a, In a (active s) -> active_ok (of_rank (a_pid a) evs') a) /\
    (forall k, In k (map row_key (summary s)) <-> exists e, In e (kern evs') /\ ekey e = k) /\
    (forall p, In p (map a_pid (active s)) <-> of_rank p evs' <> []).
Proof. exact export_agrees. Qed.
Print Assumptions C12_export_agrees.

(* (8) on the registration program GENERATED from core/acelyzer.py: calculate_stats is registered once, under
   args.stats, with the output name; the stages after it are these, and the only one that drops events
   (processing_filter) is guarded by -F/--filter. *)
Theorem C12_stages_after_stats :
  stages_after "calculate_stats" =
  [("processing_filter", "args.filter != ''"); ("flow_data_cleanup", ""); ("cleanup_copy_of_device_ts", "");
   ("tb_refinement_intrusive", "args.tb_refinement"); ("tb_refinement_lightweight", "");
   ("cycle_count_conversion_cleanup", ""); ("calculate_stats_v2", "args.stats & args.build_coll_event");
   ("sort_events", "")]%string /\
  registrations_of "calculate_stats" =
  [("args.stats", "event_pipe.StatsExtractionContext(stats_filename=args.output)")]%string.
Proof. exact stages_after_stats. Qed.
Print Assumptions C12_stages_after_stats.

(* ---------------------------------------------------------------- non-vacuity *)
(* two ranks; names differing only in digits (one group), "-" and "_" separators (same group), a single-call
   kernel, a non-kernel slice and a counter in between *)
Definition ex_evs : list ev :=
  [mkEv "X" "addmm_2_MatMul Cmpt Exec" 0 1003 2 true 1;
   mkEv "X" "conv-12 Cmpt Prep" 0 1004 1 true 2;
   mkEv "X" "addmm_3_MatMul Cmpt Exec" 0 1012 3 true 3;
   mkEv "C" "conv-12 Cmpt Exec" 0 1013 0 false 4;
   mkEv "X" "conv-12 Cmpt Exec" 0 1022 (3 # 2) true 5;
   mkEv "X" "conv_7 Cmpt Exec" 1 1001 (1 # 2) true 6;
   mkEv "X" "conv-8 Cmpt Exec" 1 1002 (5 # 2) true 7].

Example C12_nonvacuous :
  (exists s, run ex_evs = Ok s /\
     map (fun r => (r_pid r, fst (row_key r), gs_calls (r_gs r))) (summary s) =
       [(0%Z, "addmm_[N]_MatMul Cmpt Exec"%string, 2%Z); (0%Z, "conv_[N] Cmpt Exec"%string, 1%Z);
        (1%Z, "conv_[N] Cmpt Exec"%string, 2%Z)] /\
     map (fun a => (a_pid a, Qred (a_elapsed a), Qred (a_active a))) (active s) =
       [(0%Z, 41 # 2, 1300 # 41); (1%Z, 7 # 2, 600 # 7)]) /\
  (forall e, In e (kern ex_evs) -> e_tsx e = true /\ 0 < e_dur e) /\
  (forall e, In e (kern ex_evs) -> 0 <= e_end e /\ e_ts e <= BIG) /\
  Permutation (map proj (kern ex_evs)) (map proj (kern (rev ex_evs))) /\
  render ex_evs =
   (VL [VL [VL [VL [VZ 0; VS "addmm_[N]_MatMul Cmpt Exec"; VZ 2; VZ 5000; VZ 2500; VZ 2000; VZ 3000];
                VLz [7692; 2500; 707]];
            VL [VL [VZ 0; VS "conv_[N] Cmpt Exec"; VZ 1; VZ 1500; VZ 1500; VZ 1500; VZ 1500]; VLz [2308; 1500; 0]];
            VL [VL [VZ 1; VS "conv_[N] Cmpt Exec"; VZ 2; VZ 3000; VZ 1500; VZ 500; VZ 2500];
                VLz [10000; 1500; 1414]]];
        VL [VL [VL [VZ 0; VZ 6500; VZ 20500; VZ 1003000; VZ 1023500]; VZ 3171];
            VL [VL [VZ 1; VZ 3000; VZ 3500; VZ 1001000; VZ 1004500]; VZ 8571]]])%Z.
Proof.
  split; [eexists; split; [vm_compute; reflexivity|split; vm_compute; reflexivity]|].
  split; [intros e H; vm_compute in H; repeat (destruct H as [<-|H]; [split; reflexivity|]); destruct H|].
  split; [intros e H; vm_compute in H;
          repeat (destruct H as [<-|H]; [split; vm_compute; discriminate|]); destruct H|].
  split; [|vm_compute; reflexivity].
  rewrite <- (rev_involutive (kern ex_evs)) at 1.
  replace (kern (rev ex_evs)) with (rev (kern ex_evs)) by (vm_compute; reflexivity).
  apply Permutation_map. symmetry. apply Permutation_rev.
Qed.

(* a malformed stream: the second kernel slice has dur 0 -> AssertionError, nothing is written *)
Example C12_malformed :
  run [mkEv "X" "k_1 Cmpt Exec" 0 1 2 true 1; mkEv "X" "k_2 Cmpt Exec" 0 5 0 true 2] = Err "AssertionError" /\
  run [mkEv "X" "k_1 Cmpt Exec" 0 1 0 false 1] = Err "KeyError".
Proof. split; vm_compute; reflexivity. Qed.

(* ---------- where <output>_summary.csv / _active.csv are written: next to the output file ---------- *)
(* The generated name splits into the SAME directory prefix as the output path (".pt.trace" removed) and a file name
   derived from the output's file name alone - for every path, whatever dots its directories contain.  Until /repo fix
   C12b "-o ./res" wrote "_summary.csv" into the current directory and "-o run.v1/res" wrote "run_summary.csv" one
   level up (seeded/revert_fix_C12b). *)
Theorem C12_csv_next_to_output :
  forall fname purpose ext : string,
    has_slash purpose = false -> has_slash ext = false ->
    split_dir (gen_filename fname purpose ext) =
    (fst (split_dir (remove_go ".pt.trace" 0 fname)),
     (before_last_dot (snd (split_dir (remove_go ".pt.trace" 0 fname))) ++ "_" ++ purpose ++ "." ++ ext)%string).
Proof. exact gen_filename_same_directory. Qed.
Print Assumptions C12_csv_next_to_output.

Example C12_csv_names :
  gen_filename "run.v1/res" "summary" "csv" = "run.v1/res_summary.csv"%string /\
  gen_filename "./res" "active" "csv" = "./res_active.csv"%string /\
  gen_filename "a.b/out.pt.trace.json" "summary" "csv" = "a.b/out_summary.csv"%string.
Proof. repeat split; vm_compute; reflexivity. Qed.
