(* C02 — well-formed input yields a complete, viewer-loadable trace and exit code 0.
   Property theorems only; proofs in theories/C02_proofs.v (export-side schema facts about the model of
   convert_events / from_dict in Schema.v; the scratch-data argument of Suffix.v instantiated on the registration
   program GENERATED from /repo's acelyzer.py).  PARTIAL by design (DESIGN.md 4/C02): exception-freedom of the
   un-modelled glue and the per-stage contracts named below are established by the end-to-end tie, not proved. *)
From Coq Require Import ZArith QArith List Bool String Arith.
Import ListNotations.
From AiuModel Require Import Base Pipeline Profile Suffix Schema C02Model C02_proofs TidMap TidMap_proofs.
From AiuGen Require Import Registration Profiles.
Local Open Scope string_scope.

(* (1) "no dur on counters": whatever dict the pipeline hands to the exporter, a converted counter has no dur *)
Theorem C02_counter_no_dur :
  forall d e, from_dict d = Ok e -> get "ph" e = Some (JStr "C") -> has "dur" e = false.
Proof. exact from_dict_counter_no_dur. Qed.
Print Assumptions C02_counter_no_dur.

(* (2) a ph "F" helper event can never be exported silently: conversion raises *)
Theorem C02_helper_F_rejected :
  forall d, get "ph" d = Some (JStr "F") -> from_dict d = Err "Exception".
Proof. exact from_dict_rejects_F. Qed.
Print Assumptions C02_helper_F_rejected.

(* (3) a slice that reaches the exporter with name, integer pid, finite ts, finite dur > 0, a tid and dict args is
   exported as a valid slice with exactly those values *)
Theorem C02_slice_valid :
  forall d, slice_in d = true ->
    exists e, convert d = Ok e /\ get "ph" e = Some (JStr "X") /\
              chk "name" is_str e = true /\ chk "pid" is_int e = true /\ chk "ts" is_finite_num e = true /\
              chk "dur" (fun v => is_finite_num v && positive v) e = true /\ has "tid" e = true /\
              get "ts" e = get "ts" d /\ get "dur" e = get "dur" d /\ get "pid" e = get "pid" d /\
              get "tid" e = get "tid" d /\ get "name" e = get "name" d.
Proof. exact convert_slice. Qed.
Print Assumptions C02_slice_valid.

(* (4) Pipeline mechanics: a cleaning stage followed by stages that never re-introduce dirt makes EVERYTHING the
   run exports clean, whatever the earlier stages do and however much they release only at drain time. *)
Theorem C02_suffix_cleans :
  forall (E St : Type) (clean : E -> Prop) (Inv : St -> Prop) (suf : list (stage E St))
         (c : stage E St) (post : list (stage E St)),
    suf = c :: post -> cleaner clean Inv c -> Forall (keeps_clean clean Inv) post ->
    forall (pr : list (stage E St)) (st : store St) (es : list E),
      apart suf pr -> SInv Inv suf st -> Forall clean (run (pr ++ c :: post) st es).
Proof. exact suffix_cleans. Qed.
Print Assumptions C02_suffix_cleans.

(* (5) The current registration program, for EVERY selection mask [m] over its positions (every valuation of the
   guard atoms combined with any profile flags) that keeps the cleaning stage [cl_c cl], and for ANY implementation of
   the stages that respects the program's context objects: if the cleaner cleans and the stages registered after
   it keep clean, every exported event is clean.  [cl] ranges over the three cleaners below. *)
Theorem C02_program_no_scratch :
  forall (E St : Type) (clean : E -> Prop) (Inv : St -> Prop) (cl : cleaning),
    the_program = (cl_pre cl ++ cl_c cl :: cl_post cl)%list -> static_ok cl = true ->
    forall (impl : nat * reg -> stage E St), (forall x, cid (impl x) = cell_of (fst x) (snd x)) ->
    forall m : nat -> bool, m (List.length (cl_pre cl)) = true ->
    cleaner clean Inv (impl (List.length (cl_pre cl), cl_c cl)) ->
    (forall x, In x (pick m (S (List.length (cl_pre cl))) (cl_post cl)) -> keeps_clean clean Inv (impl x)) ->
    forall (st : store St) (es : list E),
      (forall x, In x (pick m (List.length (cl_pre cl)) (cl_c cl :: cl_post cl)) -> Inv (st (cid (impl x)))) ->
      Forall clean (run (map impl (pick m 0 the_program)) st es).
Proof. exact program_suffix_cleans. Qed.
Print Assumptions C02_program_no_scratch.

(* (6) static facts about the generated program that (5) needs, decided by computation on every run: the three
   cleaners exist, are unconditional, share no context with any earlier registration, are enabled in both shipped
   profiles, and exactly these stages follow them (their contracts are what the tie tests) *)
Theorem C02_cleaners :
  ((the_program = (cl_pre cl_flow ++ cl_c cl_flow :: cl_post cl_flow)%list /\ static_ok cl_flow = true /\
    r_name (cl_c cl_flow) = "flow_data_cleanup") /\
   (the_program = (cl_pre cl_tsdev ++ cl_c cl_tsdev :: cl_post cl_tsdev)%list /\ static_ok cl_tsdev = true /\
    r_name (cl_c cl_tsdev) = "cleanup_copy_of_device_ts") /\
   (the_program = (cl_pre cl_tsall ++ cl_c cl_tsall :: cl_post cl_tsall)%list /\ static_ok cl_tsall = true /\
    r_name (cl_c cl_tsall) = "cycle_count_conversion_cleanup")) /\
  (post_names cl_flow = ["cleanup_copy_of_device_ts"; "tb_refinement_intrusive"; "tb_refinement_lightweight";
                         "cycle_count_conversion_cleanup"; "calculate_stats_v2"; "sort_events"] /\
   post_names cl_tsdev = ["tb_refinement_intrusive"; "tb_refinement_lightweight"; "cycle_count_conversion_cleanup";
                          "calculate_stats_v2"; "sort_events"] /\
   post_names cl_tsall = ["calculate_stats_v2"; "sort_events"]).
Proof. split; [exact cleaners_static|exact cleaners_post_names]. Qed.
Print Assumptions C02_cleaners.

(* (7) tid mapping (tid_mapping.py::map_tid_to_range, model TidMap.v; a slice is (device?, tid)): with the pre-configured
   range of 30 entries - or any non-empty one - the stage raises for NO stream of thread ids, however many distinct ones a
   run has (before the repair the 31st distinct tid of a run raised IndexError: 8 rank files with 4 threads each) *)
Theorem C02_tid_mapping_total :
  forall (size : nat) (start step : Z) (tids : list (bool * Z)),
    (0 < size)%nat -> tidmap_val size start step tids <> None.
Proof. exact tidmap_total. Qed.
Print Assumptions C02_tid_mapping_total.

(* (8) ... and the numbers it hands out: the tid at place i of the list of first appearances gets start + i*step (also
   beyond the pre-configured range), so equal tids share a lane and - for step <> 0 - different tids never do *)
Theorem C02_tid_mapping_closed_form :
  forall (size : nat) (start step : Z) (tids : list (bool * Z)) (s' : tstate) (vs : list Z),
    (0 < size)%nat -> t_run step (t_init size start step) tids = Some (s', vs) ->
    NoDup (t_orig s') /\ (forall t, In t tids -> In (Some (snd t)) (t_orig s')) /\
    Forall2 (fun t v => exists i, index_of (snd t) (t_orig s') = Some i /\ v = (start + Z.of_nat i * step)%Z) tids vs.
Proof. exact tidmap_closed_form. Qed.
Print Assumptions C02_tid_mapping_closed_form.

Theorem C02_tid_mapping_injective :
  forall (size : nat) (start step : Z) (tids : list (bool * Z)) (vs : list Z) (i j : nat) (t t' : bool * Z) (v v' : Z),
    (0 < size)%nat -> tidmap_val size start step tids = Some vs ->
    nth_error tids i = Some t -> nth_error tids j = Some t' ->
    nth_error vs i = Some v -> nth_error vs j = Some v' ->
    (snd t = snd t' -> v = v') /\ (step <> 0%Z -> v = v' -> snd t = snd t').
Proof. exact tidmap_injective. Qed.
Print Assumptions C02_tid_mapping_injective.

(* (9) the first number of the range is the lane the host slices of a rank are merged onto (cpu_stream_tid = remap_start):
   it is handed out only to the tid of the very first slice of the run, and only if that is a host slice - a device
   stream that shows up first does not take it (before the repair it did, and overlap resolution then treated the device
   stream and the merged host lane as one lane: host slices dropped under -O drop because of kernels) *)
Theorem C02_tid_mapping_first_number :
  forall (size : nat) (start step : Z) (tids : list (bool * Z)) (vs : list Z) (i : nat) (t : bool * Z) (v : Z),
    (0 < size)%nat -> step <> 0%Z -> tidmap_val size start step tids = Some vs ->
    nth_error tids i = Some t -> nth_error vs i = Some v -> v = start ->
    exists t0 r, tids = (t0 :: r)%list /\ fst t0 = false /\ snd t0 = snd t.
Proof. exact tidmap_first_number. Qed.
Print Assumptions C02_tid_mapping_first_number.

(* non-vacuity: 33 distinct host tids through the shipped configuration (30, 1000, 100): the 31st..33rd get 4000, 4100,
   4200; and a run whose first slice is a device slice: that stream gets 1100, nobody gets 1000 *)
Example C02_tid_mapping_beyond_range :
  tidmap_val 30 1000 100 (map (fun n => (false, Z.of_nat n)) (seq 500 33) ++ [(false, Z.of_nat 500); (true, Z.of_nat 532)])%list
  = Some (map (fun i => (1000 + Z.of_nat i * 100)%Z) (seq 0 33) ++ [1000; 4200]%Z)%list.
Proof. vm_compute. reflexivity. Qed.

Example C02_tid_mapping_device_first :
  tidmap_val 30 1000 100 [(true, 777); (false, 11); (true, 777); (false, 12)]%Z = Some [1100; 1200; 1100; 1300]%Z.
Proof. vm_compute. reflexivity. Qed.

(* non-vacuity of (3) and of te_valid *)
Example C02_nonvacuous :
  let d := [("name", JStr "add Cmpt Exec"); ("ph", JStr "X"); ("pid", JInt 0); ("tid", JInt 7); ("ts", JNum (3 # 2));
            ("dur", JNum (1 # 4)); ("comment", JStr "user"); ("args", JObj [("TS1", JStr "12")])] in
  slice_in d = true /\
  match convert d with Ok e => te_valid e && has "comment" (args_of e) | Err _ => false end = true /\
  te_valid [("name", JStr "Power"); ("ph", JStr "C"); ("pid", JInt 0); ("ts", JInt 1); ("dur", JInt 1);
            ("args", JObj [("Watts", JNum (1 # 2))])] = false.
Proof. vm_compute. repeat split; reflexivity. Qed.
