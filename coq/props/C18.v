(* C18 — TensorBoard per-rank files and DataFrame export are lossless views of the trace.
   Property theorems only; proofs live in theories/Export_proofs.v, the executable model (the one the
   correspondence check runs against exporter.py) in theories/Export.v.
   The TensorBoard statements quantify over an arbitrary event type A and device-entry type D observed through
   the value found under 'pid' / 'id', over all event lists, device lists and save_to_file values. *)
From Coq Require Import ZArith QArith List Bool String Permutation Lia.
Import ListNotations.
From AiuModel Require Import Base Export Export_proofs.
Local Open Scope Z_scope.

(* (1) the property on its domain: R ranks (2 <= R <= 1000), every pid in {0..R-1} u {1000..1000+R-1} u {-1}, every
   rank present, with or without pid -1 events.  Then the rank count is R, R worker files are written, worker r
   holds exactly the events whose pid is r or 1000+r in export order, the workers together contain every event
   with pid <> -1 exactly once (multiset equality), and the combined view holds every exported event. *)
Theorem C18_tb_partition :
  forall (A D : Type) (pid : A -> keyv) (did : D -> keyv) (R : nat) (events : list A) (devices : list D)
         (save : bool) (res : tb_result A D),
    (2 <= R <= 1000)%nat -> tb_domain pid R events ->
    tb_flush pid did events devices save = Some res ->
    tb_rank_cnt res = R /\ List.length (workers res) = R /\ tb_workers_written res = true /\
    (forall r, (r < R)%nat -> nth_error (workers res) r = Some (filter (pid_in pid (Z.of_nat r)) events)) /\
    Permutation (List.concat (workers res)) (filter (not_m1 pid) events) /\
    fst (tb_combined res) = events.
Proof. exact @tb_partition. Qed.
Print Assumptions C18_tb_partition.

(* (2) no hypothesis on the pids: there are rank-count many views and view r < 1000 is exactly the events with pid r or
   1000+r and the device entries with id r or 1000+r, in export order *)
Theorem C18_tb_worker_content :
  forall (A D : Type) (pid : A -> keyv) (did : D -> keyv) (events : list A) (devices : list D) (save : bool)
         (res : tb_result A D),
    tb_flush pid did events devices save = Some res ->
    List.length (tb_views res) = tb_rank_cnt res /\
    forall r, (r < tb_rank_cnt res)%nat -> (r < 1000)%nat ->
      nth_error (tb_views res) r =
        Some (filter (pid_in pid (Z.of_nat r)) events, filter (pid_in did (Z.of_nat r)) devices).
Proof. exact @tb_worker_content. Qed.
Print Assumptions C18_tb_worker_content.

(* (3) no hypothesis on the pids: the workers together are, as a multiset, the events filed under a rank id in
   [0, rank count); an event reaches a worker iff its (folded) rank id is below the rank count — this is what is lost
   when the rank numbering has gaps or a pid is not an int (outside the property's domain, see the Example) *)
Theorem C18_tb_workers_perm :
  forall (A D : Type) (pid : A -> keyv) (did : D -> keyv) (events : list A) (devices : list D) (save : bool)
         (res : tb_result A D),
    tb_flush pid did events devices save = Some res ->
    Permutation (List.concat (workers res)) (filter (in_range pid (tb_rank_cnt res)) events) /\
    forall e, In e (List.concat (workers res)) <-> In e events /\ in_range pid (tb_rank_cnt res) e = true.
Proof.
  intros A D pid did events devices save res H. split.
  - exact (tb_workers_perm pid did events devices save res H).
  - intros e. exact (tb_in_worker_iff pid did events devices save res e H).
Qed.
Print Assumptions C18_tb_workers_perm.

(* (4) the combined view is everything that was exported, whatever the pids; it is written iff save_to_file; flush
   raises (KeyError) only if an event has no 'pid' or a device entry no 'id' *)
Theorem C18_tb_combined_all :
  forall (A D : Type) (pid : A -> keyv) (did : D -> keyv) (events : list A) (devices : list D) (save : bool),
    (forall res, tb_flush pid did events devices save = Some res ->
       tb_combined res = (events, devices) /\ tb_combined_written res = save) /\
    ((forall e, In e events -> pid e <> KMissing) -> (forall d, In d devices -> did d <> KMissing) ->
       exists res, tb_flush pid did events devices save = Some res).
Proof.
  intros A D pid did events devices save. split.
  - intros res H. exact (tb_combined_all pid did events devices save res H).
  - exact (flush_total pid did events devices save).
Qed.
Print Assumptions C18_tb_combined_all.

(* (5) "whether the last rank is written must not depend on an unrelated pseudo process": removing the pid -1 events
   changes neither the rank count nor any worker view *)
Theorem C18_tb_m1_irrelevant :
  forall (A D : Type) (pid : A -> keyv) (did : D -> keyv) (events : list A) (devices : list D) (save : bool)
         (res res' : tb_result A D),
    tb_flush pid did events devices save = Some res ->
    tb_flush pid did (filter (not_m1 pid) events) devices save = Some res' ->
    tb_rank_cnt res' = tb_rank_cnt res /\ tb_views res' = tb_views res.
Proof. exact @tb_m1_irrelevant. Qed.
Print Assumptions C18_tb_m1_irrelevant.

(* (6) different ranks never share a worker file name *)
Theorem C18_worker_name_inj :
  forall (target : string) (r1 r2 : nat), worker_name target r1 = worker_name target r2 -> r1 = r2.
Proof. exact worker_name_inj. Qed.
Print Assumptions C18_worker_name_inj.

(* (7) DataFrame: exactly one row per exported slice (event dict with ph "X" of the JSON export of the same event
   stream), in the same order, with the same rank (args.rank, 0 if absent), timestamp, duration and name.
   [wf_ev]: the event classes fix their ph (CompleteEvents "X", every other class rejects "X"). *)
Theorem C18_df_rows :
  forall evs : list tvev, Forall wf_ev evs ->
    map row_key (df_export evs) = map jev_key (filter j_is_slice (json_export evs)) /\
    List.length (df_export evs) = List.length (filter j_is_slice (json_export evs)).
Proof. intros evs H. split; [now apply df_rows_match|now apply df_row_count]. Qed.
Print Assumptions C18_df_rows.

(* (8) regression: with the rank-count rule before fix 6bb49ce (groups - 1) statement (1) is false — a two-rank
   trace without pid -1 events loses its last rank *)
Theorem C18_old_rule_refuted :
  exists (events : list tbev) (res : tb_result tbev tbev),
    tb_domain (@snd Z keyv) 2 events /\
    tb_flush_old (@snd Z keyv) (@snd Z keyv) events [] true = Some res /\
    ~ Permutation (List.concat (workers res)) (filter (not_m1 (@snd Z keyv)) events).
Proof. exact old_rule_refuted. Qed.
Print Assumptions C18_old_rule_refuted.

(* ------------------------------------------------------------------ non-vacuity *)
Definition ex_events : list tbev :=
  [(1, KInt 0); (2, KInt 1000); (3, KInt 2); (4, KInt (-1)); (5, KInt 1); (6, KInt 1002); (7, KInt 0); (8, KInt (-1))].

(* the hypotheses of (1) are met by a three-rank trace with pid -1 counters, and the conclusion is what one expects *)
Example C18_domain_nonvacuous :
  tb_domain (@snd Z keyv) 3 ex_events /\
  exists res, tb_flush (@snd Z keyv) (@snd Z keyv) ex_events [(0, KInt 0); (1, KInt 1); (2, KInt 2)] false = Some res /\
    map (map fst) (workers res) = [[1; 2; 7]; [5]; [3; 6]] /\ tb_workers_written res = true /\
    tb_combined_written res = false.
Proof.
  split.
  - split.
    + intros e H. cbn in H.
      repeat (destruct H as [<-|H]; [eexists; split; [reflexivity|cbn; lia]|]). destruct H.
    + intros r Hr. destruct r as [|[|[|r]]]; [| | |lia].
      * exists (1, KInt 0). split; [cbn; tauto|now left].
      * exists (5, KInt 1). split; [cbn; tauto|now left].
      * exists (3, KInt 2). split; [cbn; tauto|now left].
  - eexists. split; [vm_compute; reflexivity|]. vm_compute. repeat split.
Qed.

(* outside the domain (gap in the rank numbering, a pid that is not an int): (2) and (3) still hold and say what
   happens — rank 2 of ranks {0, 2} and the non-int pid reach no worker, worker 1 is empty *)
Example C18_gap_loses :
  exists res, tb_flush (@snd Z keyv) (@snd Z keyv) [(1, KInt 0); (2, KInt 2); (3, KOther); (4, KInt 1002)] [] true = Some res /\
    tb_rank_cnt res = 2%nat /\ map (map fst) (workers res) = [[1]; []].
Proof. eexists. split; [vm_compute; reflexivity|]. vm_compute. split; reflexivity. Qed.

(* (7) on a stream with slices, counters, metadata and B/E events *)
Example C18_df_nonvacuous :
  let s := {| s_name := "k Cmpt Exec"; s_cat := "kernel"; s_ts := 5 # 2; s_dur := 1 # 4; s_rank := Some 3;
              s_class := None; s_job := None; s_bytes := None; s_pt := None |} in
  let evs := [EvOther "M" "process_name" (0 # 1); EvX "X" s; EvOther "C" "Power" (1 # 1); EvX "X" s] in
  Forall wf_ev evs /\ map row_key (df_export evs) = [(3, 5 # 2, 1 # 4, "k Cmpt Exec"%string); (3, 5 # 2, 1 # 4, "k Cmpt Exec"%string)].
Proof.
  cbn zeta. split.
  - repeat constructor; cbn; discriminate.
  - reflexivity.
Qed.
