(* C18 — TensorBoard per-rank files and DataFrame export are lossless views of the trace.
   Property theorems only; proofs live in theories/Export_proofs.v, the executable model (the one the
   correspondence check runs against exporter.py) in theories/Export.v.
   The TensorBoard statements quantify over an arbitrary event type A and device-entry type D observed through
   the value found under 'pid' / 'id', over all event lists, device lists and save_to_file values. *)
From Coq Require Import ZArith QArith List Bool String Permutation Sorted Lia.
Import ListNotations.
From AiuModel Require Import Base Export Export_proofs.
Local Open Scope Z_scope.

(* (1) the property, for ANY set of present rank ids (no hypothesis on the pids; after fix 0f462ed the rank ids need not
   be 0..R-1).  The rank ids kept by the exporter are strictly ascending and are exactly the non-negative folded ids
   that are present — for r < 1000: some exported event has pid r or 1000+r — so there is no worker for an absent rank;
   rank_cnt is their number and there is one worker view per rank id; the worker files are written unless there is
   exactly one rank (single-rank special case: combined file only); the view of rank r (< 1000) holds exactly the
   events whose pid is r or 1000+r and the device entries whose id is r or 1000+r, in export order; an id that is not
   a present rank has no view; the workers together contain every event with an int pid >= 0 exactly once (multiset
   equality) and nothing else; the combined view holds every exported event. *)
Theorem C18_tb_partition :
  forall (A D : Type) (pid : A -> keyv) (did : D -> keyv) (events : list A) (devices : list D)
         (save : bool) (res : tb_result A D),
    tb_flush pid did events devices save = Some res ->
    StronglySorted Z.lt (tb_rank_ids res) /\
    (forall r, In r (tb_rank_ids res) <-> 0 <= r /\ present pid events r) /\
    (forall r, 0 <= r < 1000 -> (In r (tb_rank_ids res) <-> exists e, In e events /\ pid_in pid r e = true)) /\
    tb_rank_cnt res = List.length (tb_rank_ids res) /\ List.length (workers res) = List.length (tb_rank_ids res) /\
    tb_workers_written res = negb (Nat.eqb (List.length (tb_rank_ids res)) 1) /\
    (forall r, In r (tb_rank_ids res) -> r < 1000 ->
       view_of_rank res r = Some (filter (pid_in pid r) events, filter (pid_in did r) devices)) /\
    (forall r, ~ In r (tb_rank_ids res) -> view_of_rank res r = None) /\
    Permutation (List.concat (workers res)) (filter (pid_nonneg pid) events) /\
    fst (tb_combined res) = events.
Proof. exact @tb_partition. Qed.
Print Assumptions C18_tb_partition.

(* (1') the special case of the dense numbering: R ranks (2 <= R <= 1000), every pid in {0..R-1} u {1000..1000+R-1} u
   {-1}, every rank present, with or without pid -1 events.  Then the rank ids are 0..R-1, worker index = rank, R worker
   files are written, and the workers together contain every event with pid <> -1 exactly once. *)
Theorem C18_tb_partition_dense :
  forall (A D : Type) (pid : A -> keyv) (did : D -> keyv) (R : nat) (events : list A) (devices : list D)
         (save : bool) (res : tb_result A D),
    (2 <= R <= 1000)%nat -> tb_domain pid R events ->
    tb_flush pid did events devices save = Some res ->
    tb_rank_ids res = map Z.of_nat (seq 0 R) /\ tb_rank_cnt res = R /\ List.length (workers res) = R /\
    tb_workers_written res = true /\
    (forall r, (r < R)%nat -> nth_error (workers res) r = Some (filter (pid_in pid (Z.of_nat r)) events)) /\
    Permutation (List.concat (workers res)) (filter (not_m1 pid) events) /\
    fst (tb_combined res) = events.
Proof. exact @tb_partition_dense. Qed.
Print Assumptions C18_tb_partition_dense.

(* (2) no hypothesis on the pids, any rank id (also >= 1000): the i-th view belongs to the i-th rank id r and is exactly
   the events / device entries filed under r (folded id = r; for r < 1000: pid r or 1000+r), in export order; an id
   that is no rank id has no view *)
Theorem C18_tb_worker_content :
  forall (A D : Type) (pid : A -> keyv) (did : D -> keyv) (events : list A) (devices : list D) (save : bool)
         (res : tb_result A D),
    tb_flush pid did events devices save = Some res ->
    (forall i r, nth_error (tb_rank_ids res) i = Some r ->
       nth_error (tb_views res) i = Some (filter (key_is pid r) events, filter (key_is did r) devices)) /\
    (forall r, In r (tb_rank_ids res) ->
       view_of_rank res r = Some (filter (key_is pid r) events, filter (key_is did r) devices) /\
       (r < 1000 -> view_of_rank res r = Some (filter (pid_in pid r) events, filter (pid_in did r) devices))) /\
    (forall r, ~ In r (tb_rank_ids res) -> view_of_rank res r = None).
Proof. exact @tb_worker_content. Qed.
Print Assumptions C18_tb_worker_content.

(* (3) no hypothesis on the pids: the workers together are, as a multiset, the events with an int pid >= 0; an event
   reaches a worker iff its pid is an int >= 0 (pid -1, other negative pids and non-int pids reach none — see the
   Example) *)
Theorem C18_tb_workers_perm :
  forall (A D : Type) (pid : A -> keyv) (did : D -> keyv) (events : list A) (devices : list D) (save : bool)
         (res : tb_result A D),
    tb_flush pid did events devices save = Some res ->
    Permutation (List.concat (workers res)) (filter (pid_nonneg pid) events) /\
    forall e, In e (List.concat (workers res)) <-> In e events /\ pid_nonneg pid e = true.
Proof.
  intros A D pid did events devices save res H. split.
  - exact (tb_workers_perm pid did events devices save res H).
  - intros e. exact (tb_in_worker_iff pid did events devices save res e H).
Qed.
Print Assumptions C18_tb_workers_perm.

(* (4) the combined view is everything that was exported, whatever the pids; it is written iff save_to_file; flush
   raises (KeyError) only if an event has no 'pid' or a device entry no 'id' *)
Theorem C18_tb_combined_all :
  forall (A D : Type) (pid : A -> keyv) (did : D -> keyv) (events : list A) (devices : list D) (save : bool),
    (forall res, tb_flush pid did events devices save = Some res ->
       tb_combined res = (events, devices) /\ tb_combined_written res = save) /\
    ((forall e, In e events -> pid e <> KMissing) -> (forall d, In d devices -> did d <> KMissing) ->
       exists res, tb_flush pid did events devices save = Some res).
Proof.
  intros A D pid did events devices save. split.
  - intros res H. exact (tb_combined_all pid did events devices save res H).
  - exact (flush_total pid did events devices save).
Qed.
Print Assumptions C18_tb_combined_all.

(* (5) "whether the last rank is written must not depend on an unrelated pseudo process": removing the pid -1 events
   changes neither the rank ids nor the rank count nor any worker view *)
Theorem C18_tb_m1_irrelevant :
  forall (A D : Type) (pid : A -> keyv) (did : D -> keyv) (events : list A) (devices : list D) (save : bool)
         (res res' : tb_result A D),
    tb_flush pid did events devices save = Some res ->
    tb_flush pid did (filter (not_m1 pid) events) devices save = Some res' ->
    tb_rank_ids res' = tb_rank_ids res /\ tb_rank_cnt res' = tb_rank_cnt res /\ tb_views res' = tb_views res.
Proof. exact @tb_m1_irrelevant. Qed.
Print Assumptions C18_tb_m1_irrelevant.

(* (6) different ranks never share a worker file name *)
Theorem C18_worker_name_inj :
  forall (target : string) (r1 r2 : nat), worker_name target r1 = worker_name target r2 -> r1 = r2.
Proof. exact worker_name_inj. Qed.
Print Assumptions C18_worker_name_inj.

(* (7) DataFrame: exactly one row per exported slice (event dict with ph "X" of the JSON export of the same event
   stream), in the same order, with the same rank (args.rank, 0 if absent), timestamp, duration and name.
   [wf_ev]: the event classes fix their ph (CompleteEvents "X", every other class rejects "X"). *)
Theorem C18_df_rows :
  forall evs : list tvev, Forall wf_ev evs ->
    map row_key (df_export evs) = map jev_key (filter j_is_slice (json_export evs)) /\
    List.length (df_export evs) = List.length (filter j_is_slice (json_export evs)).
Proof. intros evs H. split; [now apply df_rows_match|now apply df_row_count]. Qed.
Print Assumptions C18_df_rows.

(* (8) regression: with the rank-count rule before fix 6bb49ce (groups - 1) statement (1') is false — a two-rank
   trace without pid -1 events loses its last rank *)
Theorem C18_old_rule_refuted :
  exists (events : list tbev) (res : tb_result tbev tbev),
    tb_domain (@snd Z keyv) 2 events /\
    tb_flush_old (@snd Z keyv) (@snd Z keyv) events [] true = Some res /\
    ~ Permutation (List.concat (workers res)) (filter (not_m1 (@snd Z keyv)) events).
Proof. exact old_rule_refuted. Qed.
Print Assumptions C18_old_rule_refuted.

(* (9) regression: with the worker numbering before fix 0f462ed (workers 0..rank_cnt-1 whatever the rank ids are)
   statement (1) is false — on the ranks {2, 3} every event has a pid >= 0 and none is in a worker *)
Theorem C18_dense_rule_refuted :
  exists (events : list tbev) (res : tb_result tbev tbev),
    (forall e, In e events -> pid_nonneg (@snd Z keyv) e = true) /\
    tb_flush_dense (@snd Z keyv) (@snd Z keyv) events [] true = Some res /\
    ~ Permutation (List.concat (workers res)) (filter (pid_nonneg (@snd Z keyv)) events).
Proof. exact dense_rule_refuted. Qed.
Print Assumptions C18_dense_rule_refuted.

(* ------------------------------------------------------------------ non-vacuity *)
Definition ex_events : list tbev :=
  [(1, KInt 0); (2, KInt 1000); (3, KInt 2); (4, KInt (-1)); (5, KInt 1); (6, KInt 1002); (7, KInt 0); (8, KInt (-1))].

(* the hypotheses of (1') are met by a three-rank trace with pid -1 counters, and the conclusion is what one expects *)
Example C18_domain_nonvacuous :
  tb_domain (@snd Z keyv) 3 ex_events /\
  exists res, tb_flush (@snd Z keyv) (@snd Z keyv) ex_events [(0, KInt 0); (1, KInt 1); (2, KInt 2)] false = Some res /\
    map (map fst) (workers res) = [[1; 2; 7]; [5]; [3; 6]] /\ tb_workers_written res = true /\
    tb_combined_written res = false.
Proof.
  split.
  - split.
    + intros e H. cbn in H.
      repeat (destruct H as [<-|H]; [eexists; split; [reflexivity|cbn; lia]|]). destruct H.
    + intros r Hr. destruct r as [|[|[|r]]]; [| | |lia].
      * exists (1, KInt 0). split; [cbn; tauto|now left].
      * exists (5, KInt 1). split; [cbn; tauto|now left].
      * exists (3, KInt 2). split; [cbn; tauto|now left].
  - eexists. split; [vm_compute; reflexivity|]. vm_compute. repeat split.
Qed.

(* (1) on rank ids that are not 0..R-1 (a subset {2, 5} of a job's ranks, with pid -1 counters, a negative pid and a pid
   that is not an int): workers 2 and 5 and no other, each with the events of its rank; pid -1 / -7 / non-int in none *)
Example C18_gap_nonvacuous :
  exists res, tb_flush (@snd Z keyv) (@snd Z keyv)
                [(1, KInt 5); (2, KInt 2); (3, KOther); (4, KInt 1002); (5, KInt (-1)); (6, KInt 1005); (7, KInt (-7))]
                [(0, KInt 2); (1, KInt 1005); (2, KInt 0)] true = Some res /\
    tb_rank_ids res = [2; 5] /\ tb_rank_cnt res = 2%nat /\ map (map fst) (workers res) = [[2; 4]; [1; 6]] /\
    map (fun v => map fst (snd v)) (tb_views res) = [[0]; [1]] /\
    view_of_rank res 0 = None /\ view_of_rank res 3 = None /\ tb_workers_written res = true.
Proof. eexists. split; [vm_compute; reflexivity|]. vm_compute. repeat split. Qed.

(* a single rank that is not rank 0: one view, no worker file (single-rank special case) *)
Example C18_single_rank :
  exists res, tb_flush (@snd Z keyv) (@snd Z keyv) [(1, KInt 3); (2, KInt 1003); (3, KInt (-1))] [] true = Some res /\
    tb_rank_ids res = [3] /\ map (map fst) (workers res) = [[1; 2]] /\ tb_workers_written res = false /\
    tb_combined_written res = true.
Proof. eexists. split; [vm_compute; reflexivity|]. vm_compute. repeat split. Qed.

(* (7) on a stream with slices, counters, metadata and B/E events *)
Example C18_df_nonvacuous :
  let s := {| s_name := "k Cmpt Exec"; s_cat := "kernel"; s_ts := 5 # 2; s_dur := 1 # 4; s_rank := Some 3;
              s_class := None; s_job := None; s_bytes := None; s_pt := None |} in
  let evs := [EvOther "M" "process_name" (0 # 1); EvX "X" s; EvOther "C" "Power" (1 # 1); EvX "X" s] in
  Forall wf_ev evs /\ map row_key (df_export evs) = [(3, 5 # 2, 1 # 4, "k Cmpt Exec"%string); (3, 5 # 2, 1 # 4, "k Cmpt Exec"%string)].
Proof.
  cbn zeta. split.
  - repeat constructor; cbn; discriminate.
  - reflexivity.
Qed.
