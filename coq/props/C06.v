(* C06 — Device slice durations equal cycle deltas divided by the SoC frequency.
   Property theorems only; model in theories/Timesync.v, proofs in theories/Timesync_proofs.v.

   Reading guide.
   [run_ev f e]      one event through cycle_count_to_wallclock and then tighten_hts_by_instr_type with
                     soc_frequency = f ([Ok e'] = both returned, [Err tag] = the exception that aborts the run);
   [run_all f es]    a whole stream through the two stages;
   [guard e]         the stages' own test "ph == X and args present and TS1 in args" (a device slice);
   [counters e = Some cs]   args.TS1..TS5 are the integers cs (0-based below: cz cs 0 = TS1 .. cz cs 4 = TS5);
   [pair_of name]    the counter pair of the slice's phase as stage 2 reads the name: first of
                     " DmaI"->(0,1), " Cmpt Prep"->(1,2), " Cmpt Exec"->(2,3), " DmaO"->(3,4) contained in it,
                     otherwise (0,4);
   [e_end e]         ts + dur;
   [end_ok name]     the name either contains a phase keyword, or stage 1 classifies it as "other" too
                     (true for every name that does not END in "Cmpt Prep"/"Cmpt Exec"/" DmaI" without
                     containing the keyword with its leading space, e.g. "xCmpt Prep");
   [name_ok name]    both stages pick the same phase (canonical "<prefix> <keyword>" names: C06_canonical_names).
   All statements hold for every rational f, ts, dur and all integer counters; nothing is bounded. *)
From Coq Require Import ZArith QArith List Bool String Lia.
Import ListNotations.
From AiuModel Require Import Base Timesync Timesync_proofs.
Local Open Scope Q_scope.

(* (1) THE property: whenever the two stages return for a device slice, its duration is the cycle delta of
   its phase's counter pair divided by the frequency — for every name, every counters, every f. *)
Theorem C06_duration :
  forall (f : Q) (e e' : ev) (cs : list Z),
    guard e = true -> counters e = Some cs -> run_ev f e = Ok e' ->
    e_dur e' == (cz cs (snd (pair_of (e_name e))) - cz cs (fst (pair_of (e_name e)))) / f.
Proof. exact duration. Qed.
Print Assumptions C06_duration.

(* (2) its end time stays at the host-recorded end (so only the start moves) *)
Theorem C06_end_fixed :
  forall (f : Q) (e e' : ev) (cs : list Z),
    guard e = true -> counters e = Some cs -> end_ok (e_name e) = true -> run_ev f e = Ok e' ->
    e_end e' == e_end e.
Proof. exact end_fixed. Qed.
Print Assumptions C06_end_fixed.

(* (3) strictly positive exactly when the pair's counters are strictly increasing (f > 0) *)
Theorem C06_positive :
  forall (f : Q) (e e' : ev) (cs : list Z),
    0 < f -> guard e = true -> counters e = Some cs -> run_ev f e = Ok e' ->
    (0 < e_dur e' <->
     (nth (fst (pair_of (e_name e))) cs 0 < nth (snd (pair_of (e_name e))) cs 0)%Z).
Proof. exact positive. Qed.
Print Assumptions C06_positive.

(* (4) running with --freq scaled by k rescales the duration by 1/k, keeps the end and moves the start by
   exactly the duration difference *)
Theorem C06_scale :
  forall (f k : Q) (e e1 e2 : ev) (cs : list Z),
    ~ k == 0 -> guard e = true -> counters e = Some cs ->
    run_ev f e = Ok e1 -> run_ev (k * f) e = Ok e2 ->
    e_dur e2 == e_dur e1 / k /\
    (end_ok (e_name e) = true ->
     e_end e2 == e_end e1 /\ e_ts e2 == e_ts e1 + (e_dur e1 - e_dur e2)).
Proof. exact scale. Qed.
Print Assumptions C06_scale.

(* (5) host-only slices (and every other event failing the guard) keep ts, dur and everything else: the very
   same record comes back, for every f *)
Theorem C06_host_unchanged :
  forall (f : Q) (e : ev), guard e = false -> run_ev f e = Ok e.
Proof. exact host_unchanged. Qed.
Print Assumptions C06_host_unchanged.

(* (6) no exception on the property's domain: positive frequency, non-decreasing counters (equal counters
   allowed anywhere), consistently classified name, and the slice widened to TS1 by stage 1 does not start
   before 0 (the code's own `assert ts >= 0`) *)
Theorem C06_no_error :
  forall (f : Q) (e : ev) (cs : list Z),
    0 < f -> guard e = true -> counters e = Some cs -> mono_z cs -> name_ok (e_name e) = true ->
    0 <= e_end e - (cz cs (ref_idx (e_name e)) - cz cs 0) / f ->
    exists e', run_ev f e = Ok e'.
Proof. exact no_error. Qed.
Print Assumptions C06_no_error.

(* (6b) ... and that domain is exact: for f > 0 and a consistently classified device slice the two stages return
   IF AND ONLY IF the counters are non-decreasing and the widened slice starts at >= 0 (these are precisely the
   code's assertions; nothing else can raise once the five counters are integers) *)
Theorem C06_domain_exact :
  forall (f : Q) (e : ev) (cs : list Z),
    0 < f -> guard e = true -> counters e = Some cs -> name_ok (e_name e) = true ->
    ((exists e', run_ev f e = Ok e') <->
     (mono_z cs /\ 0 <= e_end e - (cz cs (ref_idx (e_name e)) - cz cs 0) / f)).
Proof. exact domain_exact. Qed.
Print Assumptions C06_domain_exact.

(* (7) whole streams: if the run over a list of events returns, every slice satisfies (1), (2), start >= 0,
   and every non-device event is unchanged — [slice_ok] unfolds to exactly that *)
Theorem C06_stream :
  forall (f : Q) (es os : list ev),
    run_all f es = Ok os -> Forall2 (slice_ok f) es os.
Proof. exact stream. Qed.
Print Assumptions C06_stream.

Theorem C06_slice_ok_unfold :
  forall f e e', slice_ok f e e' <->
    if guard e then
      forall cs, counters e = Some cs ->
        e_dur e' == (cz cs (snd (pair_of (e_name e))) - cz cs (fst (pair_of (e_name e)))) / f /\
        (end_ok (e_name e) = true -> e_end e' == e_end e) /\ 0 <= e_ts e'
    else e' = e.
Proof. intros. unfold slice_ok. tauto. Qed.
Print Assumptions C06_slice_ok_unfold.

(* (8) canonical names "<prefix> <keyword>" are read consistently by both stages: always for DmaI; for the
   later keywords provided no earlier keyword occurs in the name (stage 2 takes the first one) *)
Theorem C06_canonical_names :
  forall p : string,
    name_ok (p ++ " DmaI") = true /\
    (contains " DmaI" (p ++ " Cmpt Prep") = false -> name_ok (p ++ " Cmpt Prep") = true) /\
    (contains " DmaI" (p ++ " Cmpt Exec") = false -> contains " Cmpt Prep" (p ++ " Cmpt Exec") = false ->
     name_ok (p ++ " Cmpt Exec") = true) /\
    (contains " DmaI" (p ++ " DmaO") = false -> contains " Cmpt Prep" (p ++ " DmaO") = false ->
     contains " Cmpt Exec" (p ++ " DmaO") = false -> name_ok (p ++ " DmaO") = true).
Proof. exact canonical_name_ok. Qed.
Print Assumptions C06_canonical_names.

(* (9) the table in tools.py (FlexEventMapToTS: DmaI TS1-TS2, Cmpt Prep TS2-TS3, Cmpt Exec TS3-TS4,
   DmaO TS4-TS5) names the same pair as stage 2 uses, whenever no earlier bare keyword occurs in the name *)
Theorem C06_flex_table_agrees :
  forall (name : string) (k : nat),
    op_of name = Some k ->
    (forall j kw, (j < k)%nat ->
       nth_error ["DmaI"; "Cmpt Prep"; "Cmpt Exec"; "DmaO"]%string j = Some kw -> contains kw name = false) ->
    flex_lookup name = Some (S k, S (S k)) /\ pair_of name = (k, S k).
Proof.
  intros name k Hop Hno. split; [exact (flex_table_agrees name k Hop Hno)|].
  unfold pair_of. rewrite Hop. reflexivity.
Qed.
Print Assumptions C06_flex_table_agrees.

(* ------------------------------------------------------------------ non-vacuity and observations *)
Definition dev (name : string) (ts dur : Q) (cs : list Z) : ev :=
  mkev true true name ts dur (map TNum cs) None None None.

(* split conjunctions only (never unify inside an equation), then decide each closed leaf by computation *)
Ltac leaf := first [ lazymatch goal with |- mono_z _ => unfold mono_z; cbn [nth]; lia end
                   | vm_compute; reflexivity ].
Ltac conj_vm := repeat match goal with |- _ /\ _ => split end; leaf.
Ltac run_vm := eexists; split; [vm_compute; reflexivity | conj_vm].

(* an Exec slice with equal counters in the unused DmaO phase: TS = 10240,20480,40960,81920,81920 at
   f = 1024 MHz, host ts 1040 dur 40: hypotheses of (1)-(4),(6) hold, result dur = 40 = (81920-40960)/1024,
   end 1080; with 2*f: dur 20, same end *)
Example C06_nonvacuous_exec :
  let e := dev "k1 Cmpt Exec" 1040 40 [10240; 20480; 40960; 81920; 81920]%Z in
  (guard e = true /\ counters e = Some [10240; 20480; 40960; 81920; 81920]%Z /\
   name_ok (e_name e) = true /\ end_ok (e_name e) = true /\ pair_of (e_name e) = (2, 3)%nat /\
   mono_z [10240; 20480; 40960; 81920; 81920]%Z) /\
  (exists e1, run_ev 1024 e = Ok e1 /\ e_dur e1 == 40 /\ e_ts e1 == 1040 /\ e_end e1 == 1080) /\
  (exists e2, run_ev (2 * 1024) e = Ok e2 /\ e_dur e2 == 20 /\ e_ts e2 == 1060 /\ e_end e2 == 1080).
Proof. cbv zeta. split; [conj_vm|]. split; run_vm. Qed.

(* an "other" device slice (no keyword): pair TS1-TS5, and a DmaO slice with a zero own gap: dur = 0 *)
Example C06_nonvacuous_other :
  let e := dev "other dev" 1010 150 [10240; 20480; 40960; 81920; 163840]%Z in
  let z := dev "k1 DmaO" 1080 0 [10240; 20480; 40960; 81920; 81920]%Z in
  (name_ok (e_name e) = true /\ pair_of (e_name e) = (0, 4)%nat /\ name_ok (e_name z) = true) /\
  (exists e1, run_ev 1024 e = Ok e1 /\ e_dur e1 == 150 /\ e_end e1 == 1160) /\
  (exists z1, run_ev 1024 z = Ok z1 /\ e_dur z1 == 0 /\ e_end z1 == 1080).
Proof. cbv zeta. split; [conj_vm|]. split; run_vm. Qed.

(* (5) is not vacuous: a host slice, a counter event and a slice without TS1 fail the guard *)
Example C06_nonvacuous_host :
  guard (mkev true true "host op" 3 4 [] None None None) = false /\
  guard (mkev false true "k Cmpt Exec" 3 4 (map TNum [1; 2; 3; 4; 5]%Z) None None None) = false /\
  guard (mkev true true "k DmaI" 3 4 [TMissing; TNum 2; TNum 3; TNum 4; TNum 5] None None None) = false.
Proof. conj_vm. Qed.

(* the assertions are live: the same Exec slice whose host end lies before (TS4-TS1)/f raises, as do
   decreasing counters; f = 0 divides by zero *)
Example C06_errors_reachable :
  run_ev 1024 (dev "k1 Cmpt Exec" 20 40 [10240; 20480; 40960; 81920; 81920]%Z) = Err "AssertionError" /\
  run_ev 1024 (dev "k1 Cmpt Exec" 1040 40 [10240; 20480; 40960; 81920; 81919]%Z) = Err "AssertionError" /\
  run_ev 0 (dev "k1 Cmpt Exec" 1040 40 [10240; 20480; 40960; 81920; 81920]%Z) = Err "ZeroDivisionError".
Proof. conj_vm. Qed.

(* OBSERVATION (outside the property's well-formed names, recorded in DESIGN 4/C06): a keyword that is a
   suffix but lacks the leading space is an Exec/Prep slice for stage 1 and an "other" slice for stage 2;
   [end_ok] is false and the end really moves: host end 1080, exported end 1080 + (TS5-TS3)/f = 1200 *)
Example C06_midname_end_moves :
  let e := dev "xCmpt Prep" 1040 40 [10240; 20480; 40960; 81920; 163840]%Z in
  end_ok (e_name e) = false /\
  exists e', run_ev 1024 e = Ok e' /\ e_end e == 1080 /\ e_end e' == 1200 /\ e_dur e' == 150.
Proof. cbv zeta. split; [vm_compute; reflexivity | run_vm]. Qed.
