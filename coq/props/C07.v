From Coq Require Import ZArith QArith List Bool String.
Import ListNotations.
From AiuModel Require Import Base MpSync MpSync_proofs.
Theorem C07_noop_pre : forall es, active (gather_all es) = false -> mp_run es = Ok (emit (all_events (gather_all es))).
Proof. exact noop. Qed.
Print Assumptions C07_noop_pre.
