(* C07 — Multi-AIU clock alignment is a rigid per-rank shift, blind to counter epochs.
   Property theorems only; model in theories/MpSync.v, proofs in theories/MpSync_proofs.v.

   Reading guide.
   [mp_run es]        the whole mp_sync_tight_v1 stage on the event stream es: every event is buffered by the
                      callback, the context's drain() returns [Ok out] (or [Err tag] = the exception / sys.exit);
   [gather_all es]    the context after the last callback: buffer, proc_ids (pids that own a collective event),
                      coll_groups (group names seen on pid 0);
   [active s]         the drain's own test "at least one collective group and more than one pid";
   [calib_of s = Ok c]  the calibration: c_shifts (dts_shifts per pid), c_off (dts_2_hts_ref_offset),
                      c_tree (TP_tree_reduce), c_idx (reference group);
   [has_ts5 e]        "TS5" in e.args: a device slice;  [dev_of e] = args.ts_dev = [TS1..TS5]/soc_frequency;
   [op_id name]       index of the phase start counter: DmaI 0 (TS1), Prep 1 (TS2), Exec 2 (TS3), DmaO 3 (TS4), else 0;
   [off c pid]        the placement offset of a rank = dts_shifts[pid] + dts_2_hts_ref_offset;
   [placed c e e']    e' is e moved to ts = ts_dev[op_id] + off c pid, same dur/uid/pid/name, ts_dev and ts_all
                      shifted by the rank constants — or e itself when e carries no TS5;
   [emit l]           reversed buffer, stably sorted by ts (what the drain finally returns);
   [bump k e]         e with k(pid e) added to all five device times (its rank's counters offset by k(pid)*f cycles);
   [tree_es es]       rank 0's events of the first used group carry "AllReduce_all_reduce" in their names (true for
                      every chain all-reduce trace: the sync tags contain the group name);
   [same_view a b]    a and b agree on uid, pid, name, ts (as rationals), dur, group, TS5 flag and args.ts_all;
   [last_end es gs p k j]  the greatest ts_dev[k] among the events of rank p in the j-th used group.
   All statements hold for every stream, every number of ranks/groups and all rational times; nothing is bounded. *)
From Coq Require Import ZArith QArith List Bool String Lia Permutation Sorted.
Import ListNotations.
From AiuModel Require Import Base MpSync MpSync_proofs.
Local Open Scope Z_scope.

(* (1) THE rigid shift: whenever the stage returns after aligning, there is one calibration c — hence one offset
   [off c pid] per rank — such that every buffered event comes out [placed]: device slices at
   ts_dev[phase start] + off(pid) with their duration untouched, everything else unchanged; and the output is
   just the stable ts-sort of the reversed buffer. *)
Theorem C07_rigid :
  forall (es out : list ev), mp_run es = Ok out -> active (gather_all es) = true ->
    exists c es', calib_of (gather_all es) = Ok c /\ Forall2 (placed c) es es' /\ out = emit es'.
Proof. exact rigid. Qed.
Print Assumptions C07_rigid.

(* (1') in terms of cycle counters: with ts_dev = [TS1..TS5]/f (what tighten_hts_by_instr_type stores, C06) a placed
   device slice sits at TSa/f + off(pid), TSa the start counter of its phase, and keeps its duration *)
Theorem C07_rigid_counters :
  forall (c : calib) (e e' : ev) (f : Q) (cs : list Z),
    placed c e e' -> has_ts5 e = true ->
    dev_of e = Some (map (fun z => (inject_Z z / f)%Q) cs) -> (op_id (e_name e) < List.length cs)%nat ->
    (e_ts e' == inject_Z (nth (op_id (e_name e)) cs 0%Z) / f + off c (e_pid e))%Q /\ e_dur e' = e_dur e.
Proof. exact placed_counters. Qed.
Print Assumptions C07_rigid_counters.

(* (2) no action: fewer than two pids with collective events, or no collective group on pid 0 -> nothing but the
   re-sort happens (no field of any event changes) *)
Theorem C07_noop :
  forall es, active (gather_all es) = false -> mp_run es = Ok (emit es).
Proof. exact noop. Qed.
Print Assumptions C07_noop.

Theorem C07_noop_single_rank :
  forall es p, (forall e, In e es -> e_pid e = p) -> mp_run es = Ok (emit es).
Proof. exact noop_single_rank. Qed.
Print Assumptions C07_noop_single_rank.

Theorem C07_noop_collective_free :
  forall es, (forall e, In e es -> cg_of e = None) -> mp_run es = Ok (emit es).
Proof. exact noop_collective_free. Qed.
Print Assumptions C07_noop_collective_free.

(* (3) the drain returns every buffered event exactly once, sorted by ts (used by C01 and C13) *)
Theorem C07_perm :
  forall es out, mp_run es = Ok out ->
    Permutation (map e_uid out) (map e_uid es) /\ StronglySorted ts_le out /\ List.length out = List.length es.
Proof. exact perm_sorted. Qed.
Print Assumptions C07_perm.

(* (4) epoch blindness: offset all cycle counters of every rank by its own arbitrary constant k(pid) — the stage
   still returns, and every drained event is the same as before in everything the export can see (same order,
   same uid, same ts, same dur, same wall-clock TS1..TS5).  BOTH branches of the calibration (P_map identity when
   rank 0's first group carries the reduce tag, reversed otherwise), any number of ranks.  Hypothesis: non-negative
   pids on device slices (dts_shifts[pid] wraps around for negative pids).
   History: until /repo fix "C07" the reference offset dts_2_hts_ref_offset was taken from rank 0's UNSHIFTED
   counters; in the reversed branch with three or more ranks rank 0 is itself shifted, and the statement was false
   there (this file used to carry C07_reversed_branch_refuted with a three-rank witness; the check's oracle had been
   restricted to the tree branch, which was a mistake: DESIGN 8.3/8.4).  seeded/revert_fix_C07 re-introduces it. *)
Theorem C07_epoch_blind :
  forall (k : Z -> Q) (es out : list ev),
    mp_run es = Ok out ->
    (forall e, In e es -> has_ts5 e = true -> 0 <= e_pid e) ->
    exists out2, mp_run (map (bump k) es) = Ok out2 /\ Forall2 same_view out out2.
Proof. exact epoch_blind. Qed.
Print Assumptions C07_epoch_blind.

(* (5) what "aligned on their collectives" means after the calibration (tree branch): on the shifted device clocks
   rank 0 is the reference (shift 0); in no used group does rank 1's last receive (TS2) end before rank 0's last
   send (TS5), with equality in the reference group c_idx; every further rank ends its last receive of the FIRST
   used group together with rank 1. *)
Theorem C07_aligned :
  forall es c,
    active (gather_all es) = true -> calib_of (gather_all es) = Ok c -> c_tree c = true ->
    let gs := groups_used (coll_groups (gather_all es)) in
    let np := List.length (proc_ids (gather_all es)) in
    (shift_of c 0 == 0)%Q /\
    (forall j, (j < List.length gs)%nat ->
       (last_end es gs 0 4 j + shift_of c 0 <= last_end es gs 1 1 j + shift_of c 1)%Q) /\
    (c_idx c < List.length gs)%nat /\
    (last_end es gs 1 1 (c_idx c) + shift_of c 1 == last_end es gs 0 4 (c_idx c) + shift_of c 0)%Q /\
    (forall r, (2 <= r < np)%nat ->
       (last_end es gs (Z.of_nat r) 1 0 + shift_of c (Z.of_nat r) == last_end es gs 1 1 0 + shift_of c 1)%Q).
Proof. exact aligned. Qed.
Print Assumptions C07_aligned.

(* (6) the former counter-example of the reversed branch (three ranks, rank 0's names without the tag, rank 1's counters
   offset by one): now the same export - a concrete instance of (4) in that branch, with its premises met. *)
Theorem C07_chain_branch_instance :
  tree_es wit_chain = false /\
  exists out out2, mp_run wit_chain = Ok out /\ mp_run (map (bump wit_c) wit_chain) = Ok out2 /\
                   ts_eqb_list out out2 = true /\ List.length out = 3%nat.
Proof. exact chain_witness_blind. Qed.
Print Assumptions C07_chain_branch_instance.

(* ---- non-vacuity: a three-rank tagged trace meets every hypothesis above *)
Example C07_premises_met :
  active (gather_all wit_tree) = true /\ tree_es wit_tree = true /\
  (exists out, mp_run wit_tree = Ok out) /\
  (exists c, calib_of (gather_all wit_tree) = Ok c /\ c_tree c = true) /\
  (forall e, In e wit_tree -> has_ts5 e = true -> 0 <= e_pid e).
Proof.
  split; [vm_compute; reflexivity|]. split; [vm_compute; reflexivity|].
  split; [eexists; vm_compute; reflexivity|]. split; [eexists; split; vm_compute; reflexivity|].
  intros e He _. simpl in He. destruct He as [<-|[<-|[<-|[<-|[]]]]]; simpl; lia.
Qed.

(* the aligned trace really moves the ranks (rank 1 from 20 to 10, rank 2 from 30 to 10: both receives now end
   with rank 0's send) and leaves the host slice alone; equal ts come out in reversed buffer order *)
Example C07_concrete :
  match mp_run wit_tree with
  | Ok out => map (fun e => (e_uid e, Qred (e_ts e))) out = [(4, 5%Q); (3, 10%Q); (2, 10%Q); (1, 10%Q)]
  | Err _ => False
  end.
Proof. vm_compute. reflexivity. Qed.

(* the no-op premises are met as well: one rank / no collective *)
Example C07_noop_premises_met :
  active (gather_all [wit_ev 1 0 "a DmaO" 3%Q; wit_ev 2 0 "b DmaI" 1%Q]) = false.
Proof. vm_compute. reflexivity. Qed.
