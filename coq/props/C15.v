(* C15 — Multi-file ingestion is a loss-free time-ordered merge with correct B/E pairing.
   Property theorems only; the model is theories/Ingest.v, the proofs are in theories/Ingest_proofs.v.
   All statements quantify over any number of files with any contents (no size bound).
   Vocabulary (Ingest.v):
     init_file f          the per-file iterator state after JsonFileEventTraceIngest.__init__
     file_events s / file_end s / file_final s
                          everything the per-file iterator yields until StopIteration (EStop) or an
                          exception (EErr), and its final state (warning counters, rank_pid)
     multi files          MultifileIngest: one __iter__, then __next__ until StopIteration/exception
     merged files         the emitted (event, file index) list;   proj j = sub-list that came from file j
     timed l              the ts values of the events of l that have a ts, in order (events without a ts -
                          metadata - have no place in time and are not part of an order claim)
     key / key_leb        the code's sort key: ts, or -inf (None, below every number) when ts is absent *)
From Coq Require Import ZArith QArith List Bool String Permutation Sorted.
Import ListNotations.
From AiuModel Require Import Base Ingest Ingest_proofs Ftype.

(* (1) completeness: if no per-file iterator raises, the iteration ends normally within the model's
   fuel, never having taken the silent-drop branch, and leaves every per-file iterator in the state
   of a fully iterated file (so the warning counters are those of complete per-file iterations). *)
Theorem C15_merge_complete :
  forall files : list file,
    all_ok (map init_file files) ->
    exists out, multi files = (out, Done, map file_final (map init_file files)).
Proof. exact merge_complete. Qed.
Print Assumptions C15_merge_complete.

(* (2) loss-free, exactly once: the merged stream is a permutation of the concatenated per-file streams *)
Theorem C15_merge_perm :
  forall files : list file,
    all_ok (map init_file files) ->
    Permutation (map fst (merged files)) (List.concat (map file_events (map init_file files))).
Proof. exact merge_perm. Qed.
Print Assumptions C15_merge_perm.

(* (3) every file's events appear in the merged stream in that file's own order, completely *)
Theorem C15_merge_per_file_order :
  forall files : list file,
    all_ok (map init_file files) ->
    forall j, proj j (merged files) = file_events (nth j (map init_file files) F0).
Proof. exact merge_per_file_order. Qed.
Print Assumptions C15_merge_per_file_order.

(* (4) time order, as the property states it: if in every file the events that have a ts are
   non-decreasing in ts, the events of the merged stream that have a ts are non-decreasing in ts.
   For all rational ts (negative included); events without ts may stand anywhere in the files (a file
   X@5, M, X@7 meets the hypothesis). *)
Theorem C15_merge_sorted :
  forall files : list file,
    all_ok (map init_file files) ->
    Forall (fun s => StronglySorted Qle (timed (file_events s))) (map init_file files) ->
    StronglySorted Qle (timed (map fst (merged files))).
Proof. exact merge_sorted. Qed.
Print Assumptions C15_merge_sorted.

(* (4') a file whose raw events that have a ts are non-decreasing yields a stream whose events that have
   a ts are non-decreasing (B/E pairs keep B.ts, events are only dropped) *)
Theorem C15_raw_sorted_stream_sorted :
  forall s : fstate,
    StronglySorted Qle (timed (f_rest s)) -> StronglySorted Qle (timed (file_events s)).
Proof. exact raw_sorted_stream_sorted. Qed.
Print Assumptions C15_raw_sorted_stream_sorted.

(* (5) pairing: over the grammar  X slice | adjacent B/E pair (same name) | metadata M (also instant i /
   async b, e without dur), WITH OR WITHOUT an args dict | counter,
   the per-file stream is exactly the kept tokens in order, a pair becoming one X slice with
   dur = E.ts - B.ts at B's ts, metadata passed on; tokens with dur < 0 resp. 0 <= dur <= double(1e-9)
   are skipped and counted in the negative_duration resp. zero_duration warning; no exception. *)
Theorem C15_pairing :
  forall (f : file) (toks : list token),
    fl_processed f = false -> fl_evs f = flatten toks -> forallb wf_tok toks = true ->
    map core (file_events (init_file f)) = expected toks /\
    file_end (init_file f) = EStop /\
    f_zero (file_final (init_file f)) = count is_zero toks /\
    f_neg (file_final (init_file f)) = count is_neg toks.
Proof. exact pairing. Qed.
Print Assumptions C15_pairing.

(* (6) rank attribution (FLEX): with R = the preset rank, or, if that is -1, the pid of the first
   annotated event (X, B, M, i, b, e), and R <> -1: every annotated event of the file's stream carries
   rank R in the dict the code annotates (a fresh one if the event had none), and pid R when R >= 0. *)
Theorem C15_rank_attr :
  forall (f : file) (toks : list token),
    fl_processed f = false -> fl_evs f = flatten toks -> forallb wf_tok toks = true ->
    first_rank (fl_rank0 f) toks <> (-1)%Z ->
    Forall (rank_ok (first_rank (fl_rank0 f) toks)) (file_events (init_file f)).
Proof. exact rank_attr. Qed.
Print Assumptions C15_rank_attr.

(* (7) the model's fuel (events + files + 1) always suffices, whatever the files contain *)
Theorem C15_fuel_sufficient :
  forall files : list file, snd (fst (multi files)) <> OutOfFuel.
Proof. exact fuel_sufficient. Qed.
Print Assumptions C15_fuel_sufficient.

(* the hypothesis [all_ok] of (1)-(4) is met by every file set of the property's domain *)
Theorem C15_wf_files_ok :
  forall files : list file,
    Forall (fun f => fl_processed f = true \/
                     exists toks, fl_evs f = flatten toks /\ forallb wf_tok toks = true) files ->
    all_ok (map init_file files).
Proof. exact wf_files_ok. Qed.
Print Assumptions C15_wf_files_ok.

(* (10) which input is read as JSON at all (ingestion.py::detect_ftype, model Ftype.v): every path with ".json" somewhere
   in it, whatever stands in front of it or behind it - other known extensions as substrings (run.logs/r0.json,
   aiu.login1.rank2.json, x.pftrace.bak/f.json) included.  A file that is not taken for JSON is skipped with one ERROR line
   and every event of that rank is lost, so this is part of "yields every event of every file". *)
Theorem C15_json_path_is_json :
  forall a b : string, detect_ftype (a ++ ".json" ++ b)%string = FJson.
Proof. exact json_anywhere_is_json. Qed.
Print Assumptions C15_json_path_is_json.

Example C15_json_path_examples :
  detect_ftype "run.logs/r0.json"%string = FJson /\ detect_ftype "aiu.login1.rank2.json"%string = FJson /\
  detect_ftype "x.pftrace.bak/f.json"%string = FJson /\ detect_ftype "compile.log"%string = FLog /\
  detect_ftype "api://jsonbuffer"%string = FApi /\ detect_ftype "t.pftrace"%string = FPftrace.
Proof. repeat split; vm_compute; reflexivity. Qed.

(* ---------------------------------------------------------------- non-vacuity *)
Local Open Scope Z_scope.
Definition xev (uid : Z) (ph : string) (ts : Q) (dur : option Q) (pid : Z) : ev :=
  mkEv uid (Some ph) (Some "k"%string) (Some ts) dur (Some pid) (Some (None, None)) None.
Definition ex_toks0 : list token :=
  [TBE (xev 0 "B" 1 None 2) (xev 1 "E" 3 None 7);           (* pair, dur 2 *)
   TX (xev 2 "X" 3 (Some 0%Q) 2);                           (* zero duration: skipped *)
   TBE (xev 4 "B" 3 None 2) (xev 5 "E" (5 # 2) None 2);     (* negative duration: skipped *)
   TM (mkEv 6 (Some "M"%string) (Some "process_name"%string) (Some 4%Q) None (Some 9) None None);  (* no args *)
   TM (mkEv 7 (Some "i"%string) (Some "inst"%string) (Some 4%Q) None (Some 9) None None);          (* no args *)
   TX (xev 8 "X" 4 (Some 1%Q) 3)].
Definition ex_toks1 : list token := [TX (xev 1000 "X" 1 (Some 2%Q) 5); TX (xev 1002 "X" 4 (Some 1%Q) 5)].
Definition ex_files : list file :=
  [mkFile 11 (-1) false (flatten ex_toks0); mkFile 12 (-1) false (flatten ex_toks1); mkFile 13 (-1) false []].

Example C15_nonvacuous :
  (* hypotheses of (5), (6) *)
  forallb wf_tok ex_toks0 = true /\ forallb wf_tok ex_toks1 = true /\ first_rank (-1) ex_toks0 = 2 /\
  (* hypotheses of (1)-(4) *)
  all_ok (map init_file ex_files) /\ streams_sorted (map init_file ex_files) /\
  (* what the model computes: ties at ts 1 and 4 go to the most recently appended file, two files
     interleave, the third is empty; counters 1 zero / 1 negative in file 0 *)
  map (fun it => (e_uid (fst it), snd it)) (merged ex_files) = [(1000, 1%nat); (0, 0%nat); (6, 0%nat); (7, 0%nat); (8, 0%nat); (1002, 1%nat)] /\
  map (fun s => (f_zero s, f_neg s, f_rank s)) (snd (multi ex_files)) = [(1, 1, 2); (0, 0, 5); (0, 0, -1)].
Proof.
  split; [reflexivity|]. split; [reflexivity|]. split; [reflexivity|].
  split.
  { apply C15_wf_files_ok.
    apply Forall_cons; [|apply Forall_cons; [|apply Forall_cons; [|apply Forall_nil]]].
    - right. exists ex_toks0. split; reflexivity.
    - right. exists ex_toks1. split; reflexivity.
    - right. exists []. split; reflexivity. }
  split.
  { unfold streams_sorted, ex_files. cbn [map].
    apply Forall_cons; [|apply Forall_cons; [|apply Forall_cons; [|apply Forall_nil]]].
    - (* file 0 is NOT ordered as raw text (the negative pair), its stream is *)
      vm_compute.
      repeat (apply SSorted_cons || apply SSorted_nil || apply Forall_cons || apply Forall_nil);
        discriminate.
    - (* file 1 through (4'): raw order *)
      apply C15_raw_sorted_stream_sorted.
      vm_compute.
      repeat (apply SSorted_cons || apply SSorted_nil || apply Forall_cons || apply Forall_nil);
        discriminate.
    - vm_compute. apply SSorted_nil. }
  split; vm_compute; reflexivity.
Qed.

(* events without an args dict are in the domain: they are passed on exactly once, carrying the latched rank
   (and the rank as pid) in a fresh args dict; the rank is latched from the first of them *)
Example C15_meta_without_args_annotated :
  let f := mkFile 1 (-1) false
             [mkEv 0 (Some "M"%string) (Some "process_name"%string) None None (Some 4) None None;
              mkEv 1 (Some "i"%string) (Some "inst"%string) (Some 2%Q) None (Some 9) None None;
              xev 2 "X" 3 (Some 1%Q) 9] in
  file_end (init_file f) = EStop /\
  map (fun e => (e_uid e, e_pid e, e_args e)) (file_events (init_file f)) =
    [(0, Some 4, Some (Some 4, None)); (1, Some 4, Some (Some 4, None)); (2, Some 4, Some (Some 4, Some 1))].
Proof. vm_compute. split; reflexivity. Qed.

(* a malformed pair is an exception of the per-file iterator (so [all_ok] really excludes something) *)
Example C15_lone_E_raises :
  file_end (init_file (mkFile 1 (-1) false [xev 0 "E" 1 None 0])) = EErr "AssertionError".
Proof. vm_compute. reflexivity. Qed.

(* the time axis may start below zero, and an event without ts does not hold its file back: files
   [M (no ts), X@-1/2] and [X@0].  Both meet the hypothesis of (4); the model emits M first (key -inf),
   then X@-1/2, then X@0 - the timed events of the merge are -1/2, 0.
   (With the former key "0 when ts is absent" the merge was X@0, M, X@-1/2.) *)
Definition ex_neg_files : list file :=
  [mkFile 21 (-1) false
     [mkEv 0 (Some "M"%string) (Some "process_name"%string) None None (Some 0) (Some (None, None)) None;
      xev 2 "X" (-1 # 2) (Some 1%Q) 0];
   mkFile 22 (-1) false [xev 1000 "X" 0 (Some 1%Q) 1]].
Example C15_negative_ts_meta_without_ts :
  all_ok (map init_file ex_neg_files) /\
  Forall (fun s => StronglySorted Qle (timed (file_events s))) (map init_file ex_neg_files) /\
  map (fun it => (e_uid (fst it), e_ts (fst it), snd it)) (merged ex_neg_files) =
    [(0, None, 0%nat); (2, Some (-1 # 2)%Q, 0%nat); (1000, Some 0%Q, 1%nat)] /\
  timed (map fst (merged ex_neg_files)) = [(-1 # 2)%Q; 0%Q] /\
  StronglySorted Qle (timed (map fst (merged ex_neg_files))).
Proof.
  assert (Hok : all_ok (map init_file ex_neg_files)).
  { unfold all_ok, ex_neg_files. cbn [map]. repeat constructor. }
  assert (Hs : Forall (fun s => StronglySorted Qle (timed (file_events s))) (map init_file ex_neg_files)).
  { unfold ex_neg_files. cbn [map].
    apply Forall_cons; [|apply Forall_cons; [|apply Forall_nil]]; vm_compute;
      repeat (apply SSorted_cons || apply SSorted_nil || apply Forall_cons || apply Forall_nil); discriminate. }
  split; [exact Hok|]. split; [exact Hs|]. split; [vm_compute; reflexivity|]. split; [vm_compute; reflexivity|].
  exact (C15_merge_sorted ex_neg_files Hok Hs).
Qed.

(* an event without ts in the middle of a file does not make the file "unordered": [X@5, M, X@7] and [X@6]
   meet the hypothesis of (4) (the former hypothesis - ordered by the key - excluded the first file) *)
Example C15_mid_file_meta_without_ts :
  let files := [mkFile 31 (-1) false
                  [xev 0 "X" 5 (Some 1%Q) 0;
                   mkEv 2 (Some "M"%string) (Some "process_name"%string) None None (Some 0) (Some (None, None)) None;
                   xev 4 "X" 7 (Some 1%Q) 0];
                mkFile 32 (-1) false [xev 1000 "X" 6 (Some 1%Q) 1]] in
  Forall (fun s => StronglySorted Qle (timed (file_events s))) (map init_file files) /\
  map (fun it => e_uid (fst it)) (merged files) = [0; 2; 1000; 4] /\
  timed (map fst (merged files)) = [5%Q; 6%Q; 7%Q].
Proof.
  cbv zeta. split; [|split; vm_compute; reflexivity].
  cbn [map]. apply Forall_cons; [|apply Forall_cons; [|apply Forall_nil]]; vm_compute;
    repeat (apply SSorted_cons || apply SSorted_nil || apply Forall_cons || apply Forall_nil); discriminate.
Qed.
