(* C09 — flow arrows connect each matched send to its receive, with unique paired ids.
   Property theorems only; definitions in theories/Flow.v (the model the tie executes), proofs in
   theories/Flow_proofs.v.  [run_flow] = flow_prepare_event_data ; flow_extraction ; flow_data_cleanup over a whole
   stream followed by the drain of CollectiveGroupingContext.  All statements hold for arbitrary streams / queues
   (no size bound); [Ok] excludes exactly the runs in which the real code raises. *)
From Coq Require Import ZArith QArith List String Ascii Permutation Lia.
Import ListNotations.
From AiuModel Require Import Base Flow Flow_proofs SyncTag.
Local Open Scope Z_scope.

(* (1) every exported flow id occurs on exactly one 's' and one 'f' (or on none) and both carry the same name.
   [plain e]: the input slice is not itself an s/f event. *)
Theorem C09_ids :
  forall (es : list iev) (c : fctx) (out : list oev),
    Forall plain es -> run_flow es = Ok (c, out) ->
    forall i : Z,
      cnt "s" i out = cnt "f" i out /\ (cnt "s" i out <= 1)%nat /\
      (forall a b, In a out -> In b out -> is_flow a = true -> is_flow b = true ->
                   o_id a = Some i -> o_id b = Some i -> o_name a = o_name b).
Proof. exact ids_paired. Qed.
Print Assumptions C09_ids.

(* (2) the arrows of a run are, up to order, [s; f] pairs numbered 1000001, 1000002, ... by a strictly increasing
   counter; every pair joins a SEND-typed helper (SingleCast / MultiCast XSEG) with a DONE-typed helper (WDone Barrier)
   of the same sync tag on the pid the send names first, and both helpers are the copies flow_prepare_event_data made
   of input slices. *)
Theorem C09_pairs_sound :
  forall (es : list iev) (c : fctx) (out : list oev),
    Forall plain es -> run_flow es = Ok (c, out) ->
    exists np : list (Z * (hev * hev)),
      Permutation (filter is_flow out) (flat_map pair_events np) /\
      map fst np = ids_from 1000000 (List.length np) /\
      c_next c = 1000000 + Z.of_nat (List.length np) /\
      Forall (fun p : hev * hev =>
                from_input es (fst p) /\ from_input es (snd p) /\
                h_type (fst p) = T_SEND /\ h_type (snd p) = T_DONE /\ h_sync (snd p) = h_sync (fst p) /\
                exists rest, h_peers (fst p) = h_pid (snd p) :: rest) (map snd np).
Proof. exact run_flow_pairs. Qed.
Print Assumptions C09_pairs_sound.

(* (3) where the two ends sit: 's' on the sender's pid/tid at the send's start, 'f' (bp = e) on the receiver's pid/tid,
   both named by the send's sync tag, no 'dur'; the 'f' timestamp is the binary64 rounding of (receive end - 0.001), and
   that exact point lies inside the receive slice as soon as the slice lasts 0.001 us. *)
Theorem C09_arrow_placement :
  forall (id : Z) (e d : hev),
    (let s := mk_s id e in let f := mk_f id e d in
     o_ph s = "s"%string /\ o_ph f = "f"%string /\ o_id s = Some id /\ o_id f = Some id /\
     o_name s = h_sync e /\ o_name f = h_sync e /\
     o_pid s = h_pid e /\ o_tid s = h_tid e /\ o_ts s = h_ts e /\
     o_pid f = h_pid d /\ o_tid f = h_tid d /\ o_bp f = true /\ o_bp s = false /\
     o_ts f = b64_round (h_end d - c_0001)%Q /\ o_dur s = None /\ o_dur f = None) /\
    (forall dur : Q, h_dur d = Some dur -> (c_0001 <= dur)%Q ->
                     (h_ts d <= h_end d - c_0001)%Q /\ (h_end d - c_0001 < h_end d)%Q).
Proof. intros id e d. split; [apply arrow_fields | intros dur; apply f_exact_inside]. Qed.
Print Assumptions C09_arrow_placement.

(* (4) one group check pairs exactly the SEND-typed events that have a DONE partner in the queue, once each and in
   queue order; sends without partner get nothing; both members come from the queue. *)
Theorem C09_build_complete :
  forall (q : list hev) (ps : list (hev * hev)),
    build_pairs q = Ok ps ->
    map fst ps = filter (fun e => (h_type e =? T_SEND) && has_partner q e) q /\
    Forall (fun p => In (fst p) q /\ In (snd p) q) ps.
Proof. intros q ps. apply build_pairs_from_complete. Qed.
Print Assumptions C09_build_complete.

(* (5) the completion verdict depends only on the multiset of queued helper events *)
Theorem C09_detect_final_perm :
  forall q q' : list hev, Permutation q q' -> detect_final q = detect_final q'.
Proof. exact detect_final_perm. Qed.
Print Assumptions C09_detect_final_perm.

(* (6) the canonical chain all-reduce group over N = n+1 ranks, for EVERY n >= 1 (N-1 single-casts and their receives,
   BCList, N-1 XSEG, data multicast, N-1 receives; tid/ts/dur/name/cat/jobhash arbitrary through [dec]; sync tags
   pairwise distinct): in every arrival order the group is complete and every SEND-typed slice has its partner, so by (4)
   it gets exactly one pair. *)
Theorem C09_chain :
  forall (n : nat) (tag : nat -> string) (tagM : string),
    (1 <= n)%nat ->
    (forall i j, (i < n)%nat -> (j < n)%nat -> tag i = tag j -> i = j) ->
    (forall i, (i < n)%nat -> tag i <> tagM) ->
    forall (dec : nat -> hev) (q : list hev),
      Permutation q (chain n tag tagM dec) ->
      detect_final q = true /\
      (forall e, In e q -> h_type e = T_SEND -> has_partner q e = true).
Proof.
  intros n tag tagM Hn Hi Hf dec q HP. split.
  - now apply (chain_final n tag tagM Hn Hi Hf dec).
  - now apply (chain_sends_matched n tag tagM dec).
Qed.
Print Assumptions C09_chain.

(* (7) a chain group that lacks any single slice is not complete, in any arrival order: it yields no arrow *)
Theorem C09_chain_minus_one :
  forall (n : nat) (tag : nat -> string) (tagM : string),
    (1 <= n)%nat ->
    (forall i j, (i < n)%nat -> (j < n)%nat -> tag i = tag j -> i = j) ->
    (forall i, (i < n)%nat -> tag i <> tagM) ->
    forall (dec : nat -> hev) (h : hev) (q : list hev),
      Permutation (h :: q) (chain n tag tagM dec) -> detect_final q = false.
Proof. exact chain_minus_one. Qed.
Print Assumptions C09_chain_minus_one.

(* (8) no helper event (ph F) leaves the three stages, whatever the input *)
Theorem C09_no_helpers :
  forall (es : list iev) (c : fctx) (out : list oev),
    run_flow es = Ok (c, out) -> Forall (fun o => o_ph o <> "F"%string) out.
Proof. exact run_flow_clean. Qed.
Print Assumptions C09_no_helpers.

(* (9) the sync tag is read exactly, for EVERY event name of the shape  <front> [sync=<tag>]<rest>  whose front has no
   opening bracket and whose tag has no closing bracket - whatever follows (a size tag "[65536B]", a phase word, more
   brackets).  Matching sends and receives compares these tags for equality; with the greedy pattern that the repair
   74a044f replaced, the statement was false for rest = " [65536B] DmaI" (the receive's tag came out as "T] [65536B"). *)
Theorem C09_sync_tag_read_exactly :
  forall front tag rest : string,
    has_char "["%char front = false -> has_char "]"%char tag = false ->
    find_sync (front ++ " [sync=" ++ tag ++ "]" ++ rest)%string = Some tag.
Proof. exact find_sync_reads_the_tag. Qed.
Print Assumptions C09_sync_tag_read_exactly.

Example C09_sync_tag_size_behind :
  find_sync "SenRdmaRecv_52394 [sync=AllReduce_all_reduce_10_s0_r1_0] [65536B] DmaI"%string
  = Some "AllReduce_all_reduce_10_s0_r1_0"%string /\
  find_sync "SenRdmaRecv_52394 [65536B] [sync=AllReduce_all_reduce_10_s0_r1_0] DmaI"%string
  = Some "AllReduce_all_reduce_10_s0_r1_0"%string.
Proof. split; vm_compute; reflexivity. Qed.

(* ---------------------------------------------------------------- non-vacuity *)
(* a two-rank chain all-reduce as it reaches flow_prepare_event_data, in global ts order *)
Definition ex_ev (name : string) (pid : Z) (ts dur : Q) (peer peers : option peerdata) (ty : string) (uid : Z) : iev :=
  mkI "X" true name pid 1000 ts (Some dur) peer peers (Some ty) (Some "G"%string) false (Some 7) uid.
Definition ex_stream : list iev :=
  [ ex_ev "SenRdmaRecv_2 [64B] [sync=G_s0_r1_0] DmaI" 1 9 8 (Some (PStr "0")) None "WDone Barrier" 1;
    ex_ev "SenRdmaSend_1 [sync=G_s0_r1_0] DmaO" 0 10 5 (Some (PStr "1")) None "SingleCast" 2;
    ex_ev "SenRdmaRecv_4 [64B] [sync=G_s1_r0x1_2] DmaI" 0 16 9 (Some (PStr "1")) None "WDone Barrier" 3;
    ex_ev "SenRdmaSend_3 - Set BcList [sync=G_s1_r0x1_2] DmaO" 1 18 1 None (Some (PStr "0")) "Set BCList" 4;
    ex_ev "SenRdmaSend_3 - Xseg to rank 0 [sync=G_s1_r0x1_2] DmaO" 1 19 1 (Some (PStr "0")) None "MultiCast XSEG" 5;
    ex_ev "SenRdmaSend_3 Data [sync=G_s1_r0x1_2] DmaO" 1 20 3 None None "MultiCast" 6 ].

Example C09_example_run :
  Forall plain ex_stream /\
  match run_flow ex_stream with
  | Ok (c, out) => (c_next c, List.length (filter is_flow out), List.length out)
  | Err _ => (0, 0%nat, 0%nat)
  end = (1000002, 4%nat, 10%nat).
Proof. split; [repeat constructor | vm_compute; reflexivity]. Qed.

(* the hypotheses of (6)/(7) are met, e.g. by numbered tags; a 4-rank instance evaluates as the theorem says *)
Definition ex_tag (i : nat) : string := String (Ascii.ascii_of_nat (48 + i)) "t".
Definition ex_dec (k : nat) : hev := mkH 0 (1000 + Z.of_nat k) (inject_Z (Z.of_nat k)) (Some 1%Q) "n" "G" "" 0 [] 7.
Example C09_example_chain :
  (forall i j, (i < 3)%nat -> (j < 3)%nat -> ex_tag i = ex_tag j -> i = j) /\
  (forall i, (i < 3)%nat -> ex_tag i <> "M"%string) /\
  detect_final (rev (chain 3 ex_tag "M" ex_dec)) = true /\
  match build_pairs (rev (chain 3 ex_tag "M" ex_dec)) with Ok ps => List.length ps | Err _ => 0%nat end = 6%nat /\
  detect_final (tl (chain 3 ex_tag "M" ex_dec)) = false.
Proof.
  split; [|split; [|split; [|split]]].
  - intros i j Hi Hj. destruct i as [|[|[|i]]], j as [|[|[|j]]]; try lia; try reflexivity; vm_compute; discriminate.
  - intros i Hi. destruct i as [|[|[|i]]]; try lia; vm_compute; discriminate.
  - vm_compute. reflexivity.
  - vm_compute. reflexivity.
  - vm_compute. reflexivity.
Qed.
