(* C19 — Time-weighted power statistics partition time correctly and respect bounds (--power-stats).
   Property theorems only; the model is theories/PowerStats.v (power_stats.py), the proofs are in
   theories/PowerStats_proofs.v.  All statements are about the definitions the correspondence
   (harness/props/c19.py) executes against the real code; none has a size bound. *)
From Coq Require Import ZArith QArith List Bool String.
Import ListNotations.
From AiuModel Require Import Base PowerStats PowerStats_proofs.
Local Open Scope Q_scope.

(* (1) _merge_periods: for kernel intervals of positive length the merged timeline consists of
   non-empty intervals, each ending STRICTLY before every later one starts (so it is sorted and
   pairwise separated by a gap) ... *)
Theorem C19_merge_wf :
  forall ps : list period, (forall x, In x ps -> fst x < snd x) -> wf_tl (merge_periods ps).
Proof. exact merge_wf. Qed.
Print Assumptions C19_merge_wf.

(* ... and it covers exactly the points the raw kernel intervals cover (no hypothesis at all). *)
Theorem C19_merge_same_union :
  forall (ps : list period) (t : Q), covered (merge_periods ps) t <-> covered ps t.
Proof. exact merge_same_union. Qed.
Print Assumptions C19_merge_same_union.

(* (2) _split_power_period against a legal timeline: the segments, laid end to end from the period
   start, have positive durations and end exactly at the period end; a segment is flagged iff every
   point of it is covered by a kernel and unflagged iff no point is ([tiled]); the durations add up
   to end - start; every segment carries the period's power. *)
Theorem C19_split_partition :
  forall (ps pe p : Q) (tl : list period), ps < pe -> wf_tl tl ->
    tiled (covered tl) ps (split_period ps pe p tl) pe /\
    qsum (map sdur (split_period ps pe p tl)) == pe - ps /\
    (forall s, In s (split_period ps pe p tl) -> 0 < sdur s /\ spow s = p).
Proof. exact split_partition. Qed.
Print Assumptions C19_split_partition.

(* the flagged part is the measure of the overlap of [ps,pe) with the (disjoint) timeline *)
Theorem C19_split_measure :
  forall (ps pe p : Q) (tl : list period), ps < pe -> (forall x, In x tl -> fst x < snd x) ->
    flagged_time (split_period ps pe p tl) == qsum (map (olen ps pe) tl).
Proof. exact split_measure. Qed.
Print Assumptions C19_split_measure.

(* (3) total sampled time: if the accepted power samples arrive in non-decreasing ts order (events
   before the first sample are arbitrary non-samples, kernels and ignored events may be interleaved
   anywhere), the recorded power periods add up to last sample ts - first sample ts. *)
Theorem C19_sampled_time :
  forall (pre : list pev) (e0 : pev) (f w0 : Q) (evs : list pev),
    (forall e, In e pre -> sample_of e = None) -> sample_of e0 = Some (f, w0) -> chain f evs ->
    exists l w, st_last (run_events (pre ++ e0 :: evs)) = Some (l, w) /\ f <= l /\
                ptime (run_events (pre ++ e0 :: evs)) == l - f.
Proof. exact sampled_time. Qed.
Print Assumptions C19_sampled_time.

(* (4) drain, for EVERY event sequence (no order, no well-formedness assumed): the durations
   reported with and without kernels add up to the sum of the power periods (nothing lost, nothing
   counted twice), and the duration reported with kernels is the sum, over the power periods, of the
   overlap with the merged kernel timeline. *)
Theorem C19_drain_partition :
  forall (evs : list pev) (a b : option stats), drain (run_events evs) = Some (a, b) ->
    dur_of a + dur_of b == ptime (run_events evs) /\
    dur_of a == qsum (map (fun pp => qsum (map (olen (fst (fst pp)) (snd (fst pp)))
                                               (merge_periods (st_kernels (run_events evs)))))
                          (st_periods (run_events evs))).
Proof. exact drain_partition_full. Qed.
Print Assumptions C19_drain_partition.

(* (5) each time-weighted average is sum(P*dt) / sum(dt) over its segments *)
Theorem C19_averages :
  forall (segs : list wseg) (s : stats), wstats segs = Some s ->
    s_dur_total s = qsum (durs segs) /\
    s_dur_nz s = qsum (durs (nonzero segs)) /\
    (0 < qsum (durs segs) -> s_avg_total s = wsum segs / qsum (durs segs)) /\
    (0 < qsum (durs (nonzero segs)) ->
     s_mean_nz s = wsum (nonzero segs) / qsum (durs (nonzero segs))).
Proof. exact averages. Qed.
Print Assumptions C19_averages.

(* (6) bounds of the reported values, for any non-empty group of segments with positive durations
   and non-negative power:  min_nz <= median_nz <= max,  min_nz <= mean_nz <= max,  dur_nz <= dur_total *)
Theorem C19_bounds :
  forall segs : list wseg, segs <> [] -> (forall s, In s segs -> 0 < fst s /\ 0 <= snd s) ->
    exists st, wstats segs = Some st /\
      s_min_nz st <= s_median_nz st /\ s_median_nz st <= s_max st /\
      s_min_nz st <= s_mean_nz st /\ s_mean_nz st <= s_max st /\
      s_dur_nz st <= s_dur_total st.
Proof. exact wstats_bounds. Qed.
Print Assumptions C19_bounds.

(* ... and therefore for both lines drain reports, for every event sequence with Watts >= 0 *)
Theorem C19_drain_bounds :
  forall evs : list pev, (forall e, In e evs -> forall w, e_watts e = Some w -> 0 <= w) ->
    forall a b, drain (run_events evs) = Some (a, b) ->
    forall s, a = Some s \/ b = Some s ->
      s_min_nz s <= s_median_nz s /\ s_median_nz s <= s_max s /\
      s_min_nz s <= s_mean_nz s /\ s_mean_nz s <= s_max s /\
      s_dur_nz s <= s_dur_total s.
Proof. exact drain_bounds_events. Qed.
Print Assumptions C19_drain_bounds.

(* the hypothesis Watts >= 0 of (6) is necessary: with a negative power the code reports
   min_non_zero = 0 > max (outside the tool's domain: compute_power yields 0..100 W) *)
Theorem C19_bounds_need_nonneg :
  exists segs st, (forall s, In s segs -> 0 < fst s) /\ wstats segs = Some st /\ s_max st < s_min_nz st.
Proof.
  exists [(1, -(1))], (mkStats 0 (-(1)) 0 0 (-(1) / 1) 1 0).
  split; [intros s [<-|[]]; reflexivity|]. split; reflexivity.
Qed.
Print Assumptions C19_bounds_need_nonneg.

(* ---------------------------------------------------------------- non-vacuity *)
Ltac in_cases H := repeat (destruct H as [<-|H]); [..|destruct H].

(* (1): overlapping, nested, touching and separate kernels *)
Example C19_merge_nonvacuous :
  let ks := [(12, 13); (2, 5); (0, 10); (10, 11); (20, 21)] in
  (forall x, In x ks -> fst x < snd x) /\
  merge_periods ks = [(0, 11); (12, 13); (20, 21)] /\ wf_tl (merge_periods ks).
Proof.
  cbv zeta.
  assert (H : forall x, In x [(12, 13); (2, 5); (0, 10); (10, 11); (20, 21)] -> fst x < snd x)
    by (intros x H; in_cases H; reflexivity).
  split; [exact H|]. split; [vm_compute; reflexivity|]. now apply C19_merge_wf.
Qed.

(* (2): a period cut by a kernel straddling its start, one inside, one touching its end from
   outside (ignored) — five segments, alternating flags *)
Example C19_split_nonvacuous :
  let tl := merge_periods [(0, 2); (4, 6); (8, 12); (13, 15)] in
  wf_tl tl /\ 1 < 13 /\
  map seg_val (split_period 1 13 7 tl)
  = map seg_val [(1, 7, true); (2, 7, false); (2, 7, true); (2, 7, false); (4, 7, true); (1, 7, false)].
Proof.
  cbv zeta. split; [|split; [reflexivity|vm_compute; reflexivity]].
  apply C19_merge_wf. intros x H. in_cases H; reflexivity.
Qed.

Definition ex_power (ts w : Q) : pev := mkEv (Some "C"%string) (Some "Power"%string) (Some ts) None (Some w).
Definition ex_kernel (ts d : Q) : pev := mkEv (Some "X"%string) (Some "add Cmpt Exec"%string) (Some ts) (Some d) None.

(* (3), (4), (6): a kernel event first, samples at 1, 3, 3 (equal ts), 7 with a second kernel
   in between: periods (1,3,10) (3,7,0); with kernels 2.5, without 3.5, total 6 = 7 - 1 *)
Example C19_pipeline_nonvacuous :
  let evs := [ex_kernel (1 # 2) 1; ex_power 1 10; ex_kernel 2 2; ex_power 3 20; ex_power 3 0; ex_power 7 5] in
  sample_of (ex_kernel (1 # 2) 1) = None /\ sample_of (ex_power 1 10) = Some (1, 10) /\
  chain 1 [ex_kernel 2 2; ex_power 3 20; ex_power 3 0; ex_power 7 5] /\
  (forall e, In e evs -> forall w, e_watts e = Some w -> 0 <= w) /\
  exists a b, drain (run_events evs) = Some (Some a, Some b) /\
              s_dur_total a == 5 # 2 /\ s_dur_total b == 7 # 2 /\ ptime (run_events evs) == 6 /\
              s_avg_total a == 6 /\ s_mean_nz b == 10.
Proof.
  cbv zeta. split; [reflexivity|]. split; [reflexivity|]. split.
  - cbn. repeat split; discriminate.
  - split.
    + intros e H w Hw. in_cases H; cbn in Hw; inversion Hw; discriminate.
    + eexists. eexists. split; [vm_compute; reflexivity|]. repeat split; vm_compute; reflexivity.
Qed.

(* (6): zero-power segments, ties in the median *)
Example C19_bounds_nonvacuous :
  let segs := [(1, 0); (2, 10); (1, 5); (2, 5)] in
  segs <> [] /\ (forall s, In s segs -> 0 < fst s /\ 0 <= snd s) /\
  val_eqb (wstats_val segs) (VL [VQ 5; VQ 10; VQ 7; VQ 5; VQ (35 # 6); VQ 6; VQ 5]) = true.
Proof.
  cbv zeta. split; [discriminate|]. split; [|vm_compute; reflexivity].
  intros s H. in_cases H; split; cbn; first [reflexivity | discriminate].
Qed.
