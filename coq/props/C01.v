(* C01 — every input slice is exported exactly once unless a documented rule removes it.
   Property theorems only; proofs in theories/Conservation.v (pipeline mechanics, fully general) and
   theories/C01_proofs.v (instance over the registration program generated from /repo's acelyzer.py). *)
From Coq Require Import List Arith ZArith.
Import ListNotations.
From AiuModel Require Import Base Pipeline Profile Conservation C01Model C01_proofs.
From AiuGen Require Import Registration Profiles.

(* (1) Mechanics.  Arbitrary event type E, context-state type St, key type U; arbitrary stages [gs] with
   arbitrary callbacks and drains and arbitrary sharing of context cells; [keyl] = keys an event carries,
   [hld]/[led] = keys a context state withholds / has recorded as deliberately discarded.  If every stage
   balances per key [u] on every callback invocation and every drain, then running all inputs through the
   pipeline and draining it (Engine.run) balances globally:
       exported + withheld after + ledgers after  =  input + withheld before + ledgers before.
   No bound on the number of stages, events, or on how much is buffered when the input ends. *)
Theorem C01_mechanics :
  forall (E St U : Type) (ueq : forall a b : U, {a = b} + {a <> b})
         (keyl : E -> list U) (hld led : St -> list U) (u : U) (cs : list nat),
    NoDup cs ->
    forall (gs : list (stage E St)) (st : store St) (es : list E),
      Forall (cb_law ueq keyl hld led u) gs -> Forall (dr_law ueq keyl hld led u) gs ->
      Forall (fun g => In (cid g) cs) gs ->
      let '(st1, o1) := inputs gs st es in
      let '(st2, o2) := drain gs st1 in
      cnt ueq u (Conservation.keys keyl (o1 ++ o2)) + phi ueq hld led u cs st2
      = cnt ueq u (Conservation.keys keyl es) + phi ueq hld led u cs st.
Proof. exact run_conservation. Qed.
Print Assumptions C01_mechanics.

(* (2) After the drain no context withholds anything, however contexts are shared: buffered events cannot be
   stranded by sorting, barriers, clock alignment or bandwidth stages when the input ends. *)
Theorem C01_nothing_withheld :
  forall (E St U : Type) (hld : St -> list U) (gs : list (stage E St)),
    Forall (dr_empties hld) gs ->
    forall (st : store St) (g : stage E St), In g gs -> hld (fst (drain gs st) (cid g)) = [].
Proof. exact drain_leaves_nothing. Qed.
Print Assumptions C01_nothing_withheld.

(* (3) The registration program of the current source, under every valuation [v] of its guard atoms (every
   combination of stage-selecting options, and more), every profile flag list [P], every option value [o]
   (skip/count, keep_prep, -F, -O drop) and every input stream [es]: each uid is exported exactly as often as it
   came in minus the number of times a discarding stage recorded it, and nothing is left in any context. *)
Theorem C01_program :
  forall (o : aopts) (v : nat -> bool) (P : prof) (es : list aev) (u : Z),
    let '(out, st, gs) := run_full o v P es in
    count_occ Z.eq_dec (C01Model.keys out) u + sum_led u (cells gs) st = count_occ Z.eq_dec (C01Model.keys es) u
    /\ (forall g, In g gs -> c_hold (st (cid g)) = []).
Proof. exact program_conservation. Qed.
Print Assumptions C01_program.

(* (4) ... and every uid a stage records in its ledger was discarded under that stage's documented rule, on an
   event of the input: Prep slice without keep_prep, --drop_globals name, --event_filter match, -F without X,
   -O drop removal, or a non-metadata event rejected by the limiter; everything exported is an input event. *)
Theorem C01_drops_documented :
  forall (o : aopts) (es : list aev) (v : nat -> bool) (P : prof),
    let '(out, st, gs) := run_full o v P es in
    Forall (from_input es) out /\
    (forall g, In g gs -> Forall (led_ok o es) (c_led (st (cid g)))).
Proof. exact drops_documented. Qed.
Print Assumptions C01_drops_documented.

(* (5) the stage list the instance runs IS the list EventProcessor.register_stage keeps under forward name matching
   (C16), for every valuation and every profile over the program's names *)
Theorem C01_stage_list_is_registered :
  forall (v : nat -> bool) (P : prof), map fst P = names the_program ->
    map (fun x => r_name (snd x)) (selected v P the_program) = registered P (calls v the_program).
Proof. exact selected_is_registered. Qed.
Print Assumptions C01_stage_list_is_registered.

(* non-vacuity: a stream with a Prep slice, a global-named slice, a filtered slice and a slice beyond the count
   limit, run through the full default pipeline with --drop_globals: the four are recorded under their rules and
   the remaining two are exported *)
Example C01_nonvacuous :
  let mk u w f p g := {| a_uid := u; a_x := true; a_meta := false; a_inwin := w; a_filt := f; a_prep := p;
                         a_glob := g; a_ovl := false |} in
  let es := [mk 1 true false false false; mk 2 true false true false; mk 3 true false false true;
             mk 4 true true false false; mk 5 true false false false; mk 6 true false false false]%Z in
  let o := {| o_skip := 0; o_count := 5; o_keep_prep := false; o_fx := true; o_drop := false |} in
  let v := fun n => match n with 5 | 6 | 7 | 16 | 18 => true | _ => false end in
  let '(out, st, gs) := run_full o v everything es in
  zsort (C01Model.keys out) = [1; 5]%Z /\ List.length gs = 36.
Proof. vm_compute. split; reflexivity. Qed.
