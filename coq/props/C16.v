(* C16 — every stage the command line requests is registered, for all flag combinations.
   Property theorems only; proofs in theories/Profile_proofs.v (general) and theories/Registration_facts.v
   (instantiation on the registration program and profiles GENERATED from /repo's current source).
   [v] ranges over ALL valuations of the guard atoms (one atom per syntactically distinct `if` condition of
   Acelyzer.register_processing_functions): a superset of the reachable command-line combinations. *)
From Coq Require Import List String Bool Arith.
Import ListNotations.
From AiuModel Require Import Profile Profile_proofs Registration_facts.
From AiuGen Require Import Registration Profiles.

(* general lemma: structural separation => each selected registration is matched at its own profile entry *)
Theorem C16_forward_matching :
  forall (v : nat -> bool) (p : program) (P : prof),
    sep_static p = true -> map fst P = names p ->
    register P (calls v p) = selflags P (mask v p).
Proof. exact register_program. Qed.
Print Assumptions C16_forward_matching.

(* shipped default profile (and everything.json): every requested stage is registered once, in order *)
Theorem C16_default :
  forall (v : nat -> bool) (P : prof), from_json profile_default everything = Some P ->
    registered P (calls v the_program) = calls v the_program.
Proof. exact default_registers_all. Qed.
Print Assumptions C16_default.

Theorem C16_everything :
  forall v : nat -> bool, registered everything (calls v the_program) = calls v the_program.
Proof. exact everything_registers_all. Qed.
Print Assumptions C16_everything.

(* a profile that disables entry k: it is ingested unchanged and exactly the registration corresponding to
   entry k is skipped (the requested list is [sel everything (mask v the_program)]) *)
Theorem C16_single_disabled :
  forall (v : nat -> bool) (k : nat),
    from_json (Some (disable_at k everything)) everything = Some (disable_at k everything) /\
    registered (disable_at k everything) (calls v the_program) = sel everything (mask_off k (mask v the_program)).
Proof. exact single_disabled. Qed.
Print Assumptions C16_single_disabled.

Theorem C16_requested_is_sel :
  forall v : nat -> bool, sel everything (mask v the_program) = calls v the_program.
Proof. intros v. apply sel_calls. exact names_aligned. Qed.
Print Assumptions C16_requested_is_sel.

(* torch_minimal (selected by --tb) and any other requested profile: the registered list is the requested
   list filtered by the flag found at each registration's own entry *)
Theorem C16_torch_minimal :
  forall v : nat -> bool,
    from_json profile_torch_minimal everything = Some torch_minimal /\
    registered torch_minimal (calls v the_program) =
      keep (calls v the_program) (selflags torch_minimal (mask v the_program)).
Proof. intros v. split; [exact torch_minimal_ingested|exact (torch_minimal_registers v)]. Qed.
Print Assumptions C16_torch_minimal.

Theorem C16_any_profile :
  forall (v : nat -> bool) (pd : option prof) (P : prof), from_json pd everything = Some P ->
    registered P (calls v the_program) = keep (calls v the_program) (selflags P (mask v the_program)).
Proof. exact any_profile. Qed.
Print Assumptions C16_any_profile.

(* context sharing (DESIGN 3.2 "sharing_ok"): whenever two registrations that share a context object both execute and
   another registration lies between them, a pipeline_barrier registration between them executes too - for EVERY
   valuation of the guard atoms.  With Pipeline.barrier_separates this is what makes the two-phase stages (normalize
   phase 1/2, overlap tids/events, utilization fingerprints/compute, communication collect/apply, categorizer, launch
   flows) see the whole stream in their first phase before the second starts. *)
Theorem C16_shared_contexts_separated :
  forall (v : nat -> bool) (a : program) (ri : reg) (mid : program) (rj : reg) (b : program),
    the_program = (a ++ ri :: mid ++ rj :: b)%list -> share ri rj = true -> mid <> [] ->
    geval v (r_guard ri) = true -> geval v (r_guard rj) = true ->
    exists r, In r mid /\ is_barrier_reg r = true /\ geval v (r_guard r) = true.
Proof. exact program_sharing_sound. Qed.
Print Assumptions C16_shared_contexts_separated.

(* non-vacuity: a valuation that switches on power counters, flow and comm summarisation registers all four
   sort_events / four barriers; switching TID overlap off drops exactly one barrier *)
Example C16_nonvacuous :
  let v := fun n => match n with 7 | 8 | 12 | 13 | 16 | 18 => true | _ => false end in
  List.length (filter (String.eqb "sort_events") (registered everything (calls v the_program))) = 4 /\
  List.length (filter (String.eqb "pipeline_barrier") (registered everything (calls v the_program))) = 4 /\
  List.length (filter (String.eqb "pipeline_barrier") (registered everything (calls (fun _ => false) the_program))) = 3 /\
  List.length (registered (disable_at 18 everything) (calls v the_program)) + 1 = List.length (calls v the_program).
Proof. vm_compute. repeat split; reflexivity. Qed.
