(* C20 — Communication summarization replaces each sequence by the hull of its parts.
   Property theorems only; model in theories/CommSumm.v, proofs in theories/CommSumm_proofs.v.
   All statements quantify over arbitrary event streams (any length, any number of jobs/ranks, any
   interleaving of sequences, any names); times are exact rationals.

   History: until /repo commit ce60951 the key was int(str(job) + digits).  That encoding is not injective
   (job 441 / "15" and job 4411 / "5" both give 44115: two sequences of two files were merged into one slice)
   and is falsy for job 0 / "0" (that sequence was never summarized).  Found by this check (F8), fixed in
   /repo; the key is now the pair (job, digit string), so no injectivity hypothesis is left.  The seeded
   patch seeded/revert_fix_C20 re-introduces it; corpus/C20/{d02,d03,e01,e02}*.json are the witnesses.
   Until /repo commit cff7329 only args.Peer of a part was collected: the peers a part LISTS in args.Peers (the
   BcList part of a multicast carries nothing else) were missing from the merged slice.  Found by this check,
   fixed in /repo; (2) now speaks about Peer and Peers of every part, without a restriction on the input's Peers.
   seeded/revert_fix_C20d re-introduces it; corpus/C20/d10*, d13*, d14* are witnesses. *)
From Coq Require Import List ZArith QArith String Sorted.
Import ListNotations.
From AiuModel Require Import Base Pipeline CommSumm CommSumm_proofs JobIds JobIds_proofs.
Local Open Scope Z_scope.

(* (1) THE CORE.  [summarize] = the collection stage over the whole stream, then the apply stage over the
   same stream (what the barrier makes of the two registrations, see (6)).  Event by event its output is:
   not a part of a sequence -> the event itself; a part that is followed by another part of the same
   (job, number) -> nothing; the last part -> the slice [merged] built from the summary of ALL parts of that
   sequence.  Hence the merged slice sits at the position of the last part and everything else keeps its
   order.  Hypothesis = exactly the guard under which the real code does not raise. *)
Theorem C20_summarize_spec :
  forall es : list ev, nobad es -> summarize es = Ok (spec es es).
Proof. exact summarize_spec. Qed.
Print Assumptions C20_summarize_spec.

(* (2) the summary of a non-empty list of parts is their hull and the union of their peers: the slice
   emitted for the sequence starts at the earliest start, ends (ts + dur) at the latest end, and lists
   exactly the peers of the parts - what a part names in args.Peer and every (non-blank) entry of what it
   lists in args.Peers, for ALL parts - each once (strictly ascending = a set). *)
Theorem C20_hull :
  forall (ps : list ev) (d : seqd) (e : ev), summary_of ps = Some d ->
    let m := merged e d in
    (forall p, In p ps -> (e_ts m <= e_ts p)%Q) /\ (exists p, In p ps /\ e_ts m = e_ts p) /\
    (forall p, In p ps -> (e_ts p + e_dur p <= q_end d)%Q) /\ (exists p, In p ps /\ q_end d = (e_ts p + e_dur p)%Q) /\
    e_dur m = (q_end d - e_ts m)%Q /\
    (exists l, e_peers m = Some (map PInt l) /\ Sorted Z.lt l /\
               forall z, In z l <-> exists p, In p ps /\
                 (e_peer p = PInt z \/ exists pl, e_peers p = Some pl /\ In (PInt z) pl)) /\
    e_uid m = e_uid e /\ e_job m = e_job e /\ e_x m = e_x e.
Proof.
  intros ps d e H m. destruct (hull_start ps d H) as [S1 S2]. destruct (hull_end ps d H) as [E1 E2].
  destruct (hull_peers ps d H) as [P1 P2]. subst m. cbn [merged e_ts e_dur e_peers e_uid e_job e_x].
  repeat split; try assumption. exists (q_peers d). split; [reflexivity|]. split; [exact P1|].
  intros z. rewrite P2. split; intros (p & Hp & N); exists p; (split; [exact Hp | now apply names_iff]).
Qed.
Print Assumptions C20_hull.

(* (3) with pairwise distinct uids: among the exported slices exactly one carries the uid of a part of
   sequence k, namely the hull slice of (2) carrying the uid of the last part. *)
Theorem C20_one_slice_per_sequence :
  forall (es : list ev) (k : key) (out : list ev),
    nobad es -> NoDup (uids es) -> parts k es <> [] -> summarize es = Ok out ->
    exists pre l d, parts k es = pre ++ [l] /\ summary_of (parts k es) = Some d /\
                    filter (fun o => memz (e_uid o) (uids (parts k es))) out = [merged l d].
Proof. exact one_slice_per_sequence. Qed.
Print Assumptions C20_one_slice_per_sequence.

(* (4) ... and the exported slices whose uid is not the uid of a part are exactly the input events that
   are not parts of any sequence: unchanged (every field) and in their input order. *)
Theorem C20_others_unchanged :
  forall (es out : list ev),
    nobad es -> NoDup (uids es) -> summarize es = Ok out ->
    filter (fun o => negb (memz (e_uid o) (uids (filter is_cand es)))) out =
    filter (fun e => negb (is_cand e)) es.
Proof. exact others_unchanged. Qed.
Print Assumptions C20_others_unchanged.

(* (5) "sequence" = SenRdma X-slices of one job (= input file) with the same digit string after the first
   [_-]: two parts have the same key iff same job and same number. *)
Theorem C20_key_is_file_and_number :
  forall e1 e2 k1 k2, candidate e1 = Some k1 -> candidate e2 = Some k2 ->
    (k1 = k2 <-> e_job e1 = e_job e2 /\ first_seq (e_name e1) = first_seq (e_name e2)).
Proof. exact key_is_file_and_number. Qed.
Print Assumptions C20_key_is_file_and_number.

(* (5b) "one input file" = one job: the ids the ingestion gives the inputs of one run (crc32(path) % 10000, next free
   id on a clash; JobIds.v) are pairwise different for different paths and differ from the id of the multi-file
   ingest itself, for any number of inputs below 10000 and whatever the hash values are - and the probing loop always
   ends.  Until /repo commit d978a9e two paths with equal crc32 % 10000 were one job, and (5) then merged the
   sequences of two files (corpus/C20/e02_two_inputs_share_a_job_id.json; seeded/revert_fix_C20c). *)
Theorem C20_inputs_have_distinct_jobs :
  forall (top : Z) (l : list (nat * Z)) (js : list Z),
    run_ids top l = Some js -> Z.of_nat (List.length l) < 10000 ->
    (forall a p h, nth_error l a = Some (p, h) -> p <> 0%nat) ->
    List.length js = List.length l /\
    forall a b pa ha pb hb ia ib, a <> b ->
      nth_error l a = Some (pa, ha) -> nth_error l b = Some (pb, hb) ->
      nth_error js a = Some ia -> nth_error js b = Some ib -> pa <> pb -> ia <> ib.
Proof. exact run_ids_distinct. Qed.
Print Assumptions C20_inputs_have_distinct_jobs.

(* ... and a path that is listed twice among the inputs of one run is ONE job: both occurrences get the same id
   (stated over the loop that follows the multi-file ingest's own registration; any starting table). *)
Theorem C20_same_path_same_job :
  forall (l : list (nat * Z)) (t : table) (js : list Z) (a b p : nat) (h ia ib : Z),
    assign t l = Some js -> Z.of_nat (List.length t + List.length l) < 10000 -> (a < b)%nat ->
    nth_error l a = Some (p, h) -> nth_error l b = Some (p, h) ->
    nth_error js a = Some ia -> nth_error js b = Some ib -> ia = ib.
Proof. exact assign_same_path. Qed.
Print Assumptions C20_same_path_same_job.

Theorem C20_job_ids_always_assigned :
  forall (top : Z) (l : list (nat * Z)), Z.of_nat (List.length l) < 10000 -> run_ids top l <> None.
Proof. exact run_ids_total. Qed.
Print Assumptions C20_job_ids_always_assigned.

(* (6) the operational pipeline of Pipeline.v with the three registrations of acelyzer.py
   (collection ; pipeline_barrier ; apply — the two comm stages SHARE one context, so stream_compose's
   well-formedness does not apply and this is proved directly) exports exactly [summarize es]. *)
Theorem C20_two_phase :
  forall (es out : list ev), summarize es = Ok out -> run comm_graph comm_st0 es = out.
Proof. exact two_phase. Qed.
Print Assumptions C20_two_phase.

(* (7) outside the guard of (1): some part of a sequence carries a Peer, or an entry in its Peers, that int()
   rejects -> ValueError. *)
Theorem C20_error_branch :
  forall es : list ev, forallb peer_ok es = false -> summarize es = Err "ValueError".
Proof. exact error_branch. Qed.
Print Assumptions C20_error_branch.

(* ---------- non-vacuity ---------- *)
Definition x (uid : Z) (name : string) (job : Z) (ts dur : Z) (p : peer) : ev :=
  mkev true name job (inject_Z ts) (inject_Z dur) p uid None.
Definition mg (uid : Z) (name : string) (job : Z) (ts dur : Z) (p : peer) (l : list Z) : ev :=
  mkev true name job (inject_Z ts) (inject_Z dur) p uid (Some (map PInt l)).
(* a part with an args.Peers *)
Definition xl (uid : Z) (name : string) (job : Z) (ts dur : Z) (p : peer) (pl : list peer) : ev :=
  mkev true name job (inject_Z ts) (inject_Z dur) p uid (Some pl).
(* two interleaved sequences of one job, the same number in a second job, a slice without number, a host
   slice; the old key of (441,"15") and (4411,"5") collides *)
Definition ex_stream : list ev :=
  [ x 1 "host op" 441 1 50 PNone;
    x 2 "SenRdma_15 a" 441 2 3 (PInt 1);
    x 3 "SenRdma_5 a" 4411 102 3 (PInt 0);
    x 4 "SenRdma_16 a" 441 4 1 (PInt 3);
    x 5 "SenRdma_15 b" 441 6 3 (PInt 2);
    x 6 "SenRdma_5 b" 4411 106 3 (PInt 3);
    x 7 "SenRdma nonum" 441 30 2 (PInt 1);
    x 8 "SenRdma-15 c" 441 1 1 (PInt 1) ].

Example C20_nonvacuous :
  nobad ex_stream /\ NoDup (uids ex_stream) /\
  List.length (parts (441, "15"%string) ex_stream) = 3%nat /\
  List.length (parts (4411, "5"%string) ex_stream) = 2%nat /\
  map ev_val (spec ex_stream ex_stream) =
    map ev_val
    [ x 1 "host op" 441 1 50 PNone;
      mg 4 "SenRdma_16 a" 441 4 1 (PInt 3) [3];
      mg 6 "SenRdma_5 " 4411 102 7 (PInt 3) [0; 3];
      x 7 "SenRdma nonum" 441 30 2 (PInt 1);
      mg 8 "SenRdma" 441 1 8 (PInt 1) [1; 2] ] /\
  forallb peer_ok [x 1 "SenRdma_1" 0 0 1 PBad] = false /\
  forallb peer_ok [xl 1 "SenRdma_1" 0 0 1 (PInt 1) [PInt 2; PBad]] = false /\
  forallb peer_ok [xl 1 "Set BCList" 0 0 1 PBad [PBad]] = true.
Proof.
  split; [reflexivity|]. split.
  - unfold uids. cbn. repeat constructor; cbn; intuition discriminate.
  - repeat split; vm_compute; reflexivity.
Qed.

(* the pipeline of (6) on the same stream *)
Example C20_pipeline_example :
  map ev_val (run comm_graph comm_st0 ex_stream) = map ev_val (spec ex_stream ex_stream).
Proof. vm_compute. reflexivity. Qed.

(* job 0 / sequence "0" (old key 0, falsy) is summarized; "0" and "00" are different sequences *)
Example C20_job0_seq0 :
  summarize_val [x 1 "SenRdma_0 a" 0 2 3 (PInt 1); x 2 "SenRdma_00 a" 0 3 1 PNone; x 3 "SenRdma_0 b" 0 6 3 (PInt 2)] =
  VL [ev_val (mg 2 "SenRdma_00 a" 0 3 1 PNone []); ev_val (mg 3 "SenRdma_0 " 0 2 7 (PInt 2) [1; 2])].
Proof. vm_compute. reflexivity. Qed.

(* a multicast: the BcList part carries only the list of peers (with a blank entry), a send part names one more
   peer, a third part lists a peer again; a slice that is not a part keeps its own Peers *)
Example C20_multicast :
  summarize_val [xl 1 "SenRdma_7 BcList" 3 2 3 PNone [PInt 5; PNone; PInt 1];
                 xl 2 "Set BCList" 3 3 1 PNone [PInt 9; PInt 8];
                 x 3 "SenRdma_7 send" 3 6 3 (PInt 2);
                 xl 4 "SenRdma_7 x" 3 7 1 (PInt 2) [PInt 5]] =
  VL [ev_val (xl 2 "Set BCList" 3 3 1 PNone [PInt 8; PInt 9]); ev_val (mg 4 "SenRdma_7 " 3 2 7 (PInt 2) [1; 2; 5])].
Proof. vm_compute. reflexivity. Qed.

(* three inputs, the 2nd collides with the 1st, the 3rd is the 1st path again; the top-level id is 7 *)
Example C20_job_ids_example :
  run_ids 7 [(1%nat, 8473); (2%nat, 18473); (1%nat, 8473); (3%nat, 7); (4%nat, 9999); (5%nat, 19999)]
  = Some [8473; 8474; 8473; 8; 9999; 0].
Proof. vm_compute. reflexivity. Qed.
