(* C03 — Stage pipeline delivers every event exactly once, in order, honouring barriers.
   Property theorems only; proofs live in theories/Pipeline.v.  All statements quantify over
   arbitrary event and state types, arbitrary callbacks and drains, arbitrary stage lists of any
   length and arbitrary input lists. *)
From Coq Require Import List Arith ZArith.
Import ListNotations.
From AiuModel Require Import Base Pipeline C03Model.

(* (1) every event a stage returns reaches the next stage exactly once in emission order; what a
   stage holds back is released through its context's drain and traverses all later stages:
   the exported stream of Engine.run equals the composition of the per-stage stream functions
   (callback outputs over the whole input stream, then the drain output), every barrier being
   the identity — for any number of barriers sharing the one module-level hold. *)
Theorem C03_stream_compose :
  forall (E St : Type) (BC : nat) (happ : St -> E -> St) (hlist : St -> list E) (hempty : St),
    (forall s e, hlist (happ s e) = hlist s ++ [e]) ->
    hlist hempty = [] ->
    forall gs : list (stage E St),
      wf BC happ hlist hempty gs -> ~ In BC (pcids gs) ->
      forall (st : store St) (es : list E), hlist (st BC) = [] -> run gs st es = compose gs st es.
Proof. exact stream_compose. Qed.
Print Assumptions C03_stream_compose.

(* (2) a stage registered after a barrier is called for the first time only after every earlier
   stage has received (and its context has released) everything: the time-ordered log splits
   into "indices <= b" followed by "indices > b".  No hypothesis on the other stages. *)
Theorem C03_barrier_separates :
  forall (E St : Type) (g : stage E St) (b : nat) (gs : list (stage E St)) (st : store St) (es : list E),
    blocks g -> nth_error gs b = Some g ->
    exists l1 l2, snd (run_l gs st es) = l1 ++ l2 /\
      Forall (fun x => idx x <= b) l1 /\ Forall (fun x => b < idx x) l2.
Proof. exact barrier_separates. Qed.
Print Assumptions C03_barrier_separates.

(* (3) contexts are drained only after the last input event, in registration order, each once;
   stage 0 sees exactly the input; nothing ever reaches a stage whose context was drained. *)
Theorem C03_drain_order :
  forall (E St : Type) (gs : list (stage E St)) (st : store St) (es : list E),
    exists lin ldr, snd (run_l gs st es) = lin ++ ldr /\
      Forall (@is_call E) lin /\
      (gs <> [] ->
       map (fun x => match x with Call _ e => Some e | _ => None end)
           (filter (fun x => match x with Call 0 _ => true | _ => false end) lin) = map Some es) /\
      drains ldr = seq 0 (length gs) /\
      drain_ok (lin ++ ldr).
Proof. exact drain_order. Qed.
Print Assumptions C03_drain_order.

(* the un-logged semantics used in (1) is the erasure of the logged one used in (2), (3) and in
   the correspondence with the real EventProcessor *)
Theorem C03_log_erasure :
  forall (E St : Type) (gs : list (stage E St)) (st : store St) (es : list E),
    fst (run_l gs st es) = run gs st es.
Proof. exact run_l_erase. Qed.
Print Assumptions C03_log_erasure.

(* non-vacuity: the concrete graphs of the correspondence satisfy the hypotheses of (1) whenever
   the boolean check [wf_b] says so, and a graph with two barriers, a holding stage, a
   duplicating and a filtering stage does. *)
Theorem C03_concrete :
  forall g es, wf_b (SANITY :: g) = true ->
    run (graph g) st0 es = compose (graph g) st0 es.
Proof.
  intros g es H. unfold graph.
  apply (@stream_compose Z cell BCELL happ hlist hempty).
  - intros [h n] e. reflexivity.
  - reflexivity.
  - now apply wf_b_sound.
  - now apply wf_b_nobc.
  - reflexivity.
Qed.
Print Assumptions C03_concrete.

Example C03_nonvacuous :
  let g := [(Hold, 2%nat); (Barrier, 0%nat); (Dup, 3%nat); (Barrier, 0%nat); (DropOdd, 4%nat); (HoldRev, 5%nat)] in
  wf_b (SANITY :: g) = true /\
  run (graph g) st0 [1; 2; 3; 4]%Z = [4; 4; 2; 2]%Z /\
  blocks (mk (Barrier, 0%nat)).
Proof. split; [reflexivity|]. split; [vm_compute; reflexivity|]. intros [h n] e. reflexivity. Qed.
