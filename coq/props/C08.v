(* C08 — exported events are globally ordered by timestamp, longer slices first on ties.
   Property theorems only; proofs in theories/Sort_proofs.v (sorter, pipeline) on top of theories/Pipeline.v
   (stream_compose) and theories/Registration_facts.v (facts computed on gen/Registration.v, the registration program
   GENERATED from /repo's acelyzer.py on every run).  Model: theories/Sort.v (pipeline/sort.py), theories/C08Model.v.
   All statements quantify over an arbitrary event type [E] with field accessors, arbitrary event lists, arbitrary
   pipeline prefixes (any callbacks, drains, barriers) and all valuations of the option guards. *)
From Coq Require Import ZArith QArith List Bool String Permutation Sorted.
Import ListNotations.
From AiuModel Require Import Base Pipeline Profile Registration_facts Sort C08Model Sort_proofs.
From AiuGen Require Import Registration Profiles.

(* (1)-(3) EventSortingContext.drain on one queue: sorted by the key tuple, a permutation, stable — for EVERY sort key *)
Theorem C08_sort_sorted :
  forall (E : Type) (getk : E -> string -> option Q) (c : cfg) (l : list E),
    StronglySorted (key_le E getk c) (isort (Sort.key_leb E getk c) l).
Proof. exact sort_sorted. Qed.
Print Assumptions C08_sort_sorted.

Theorem C08_sort_perm :
  forall (E : Type) (getk : E -> string -> option Q) (c : cfg) (l : list E),
    Permutation (isort (Sort.key_leb E getk c) l) l.
Proof. exact sort_perm. Qed.
Print Assumptions C08_sort_perm.

Theorem C08_sort_stable :
  forall (E : Type) (getk : E -> string -> option Q) (c : cfg) (x : E) (l : list E),
    filter (key_eqv E getk c x) (isort (Sort.key_leb E getk c) l) = filter (key_eqv E getk c x) l.
Proof. exact sort_stable. Qed.
Print Assumptions C08_sort_stable.

(* drain() of any context state (per-lane or global): the queues in insertion order, each one replaced by its sorted,
   stable permutation; the context is empty afterwards (nothing is left over for a later run) *)
Theorem C08_sort_drain :
  forall (E : Type) (getk : E -> string -> option Q) (c : cfg) (st : Sort.state E),
    fst (Sort.sort_drain E getk c st) = [] /\
    exists blocks, snd (Sort.sort_drain E getk c st) = List.concat blocks /\
      Forall2 (fun b ql => StronglySorted (key_le E getk c) b /\ Permutation b (snd ql) /\
                           forall x, filter (key_eqv E getk c x) b = filter (key_eqv E getk c x) (snd ql)) blocks st.
Proof. exact sort_drain_blocks. Qed.
Print Assumptions C08_sort_drain.

(* (4) the sort_events stage as a stream function: every configuration conserves the events; a global sorter emits the
   events it does not hold (filtered type / no primary key) at once and then the stable sort of the rest *)
Theorem C08_sort_stream :
  forall (E : Type) (ph : E -> string) (pid : E -> Z) (tid : E -> option Z) (getk : E -> string -> option Q)
         (c : cfg) (es : list E),
    Permutation (Sort.sort_stream E ph pid tid getk c es) es /\
    (c_global c = true ->
     Sort.sort_stream E ph pid tid getk c es =
       filter (fun e => negb (Sort.queued E ph getk c e)) es ++
       isort (Sort.key_leb E getk c) (filter (Sort.queued E ph getk c) es)).
Proof. intros. split; [apply sort_stream_perm|apply sort_stream_global]. Qed.
Print Assumptions C08_sort_stream.

(* (4b) every mode (per lane or global, any filter): after a stream the context holds one queue per queue id, ids in
   order of first appearance and pairwise distinct, each queue = the held events of that id in arrival order; the
   stage's output is the pass-through events followed by the concatenation of the queues' stable sorts *)
Theorem C08_sort_lanes :
  forall (E : Type) (ph : E -> string) (pid : E -> Z) (tid : E -> option Z) (getk : E -> string -> option Q)
         (c : cfg) (es : list E),
    let st := feed_state E ph pid tid getk c es [] in
    NoDup (map fst st) /\
    Sort.sort_stream E ph pid tid getk c es =
      filter (fun e => negb (Sort.queued E ph getk c e)) es ++
      flat_map (fun q => isort (Sort.key_leb E getk c)
                           (filter (fun e => qid_eqb q (qof E pid tid c e)) (filter (Sort.queued E ph getk c) es)))
               (map fst st).
Proof. exact sort_stream_lanes. Qed.
Print Assumptions C08_sort_lanes.

(* (5) the registration program generated from the CURRENT source: for every valuation of the option guards the last
   call is sort_events, unconditional, its context constructed as EventSortingContext(event_types=None,
   sortkey="ts,dur:r", global_sort=True); the default profile and torch_minimal (--tb) keep it as the last stage *)
Theorem C08_registration :
  forall v : nat -> bool,
    (exists pre, calls v the_program = pre ++ ["sort_events"%string]) /\
    (exists pre r, the_program = pre ++ [r] /\ r_guard r = GTrue /\ r_name r = "sort_events"%string /\
                   forall tscyc, cfg_of_ctor tscyc (r_ctor r) = Some final_cfg) /\
    (forall P, from_json profile_default everything = Some P ->
       exists pre', registered P (calls v the_program) = pre' ++ ["sort_events"%string]) /\
    (exists pre', registered torch_minimal (calls v the_program) = pre' ++ ["sort_events"%string]).
Proof. exact registration_ends_with_final_sort. Qed.
Print Assumptions C08_registration.

(* ... and so does every profile whatsoever whose last entry is enabled *)
Theorem C08_any_profile :
  forall (v : nat -> bool) (pd : option prof) (P : prof),
    from_json pd everything = Some P -> snd (last P (EmptyString, false)) = true ->
    exists pre', registered P (calls v the_program) = pre' ++ ["sort_events"%string].
Proof. exact ingested_profile_keeps_final_sort. Qed.
Print Assumptions C08_any_profile.

Theorem C08_final_cfg :
  final_cfg = {| c_types := None; c_key := [("ts"%string, 1%Z); ("dur"%string, (-1)%Z)]; c_global := true |} /\
  forall tscyc, last_sorter tscyc = Some final_cfg.
Proof. split; [exact final_cfg_is|exact last_sorter_is_final]. Qed.
Print Assumptions C08_final_cfg.

(* (6) C08: a pipeline = ANY list of stages [pre] followed by that sorter as the last stage.  Under the hypotheses of
   Pipeline.stream_compose (non-barrier stages own their context, barriers share the module-level hold, which is empty
   at the start, as is the sorter's context) and provided every event that reaches the last stage has a ts:
   the export is the stable (ts, -dur) sort of everything the earlier stages ever emit — including what their drains
   emit at the end of processing (counters, flow arrows, metadata) — hence a permutation of it in which timestamps
   never decrease and, on equal ts, the longer duration comes first, a missing duration counting as 0 (last).
   [xdur] is the duration the exported event shows; it must be the dur field the sorter saw. *)
Theorem C08_sorted :
  forall (E : Type) (ph : E -> string) (pid : E -> Z) (tid : E -> option Z) (getk : E -> string -> option Q)
         (St : Type) (inj : Sort.state E -> St) (proj : St -> Sort.state E),
    (forall s, proj (inj s) = s) ->
    forall (BC : nat) (happ : St -> E -> St) (hlist : St -> list E) (hempty : St),
    (forall s e, hlist (happ s e) = hlist s ++ [e]) -> hlist hempty = [] ->
    forall (pre : list (stage E St)) (n : nat) (st : store St) (es : list E) (xdur : E -> Q),
    let final := Sort.sort_stage E ph pid tid getk St inj proj final_cfg n in
    wf BC happ hlist hempty (pre ++ [final]) -> ~ In BC (pcids (pre ++ [final])) ->
    hlist (st BC) = [] -> proj (st n) = [] ->
    (forall e, In e (compose pre st es) -> getk e "ts"%string <> None) ->
    (forall e, In e (compose pre st es) -> dur0 E getk e == xdur e) ->
    let out := run (pre ++ [final]) st es in
    out = isort (Sort.key_leb E getk final_cfg) (compose pre st es) /\
    Permutation out (compose pre st es) /\
    StronglySorted (ord E getk xdur) out /\
    (forall x, filter (key_eqv E getk final_cfg x) out = filter (key_eqv E getk final_cfg x) (compose pre st es)).
Proof. exact final_pipeline_sorted. Qed.
Print Assumptions C08_sorted.

(* (7) what the key "ts,dur:r" means *)
Theorem C08_order_spec :
  forall (E : Type) (getk : E -> string -> option Q) (a b : E),
    Sort.key_leb E getk final_cfg a b = true <->
    (ts0 E getk a < ts0 E getk b \/ (ts0 E getk a == ts0 E getk b /\ dur0 E getk b <= dur0 E getk a))%Q.
Proof. intros. apply key_leb_ts_dur_r. rewrite final_cfg_is. reflexivity. Qed.
Print Assumptions C08_order_spec.

(* (8) without the ts hypothesis: events that reach the last stage without a ts are not held back — they are exported
   at once, ahead of every sorted event (this is what the code does; sanity_check keeps input without ts out) *)
Theorem C08_passthrough_overtakes :
  forall (E : Type) (ph : E -> string) (pid : E -> Z) (tid : E -> option Z) (getk : E -> string -> option Q)
         (St : Type) (inj : Sort.state E -> St) (proj : St -> Sort.state E),
    (forall s, proj (inj s) = s) ->
    forall (BC : nat) (happ : St -> E -> St) (hlist : St -> list E) (hempty : St),
    (forall s e, hlist (happ s e) = hlist s ++ [e]) -> hlist hempty = [] ->
    forall (pre : list (stage E St)) (n : nat) (st : store St) (es : list E),
    let final := Sort.sort_stage E ph pid tid getk St inj proj final_cfg n in
    wf BC happ hlist hempty (pre ++ [final]) -> ~ In BC (pcids (pre ++ [final])) ->
    hlist (st BC) = [] -> proj (st n) = [] ->
    run (pre ++ [final]) st es =
      filter (fun e => negb (Sort.has_key E getk e "ts")) (compose pre st es) ++
      isort (Sort.key_leb E getk final_cfg) (filter (fun e => Sort.has_key E getk e "ts") (compose pre st es)).
Proof. exact final_pipeline_stream. Qed.
Print Assumptions C08_passthrough_overtakes.

(* ------------------------------------------------------------------ non-vacuity *)
(* a concrete pipeline on the tie's event type: a stage that passes everything and emits a counter (ts 2, no dur) and a
   metadata event (ts 0) only when it is drained, a barrier, and the final sorter.  All hypotheses of C08_sorted hold and
   the late events land at their place: metadata first, the counter after both slices that start at ts 2, the longer
   slice (uid 2, another rank) before the shorter. *)
Definition ev (u : Z) (p : string) (r : Z) (ts : Q) (d : option Q) : sev :=
  {| s_uid := u; s_ph := p; s_pid := r; s_tid := Some 0%Z;
     s_num := ("ts"%string, ts) :: match d with Some x => [("dur"%string, x)] | None => [] end |}.
Definition cell := Sort.state sev.
Definition x_happ (s : cell) (e : sev) : cell :=
  match s with [] => [(QI 0, [e])] | (q, _) :: _ => [(q, flat_map snd s ++ [e])] end.
Definition x_hlist (s : cell) : list sev := flat_map snd s.
Definition late_stage : stage sev cell :=
  {| cb := fun s e => (s, [e]); cid := 2%nat;
     dr := fun s => (s, [ev 100 "C" 1 2 None; ev 101 "M" 0 0 None]); bar := false |}.
Definition bar_stage : stage sev cell :=
  {| cb := fun s e => (x_happ s e, []); cid := 1%nat; dr := fun s => ([], x_hlist s); bar := true |}.
Definition x_final : stage sev cell :=
  Sort.sort_stage sev s_ph s_pid s_tid s_getk cell (fun s => s) (fun s => s) final_cfg 3%nat.
Definition x_pre : list (stage sev cell) := [late_stage; bar_stage].
Definition x_in : list sev := [ev 1 "X" 0 2 (Some 1); ev 2 "X" 1 2 (Some 3); ev 3 "X" 0 1 (Some 1)]%Q.

Lemma x_hlist_app : forall s e, x_hlist (x_happ s e) = x_hlist s ++ [e].
Proof. intros [|[q l] r] e; cbn [x_happ x_hlist flat_map snd]; [reflexivity|]. now rewrite app_nil_r. Qed.

Example C08_nonvacuous :
  wf 1%nat x_happ x_hlist [] (x_pre ++ [x_final]) /\
  ~ In 1%nat (pcids (x_pre ++ [x_final])) /\
  (forall e, In e (compose x_pre (fun _ => []) x_in) -> s_getk e "ts"%string <> None) /\
  map s_uid (run (x_pre ++ [x_final]) (fun _ => []) x_in) = [101; 3; 2; 1; 100]%Z.
Proof.
  split.
  { apply wf_priv; [reflexivity|cbn; intros [H|[H|[]]]; discriminate|].
    apply wf_bar; [reflexivity|split; [reflexivity|split; intros; reflexivity]|].
    apply wf_priv; [reflexivity|intros []|constructor]. }
  split; [cbn; intros [H|[H|[]]]; discriminate|].
  split; [|vm_compute; reflexivity].
  intros e He. vm_compute in He. repeat (destruct He as [<-|He]; [vm_compute; discriminate|]). destruct He.
Qed.

(* why [xdur] must be the dur the sorter saw: an event that still CARRIES a dur while it is sorted but is exported
   without it (what a flow 'f' arrow did before  fix: property=C08) is placed as a long slice; with its exported
   duration (none = 0) the order "longer first, no duration last" is broken *)
Example C08_hidden_dur_breaks_export_order :
  let f := ev 1 "f" 0 5 (Some 2) in let x := ev 2 "X" 0 5 (Some 1) in
  let xdur := fun e : sev => if String.eqb (s_ph e) "X" then dur0 sev s_getk e else 0%Q in
  map s_uid (Sort.sort_stream sev s_ph s_pid s_tid s_getk final_cfg [x; f]) = [1; 2]%Z /\
  ~ ord sev s_getk xdur f x.
Proof.
  split; [vm_compute; reflexivity|]. unfold ord. vm_compute. intros [H|[_ H]]; [discriminate H|apply H; reflexivity].
Qed.
