(* C17 — Event limits and filters select exactly the documented subset of events.
   Property theorems only; the model is theories/Limits.v (the definitions the correspondence runs
   execute), the proofs are in theories/Limits_proofs.v.  All statements quantify over arbitrary
   event streams (any length, any JSON-like events, malformed ones included), arbitrary limit
   tuples and filter lists, an arbitrary regex engine [re] and an arbitrary str() function [st]. *)
From Coq Require Import ZArith QArith List Bool String Ascii.
Import ListNotations.
From AiuModel Require Import Base Limits Limits_proofs.
Local Open Scope string_scope.
Local Open Scope Z_scope.

(* (1) the invariant everything else rests on: the verdict for the i-th event of a stream is the
   single-event limiter started with counter = number of counted events (well-formed, type not in
   no_count_types, intersecting the window) among the first i events. *)
Theorem C17_counter_invariant :
  forall (c : limcfg) (es : list event) (i : nat) (e : event),
    nth_error es i = Some e ->
    nth_error (lim_stream c 0 es) i = Some (snd (limiter c (cntd c (firstn i es)) e)).
Proof. exact counter_invariant. Qed.
Print Assumptions C17_counter_invariant.

(* (2) position rule.  Under exactly the guard under which event_within_limits does not raise
   ([wf_e]: ph is a string and, unless the type is exempt, ts/dur are numbers or absent):
   kept <=> exempt type, or ([ts,ts+dur] meets [ts_start,ts_end] and skip < pos <= skip+count)
   where pos = 1-based rank among the counted events in arrival order. *)
Theorem C17_position_rule :
  forall (c : limcfg) (es : list event) (i : nat) (e : event),
    nth_error es i = Some e -> wf_e c e = true ->
    exists b, nth_error (lim_stream c 0 es) i = Some (Ok b) /\
      (b = true <-> ignored c e = true \/
                    (inwin_e c e = true /\ skip_of c < pos c es i <= skip_of c + count_of c)).
Proof. exact position_rule. Qed.
Print Assumptions C17_position_rule.

(* (3) metadata (any exempt type that is not a slice) is never dropped and never altered, whatever
   the limits, the filters and the rest of the stream ... *)
Theorem C17_metadata_never_dropped :
  forall (re : string -> string -> bool) (st : json -> string) (c : limcfg) (fs : list (string * string)) (jm : list (Z * string))
         (es : list event) (i : nat) (e : event),
    nth_error es i = Some e -> ignored c e = true -> is_X e = false ->
    nth_error (run_stream re st c fs jm 0 es) i = Some (Ok [e]).
Proof. exact ignored_kept. Qed.
Print Assumptions C17_metadata_never_dropped.

(* ... and never counted: deleting every exempt event from the stream leaves the verdicts of all
   other events unchanged. *)
Theorem C17_metadata_transparent :
  forall (c : limcfg) (es : list event),
    map snd (filter (fun p => negb (ignored c (fst p))) (combine es (lim_stream c 0 es)))
    = lim_stream c 0 (filter (fun e => negb (ignored c e)) es).
Proof. intros c es. exact (ignored_transparent c es 0). Qed.
Print Assumptions C17_metadata_transparent.

(* (4) normalize_phase1 over a stream = limiter verdict, then (for X only) normalise, filter, finish;
   the counter never depends on filters, on regex results or on exceptions of later steps. *)
Theorem C17_phase1_decomposition :
  forall (re : string -> string -> bool) (st : json -> string) (c : limcfg) (fs : list (string * string)) (jm : list (Z * string))
         (es : list event) (i : nat) (e : event),
    nth_error es i = Some e ->
    nth_error (run_stream re st c fs jm 0 es) i
    = Some (decide re st fs jm (snd (limiter c (cntd c (firstn i es)) e)) e).
Proof. exact run_stream_nth. Qed.
Print Assumptions C17_phase1_decomposition.

(* (5) the filter, for EVERY event and EVERY filter list (no domain hypothesis; [event_filtered] is a total boolean
   function - the repaired code raises nothing): an event is filtered iff for some attr:regex pair the event has the
   named attribute ([resolves]: every component of the dotted path is a key of the dict reached so far - in particular
   nothing resolves below a string or a number), the attribute's value is not a dict, and the regex finds a match in
   its str().  Until /repo fix "C17d" a path that left the dicts was matched against the last value reached
   ('args.Type.x:^T1$' dropped every slice whose args.Type is "T1") or raised TypeError. *)
Theorem C17_filter_spec :
  forall (re : string -> string -> bool) (st : json -> string) (fs : list (string * string)) (e : event),
    event_filtered re st fs e = true <-> exists ar, In ar fs /\ pair_matches re st e ar.
Proof. exact filter_spec. Qed.
Print Assumptions C17_filter_spec.

(* (5b) ... and every comma separated entry of the --event_filter string that contains a colon IS one of these pairs:
   attribute = the text before its FIRST colon, regex = everything after it, colons included ("name:aten::add"), also
   when several entries name the same attribute.  Until /repo fix "C17b" the filters were kept in a dict keyed by
   attribute ('name:alpha,name:beta' silently became 'name:beta'); until /repo fix "C17c" an entry with two or more
   colons was discarded whole. *)
Theorem C17_every_entry_counts :
  forall (s f k r : string),
    all_space s = false -> In f (split_on ","%char s) -> has_char ":"%char k = false -> f = k ++ String ":"%char r ->
    In (k, r) (extract_filters s).
Proof. exact extract_every_entry. Qed.
Print Assumptions C17_every_entry_counts.

(* (5c) ... and nothing else is a filter: every pair in force is such an entry (an entry without a colon contributes
   nothing, a blank string contributes nothing). *)
Theorem C17_no_other_entry :
  forall (s k r : string),
    In (k, r) (extract_filters s) ->
    all_space s = false /\ has_char ":"%char k = false /\ In (k ++ String ":"%char r) (split_on ","%char s).
Proof. exact extract_only_entries. Qed.
Print Assumptions C17_no_other_entry.

(* (6) a slice the limiter lets through is dropped iff a filter matches its normalised form (attr
   merged into args, hex counters decimal, Receive/RDMA unified, Bytes renamed); every other slice
   is exported ([finish] only adds args.jobname).  No hypothesis on the filters or on the shape of the event beyond
   "the normalisations did not raise". *)
Theorem C17_filter_keeps_others :
  forall (re : string -> string -> bool) (st : json -> string) (fs : list (string * string)) (jm : list (Z * string))
         (e e1 : event),
    xform e = Ok e1 ->
    (post re st fs jm e = Ok [] <-> exists ar, In ar fs /\ pair_matches re st e1 ar) /\
    ((~ exists ar, In ar fs /\ pair_matches re st e1 ar) -> post re st fs jm e = finish jm e1).
Proof. exact filter_keeps_others. Qed.
Print Assumptions C17_filter_keeps_others.

(* (7) enlarging count never removes a previously exported event (and exports it identically). *)
Theorem C17_monotone_count :
  forall (re : string -> string -> bool) (st : json -> string) (c c2 : limcfg) (fs : list (string * string)) (jm : list (Z * string))
         (es : list event) (i : nat) (x : event),
    same_but_count c c2 -> count_of c <= count_of c2 ->
    nth_error (run_stream re st c fs jm 0 es) i = Some (Ok [x]) ->
    nth_error (run_stream re st c2 fs jm 0 es) i = Some (Ok [x]).
Proof. exact monotone_count. Qed.
Print Assumptions C17_monotone_count.

(* (8) enlarging the window never removes a previously exported event provided the count bound is
   not binding under the wider window (number of counted events there <= skip+count); skip needs no
   hypothesis because positions only grow.  Without the proviso the statement contradicts the
   position rule itself: see C17_window_not_monotone_when_binding. *)
Theorem C17_monotone_window :
  forall (re : string -> string -> bool) (st : json -> string) (c c2 : limcfg) (fs : list (string * string)) (jm : list (Z * string))
         (es : list event) (i : nat) (x : event),
    wider c c2 -> cntd c2 es <= limit_of c ->
    nth_error (run_stream re st c fs jm 0 es) i = Some (Ok [x]) ->
    nth_error (run_stream re st c2 fs jm 0 es) i = Some (Ok [x]).
Proof. exact monotone_window. Qed.
Print Assumptions C17_monotone_window.

(* ------------------------------------------------------------------ non-vacuity / witnesses *)
Definition X_ (uid : Z) (ts dur : Z) (name ty : string) : event :=
  [("ph", JS "X"); ("name", JS name); ("pid", JZ 0); ("tid", JZ 0); ("ts", JQ (inject_Z ts)); ("dur", JQ (inject_Z dur));
   ("args", JD [("uid", JZ uid); ("jobhash", JZ 817); ("Type", JS ty); ("nested", JD [("k", JS "v1")])])].
Definition M_ (k : string) : event :=
  [("ph", JS "M"); ("name", JS "process_name"); ("pid", JZ 0); ("tid", JZ 0); ("ts", JZ 0); ("args", JD [("name", JS k)])].
Definition cfg_ (skip count : option Z) (a b : option Z) : limcfg :=
  {| l_skip := skip; l_count := count; l_start := option_map inject_Z a; l_end := option_map inject_Z b; l_nct := None |}.

(* F5's input (two metadata events, count 2): both metadata events and the first two slices pass *)
Example C17_nonvacuous_metadata :
  let es := [M_ "a"; M_ "b"; X_ 0 1 2 "n" "T0"; X_ 1 4 2 "n" "T0"; X_ 2 7 2 "n" "T0"] in
  forallb (wf_e (cfg_ None (Some 2) None None)) es = true /\
  lim_stream (cfg_ None (Some 2) None None) 0 es = [Ok true; Ok true; Ok true; Ok true; Ok false].
Proof. split; vm_compute; reflexivity. Qed.

(* window [10,20] with both boundary coincidences, skip 1, count 2, metadata interleaved *)
Example C17_nonvacuous_position :
  let c := cfg_ (Some 1) (Some 2) (Some 10) (Some 20) in
  let es := [X_ 0 5 5 "n" "T0"; M_ "a"; X_ 1 5 4 "n" "T0"; X_ 2 20 3 "n" "T0"; X_ 3 21 1 "n" "T0"; X_ 4 12 1 "n" "T0";
             X_ 5 13 1 "n" "T0"] in
  forallb (wf_e c) es = true /\
  map (pos c es) (seq 0 7) = [1; 1; 1; 2; 2; 3; 4] /\
  lim_stream c 0 es = [Ok false; Ok true; Ok false; Ok true; Ok false; Ok true; Ok false].
Proof. split; [|split]; vm_compute; reflexivity. Qed.

(* the filter discriminates: regex engine = "subject equals pattern"; a regex with colons is an ordinary regex *)
Example C17_nonvacuous_filter :
  let re := fun p s : string => String.eqb p s in
  let fs := extract_filters "args.nested.k:v1,args.Type:T1,args.missing:x,nocolon,name:aten::add,a:b:c" in
  fs = [("args.nested.k", "v1"); ("args.Type", "T1"); ("args.missing", "x"); ("name", "aten::add"); ("a", "b:c")] /\
  event_filtered re tie_str fs (X_ 0 1 2 "n" "T0") = true /\
  event_filtered re tie_str [("args.Type", "T1"); ("args.missing", "x"); ("args", "x"); ("name", "aten::add"); ("a", "b:c")]
                 (X_ 0 1 2 "n" "T0") = false /\
  event_filtered re tie_str [("name", "aten::add")] (X_ 0 1 2 "aten::add" "T0") = true.
Proof. repeat split; vm_compute; reflexivity. Qed.

(* with a binding count bound a wider window does remove a previously kept slice: count 1,
   window [10,20] keeps slice 1; window [0,20] keeps slice 0 instead *)
Example C17_window_not_monotone_when_binding :
  exists (c c2 : limcfg) (es : list event) (i : nat),
    wider c c2 /\ nth_error (lim_stream c 0 es) i = Some (Ok true) /\
    nth_error (lim_stream c2 0 es) i = Some (Ok false).
Proof.
  exists (cfg_ None (Some 1) (Some 10) (Some 20)), (cfg_ None (Some 1) (Some 0) (Some 20)),
         [X_ 0 1 2 "n" "T0"; X_ 1 12 2 "n" "T0"], 1%nat.
  split; [|split; vm_compute; reflexivity].
  repeat split; vm_compute; discriminate.
Qed.

(* an attribute path that continues below a string or a number names an attribute the event does not have: such an
   entry never matches (and never raises), whatever the value reached on the way is *)
Example C17_path_below_scalar_never_matches :
  let re := fun p s : string => String.eqb p s in
  event_filtered re tie_str [("args.Type.x", "T1"); ("args.Type.T", "T1"); ("pid.x", "0"); ("args.uid.0", "0"); ("name.", "n")]
                 (X_ 0 1 2 "n" "T1") = false /\
  event_filtered re tie_str [("args.Type.x", "T1"); ("args.Type", "T1")] (X_ 0 1 2 "n" "T1") = true /\
  ~ pair_matches re tie_str (X_ 0 1 2 "n" "T1") ("args.Type.x", "T1").
Proof.
  split; [vm_compute; reflexivity|]. split; [vm_compute; reflexivity|].
  intros H. apply (one_filter_spec (fun p s : string => String.eqb p s) tie_str) in H. vm_compute in H. discriminate.
Qed.
