(* C04 — after overlap resolution, slices sharing a (pid, tid) lane are nested or disjoint; resolving by
   tid changes only the tid of the offending slice, never drops it and never merges lanes.
   Property theorems only; the model is theories/Overlap.v (the definitions the tie executes:
   [run] = sort stage -> tid-space collection -> detection), proofs live in theories/Overlap_proofs.v.
   All statements quantify over ARBITRARY input streams (any length, any order, any pids/tids/times, ties,
   zero-length slices, non-slice events mixed in) and any max_tid_streams; there is no sortedness hypothesis:
   an event arriving below its lane's cursor is the code's AssertionError = [Err], and the theorems speak
   about runs that return [Ok]. *)
From Coq Require Import ZArith List Bool String Permutation Lia.
Import ListNotations.
From AiuModel Require Import Base Overlap Overlap_proofs Lanes.
Local Open Scope Z_scope.

(* (1) both modes: exported ph-X slices of one (pid,tid) are pairwise disjoint or nested
   (half-open intervals; [laminar2_iff]: exactly "no partial overlap") *)
Theorem C04_laminar :
  forall (m : mode) (ms : nat) (presort : bool) (evs : list ev) (L : lanes) (out : list ev),
    run m ms presort evs = Ok L out ->
    forall a b, In a (filter isx out) -> In b (filter isx out) ->
      lane a = lane b ->
      en a <= ts b \/ en b <= ts a \/ (ts a <= ts b /\ en b <= en a) \/ (ts b <= ts a /\ en a <= en b).
Proof. intros m ms presort evs L out H a b Ha Hb. exact (run_laminar m ms presort evs L out H a b Ha Hb). Qed.
Print Assumptions C04_laminar.

(* (2) -O tid: the exported stream is the stream that entered detection, same order, same length,
   nothing dropped, every event identical except (possibly) its tid; non-slices are untouched *)
Theorem C04_tid_only :
  forall (ms : nat) (presort : bool) (evs : list ev) (L : lanes) (out : list ev),
    run TID ms presort evs = Ok L out ->
    Forall2 (fun a b => b = retid a (tid b) /\ (isx a = false -> b = a)) (pre_stream presort evs) out.
Proof. exact run_tid_stream. Qed.
Print Assumptions C04_tid_only.

(* the stream that enters detection is a permutation of the input (the sort stage loses nothing) *)
Theorem C04_sort_stage_perm :
  forall (presort : bool) (evs : list ev), Permutation (pre_stream presort evs) evs.
Proof. intros [|] evs; [exact (sort_stage_perm evs)|apply Permutation_refl]. Qed.
Print Assumptions C04_sort_stage_perm.

(* (3) the final tid of a slice is its source tid or a member of the source tid's private candidate list;
   candidate lists of one pid are duplicate-free, pairwise disjoint (NoDup of their concatenation) and
   avoid every tid seen on a ph-X event of that pid *)
Theorem C04_final_tid_in_chain :
  forall (ms : nat) (presort : bool) (evs : list ev) (L : lanes) (out : list ev) (a b : ev),
    run TID ms presort evs = Ok L out ->
    In (a, b) (combine (pre_stream presort evs) out) -> isx a = true ->
    b = retid a (tid b) /\
    (tid b = tid a \/
     exists c, In (tid a, c) (build_pid ms (pid a) (pre_stream presort evs)) /\ In (tid b) c).
Proof. exact run_final_tid. Qed.
Print Assumptions C04_final_tid_in_chain.

Theorem C04_chains_private :
  forall (ms : nat) (p : Z) (evs : list ev),
    NoDup (allc (build_pid ms p evs)) /\
    (forall x, In x (allc (build_pid ms p evs)) -> ~ In x (seen_tids p evs)) /\
    (forall t c, In (t, c) (build_pid ms p evs) -> In t (seen_tids p evs)).
Proof. exact build_pid_private. Qed.
Print Assumptions C04_chains_private.

(* (4) lanes never merge: two slices that entered detection on different (pid,tid) lanes leave it on
   different lanes *)
Theorem C04_no_merge :
  forall (ms : nat) (presort : bool) (evs : list ev) (L : lanes) (out : list ev) (a a' b b' : ev),
    run TID ms presort evs = Ok L out ->
    In (a, b) (combine (pre_stream presort evs) out) ->
    In (a', b') (combine (pre_stream presort evs) out) ->
    isx a = true -> isx a' = true -> lane a <> lane a' -> lane b <> lane b'.
Proof. exact run_no_merge. Qed.
Print Assumptions C04_no_merge.

(* (5) -O drop: the exported stream is a sub-list of the stream that entered detection (order kept,
   surviving events unchanged, tid included), no non-slice is dropped; laminarity is (1) *)
Theorem C04_drop :
  forall (ms : nat) (presort : bool) (evs : list ev) (L : lanes) (out : list ev),
    run DROP ms presort evs = Ok L out ->
    sublist out (pre_stream presort evs) /\
    filter (fun a => negb (isx a)) out = filter (fun a => negb (isx a)) (pre_stream presort evs).
Proof. exact run_drop. Qed.
Print Assumptions C04_drop.

(* (6) C04_no_err of DESIGN.md, PARTIAL.  Full statement (kept, not proved):
     for a stream whose lanes are ordered by ts (what the sort stage delivers) with non-negative times, in
     which every source lane needs at most max(ms,1) extra lanes,  exists L out, run TID ms presort evs = Ok L out.
   Proved below: under the same ordering hypothesis the run never raises the AssertionError (an overflow lane
   receives slices from one source lane only, hence in ts order), for ANY nesting depth; with the sort
   stage in front the ordering hypothesis is discharged ([sort_stage_lane_sorted]).  Drop mode never raises at all.
   Missing: (a) "at most max(ms,1) extra lanes needed => no KeyError" (the chain-exhaustion bound; the oracle of
   the tie checks it with the point-depth criterion), (b) that [Err "FuelExhausted"] (a model-only outcome) is
   unreachable - the tie would show it as a mismatch, since the code has no such exception. *)
Theorem C04_no_err_partial :
  forall (ms : nat) (presort : bool) (evs : list ev),
    lane_sorted (pre_stream presort evs) ->
    (forall b, In b (pre_stream presort evs) -> isx b = true -> 0 <= ts b) ->
    run TID ms presort evs <> Err "AssertionError" /\ exists L out, run DROP ms presort evs = Ok L out.
Proof. intros ms presort evs S N. split; [now apply run_no_assert|now apply run_drop_total]. Qed.
Print Assumptions C04_no_err_partial.

Theorem C04_no_err_sorted_partial :
  forall (ms : nat) (evs : list ev),
    (forall b, In b evs -> isx b = true -> 0 <= ts b) ->
    run TID ms true evs <> Err "AssertionError" /\ exists L out, run DROP ms true evs = Ok L out.
Proof. intros ms evs N. split; [now apply run_sorted_no_assert|now apply run_sorted_drop_total]. Qed.
Print Assumptions C04_no_err_sorted_partial.

(* ---- non-vacuity: concrete runs that return Ok, move slices over several lanes, and drop ---- *)
Definition ex_evs : list ev :=
  [E true 0 1 10 10 0; E true 0 1 15 10 1; E true 0 1 12 2 2; E true 0 2 15 10 3;
   E true 1 1 15 10 4; E true 0 1 17 10 5; E false 0 1 3 0 6; E true 0 1 10 10 7; E true 0 1 19 0 8].
Example C04_nonvacuous_tid :
  match run TID 5 true ex_evs with
  | Ok _ out => map (fun a => (uid a, tid a)) out =
                [(6, 1); (0, 1); (7, 1); (2, 1); (1, 3); (5, 4); (8, 1); (3, 2); (4, 1)]
  | Err _ => False
  end.
Proof. vm_compute. reflexivity. Qed.
Example C04_nonvacuous_drop :
  match run DROP 5 true ex_evs with
  | Ok _ out => map uid out = [6; 0; 7; 2; 8; 3; 4]
  | Err _ => False
  end.
Proof. vm_compute. reflexivity. Qed.
(* the guard is real: the chain of max(ms,1) lanes can be exhausted (the code's KeyError), and an
   unsorted lane trips the assertion *)
Example C04_err_keyerror :
  run TID 1 true [E true 0 1 0 4 0; E true 0 1 1 4 1; E true 0 1 2 4 2] = Err "KeyError".
Proof. vm_compute. reflexivity. Qed.
Example C04_err_assert : run TID 5 false [E true 0 1 5 1 0; E true 0 1 4 1 1] = Err "AssertionError".
Proof. vm_compute. reflexivity. Qed.
(* the ordering hypothesis of (6) is satisfiable by a raw (unsorted-arrival, per-lane ordered) stream *)
Example C04_lane_sorted_example :
  lane_sorted [E true 0 1 0 5 0; E true 0 2 9 1 1; E true 0 1 3 5 2; E false 0 1 1 0 3; E true 0 2 9 4 4].
Proof. cbn. repeat split; intros; repeat match goal with H : _ \/ _ |- _ => destruct H end; subst; cbn in *; try lia; try discriminate; try contradiction. Qed.

(* ---------- the lane renaming of annotated host slices (a later stage) keeps resolved lanes apart ---------- *)
Theorem C04_lane_renaming_injective :
  forall k k' j j' : Z, 0 <= j < 10 -> 0 <= j' < 10 ->
    light_tid (1000 + 100 * k + j) = light_tid (1000 + 100 * k' + j') -> k = k' /\ j = j'.
Proof. exact light_tid_injective_on_lanes. Qed.
Print Assumptions C04_lane_renaming_injective.
