(* C14Model.v — concrete witnesses for C14 on the executable pipeline instance of C03Model.v:
   - what an aborted run leaves behind in the shared barrier cell, and what the next run would export if
     Acelyzer.run did not reset that cell first (the defect repaired by fix 1950fab);
   - the inert stage that -I inserts after every registered stage (duplicate_and_hold). *)
From Coq Require Import ZArith List Bool.
Import ListNotations.
From AiuModel Require Import Base Pipeline C03Model History.
Local Open Scope Z_scope.

(* a run aborted after its inputs were pushed through but before the drain: the state [inputs] leaves *)
Definition aborted_state (g : list (beh * nat)) (es : list Z) : store cell := fst (inputs (graph g) st0 es).

(* next run WITHOUT the reset vs. the run Acelyzer.run performs (reset first) *)
Definition next_run_no_reset (g : list (beh * nat)) (st : store cell) (es : list Z) : list Z := run (graph g) st es.
Definition next_run (g : list (beh * nat)) (st : store cell) (es : list Z) : list Z :=
  fresh_run BCELL hempty (graph g) st es.

Lemma stale_hold_leaks :
  let g := [(Pass, 2%nat); (Barrier, 0%nat); (Pass, 3%nat)] in
  let st := aborted_state g [7; 8] in
  fst (st BCELL) = [7; 8] /\
  next_run_no_reset g st [1] = [7; 8; 1] /\
  next_run g st [1] = [1] /\ next_run g st0 [1] = [1].
Proof. vm_compute. repeat split; reflexivity. Qed.

(* duplicate_and_hold: returns the event, holds nothing that drain would return *)
Definition dup_hold (c : nat) : stage Z cell :=
  {| cb := fun s e => ((fst s, snd s + 1), [e]); cid := c; dr := fun s => (s, []); bar := false |}.
Lemma dup_hold_inert c : inert (dup_hold c).
Proof. split; intros; reflexivity. Qed.

(* executable entry for the tie: the model WITHOUT the -I stages; the harness runs the real EventProcessor WITH
   intermediate= set (duplicate_and_hold after every stage) on the same graph *)
Definition run_plain_val (gi : list (beh * nat) * list Z) : val :=
  let '(g, es) := gi in VLz (run (graph g) st0 es).
