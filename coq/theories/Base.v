(* Base.v — shared definitions for every model and every correspondence ("tie") file.

   [val] is the canonical value type into which every model output is encoded before it is
   compared with what the implementation produced.  The harness (harness/common/enc.py)
   prints Python values as [val] terms; [val_eqb] compares them inside Coq, so none of Coq's
   pretty-printed data ever has to be parsed: a cases file only prints the list of indices
   on which model and implementation disagree. *)
From Coq Require Import ZArith QArith List Bool String Ascii.
Import ListNotations.
Local Open Scope Z_scope.

Inductive val : Type :=
| VZ (z : Z)
| VQ (q : Q)
| VS (s : string)
| VB (b : bool)
| VN                      (* Python None / absent *)
| VL (l : list val)       (* list or tuple *)
| VE (tag : string).      (* error enum: exception class name *)

Fixpoint val_eqb (a b : val) {struct a} : bool :=
  match a, b with
  | VZ x, VZ y => Z.eqb x y
  | VQ x, VQ y => Qeq_bool x y
  | VZ x, VQ y => Qeq_bool (inject_Z x) y
  | VQ x, VZ y => Qeq_bool x (inject_Z y)
  | VS x, VS y => String.eqb x y
  | VB x, VB y => Bool.eqb x y
  | VN, VN => true
  | VE x, VE y => String.eqb x y
  | VL x, VL y =>
      (fix go (l1 l2 : list val) {struct l1} : bool :=
         match l1, l2 with
         | [], [] => true
         | h1 :: t1, h2 :: t2 => val_eqb h1 h2 && go t1 t2
         | _, _ => false
         end) x y
  | _, _ => false
  end.

(* indices (0-based) of the cases on which [f] disagrees with the recorded output *)
Fixpoint mismatches_from {A} (f : A -> val) (cases : list (A * val)) (i : nat) : list nat :=
  match cases with
  | [] => []
  | (x, v) :: r => if val_eqb (f x) v then mismatches_from f r (S i)
                   else i :: mismatches_from f r (S i)
  end.
Definition mismatches {A} (f : A -> val) (cases : list (A * val)) : list nat :=
  mismatches_from f cases 0.

(* number of cases for which a boolean rule holds (used to measure "non-trivial" inside Coq) *)
Definition count_if {A} (p : A -> bool) (l : list A) : nat := List.length (List.filter p l).

(* small helpers used by several models *)
Definition VLz (l : list Z) : val := VL (map VZ l).
Definition VLq (l : list Q) : val := VL (map VQ l).
Definition Vopt {A} (f : A -> val) (o : option A) : val :=
  match o with Some x => f x | None => VN end.
Definition Vpair (a b : val) : val := VL [a; b].

Definition Qle_b (a b : Q) : bool := Qle_bool a b.
Definition Qlt_b (a b : Q) : bool := negb (Qle_bool b a).
Definition Qeq_b (a b : Q) : bool := Qeq_bool a b.
Definition Qmin (a b : Q) : Q := if Qle_bool a b then a else b.
Definition Qmax (a b : Q) : Q := if Qle_bool a b then b else a.

(* stable insertion sort by a boolean "less or equal" (Python's list.sort is stable: the tie
   checks that on every case) *)
Section Sort.
  Context {A : Type} (leb : A -> A -> bool).
  Fixpoint insert_sorted (x : A) (l : list A) : list A :=
    match l with
    | [] => [x]
    | y :: r => if leb x y then x :: l else y :: insert_sorted x r
    end.
  (* inserting from the right keeps equal keys in their original order *)
  Definition isort (l : list A) : list A := fold_right insert_sorted [] l.
End Sort.
