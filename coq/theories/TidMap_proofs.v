(* Proofs about the tid mapping model (TidMap.v): with a non-empty pre-configured range the mapping never fails, however
   many distinct tids a run has; the k-th distinct tid (in order of first appearance) gets start + k*step; equal tids get
   equal numbers and - for step <> 0 - different tids different numbers. *)
From Coq Require Import ZArith List Lia.
Import ListNotations.
From AiuModel Require Import TidMap.
Local Open Scope Z_scope.

Section Ramp.
  Variables (start step : Z).

  Definition ramp (n : nat) : list Z := map (fun i => start + Z.of_nat i * step) (seq 0 n).

  Lemma ramp_length n : length (ramp n) = n.
  Proof. unfold ramp. rewrite map_length, seq_length. reflexivity. Qed.

  Lemma ramp_S n : ramp (S n) = ramp n ++ [start + Z.of_nat n * step].
  Proof. unfold ramp. rewrite seq_S, map_app. reflexivity. Qed.

  Lemma ramp_nth n i : (i < n)%nat -> nth_error (ramp n) i = Some (start + Z.of_nat i * step).
  Proof.
    intros H. unfold ramp. rewrite nth_error_map.
    rewrite (nth_error_nth' (seq 0 n) 0%nat) by (rewrite seq_length; exact H).
    rewrite seq_nth by exact H. reflexivity.
  Qed.

  Lemma ramp_rev_S n : rev (ramp (S n)) = (start + Z.of_nat n * step) :: rev (ramp n).
  Proof. rewrite ramp_S, rev_app_distr. reflexivity. Qed.

  Lemma t_init_ramp size : t_init size start step = mkT [] (ramp size).
  Proof. reflexivity. Qed.
End Ramp.

(* ------------------------------------------------------------------ index_of *)
Lemma index_of_none x l : index_of x l = None <-> ~ In x l.
Proof.
  induction l as [|y r IH]; cbn.
  - split; [intros _ []|reflexivity].
  - destruct (Z.eqb_spec x y) as [->|Hne].
    + split; [discriminate|intros H; exfalso; apply H; left; reflexivity].
    + destruct (index_of x r) eqn:E; cbn.
      * split; [discriminate|]. intros H. exfalso. apply H. right.
        destruct (in_dec Z.eq_dec x r) as [Hi|Hn]; [exact Hi|]. apply IH in Hn. discriminate.
      * split; [|reflexivity]. intros _ [Hy|Hr]; [congruence|]. apply (proj1 IH); [reflexivity|exact Hr].
Qed.

Lemma index_of_some x l i : index_of x l = Some i -> nth_error l i = Some x /\ (i < length l)%nat.
Proof.
  revert i. induction l as [|y r IH]; cbn; intros i H; [discriminate|].
  destruct (Z.eqb_spec x y) as [->|Hne].
  - injection H as <-. cbn. split; [reflexivity|lia].
  - destruct (index_of x r) as [j|] eqn:E; cbn in H; [|discriminate].
    injection H as <-. destruct (IH j eq_refl) as [Hn Hl]. cbn. split; [exact Hn|lia].
Qed.

Lemma index_of_app_l x l t i : index_of x l = Some i -> index_of x (l ++ t) = Some i.
Proof.
  revert i. induction l as [|y r IH]; cbn; intros i H; [discriminate|].
  destruct (Z.eqb x y); [exact H|].
  destruct (index_of x r) as [j|] eqn:E; cbn in H; [|discriminate].
  rewrite (IH j eq_refl). exact H.
Qed.

Lemma index_of_app_new x l : index_of x l = None -> index_of x (l ++ [x]) = Some (length l).
Proof.
  induction l as [|y r IH]; cbn; intros H.
  - rewrite Z.eqb_refl. reflexivity.
  - destruct (Z.eqb x y); [discriminate|].
    destruct (index_of x r) eqn:E; cbn in H; [discriminate|]. rewrite (IH eq_refl). reflexivity.
Qed.

Lemma index_of_inj x y l i : index_of x l = Some i -> index_of y l = Some i -> x = y.
Proof.
  intros Hx Hy. apply index_of_some in Hx. apply index_of_some in Hy.
  destruct Hx as [Hx _]. destruct Hy as [Hy _]. congruence.
Qed.

(* ------------------------------------------------------------------ invariant *)
Section Inv.
  Variables (start step : Z).

  Definition wf (s : tstate) : Prop :=
    NoDup (t_orig s) /\
    exists n, t_remap s = ramp start step n /\ (0 < n)%nat /\ (length (t_orig s) <= n)%nat.

  Lemma wf_init size : (0 < size)%nat -> wf (t_init size start step).
  Proof. intros H. split; [constructor|]. exists size. cbn. repeat split; [exact H|lia]. Qed.

  Lemma nodup_snoc (l : list Z) x : NoDup l -> ~ In x l -> NoDup (l ++ [x]).
  Proof.
    intros Hl Hx. apply NoDup_rev in Hl. rewrite <- (rev_involutive (l ++ [x])). apply NoDup_rev.
    rewrite rev_app_distr. cbn. constructor; [rewrite <- in_rev; exact Hx|exact Hl].
  Qed.

  (* registering a tid never fails, keeps the invariant, keeps the place of every tid registered before and puts
     a new tid at the end *)
  Lemma register_ok s tid :
    wf s ->
    exists s', t_register step s tid = Some s' /\ wf s' /\
               (forall x i, index_of x (t_orig s) = Some i -> index_of x (t_orig s') = Some i) /\
               (exists i, index_of tid (t_orig s') = Some i).
  Proof.
    intros (Hnd & n & Hr & Hn & Hl). unfold t_register. cbv zeta.
    destruct (index_of tid (t_orig s)) as [i|] eqn:E.
    - exists s. repeat split; [exact Hnd|exists n; auto|auto|exists i; exact E].
    - rewrite Hr, ramp_length, app_length. cbn [length].
      destruct (Nat.ltb_spec n (length (t_orig s) + 1)) as [Hlt|Hge].
      + assert (Hn' : n = length (t_orig s)) by lia.
        destruct n as [|m]; [lia|]. rewrite ramp_rev_S.
        eexists. split; [reflexivity|]. cbn [t_orig t_remap]. split; [split; [apply nodup_snoc; [exact Hnd|apply index_of_none; exact E]|]|split].
        * exists (S (S m)). rewrite (ramp_S start step (S m)). split; [|split; [lia|cbn [t_orig]; rewrite ?app_length; cbn [length]; lia]].
          replace (start + Z.of_nat m * step + step) with (start + Z.of_nat (S m) * step) by lia. reflexivity.
        * intros x i Hx. apply index_of_app_l. exact Hx.
        * exists (length (t_orig s)). apply index_of_app_new. exact E.
      + eexists. split; [reflexivity|]. cbn [t_orig t_remap]. split; [split; [apply nodup_snoc; [exact Hnd|apply index_of_none; exact E]|]|split].
        * exists n. split; [reflexivity|split; [exact Hn|cbn [t_orig]; rewrite ?app_length; cbn [length]; lia]].
        * intros x i Hx. apply index_of_app_l. exact Hx.
        * exists (length (t_orig s)). apply index_of_app_new. exact E.
  Qed.

  Lemma step_ok s tid :
    wf s ->
    exists s' i, t_step step s tid = Some (s', start + Z.of_nat i * step) /\ wf s' /\
                 index_of tid (t_orig s') = Some i /\
                 (forall x j, index_of x (t_orig s) = Some j -> index_of x (t_orig s') = Some j).
  Proof.
    intros Hw. destruct (register_ok s tid Hw) as (s' & Hreg & Hw' & Hkeep & (i & Hi)).
    exists s', i. unfold t_step. rewrite Hreg, Hi.
    destruct Hw' as (Hnd & n & Hr & Hn & Hl).
    assert (Hlt : (i < n)%nat) by (apply index_of_some in Hi; lia).
    rewrite Hr, (ramp_nth start step n i Hlt).
    split; [reflexivity|]. split; [split; [exact Hnd|exists n; auto]|]. split; [reflexivity|exact Hkeep].
  Qed.

  (* a whole stream: never fails; every slice gets start + i*step where i is the place of its tid in the final list of
     distinct tids *)
  Lemma run_ok tids : forall s,
    wf s ->
    exists s' vs, t_run step s tids = Some (s', vs) /\ wf s' /\
      (forall x j, index_of x (t_orig s) = Some j -> index_of x (t_orig s') = Some j) /\
      Forall2 (fun t v => exists i, index_of t (t_orig s') = Some i /\ v = start + Z.of_nat i * step) tids vs.
  Proof.
    induction tids as [|t r IH]; intros s Hw; cbn [t_run].
    - exists s, []. split; [reflexivity|]. split; [exact Hw|]. split; [auto|constructor].
    - destruct (step_ok s t Hw) as (s1 & i & Hs & Hw1 & Hi & Hk1). rewrite Hs.
      destruct (IH s1 Hw1) as (s2 & vs & Hr & Hw2 & Hk2 & Hall). rewrite Hr.
      exists s2, ((start + Z.of_nat i * step) :: vs). split; [reflexivity|]. split; [exact Hw2|]. split.
      + intros x j Hx. apply Hk2, Hk1, Hx.
      + constructor; [|exact Hall]. exists i. split; [apply Hk2; exact Hi|reflexivity].
  Qed.
End Inv.

Theorem tidmap_total size start step tids :
  (0 < size)%nat -> tidmap_val size start step tids <> None.
Proof.
  intros H. unfold tidmap_val.
  destruct (run_ok start step tids _ (wf_init start step size H)) as (s' & vs & Hr & _). rewrite Hr. discriminate.
Qed.

Theorem tidmap_closed_form size start step tids s' vs :
  (0 < size)%nat -> t_run step (t_init size start step) tids = Some (s', vs) ->
  NoDup (t_orig s') /\ (forall t, In t tids -> In t (t_orig s')) /\
  Forall2 (fun t v => exists i, index_of t (t_orig s') = Some i /\ v = start + Z.of_nat i * step) tids vs.
Proof.
  intros H Hv.
  destruct (run_ok start step tids _ (wf_init start step size H)) as (s2 & vs2 & Hr & Hw & _ & Hall).
  rewrite Hr in Hv. injection Hv as <- <-. split; [exact (proj1 Hw)|]. split; [|exact Hall].
  intros t Hin. clear -Hall Hin. induction Hall as [|a b l l' Hab _ IH]; [destruct Hin|].
  destruct Hin as [->|Hin]; [|apply IH; exact Hin].
  destruct Hab as (i & Hi & _). apply index_of_some in Hi. eapply nth_error_In. exact (proj1 Hi).
Qed.

Lemma Forall2_nth {A B} (R : A -> B -> Prop) l l' i a b :
  Forall2 R l l' -> nth_error l i = Some a -> nth_error l' i = Some b -> R a b.
Proof.
  intros H. revert i. induction H as [|x y l l' Hxy _ IH]; intros [|i] Ha Hb; cbn in *; try discriminate.
  - congruence.
  - eapply IH; eassumption.
Qed.

(* equal tids get equal numbers; for a non-zero step different tids get different numbers *)
Theorem tidmap_injective size start step tids vs i j t t' v v' :
  (0 < size)%nat -> tidmap_val size start step tids = Some vs ->
  nth_error tids i = Some t -> nth_error tids j = Some t' ->
  nth_error vs i = Some v -> nth_error vs j = Some v' ->
  (t = t' -> v = v') /\ (step <> 0 -> v = v' -> t = t').
Proof.
  intros H Hv Hi Hj Hvi Hvj. unfold tidmap_val in Hv.
  destruct (t_run step (t_init size start step) tids) as [[s' vs2]|] eqn:Hr; [|discriminate].
  cbn in Hv. injection Hv as ->.
  destruct (tidmap_closed_form size start step tids s' vs H Hr) as (_ & _ & Hall).
  destruct (Forall2_nth _ _ _ _ _ _ Hall Hi Hvi) as (a & Ha & ->).
  destruct (Forall2_nth _ _ _ _ _ _ Hall Hj Hvj) as (b & Hb & ->).
  split.
  - intros <-. rewrite Ha in Hb. injection Hb as <-. reflexivity.
  - intros Hs He. assert (a = b) by nia. subst b. eapply index_of_inj; eassumption.
Qed.
