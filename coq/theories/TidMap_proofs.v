(* Proofs about the tid mapping model (TidMap.v): with a non-empty pre-configured range the mapping never fails, however
   many distinct tids a run has; the k-th distinct tid (in order of first appearance) gets start + k*step; equal tids get
   equal numbers and - for step <> 0 - different tids different numbers. *)
From Coq Require Import ZArith List Lia.
Import ListNotations.
From AiuModel Require Import TidMap.
Local Open Scope Z_scope.

Section Ramp.
  Variables (start step : Z).

  Definition ramp (n : nat) : list Z := map (fun i => start + Z.of_nat i * step) (seq 0 n).

  Lemma ramp_length n : length (ramp n) = n.
  Proof. unfold ramp. rewrite map_length, seq_length. reflexivity. Qed.

  Lemma ramp_S n : ramp (S n) = ramp n ++ [start + Z.of_nat n * step].
  Proof. unfold ramp. rewrite seq_S, map_app. reflexivity. Qed.

  Lemma ramp_nth n i : (i < n)%nat -> nth_error (ramp n) i = Some (start + Z.of_nat i * step).
  Proof.
    intros H. unfold ramp. rewrite nth_error_map.
    rewrite (nth_error_nth' (seq 0 n) 0%nat) by (rewrite seq_length; exact H).
    rewrite seq_nth by exact H. reflexivity.
  Qed.

  Lemma ramp_rev_S n : rev (ramp (S n)) = (start + Z.of_nat n * step) :: rev (ramp n).
  Proof. rewrite ramp_S, rev_app_distr. reflexivity. Qed.

  Lemma t_init_ramp size : t_init size start step = mkT [] (ramp size).
  Proof. reflexivity. Qed.
End Ramp.

(* ------------------------------------------------------------------ index_of *)
Lemma slot_is_spec x y : slot_is x y = true <-> y = Some x.
Proof.
  destruct y as [v|]; cbn; [|split; discriminate].
  destruct (Z.eqb_spec x v) as [->|Hne]; split; intros H; try reflexivity; try discriminate; congruence.
Qed.

Lemma index_of_none x l : index_of x l = None <-> ~ In (Some x) l.
Proof.
  induction l as [|y r IH]; cbn.
  - split; [intros _ []|reflexivity].
  - destruct (slot_is x y) eqn:Es.
    + apply slot_is_spec in Es. subst y. split; [discriminate|intros H; exfalso; apply H; left; reflexivity].
    + assert (Hne : y <> Some x) by (intros ->; rewrite (proj2 (slot_is_spec x (Some x)) eq_refl) in Es; discriminate).
      destruct (index_of x r) eqn:E; cbn.
      * split; [discriminate|]. intros H. exfalso. apply H. right.
        destruct (in_dec (fun a b : option Z => ltac:(decide equality; apply Z.eq_dec)) (Some x) r) as [Hi|Hn]; [exact Hi|].
        apply IH in Hn. discriminate.
      * split; [|reflexivity]. intros _ [Hy|Hr]; [congruence|]. apply (proj1 IH); [reflexivity|exact Hr].
Qed.

Lemma index_of_some x l i : index_of x l = Some i -> nth_error l i = Some (Some x) /\ (i < length l)%nat.
Proof.
  revert i. induction l as [|y r IH]; cbn; intros i H; [discriminate|].
  destruct (slot_is x y) eqn:Es.
  - apply slot_is_spec in Es. subst y. injection H as <-. cbn. split; [reflexivity|lia].
  - destruct (index_of x r) as [j|] eqn:E; cbn in H; [|discriminate].
    injection H as <-. destruct (IH j eq_refl) as [Hn Hl]. cbn. split; [exact Hn|lia].
Qed.

Lemma index_of_app_l x l t i : index_of x l = Some i -> index_of x (l ++ t) = Some i.
Proof.
  revert i. induction l as [|y r IH]; cbn; intros i H; [discriminate|].
  destruct (slot_is x y); [exact H|].
  destruct (index_of x r) as [j|] eqn:E; cbn in H; [|discriminate].
  rewrite (IH j eq_refl). exact H.
Qed.

Lemma index_of_app_new x l : index_of x l = None -> index_of x (l ++ [Some x]) = Some (length l).
Proof.
  induction l as [|y r IH]; cbn; intros H.
  - rewrite Z.eqb_refl. reflexivity.
  - destruct (slot_is x y); [discriminate|].
    destruct (index_of x r) eqn:E; cbn in H; [discriminate|]. rewrite (IH eq_refl). reflexivity.
Qed.

Lemma index_of_inj x y l i : index_of x l = Some i -> index_of y l = Some i -> x = y.
Proof.
  intros Hx Hy. apply index_of_some in Hx. apply index_of_some in Hy.
  destruct Hx as [Hx _]. destruct Hy as [Hy _]. congruence.
Qed.

(* ------------------------------------------------------------------ invariant *)
Section Inv.
  Variables (start step : Z).

  Definition wf (s : tstate) : Prop :=
    NoDup (t_orig s) /\
    exists n, t_remap s = ramp start step n /\ (0 < n)%nat /\ (length (t_orig s) <= n)%nat.

  Lemma wf_init size : (0 < size)%nat -> wf (t_init size start step).
  Proof. intros H. split; [constructor|]. exists size. cbn. repeat split; [exact H|lia]. Qed.

  Lemma nodup_snoc {A} (l : list A) x : NoDup l -> ~ In x l -> NoDup (l ++ [x]).
  Proof.
    intros Hl Hx. apply NoDup_rev in Hl. rewrite <- (rev_involutive (l ++ [x])). apply NoDup_rev.
    rewrite rev_app_distr. cbn. constructor; [rewrite <- in_rev; exact Hx|exact Hl].
  Qed.

  (* the list the new tid is appended to: the stored one, or the placeholder when the very first slice is a device slice *)
  Definition base_of (dev : bool) (o : list (option Z)) : list (option Z) :=
    match o with [] => if dev then [None] else [] | _ => o end.

  Lemma base_of_props dev o tid :
    NoDup o -> index_of tid o = None ->
    NoDup (base_of dev o) /\ index_of tid (base_of dev o) = None /\
    (forall x i, index_of x o = Some i -> index_of x (base_of dev o) = Some i) /\
    (length (base_of dev o) <= Nat.max 1 (length o))%nat.
  Proof.
    intros Hnd Hi. destruct o as [|y r].
    - destruct dev; cbn.
      + split; [constructor; [intros []|constructor]|]. split; [reflexivity|]. split; [intros x i H; discriminate|lia].
      + split; [constructor|]. split; [reflexivity|]. split; [intros x i H; discriminate|lia].
    - cbn [base_of]. split; [exact Hnd|]. split; [exact Hi|]. split; [auto|cbn [length]; lia].
  Qed.

  (* registering a tid never fails, keeps the invariant, keeps the place of every tid registered before and gives
     the new tid a place *)
  Lemma register_ok s dev tid :
    wf s ->
    exists s', t_register step s dev tid = Some s' /\ wf s' /\
               (forall x i, index_of x (t_orig s) = Some i -> index_of x (t_orig s') = Some i) /\
               (exists i, index_of tid (t_orig s') = Some i).
  Proof.
    intros (Hnd & n & Hr & Hn & Hl). unfold t_register.
    destruct (index_of tid (t_orig s)) as [i|] eqn:E.
    - exists s. split; [reflexivity|]. split; [split; [exact Hnd|exists n; auto]|]. split; [auto|exists i; exact E].
    - fold (base_of dev (t_orig s)). cbv zeta.
      destruct (base_of_props dev (t_orig s) tid Hnd E) as (Hnd0 & E0 & Hkeep0 & Hlen0).
      set (o0 := base_of dev (t_orig s)) in *.
      rewrite Hr, ramp_length, app_length. cbn [length].
      assert (Hnd' : NoDup (o0 ++ [Some tid])) by (apply nodup_snoc; [exact Hnd0|apply index_of_none; exact E0]).
      destruct (Nat.ltb_spec n (length o0 + 1)) as [Hlt|Hge].
      + destruct n as [|m]; [lia|]. rewrite ramp_rev_S.
        eexists. split; [reflexivity|]. cbn [t_orig t_remap]. split; [split; [exact Hnd'|]|split].
        * exists (S (S m)). rewrite (ramp_S start step (S m)).
          split; [|split; [lia|cbn [t_orig]; rewrite app_length; cbn [length]; lia]].
          replace (start + Z.of_nat m * step + step) with (start + Z.of_nat (S m) * step) by lia. reflexivity.
        * intros x i Hx. apply index_of_app_l, Hkeep0, Hx.
        * exists (length o0). apply index_of_app_new. exact E0.
      + eexists. split; [reflexivity|]. cbn [t_orig t_remap]. split; [split; [exact Hnd'|]|split].
        * exists n. split; [reflexivity|split; [exact Hn|cbn [t_orig]; rewrite app_length; cbn [length]; lia]].
        * intros x i Hx. apply index_of_app_l, Hkeep0, Hx.
        * exists (length o0). apply index_of_app_new. exact E0.
  Qed.

  Lemma step_ok s dt :
    wf s ->
    exists s' i, t_step step s dt = Some (s', start + Z.of_nat i * step) /\ wf s' /\
                 index_of (snd dt) (t_orig s') = Some i /\
                 (forall x j, index_of x (t_orig s) = Some j -> index_of x (t_orig s') = Some j).
  Proof.
    intros Hw. destruct dt as [dev tid]. destruct (register_ok s dev tid Hw) as (s' & Hreg & Hw' & Hkeep & (i & Hi)).
    exists s', i. unfold t_step. cbn [fst snd]. rewrite Hreg, Hi.
    destruct Hw' as (Hnd & n & Hr & Hn & Hl).
    assert (Hlt : (i < n)%nat) by (apply index_of_some in Hi; lia).
    rewrite Hr, (ramp_nth start step n i Hlt).
    split; [reflexivity|]. split; [split; [exact Hnd|exists n; auto]|]. split; [reflexivity|exact Hkeep].
  Qed.

  (* a whole stream: never fails; every slice gets start + i*step where i is the place of its tid in the final list of
     distinct tids *)
  Lemma run_ok tids : forall s,
    wf s ->
    exists s' vs, t_run step s tids = Some (s', vs) /\ wf s' /\
      (forall x j, index_of x (t_orig s) = Some j -> index_of x (t_orig s') = Some j) /\
      Forall2 (fun t v => exists i, index_of (snd t) (t_orig s') = Some i /\ v = start + Z.of_nat i * step) tids vs.
  Proof.
    induction tids as [|t r IH]; intros s Hw; cbn [t_run].
    - exists s, []. split; [reflexivity|]. split; [exact Hw|]. split; [auto|constructor].
    - destruct (step_ok s t Hw) as (s1 & i & Hs & Hw1 & Hi & Hk1). rewrite Hs.
      destruct (IH s1 Hw1) as (s2 & vs & Hr & Hw2 & Hk2 & Hall). rewrite Hr.
      exists s2, ((start + Z.of_nat i * step) :: vs). split; [reflexivity|]. split; [exact Hw2|]. split.
      + intros x j Hx. apply Hk2, Hk1, Hx.
      + constructor; [|exact Hall]. exists i. split; [apply Hk2; exact Hi|reflexivity].
  Qed.
End Inv.

Theorem tidmap_total size start step tids :
  (0 < size)%nat -> tidmap_val size start step tids <> None.
Proof.
  intros H. unfold tidmap_val.
  destruct (run_ok start step tids _ (wf_init start step size H)) as (s' & vs & Hr & _). rewrite Hr. discriminate.
Qed.

Theorem tidmap_closed_form size start step tids s' vs :
  (0 < size)%nat -> t_run step (t_init size start step) tids = Some (s', vs) ->
  NoDup (t_orig s') /\ (forall t, In t tids -> In (Some (snd t)) (t_orig s')) /\
  Forall2 (fun t v => exists i, index_of (snd t) (t_orig s') = Some i /\ v = start + Z.of_nat i * step) tids vs.
Proof.
  intros H Hv.
  destruct (run_ok start step tids _ (wf_init start step size H)) as (s2 & vs2 & Hr & Hw & _ & Hall).
  rewrite Hr in Hv. injection Hv as <- <-. split; [exact (proj1 Hw)|]. split; [|exact Hall].
  intros t Hin. clear -Hall Hin. induction Hall as [|a b l l' Hab _ IH]; [destruct Hin|].
  destruct Hin as [->|Hin]; [|apply IH; exact Hin].
  destruct Hab as (i & Hi & _). apply index_of_some in Hi. eapply nth_error_In. exact (proj1 Hi).
Qed.

Lemma Forall2_nth {A B} (R : A -> B -> Prop) l l' i a b :
  Forall2 R l l' -> nth_error l i = Some a -> nth_error l' i = Some b -> R a b.
Proof.
  intros H. revert i. induction H as [|x y l l' Hxy _ IH]; intros [|i] Ha Hb; cbn in *; try discriminate.
  - congruence.
  - eapply IH; eassumption.
Qed.

(* equal tids get equal numbers; for a non-zero step different tids get different numbers *)
Theorem tidmap_injective size start step tids vs i j t t' v v' :
  (0 < size)%nat -> tidmap_val size start step tids = Some vs ->
  nth_error tids i = Some t -> nth_error tids j = Some t' ->
  nth_error vs i = Some v -> nth_error vs j = Some v' ->
  (snd t = snd t' -> v = v') /\ (step <> 0 -> v = v' -> snd t = snd t').
Proof.
  intros H Hv Hi Hj Hvi Hvj. unfold tidmap_val in Hv.
  destruct (t_run step (t_init size start step) tids) as [[s' vs2]|] eqn:Hr; [|discriminate].
  cbn in Hv. injection Hv as ->.
  destruct (tidmap_closed_form size start step tids s' vs H Hr) as (_ & _ & Hall).
  destruct (Forall2_nth _ _ _ _ _ _ Hall Hi Hvi) as (a & Ha & ->).
  destruct (Forall2_nth _ _ _ _ _ _ Hall Hj Hvj) as (b & Hb & ->).
  split.
  - intros He. rewrite He in Ha. rewrite Ha in Hb. injection Hb as <-. reflexivity.
  - intros Hs He. assert (a = b) by nia. subst b. eapply index_of_inj; eassumption.
Qed.

(* ------------------------------------------------------------------ the first number of the range *)
Lemma register_head step s dev tid s' :
  t_register step s dev tid = Some s' ->
  match t_orig s with
  | [] => t_orig s = t_orig s' \/ nth_error (t_orig s') 0 = Some (if dev then None else Some tid)
  | y :: _ => nth_error (t_orig s') 0 = Some y
  end.
Proof.
  unfold t_register. destruct (index_of tid (t_orig s)) as [i|] eqn:E.
  - intros H. injection H as <-. destruct (t_orig s); [left; reflexivity|reflexivity].
  - cbv zeta. destruct (t_orig s) as [|y r] eqn:Eo.
    + destruct dev; cbn [app length];
        destruct (Nat.ltb _ _); try (destruct (rev (t_remap s)); [discriminate|]);
        intros H; injection H as <-; right; reflexivity.
    + destruct (Nat.ltb _ _); try (destruct (rev (t_remap s)); [discriminate|]);
        intros H; injection H as <-; reflexivity.
Qed.

Lemma register_registers step s dev tid s' :
  t_register step s dev tid = Some s' -> exists i, index_of tid (t_orig s') = Some i.
Proof.
  unfold t_register. destruct (index_of tid (t_orig s)) as [i|] eqn:E.
  - intros H. injection H as <-. exists i. exact E.
  - cbv zeta.
    assert (E0 : index_of tid (match t_orig s with [] => if dev then [None] else [] | _ => t_orig s end) = None).
    { destruct (t_orig s); [destruct dev; reflexivity|exact E]. }
    set (o0 := match t_orig s with [] => if dev then [None] else [] | _ => t_orig s end) in *.
    destruct (Nat.ltb _ _); try (destruct (rev (t_remap s)); [discriminate|]);
      intros H; injection H as <-; cbn [t_orig]; exists (length o0); apply index_of_app_new; exact E0.
Qed.

Lemma step_head step s dt s' v :
  t_step step s dt = Some (s', v) ->
  match t_orig s with
  | [] => nth_error (t_orig s') 0 = Some (if fst dt then None else Some (snd dt))
  | y :: _ => nth_error (t_orig s') 0 = Some y
  end.
Proof.
  unfold t_step. destruct (t_register step s (fst dt) (snd dt)) as [s1|] eqn:Hr; [|discriminate].
  pose proof (register_head _ _ _ _ _ Hr) as Hh.
  destruct (register_registers _ _ _ _ _ Hr) as (i & Ei). rewrite Ei.
  destruct (nth_error (t_remap s1) i); [|discriminate]. intros H. injection H as <- _.
  destruct (t_orig s) as [|y r]; [|exact Hh]. destruct Hh as [He|Hh]; [|exact Hh].
  rewrite <- He in Ei. discriminate.
Qed.

Lemma run_head step : forall tids s s' vs y r,
  t_orig s = y :: r -> t_run step s tids = Some (s', vs) -> nth_error (t_orig s') 0 = Some y.
Proof.
  induction tids as [|t tl IH]; intros s s' vs y r Ho H; cbn [t_run] in H.
  - injection H as <- _. rewrite Ho. reflexivity.
  - destruct (t_step step s t) as [[s1 v]|] eqn:Hs; [|discriminate].
    destruct (t_run step s1 tl) as [[s2 vs2]|] eqn:Hr; [|discriminate]. injection H as <- _.
    pose proof (step_head _ _ _ _ _ Hs) as Hh. rewrite Ho in Hh.
    destruct (t_orig s1) as [|y1 r1] eqn:E1; [discriminate|]. cbn in Hh. injection Hh as ->.
    eapply IH; eassumption.
Qed.

(* the repair of the lane-1000 defect: the first number of the range (the lane the host slices of a rank are merged
   onto) goes to the tid of the very first slice of the run if that is a host slice, and to nobody otherwise: a device
   stream that shows up first does not take it *)
Theorem tidmap_first_number size start step tids vs i t v :
  (0 < size)%nat -> step <> 0 -> tidmap_val size start step tids = Some vs ->
  nth_error tids i = Some t -> nth_error vs i = Some v -> v = start ->
  exists t0 r, tids = t0 :: r /\ fst t0 = false /\ snd t0 = snd t.
Proof.
  intros H Hs Hv Hi Hvi He. unfold tidmap_val in Hv.
  destruct (t_run step (t_init size start step) tids) as [[s' vs2]|] eqn:Hr; [|discriminate].
  cbn in Hv. injection Hv as ->.
  destruct (tidmap_closed_form size start step tids s' vs H Hr) as (_ & _ & Hall).
  destruct (Forall2_nth _ _ _ _ _ _ Hall Hi Hvi) as (a & Ha & Hva).
  assert (a = 0%nat) by nia. subst a.
  apply index_of_some in Ha. destruct Ha as [Ha _].
  destruct tids as [|t0 r]; [destruct i; discriminate|].
  exists t0, r. split; [reflexivity|].
  cbn [t_run] in Hr.
  destruct (t_step step (t_init size start step) t0) as [[s1 v1]|] eqn:Hs1; [|discriminate].
  destruct (t_run step s1 r) as [[s2 vs3]|] eqn:Hr2; [|discriminate]. injection Hr as <- _.
  pose proof (step_head _ _ _ _ _ Hs1) as Hh. cbn [t_init t_orig] in Hh.
  destruct (t_orig s1) as [|y1 r1] eqn:E1; [discriminate|]. cbn in Hh. injection Hh as ->.
  pose proof (run_head _ _ _ _ _ _ _ E1 Hr2) as Hh2. rewrite Ha in Hh2. injection Hh2 as Hh2.
  destruct (fst t0); [discriminate|]. injection Hh2 as ->. split; reflexivity.
Qed.
