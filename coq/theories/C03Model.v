(* C03Model.v — a concrete, executable instance of Pipeline.v used by the C03 correspondence:
   events are integers, a context cell is (hold list, counter), and a stage graph is a list of
   (behaviour, cell id).  harness/props/c03.py builds the same graph on the real
   EventProcessor (real pipeline_barrier / _main_barrier_context for [Barrier]) with recording
   callbacks and compares call log + drain log + exported stream with [run_val]. *)
From Coq Require Import ZArith List Bool.
Import ListNotations.
From AiuModel Require Import Base Pipeline.
Local Open Scope Z_scope.

Definition cell : Type := (list Z * Z)%type.

Inductive beh := Pass | DropAll | Dup | Expand | DropOdd | Hold | HoldEmit | HoldRev | Barrier | Count | AddCount.

Definition beh_cb (b : beh) (s : cell) (e : Z) : cell * list Z :=
  let '(h, n) := s in
  match b with
  | Pass => (s, [e])
  | DropAll => (s, [])
  | Dup => (s, [e; e])
  | Expand => (s, [2 * e; 2 * e + 1])
  | DropOdd => (s, if Z.even e then [e] else [])
  | Hold | HoldRev | Barrier => ((h ++ [e], n), [])
  | HoldEmit => (([e], n), match h with [] => [] | p :: _ => [p] end)
  | Count => ((h, n + 1), [e])
  | AddCount => (s, [e + 1000 * n])
  end.
(* drain() is a method of the context: "return what is held and reset" (reversed for HoldRev,
   which the generator never lets share a cell) *)
Definition beh_dr (b : beh) (s : cell) : cell * list Z :=
  let '(h, n) := s in
  match b with
  | HoldRev => (([], n), rev h)
  | Barrier => (([], 0), h)          (* _BarrierContext.drain: hand back and reset the hold *)
  | _ => (([], n), h)
  end.
Definition is_bar (b : beh) : bool := match b with Barrier => true | _ => false end.

Definition BCELL : nat := 0%nat.     (* _main_barrier_context *)
Definition mk (bc : beh * nat) : stage Z cell :=
  {| cb := beh_cb (fst bc); cid := (if is_bar (fst bc) then BCELL else snd bc); dr := beh_dr (fst bc);
     bar := is_bar (fst bc) |}.
Definition st0 : store cell := fun _ => ([], 0).

(* stage 0 of every real EventProcessor is sanity_check (context None): a Pass on a private cell *)
Definition SANITY : beh * nat := (Pass, 1%nat).
Definition graph (g : list (beh * nat)) : list (stage Z cell) := map mk (SANITY :: g).

Definition entry_val (g : list (beh * nat)) (x : entry Z) : list val :=
  match x with
  | Call O _ => []                                            (* sanity_check is not recorded *)
  | Call k e => [VL [VZ 0; VZ (Z.of_nat k); VZ e]]
  | Drain O => []                                             (* context None: no drain call *)
  | Drain k => [VL [VZ 1; VZ (Z.of_nat (cid (mk (nth (pred k) g SANITY))))]]
  end.

(* what the tie compares: [exported stream; time-ordered log of callback calls and context drains] *)
Definition run_val (gi : list (beh * nat) * list Z) : val :=
  let '(g, es) := gi in
  let '(out, log) := run_l (graph g) st0 es in
  VL [VLz out; VL (flat_map (entry_val g) log)].

(* non-triviality rule measured inside Coq: the graph has a holding stage or a barrier followed
   by at least one stage that is not Pass *)
Definition holds (b : beh) : bool :=
  match b with Hold | HoldEmit | HoldRev | Barrier => true | _ => false end.
Fixpoint nontrivial_g (g : list (beh * nat)) : bool :=
  match g with
  | [] => false
  | (b, _) :: r => (holds b && existsb (fun x => match fst x with Pass => false | _ => true end) r)
                   || nontrivial_g r
  end.
Definition nontrivial (c : (list (beh * nat) * list Z) * val) : bool :=
  nontrivial_g (fst (fst c)) && negb (match snd (fst c) with [] => true | _ => false end).

(* ---------- the concrete graphs meet the hypotheses of Pipeline.stream_compose ---------- *)
Definition happ (s : cell) (e : Z) : cell := (fst s ++ [e], snd s).
Definition hlist (s : cell) : list Z := fst s.
Definition hempty : cell := ([], 0).

Lemma barrier_is_barrier c : is_barrier BCELL happ hlist hempty (mk (Barrier, c)).
Proof.
  split; [reflexivity|]. split.
  - intros [h n] e. reflexivity.
  - intros [h n]. reflexivity.
Qed.

(* boolean well-formedness of a stage description list: a non-barrier stage uses a cell different
   from the barrier cell and from the cells of all later non-barrier stages *)
Fixpoint wf_b (g : list (beh * nat)) : bool :=
  match g with
  | [] => true
  | (b, c) :: r =>
      (if is_bar b then true
       else negb (Nat.eqb c BCELL) &&
            forallb (fun x => is_bar (fst x) || negb (Nat.eqb (snd x) c)) r) && wf_b r
  end.

Lemma wf_b_sound g : wf_b g = true -> wf BCELL happ hlist hempty (map mk g).
Proof.
  induction g as [|[b c] r IH]; intros H; cbn [map]; [constructor|].
  cbn [wf_b] in H. apply andb_prop in H. destruct H as [H1 H2].
  destruct (is_bar b) eqn:Eb.
  - destruct b; try discriminate. apply wf_bar; [reflexivity|apply barrier_is_barrier|now apply IH].
  - apply andb_prop in H1. destruct H1 as [Hc Hr].
    apply wf_priv; [cbn; now rewrite Eb| |now apply IH].
    unfold cids. rewrite map_map. intro Hin. apply in_map_iff in Hin. destruct Hin as ([b' c'] & Hx & Hin).
    rewrite forallb_forall in Hr. specialize (Hr _ Hin). cbn [fst snd] in *.
    unfold mk in Hx. cbn [cid fst snd] in Hx. rewrite Eb in Hx.
    destruct (is_bar b') eqn:Eb'.
    + apply negb_true_iff in Hc. apply Nat.eqb_neq in Hc. congruence.
    + cbn in Hr. apply negb_true_iff in Hr. apply Nat.eqb_neq in Hr. congruence.
Qed.

Lemma wf_b_nobc g : wf_b g = true -> ~ In BCELL (pcids (map mk g)).
Proof.
  induction g as [|[b c] r IH]; intros H; cbn [map]; [intros []|].
  cbn [wf_b] in H. apply andb_prop in H. destruct H as [H1 H2].
  unfold pcids. cbn [filter]. unfold mk at 1. cbn [bar fst].
  destruct (is_bar b) eqn:Eb; cbn [negb].
  - now apply IH.
  - cbn [map]. intros [Hx|Hx]; [|now apply IH].
    unfold mk in Hx. cbn [cid fst snd] in Hx. rewrite Eb in Hx.
    apply andb_prop in H1. destruct H1 as [Hc _]. apply negb_true_iff in Hc. apply Nat.eqb_neq in Hc. congruence.
Qed.
