(* Lane renaming of a later stage (tb_refinement.py::RefinementContext.update_event_data_light): host slices of a FLEX
   file that carry torch-profiler annotations ("External id" / "Python id") are pulled to the top of the viewer by
   renaming their lane   tid -> int(tid/10) + tid % 10.
   The lanes such slices sit on after tid mapping and overlap resolution are 1000 + 100*k + j  (k-th mapped stream,
   j-th spare lane handed out by -O tid, j <= 5): on these the renaming is injective, so lanes that overlap resolution
   separated stay separated (C04 "never merges lanes"). *)
From Coq Require Import ZArith Lia.
Local Open Scope Z_scope.

Definition light_tid (t : Z) : Z := t / 10 + t mod 10.

Lemma light_tid_lane k j : 0 <= j < 10 -> light_tid (1000 + 100 * k + j) = 100 + 10 * k + j.
Proof.
  intros Hj. unfold light_tid.
  replace (1000 + 100 * k + j) with (j + (100 + 10 * k) * 10) by ring.
  rewrite Z.div_add, Z.mod_add by lia.
  rewrite Z.div_small, Z.mod_small by lia. ring.
Qed.

Lemma light_tid_injective_on_lanes k k' j j' :
  0 <= j < 10 -> 0 <= j' < 10 ->
  light_tid (1000 + 100 * k + j) = light_tid (1000 + 100 * k' + j') -> k = k' /\ j = j'.
Proof.
  intros Hj Hj' H. rewrite !light_tid_lane in H by assumption. lia.
Qed.
