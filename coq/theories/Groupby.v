(* Groupby.v — behind C14(c): wherever the tool uses a (seed-dependent) hash of a string only as a dictionary key
   — queues keyed by hash(collgroup), hash(sync tag), fingerprint+pid, "a_to_b" strings — the insertion-ordered
   buckets it builds, and therefore everything derived from iterating them, do not depend on the hash function,
   as long as the hash is injective on the keys that actually occur.
   [groupby key l] models `for x in l: d.setdefault(key(x), []).append(x)` followed by iteration over d.values()
   (Python dicts preserve insertion order). *)
From Coq Require Import List Bool.
Import ListNotations.
Set Implicit Arguments.

Section Groupby.
Variables A K H : Type.
Variable keqb : K -> K -> bool.
Variable heqb : H -> H -> bool.
Hypothesis keqb_spec : forall a b, keqb a b = true <-> a = b.
Hypothesis heqb_spec : forall a b, heqb a b = true <-> a = b.

Fixpoint ins {X} (eqb : X -> X -> bool) (k : X) (x : A) (bs : list (X * list A)) : list (X * list A) :=
  match bs with
  | [] => [(k, [x])]
  | (k', b) :: r => if eqb k k' then (k', b ++ [x]) :: r else (k', b) :: ins eqb k x r
  end.
Definition groupby {X} (eqb : X -> X -> bool) (key : A -> X) (l : list A) : list (X * list A) :=
  fold_left (fun acc x => ins eqb (key x) x acc) l [].

Variable h : K -> H.
Definition relabel (bs : list (K * list A)) : list (H * list A) := map (fun kb => (h (fst kb), snd kb)) bs.

Lemma ins_relabel k x : forall bs,
  (forall k', In k' (map fst bs) -> h k = h k' -> k = k') ->
  ins heqb (h k) x (relabel bs) = relabel (ins keqb k x bs).
Proof.
  induction bs as [|[k' b] r IH]; intros Hinj; [reflexivity|]. cbn [relabel map ins fst snd].
  destruct (keqb k k') eqn:Ek.
  - apply keqb_spec in Ek. subst k'. assert (Hh : heqb (h k) (h k) = true) by (now apply heqb_spec).
    rewrite Hh. reflexivity.
  - assert (Hh : heqb (h k) (h k') = false).
    { destruct (heqb (h k) (h k')) eqn:Eh; [|reflexivity]. apply heqb_spec in Eh.
      apply Hinj in Eh; [|now left]. apply keqb_spec in Eh. congruence. }
    rewrite Hh. cbn [relabel map fst snd]. f_equal. apply IH. intros k'' Hin. apply Hinj. now right.
Qed.

Lemma ins_keys k x : forall bs k', In k' (map fst (ins keqb k x bs)) -> k' = k \/ In k' (map fst bs).
Proof.
  induction bs as [|[k0 b] r IH]; intros k' Hin; cbn [ins] in Hin.
  - destruct Hin as [<-|[]]. now left.
  - destruct (keqb k k0); cbn [map fst] in Hin |- *.
    + right. exact Hin.
    + destruct Hin as [<-|Hin]; [right; now left|]. destruct (IH _ Hin); [now left|right; now right].
Qed.

Theorem groupby_hash_independent (key : A -> K) (l : list A) :
  (forall x y, In x l -> In y l -> h (key x) = h (key y) -> key x = key y) ->
  groupby heqb (fun x => h (key x)) l = relabel (groupby keqb key l) /\
  map snd (groupby heqb (fun x => h (key x)) l) = map snd (groupby keqb key l).
Proof.
  intros Hinj.
  assert (G : forall l' bs, (forall x, In x l' -> In x l) ->
              (forall k', In k' (map fst bs) -> exists y, In y l /\ key y = k') ->
              fold_left (fun acc x => ins heqb (h (key x)) x acc) l' (relabel bs)
              = relabel (fold_left (fun acc x => ins keqb (key x) x acc) l' bs)).
  { induction l' as [|x r IH]; intros bs Hsub Hk; [reflexivity|]. cbn [fold_left].
    rewrite ins_relabel.
    - apply IH; [intros y Hy; apply Hsub; now right|].
      intros k' Hin. destruct (ins_keys _ _ _ _ Hin) as [->|Hin']; [exists x; split; [apply Hsub; now left|reflexivity]|now apply Hk].
    - intros k' Hin Hh. destruct (Hk k' Hin) as (y & Hy & <-). apply Hinj; [apply Hsub; now left|exact Hy|exact Hh]. }
  assert (E : groupby heqb (fun x => h (key x)) l = relabel (groupby keqb key l)).
  { unfold groupby. change (@nil (H * list A)) with (relabel []). apply G; [auto|intros k' []]. }
  split; [exact E|]. rewrite E. unfold relabel. rewrite map_map. reflexivity.
Qed.
End Groupby.
