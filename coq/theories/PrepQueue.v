(* PrepQueue.v — executable model of the prep-queue counter stage (property C13).

   Modelled code (src/aiu_trace_analyzer/pipeline/cmpt_collection.py, as it is today):
     * QueueingCounterContext.update_queues   -> [update_queues]   (ready / mid / post partition of the
                                                 breakpoint list, the three insertion rules, the
                                                 special case of an empty queue; the mode
                                                 `self.sorted_input`: True = breakpoints before s are
                                                 final and emitted at once, False = "hold": nothing is
                                                 emitted before drain, the stored list keeps them)
     * QueueingCounterContext.__init__        -> the first argument [si] of [update_queues] /
                                                 [create_counter] / [step] / [feed] / [run_stage]
                                                 (sorted_input, default True; acelyzer registers the stage
                                                 with sorted_input = not args.skip_mpsync, i.e. -M -> false)
     * QueueingCounterContext.create_counter  -> [create_counter]  (per-pid dict of queues, interval
                                                 [ts, ts+dur), emits the "ready" breakpoints)
     * QueueingCounterContext.make_events     -> [OCnt] + [out_val] (name "ConcurrentPreps",
                                                 cat "Pending Prep Events", args.Concurrency)
     * QueueingCounterContext.drain           -> [drain]           (dict.popitem: last inserted pid first)
     * queueing_counter                       -> [step]            (`ph in "X"` substring test, Prep test,
                                                 keep_prep: accompany or replace)
   and, from src/aiu_trace_analyzer/pipeline/tools.py and types.py,
     * PipelineContextTool.is_category(event, "acc_compute_prep") with the dialect entry
       "is.name;Cmpt Prep$" (FLEX and TORCH) -> [is_category_prep] / [is_prep_name]
       (re.search("Cmpt Prep$", name): `$` also matches before one trailing newline).

   Times are exact rationals (Q), counts are Z.  Nothing here is idealised: an empty or negative
   interval (dur <= 0: ignored by create_counter's guard, after the pid's queue entry was created),
   unsorted input, a missing "dur" (KeyError) and an unknown job hash (KeyError) behave as in the code; the property theorems (PrepQueue_proofs.v, props/C13.v) name the hypotheses
   under which the counter is right. *)
From Coq Require Import ZArith QArith List Bool String Ascii.
Import ListNotations.
From AiuModel Require Import Base.
Local Open Scope Z_scope.

(* ------------------------------------------------------------------ breakpoint lists *)
Definition bp : Type := (Q * Z)%type.          (* (time, number of overlapping Preps from there on) *)

(* `l[-1][1] if len(l) else base` *)
Definition lastc (base : Z) (q : list bp) : Z := fold_left (fun _ p => snd p) q base.
Definition bump (m : list bp) : list bp := map (fun p => (fst p, snd p + 1)) m.

Definition is_ready (s : Q) (x : bp) : bool := Qlt_b (fst x) s.                          (* x[0] < s *)
Definition is_mid (s e : Q) (x : bp) : bool := Qle_b s (fst x) && Qlt_b (fst x) e.       (* s <= x[0] and x[0] < e *)
Definition is_post (e : Q) (x : bp) : bool := Qle_b e (fst x).                           (* e <= x[0] *)

(* the part of update_queues after the three filters *)
Definition new_list (last_ready : Z) (mid post : list bp) (s e : Q) : list bp :=
  let last_overlap := lastc last_ready mid in
  let n1 := match mid with
            | [] => [(s, last_ready + 1)]
            | (x, _) :: _ => if Qlt_b s x then [(s, last_ready + 1)] else []
            end in
  let n3 := match post with
            | [] => [(e, last_overlap)]
            | (x, _) :: _ => if Qlt_b e x then [(e, last_overlap)] else []
            end in
  n1 ++ bump mid ++ n3 ++ post.

(* update_queues(s, e, qid) on the queue [q] of that qid, context built with sorted_input = si:
   (ready_list, new_list), or, `if not self.sorted_input`, ([], ready_list + new_list); the early return
   for an empty queue is the same in both modes *)
Definition update_queues (si : bool) (s e : Q) (q : list bp) : list bp * list bp :=
  match q with
  | [] => ([], [(s, 1); (e, 0)])
  | _ =>
      let ready := filter (is_ready s) q in
      let nl := new_list (lastc 0 ready) (filter (is_mid s e) q) (filter (is_post e) q) s e in
      if si then (ready, nl) else ([], ready ++ nl)
  end.

(* ------------------------------------------------------------------ events *)
(* what get_dialect_of_event / GlobalIngestData.get_dialect find for the event *)
Inductive jobst :=
| JFlex        (* args.jobhash names a job ingested with the FLEX dialect *)
| JTorch       (* ... with the TORCH dialect *)
| JNoArgs      (* no "args" in the event: dialect None *)
| JNoHash      (* "args" without "jobhash": prints an error, dialect None *)
| JUnknown     (* jobhash not in the job map: KeyError escapes *)
| JNoDialect.  (* job registered without a dialect object: `if not dialect` *)

Record ev := mkEv {
  e_ph : string; e_name : string; e_pid : Z; e_ts : Q;
  e_dur : option Q;          (* None = no "dur" key *)
  e_uid : Z;                 (* identity of the dict, to follow it through the stage *)
  e_job : jobst }.

Inductive out :=
| OPass (e : ev)                       (* the very event that came in, unchanged *)
| OCnt (pid : Z) (t : Q) (c : Z).      (* make_events: one ConcurrentPreps counter sample *)

Inductive res (A : Type) := Ok (a : A) | Fail (tag : string).
Arguments Ok {A} a.
Arguments Fail {A} tag.

(* ------------------------------------------------------------------ Prep test *)
Definition prep_entry : string := "is.name;Cmpt Prep$".     (* dialect entry acc_compute_prep *)
Definition prep_suffix : string := "Cmpt Prep".
Definition nl : string := String (ascii_of_nat 10) EmptyString.

Fixpoint ends_with (suf s : string) : bool :=
  if String.eqb s suf then true
  else match s with EmptyString => false | String _ r => ends_with suf r end.

(* re.compile("Cmpt Prep$").search(name) is not None *)
Definition is_prep_name (name : string) : bool :=
  ends_with prep_suffix name || ends_with (String.append prep_suffix nl) name.

(* `event["ph"] in "X"` is a substring test *)
Definition ph_in_X (ph : string) : bool := String.eqb ph "" || String.eqb ph "X".

(* is_category(event, "acc_compute_prep") *)
Definition is_category_prep (e : ev) : res bool :=
  match e_job e with
  | JNoArgs | JNoHash | JNoDialect => Ok false
  | JUnknown => Fail "KeyError"
  | JFlex | JTorch => Ok (is_prep_name (e_name e))
  end.

(* Ok None: the stage passes the event through; Ok (Some (s, e)): a Prep slice with interval
   [s, e) = [ts, ts+dur); Fail: the exception that escapes *)
Definition classify (e : ev) : res (option (Q * Q)) :=
  if ph_in_X (e_ph e) then
    match is_category_prep e with
    | Fail t => Fail t
    | Ok false => Ok None
    | Ok true => match e_dur e with
                 | None => Fail "KeyError"
                 | Some d => Ok (Some (e_ts e, e_ts e + d)%Q)
                 end
    end
  else Ok None.

(* ------------------------------------------------------------------ context: dict pid -> queue *)
Definition queues : Type := list (Z * list bp).     (* insertion-ordered dict *)

Fixpoint q_get (p : Z) (qs : queues) : option (list bp) :=
  match qs with
  | [] => None
  | (k, v) :: r => if k =? p then Some v else q_get p r
  end.
Fixpoint q_set (p : Z) (v : list bp) (qs : queues) : queues :=
  match qs with
  | [] => [(p, v)]
  | (k, w) :: r => if k =? p then (k, v) :: r else (k, w) :: q_set p v r
  end.
Definition qof (p : Z) (qs : queues) : list bp := match q_get p qs with Some q => q | None => [] end.

(* make_events(ready, pid) *)
Definition cnts (p : Z) (l : list bp) : list out := map (fun x => OCnt p (fst x) (snd x)) l.

(* `if qid not in self.queues: self.queues[qid] = []` *)
Definition q_touch (p : Z) (qs : queues) : queues :=
  match q_get p qs with Some _ => qs | None => q_set p [] qs end.

(* create_counter: a new pid gets its (empty) queue first; an interval with end <= start is never in
   flight and changes nothing else (guard added by the fix for the zero-duration defect) *)
Definition create_counter (si : bool) (qs : queues) (p : Z) (s e : Q) : queues * list out :=
  let qs0 := q_touch p qs in
  if Qle_b e s then (qs0, [])
  else
    let '(ready, nq) := update_queues si s e (qof p qs0) in
    (q_set p nq qs0, cnts p ready).

(* drain(): popitem() takes the most recently inserted pid first *)
Definition drain (qs : queues) : list out :=
  flat_map (fun kv => cnts (fst kv) (snd kv)) (rev qs).

(* queueing_counter(event, ctx, {"keep_prep": keep}), ctx = QueueingCounterContext(sorted_input = si) *)
Definition step (si keep : bool) (qs : queues) (e : ev) : res (queues * list out) :=
  match classify e with
  | Fail t => Fail t
  | Ok None => Ok (qs, [OPass e])
  | Ok (Some (s, e')) =>
      let '(qs', cs) := create_counter si qs (e_pid e) s e' in
      Ok (qs', if keep then OPass e :: cs else cs)
  end.

Fixpoint feed (si keep : bool) (qs : queues) (evs : list ev) : res (queues * list (list out)) :=
  match evs with
  | [] => Ok (qs, [])
  | e :: r =>
      match step si keep qs e with
      | Fail t => Fail t
      | Ok (qs1, o) =>
          match feed si keep qs1 r with
          | Fail t => Fail t
          | Ok (qs2, os) => Ok (qs2, o :: os)
          end
      end
  end.

(* the whole life of the stage: every event through the callback (fresh context built with
   sorted_input = si), then drain() *)
Definition run_stage (si keep : bool) (evs : list ev) : res (list (list out) * list out) :=
  match feed si keep [] evs with
  | Fail t => Fail t
  | Ok (qs, os) => Ok (os, drain qs)
  end.

(* ------------------------------------------------------------------ views used by the theorems *)
Definition all_out (r : list (list out) * list out) : list out := List.concat (fst r) ++ snd r.

(* counter samples of one pid, in emission order *)
Definition samples_of (p : Z) (os : list out) : list bp :=
  flat_map (fun o => match o with OCnt k t c => if k =? p then [(t, c)] else [] | OPass _ => [] end) os.
(* events passed through, in emission order *)
Definition passed (os : list out) : list ev :=
  flat_map (fun o => match o with OPass e => [e] | OCnt _ _ _ => [] end) os.
(* Prep intervals of one pid, in arrival order *)
Definition preps_of (p : Z) (evs : list ev) : list (Q * Q) :=
  flat_map (fun e => match classify e with
                     | Ok (Some iv) => if e_pid e =? p then [iv] else []
                     | _ => []
                     end) evs.
Definition is_prep_ev (e : ev) : bool :=
  match classify e with Ok (Some _) => true | _ => false end.

(* number of intervals with s <= t < e *)
Definition inside (t : Q) (iv : Q * Q) : bool := Qle_b (fst iv) t && Qlt_b t (snd iv).
Definition count_at (ivs : list (Q * Q)) (t : Q) : Z := Z.of_nat (List.length (filter (inside t) ivs)).

(* value at time t of the step function a breakpoint list denotes *)
Definition upto (t : Q) (q : list bp) : list bp := filter (fun p => Qle_b (fst p) t) q.
Definition den (base : Z) (q : list bp) (t : Q) : Z := lastc base (upto t q).

(* one queue fed with a list of intervals: (everything emitted by the callbacks, final queue);
   intervals with end <= start are skipped by create_counter's guard *)
Fixpoint stream_q (si : bool) (q : list bp) (ivs : list (Q * Q)) : list bp * list bp :=
  match ivs with
  | [] => ([], q)
  | (s, e) :: r =>
      if Qle_b e s then stream_q si q r
      else
        let '(rd, q1) := update_queues si s e q in
        let '(em, q2) := stream_q si q1 r in
        (rd ++ em, q2)
  end.

(* ------------------------------------------------------------------ encoders for the tie *)
Definition cnt_name : string := "ConcurrentPreps".
Definition cnt_cat : string := "Pending Prep Events".

Definition out_val (o : out) : val :=
  match o with
  | OPass e => VL [VS "P"; VZ (e_uid e)]
  | OCnt p t c => VL [VS "C"; VS cnt_name; VS cnt_cat; VZ p; VQ t; VZ c]
  end.
Definition bp_val (x : bp) : val := VL [VQ (fst x); VZ (snd x)].

(* ((sorted_input, keep_prep), events) *)
Definition run_val (x : (bool * bool) * list ev) : val :=
  match run_stage (fst (fst x)) (snd (fst x)) (snd x) with
  | Fail t => VE t
  | Ok (os, dr) => VL [VL (map (fun o => VL (map out_val o)) os); VL (map out_val dr)]
  end.

(* update_queues alone, on an arbitrary (possibly ill-formed) stored list: ((sorted_input, (s, e)), list) *)
Definition uq_val (x : (bool * (Q * Q)) * list bp) : val :=
  let '(rd, nq) := update_queues (fst (fst x)) (fst (snd (fst x))) (snd (snd (fst x))) (snd x) in
  VL [VL (map bp_val rd); VL (map bp_val nq)].

(* (true, name): the Prep test on a name; (false, _): the dialect entry the model stands for *)
Definition name_val (x : bool * string) : val :=
  if fst x then VB (is_prep_name (snd x)) else VS prep_entry.

(* a compact constructor for cases files: Prep-named / other slices and other phases *)
Definition jcode (n : Z) : jobst :=
  match n with 0 => JFlex | 1 => JTorch | 2 => JNoArgs | 3 => JNoHash | 4 => JUnknown | _ => JNoDialect end.
Definition E (ph name : string) (pid : Z) (ts : Q) (dur : option Q) (uid job : Z) : ev :=
  mkEv ph name pid ts dur uid (jcode job).

(* non-triviality rule measured inside Coq (DESIGN Appendix C): the stream holds, for some pid,
   two Prep intervals that touch, nest or overlap, i.e. s1 <= s2 <= e1 in arrival order *)
Fixpoint touching (ivs : list (Q * Q)) : bool :=
  match ivs with
  | [] => false
  | (s1, e1) :: r => existsb (fun iv => Qle_b s1 (fst iv) && Qle_b (fst iv) e1) r || touching r
  end.
Definition nontrivial (c : ((bool * bool) * list ev) * val) : bool :=
  existsb (fun e => touching (preps_of (e_pid e) (snd (fst c)))) (snd (fst c)).
