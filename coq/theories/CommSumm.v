(* CommSumm.v — executable model of communication-sequence summarization (--comm_summarize_seq).

   Code modelled (src/aiu_trace_analyzer/pipeline/coll_group.py, current tree, i.e. after the fixes
   "key communication sequences by the (job, number) pair" and "the communication summarization also
   collects the peers a part lists in args.Peers" (cff7329)):
     CommunicationGroupContext.sequence_number_pattern / extract_sequence_number -> [first_seq], [candidate]
         re.compile(r"[_-](\d+)").search(name): leftmost '_' or '-' directly followed by a digit, then the
         maximal run of digits; the key is the PAIR (jobhash, digit string) ("05" and "5" stay distinct).
     CommunicationGroupContext.add_to_sequence (incl. the nested _longest_name_overlap with its
         "EmptyName" quirk and the nested _peers_of: int(args.Peer) plus int() of every non-blank entry
         of args.Peers)                                    -> [add_to_sequence], [overlap], [peers_add]
     CommunicationGroupContext.apply                                              -> [apply1], [merged]
     communication_event_collection                                               -> [collect1]
     communication_event_apply                                                    -> [apply1]
     TwoPhaseWithBarrierContext.drain (returns [], keeps the queues)              -> [comm_dr]
   and the registration in core/acelyzer.py::register_processing_functions
     collection ; pipeline_barrier ; apply   (one CommunicationGroupContext shared by both stages)
                                                                                  -> [comm_graph] over Pipeline.v
   [summarize] = "collect over the whole stream, then apply over the same stream" is what the barrier
   makes of the two stages (proved equal to Pipeline.run on [comm_graph] in CommSumm_proofs.v).

   Numbers: job ids / uids / peers / counters are Z, times are Q (the tie runs on the exact grid, where
   the implementation's double arithmetic ts+dur, end-start, min, max is exact).
   Exceptions: int() of args.Peer or of an entry of args.Peers on a non-integer string is the explicit
   outcome Err "ValueError" ([PBad]); a missing queue entry in apply would be Err "KeyError" (proved
   unreachable). *)
From Coq Require Import ZArith QArith List Bool String Ascii.
Import ListNotations.
From AiuModel Require Import Base Pipeline.
Local Open Scope Z_scope.

(* ------------------------------------------------------------------ strings *)
Definition is_digit (c : ascii) : bool :=
  let n := nat_of_ascii c in (Nat.leb 48 n && Nat.leb n 57)%bool.
Definition is_sep (c : ascii) : bool :=
  (Ascii.eqb c "_"%char || Ascii.eqb c "-"%char)%bool.

Fixpoint prefixb (p s : string) : bool :=
  match p, s with
  | EmptyString, _ => true
  | String a p', String b s' => (Ascii.eqb a b && prefixb p' s')%bool
  | String _ _, EmptyString => false
  end.
(* Python: p in s *)
Fixpoint contains (p s : string) : bool :=
  (prefixb p s || match s with EmptyString => false | String _ r => contains p r end)%bool.

Fixpoint take_digits (s : string) : string :=
  match s with
  | String c r => if is_digit c then String c (take_digits r) else EmptyString
  | EmptyString => EmptyString
  end.
Definition starts_digit (s : string) : bool :=
  match s with String c _ => is_digit c | EmptyString => false end.
(* re.compile(r"[_-](\d+)").search(name).group(1) *)
Fixpoint first_seq (s : string) : option string :=
  match s with
  | EmptyString => None
  | String c r => if (is_sep c && starts_digit r)%bool then Some (take_digits r) else first_seq r
  end.

(* _longest_name_overlap(str_a, str_b): zip(str_a + 'a', str_b + 'b'); first difference at i -> str_a[:i];
   zip exhausted without a difference -> "EmptyName" *)
Fixpoint overlap_aux (a b : string) : option string :=
  match a, b with
  | String x a', String y b' =>
      if Ascii.eqb x y then option_map (String x) (overlap_aux a' b') else Some EmptyString
  | _, _ => None
  end.
Definition overlap (a b : string) : string :=
  match overlap_aux (a ++ "a") (b ++ "b") with Some p => p | None => "EmptyName"%string end.

(* ------------------------------------------------------------------ events *)
(* args.Peer: absent | something int() accepts | something int() rejects.
   The same three cases classify ONE ENTRY of args.Peers: blank (str(p).strip() == "", skipped by the code) |
   int() accepts | int() rejects. *)
Inductive peer := PNone | PInt (z : Z) | PBad.

Record ev := mkev {
  e_x : bool;                     (* ph == "X" *)
  e_name : string;
  e_job : Z;                      (* args.jobhash *)
  e_ts : Q;
  e_dur : Q;
  e_peer : peer;                  (* args.Peer *)
  e_uid : Z;                      (* args.uid: identity of the slice, never touched by the stages *)
  e_peers : option (list peer)    (* args.Peers: absent | its entries in order (a comma separated string split at ',',
                                     the elements of a list/tuple/set, any other value as ONE entry).  On a merged
                                     slice: the union, ascending, every entry a PInt *)
}.
Definition listed (e : ev) : list peer := match e_peers e with Some l => l | None => [] end.

Definition key : Type := (Z * string)%type.
Definition key_eqb (a b : key) : bool := (Z.eqb (fst a) (fst b) && String.eqb (snd a) (snd b))%bool.

(* the guard shared by both stage functions + extract_sequence_number: Some key <=> the event is a part
   of a communication sequence *)
Definition candidate (e : ev) : option key :=
  if (e_x e && contains "SenRdma" (e_name e))%bool then
    match first_seq (e_name e) with
    | Some d => Some (e_job e, d)
    | None => None
    end
  else None.
Definition is_key (k : key) (e : ev) : bool :=
  match candidate e with Some k' => key_eqb k k' | None => false end.

(* ------------------------------------------------------------------ context state *)
Record seqd := mkseq {
  q_count : Z; q_start : Q; q_end : Q; q_name : string;
  q_peers : list Z                (* Python set of ints, kept as a strictly ascending list *)
}.
Definition queues := list (key * seqd).

Fixpoint lookup (k : key) (q : queues) : option seqd :=
  match q with
  | [] => None
  | (k', d) :: r => if key_eqb k k' then Some d else lookup k r
  end.
(* dict assignment: replace in place, or append a new key *)
Fixpoint qset (k : key) (d : seqd) (q : queues) : queues :=
  match q with
  | [] => [(k, d)]
  | (k', d') :: r => if key_eqb k k' then (k', d) :: r else (k', d') :: qset k d r
  end.
Definition qremove (k : key) (q : queues) : queues :=
  filter (fun kd => negb (key_eqb k (fst kd))) q.

Fixpoint set_add (z : Z) (l : list Z) : list Z :=
  match l with
  | [] => [z]
  | y :: r => if z <? y then z :: l else if z =? y then l else y :: set_add z r
  end.
Definition peer_add (p : peer) (l : list Z) : list Z :=
  match p with PInt z => set_add z l | _ => l end.
Definition entries_add (ps : list peer) (l : list Z) : list Z := fold_left (fun acc p => peer_add p acc) ps l.
(* peers.update(_peers_of(event)): int(args.Peer) if present, then every non-blank entry of args.Peers *)
Definition peers_add (e : ev) (l : list Z) : list Z := entries_add (listed e) (peer_add (e_peer e) l).
Definition is_bad (p : peer) : bool := match p with PBad => true | _ => false end.
(* _peers_of(event) raises ValueError *)
Definition bad_peers (e : ev) : bool := (is_bad (e_peer e) || existsb is_bad (listed e))%bool.

(* one more part folded into the summary of its sequence (None = key not yet in the dict) *)
Definition step_d (o : option seqd) (e : ev) : seqd :=
  match o with
  | None => mkseq 1 (e_ts e) (e_ts e + e_dur e) (e_name e) (peers_add e [])
  | Some d => mkseq (q_count d + 1)
                    (Qmin (q_start d) (e_ts e))
                    (Qmax (q_end d) (e_ts e + e_dur e))
                    (overlap (q_name d) (e_name e))
                    (peers_add e (q_peers d))
  end.
Definition step (o : option seqd) (e : ev) : option seqd := Some (step_d o e).

Inductive res (A : Type) := Ok (a : A) | Err (tag : string).
Arguments Ok {A} a.
Arguments Err {A} tag.

Definition add_to_sequence (q : queues) (k : key) (e : ev) : res queues :=
  if bad_peers e then Err "ValueError"
  else Ok (qset k (step_d (lookup k q) e) q).

(* communication_event_collection: state update; the event itself is always passed on *)
Definition collect1 (q : queues) (e : ev) : res queues :=
  match candidate e with
  | Some k => add_to_sequence q k e
  | None => Ok q
  end.

Definition merged (e : ev) (d : seqd) : ev :=
  mkev (e_x e) (q_name d) (e_job e) (q_start d) (q_end d - q_start d) (e_peer e) (e_uid e)
       (Some (map PInt (q_peers d))).
Definition set_count (d : seqd) (c : Z) : seqd :=
  mkseq c (q_start d) (q_end d) (q_name d) (q_peers d).

(* communication_event_apply *)
Definition apply1 (q : queues) (e : ev) : res (queues * list ev) :=
  match candidate e with
  | None => Ok (q, [e])
  | Some k =>
      match lookup k q with
      | None => Err "KeyError"
      | Some d =>
          let c := q_count d - 1 in
          if c =? 0 then Ok (qremove k q, [merged e d])
          else Ok (qset k (set_count d c) q, [])
      end
  end.

Fixpoint collect_all (q : queues) (es : list ev) : res queues :=
  match es with
  | [] => Ok q
  | e :: r => match collect1 q e with Ok q1 => collect_all q1 r | Err t => Err t end
  end.
Fixpoint apply_all (q : queues) (es : list ev) : res (list ev) :=
  match es with
  | [] => Ok []
  | e :: r => match apply1 q e with
              | Ok (q1, o) => match apply_all q1 r with Ok o2 => Ok (o ++ o2) | Err t => Err t end
              | Err t => Err t
              end
  end.

(* the two stages around the barrier: the whole stream is collected before the first event is applied *)
Definition summarize (es : list ev) : res (list ev) :=
  match collect_all [] es with
  | Ok q => apply_all q es
  | Err t => Err t
  end.

(* ------------------------------------------------------------------ the property's own terms *)
Definition parts (k : key) (es : list ev) : list ev := filter (is_key k) es.
Definition summary_of (ps : list ev) : option seqd := fold_left step ps None.
(* event by event: not part of a sequence -> unchanged; part followed by another part of the same
   sequence -> removed; last part -> the slice built from the summary of ALL parts of the sequence *)
Fixpoint spec (all rest : list ev) : list ev :=
  match rest with
  | [] => []
  | e :: r =>
      match candidate e with
      | None => e :: spec all r
      | Some k =>
          if existsb (is_key k) r then spec all r
          else match summary_of (parts k all) with
               | Some d => merged e d :: spec all r
               | None => e :: spec all r
               end
      end
  end.
(* the peers a part names: its Peer and the entries of its Peers *)
Definition names (p : ev) (z : Z) : Prop := e_peer p = PInt z \/ In (PInt z) (listed p).
(* no part of a sequence carries a Peer, or an entry in Peers, that int() rejects *)
Definition peer_ok (e : ev) : bool :=
  match candidate e with Some _ => negb (bad_peers e) | None => true end.

(* ------------------------------------------------------------------ the registered pipeline *)
Record cstate := mkcs { cs_q : queues; cs_hold : list ev; cs_err : option string }.
Definition cs0 : cstate := mkcs [] [] None.
Definition COMM : nat := 1%nat.       (* the CommunicationGroupContext *)
Definition BAR : nat := 0%nat.        (* _main_barrier_context *)

Definition coll_cb (s : cstate) (e : ev) : cstate * list ev :=
  match cs_err s with
  | Some _ => (s, [])
  | None => match collect1 (cs_q s) e with
            | Ok q => (mkcs q (cs_hold s) None, [e])
            | Err t => (mkcs (cs_q s) (cs_hold s) (Some t), [])
            end
  end.
Definition appl_cb (s : cstate) (e : ev) : cstate * list ev :=
  match cs_err s with
  | Some _ => (s, [])
  | None => match apply1 (cs_q s) e with
            | Ok (q, o) => (mkcs q (cs_hold s) None, o)
            | Err t => (mkcs (cs_q s) (cs_hold s) (Some t), [])
            end
  end.
Definition comm_dr (s : cstate) : cstate * list ev := (s, []).
Definition bar_cb (s : cstate) (e : ev) : cstate * list ev := (mkcs (cs_q s) (cs_hold s ++ [e]) (cs_err s), []).
Definition bar_dr (s : cstate) : cstate * list ev := (mkcs (cs_q s) [] (cs_err s), cs_hold s).

Definition g_collect : stage ev cstate := {| cb := coll_cb; cid := COMM; dr := comm_dr; bar := false |}.
Definition g_barrier : stage ev cstate := {| cb := bar_cb; cid := BAR; dr := bar_dr; bar := true |}.
Definition g_apply : stage ev cstate := {| cb := appl_cb; cid := COMM; dr := comm_dr; bar := false |}.
Definition comm_graph : list (stage ev cstate) := [g_collect; g_barrier; g_apply].
Definition comm_st0 : store cstate := fun _ => cs0.

(* ------------------------------------------------------------------ val encoders for the tie *)
(* args.Peers as the tie observes it: absent | the set of ints it lists (ascending) | "malformed" *)
Definition peers_val (o : option (list peer)) : val :=
  match o with
  | None => VN
  | Some l => if existsb is_bad l then VS "malformed" else VLz (entries_add l [])
  end.
Definition ev_val (e : ev) : val :=
  VL [VZ (e_uid e); VB (e_x e); VS (e_name e); VQ (e_ts e); VQ (e_dur e);
      peers_val (e_peers e)].
Definition res_val (r : res (list ev)) : val :=
  match r with Ok l => VL (map ev_val l) | Err t => VE t end.

(* direct tie: the three real stages on the real EventProcessor *)
Definition summarize_val (es : list ev) : val := res_val (summarize es).
(* the same through the operational pipeline model (used by the tie as a second model function) *)
Definition pipeline_val (es : list ev) : val :=
  let '(st1, o) := inputs comm_graph comm_st0 es in
  let '(st2, o2) := drain comm_graph st1 in
  match cs_err (st2 COMM) with
  | Some t => VE t
  | None => VL (map ev_val (o ++ o2))
  end.

(* name classifier tie: [is SenRdma?, first sequence digits or None] *)
Definition name_val (s : string) : val :=
  VL [VB (contains "SenRdma" s); match first_seq s with Some d => VS d | None => VN end].
Definition overlap_val (ab : string * string) : val := VS (overlap (fst ab) (snd ab)).

(* non-triviality measured inside Coq: some sequence of the case has >= 2 parts *)
Fixpoint has_multi (es : list ev) : bool :=
  match es with
  | [] => false
  | e :: r => (match candidate e with Some k => existsb (is_key k) r | None => false end || has_multi r)%bool
  end.
Definition nontrivial (c : list ev * val) : bool := has_multi (fst c).
