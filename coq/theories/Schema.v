(* Schema.v — C02, export side: what EventProcessor.convert_events + AbstractEventType.from_dict make of a
   pipeline event (a Python dict), and the Trace-Event-Format validity predicate of the property.

   Code modelled (src/aiu_trace_analyzer):
     core/processing.py::EventProcessor.convert_events   -> [ensure_args], [move_unknown]
     trace_view.py::AbstractEventType.from_dict          -> [from_dict]  (one branch per ph; a missing required key is the
                                                            code's KeyError, an unknown ph its Exception)
     trace_view.py::*Events.__init__ / json()            -> the field list of each typed event (MetaEvents drops a falsy tid,
                                                            FlowEvents a falsy bp, CounterEvents has no dur and no tid)
   JSON values are abstracted to what the property talks about: numbers (finite rationals or a non-finite marker),
   integers, strings (content kept: needed for ph and for names), booleans, null, arrays, objects. *)
From Coq Require Import ZArith QArith List Bool String.
Import ListNotations.
From AiuModel Require Import Base.
Local Open Scope string_scope.

Inductive jv :=
| JInt (z : Z) | JNum (q : Q) | JNonFinite | JStr (s : string) | JBool (b : bool) | JNull
| JArr (l : list jv) | JObj (l : list (string * jv)).
Definition dict := list (string * jv).

Fixpoint get (k : string) (d : dict) : option jv :=
  match d with [] => None | (k', v) :: r => if String.eqb k k' then Some v else get k r end.
Definition has (k : string) (d : dict) : bool := match get k d with Some _ => true | None => false end.
Fixpoint set (k : string) (v : jv) (d : dict) : dict :=
  match d with
  | [] => [(k, v)]
  | (k', v') :: r => if String.eqb k k' then (k, v) :: r else (k', v') :: set k v r
  end.

Inductive res := Ok (d : dict) | Err (tag : string).

Definition known_top : list string := ["ph"; "ts"; "pid"; "tid"; "name"; "cat"; "args"; "id"; "bp"; "dur"].
Definition mem (k : string) (l : list string) : bool := existsb (String.eqb k) l.

(* convert_events: make sure args exists, copy every unknown top-level key into args *)
Definition args_of (d : dict) : dict := match get "args" d with Some (JObj a) => a | _ => [] end.
Definition ensure_args (d : dict) : dict := if has "args" d then d else (d ++ [("args", JObj [])])%list.
Definition move_unknown (d : dict) : dict :=
  let extra := filter (fun kv => negb (mem (fst kv) known_top)) d in
  match get "args" d with
  | Some (JObj a) => set "args" (JObj (fold_left (fun acc kv => set (fst kv) (snd kv) acc) extra a)) d
  | _ => d        (* args present but not a dict: event["args"][key] = val raises TypeError; see [convert] *)
  end.

Definition truthy (v : jv) : bool :=
  match v with
  | JInt z => negb (Z.eqb z 0) | JNum q => negb (Qeq_bool q 0) | JNonFinite => true
  | JStr s => negb (String.eqb s "") | JBool b => b | JNull => false
  | JArr l => match l with [] => false | _ => true end
  | JObj l => match l with [] => false | _ => true end
  end.

(* required key or KeyError *)
Definition req (k : string) (d : dict) (f : jv -> res) : res :=
  match get k d with Some v => f v | None => Err "KeyError" end.
Definition opt (k : string) (dflt : jv) (d : dict) : jv := match get k d with Some v => v | None => dflt end.

(* str.strip(): leading/trailing blanks, tabs, newlines, carriage returns *)
Definition is_ws (c : Ascii.ascii) : bool :=
  let n := Ascii.nat_of_ascii c in Nat.eqb n 32 || Nat.eqb n 9 || Nat.eqb n 10 || Nat.eqb n 13 || Nat.eqb n 11 || Nat.eqb n 12.
Fixpoint lstrip (s : string) : string :=
  match s with String c r => if is_ws c then lstrip r else s | EmptyString => s end.
Fixpoint rstrip (s : string) : string :=
  match s with
  | EmptyString => EmptyString
  | String c r => match rstrip r with
                  | EmptyString => if is_ws c then EmptyString else String c EmptyString
                  | r' => String c r'
                  end
  end.
Definition strip (s : string) : string := rstrip (lstrip s).
(* name.strip() of DurationEvents / CounterEvents: only a str has .strip *)
Definition stripped (n : jv) (f : jv -> res) : res :=
  match n with JStr s => f (JStr (strip s)) | _ => Err "AttributeError" end.
(* `args if args is not None else {}` *)
Definition args_or_empty (d : dict) : jv := match get "args" d with Some JNull | None => JObj [] | Some a => a end.

Definition from_dict (d : dict) : res :=
  match get "ph" d with
  | None => Err "KeyError"
  | Some (JStr ph) =>
      if String.eqb ph "X" then
        req "name" d (fun n => req "ts" d (fun ts => req "dur" d (fun du => req "pid" d (fun p => req "tid" d (fun t =>
          Ok [("name", n); ("cat", opt "cat" (JStr "") d); ("ph", JStr "X"); ("ts", ts); ("dur", du); ("pid", p);
              ("tid", t); ("args", args_or_empty d)])))))
      else if String.eqb ph "C" then
        req "name" d (fun n => req "ts" d (fun ts => req "pid" d (fun p => req "args" d (fun a => stripped n (fun n' =>
          Ok [("name", n'); ("ts", ts); ("ph", JStr "C"); ("pid", p); ("cat", opt "cat" (JStr "") d); ("args", a)])))))
      else if String.eqb ph "B" || String.eqb ph "E" then
        req "ts" d (fun ts => req "pid" d (fun p => req "tid" d (fun t => req "name" d (fun n => stripped n (fun n' =>
          Ok [("ph", JStr ph); ("ts", ts); ("pid", p); ("tid", t); ("name", n'); ("cat", opt "cat" (JStr "") d);
              ("args", opt "args" (JObj []) d)])))))
      else if String.eqb ph "b" || String.eqb ph "e" then
        req "ts" d (fun ts => req "pid" d (fun p => req "tid" d (fun t => req "name" d (fun n => req "id" d (fun i =>
          Ok [("name", n); ("ts", ts); ("pid", p); ("tid", t); ("cat", opt "cat" (JStr "") d); ("id", i);
              ("ph", JStr ph); ("args", args_or_empty d)])))))
      else if String.eqb ph "s" || String.eqb ph "f" then
        req "ts" d (fun ts => req "id" d (fun i => req "pid" d (fun p => req "tid" d (fun t => req "name" d (fun n =>
        req "cat" d (fun c =>
          Ok ([("name", n); ("cat", c); ("ph", JStr ph); ("ts", ts); ("pid", p); ("tid", t); ("id", i)] ++
              (match get "bp" d with Some b => if truthy b then [("bp", b)] else [] | None => [] end))%list))))))
      else if String.eqb ph "M" then
        req "name" d (fun n => req "ts" d (fun ts => req "pid" d (fun p => req "args" d (fun a =>
          Ok ([("name", n); ("ph", JStr "M"); ("ts", ts); ("pid", p)] ++
              (match get "tid" d with Some t => if truthy t then [("tid", t)] else [] | None => [] end) ++
              [("args", a)])%list))))
      else if String.eqb ph "i" then
        req "name" d (fun n => req "ts" d (fun ts => req "pid" d (fun p => req "tid" d (fun t => req "s" d (fun s =>
          Ok [("name", n); ("cat", opt "cat" JNull d); ("ph", JStr "i"); ("ts", ts); ("pid", p); ("tid", t); ("s", s);
              ("args", args_or_empty d)])))))
      else Err "Exception"
  | Some _ => Err "Exception"
  end.

Definition convert (d : dict) : res :=
  let d1 := ensure_args d in
  match get "args" d1 with
  | Some (JObj _) => from_dict (move_unknown d1)
  | _ => if existsb (fun kv => negb (mem (fst kv) known_top)) d1 then Err "TypeError" else from_dict d1
  end.

(* ---------------- Trace Event Format validity (the property's wording) ---------------- *)
Definition is_finite_num (v : jv) : bool := match v with JInt _ | JNum _ => true | _ => false end.
Definition is_int (v : jv) : bool := match v with JInt _ => true | _ => false end.
Definition is_str (v : jv) : bool := match v with JStr _ => true | _ => false end.
Definition positive (v : jv) : bool :=
  match v with JInt z => Z.ltb 0 z | JNum q => negb (Qle_bool q 0) | _ => false end.
Definition chk (k : string) (p : jv -> bool) (d : dict) : bool := match get k d with Some v => p v | None => false end.

Definition scratch_keys : list string := ["ts_all"; "ts_dev"; "jobhash"; "TS_cycles"].
Definition no_scratch (d : dict) : bool :=
  forallb (fun k => negb (has k d) && negb (has k (args_of d))) scratch_keys.

Definition te_valid (d : dict) : bool :=
  chk "name" is_str d && chk "pid" is_int d && chk "ts" is_finite_num d && no_scratch d &&
  match get "ph" d with
  | Some (JStr ph) =>
      if String.eqb ph "X" then chk "dur" (fun v => is_finite_num v && positive v) d && has "tid" d
      else if String.eqb ph "C" then
        negb (has "dur" d) &&
        match get "args" d with Some (JObj a) => forallb (fun kv => is_finite_num (snd kv)) a | _ => false end
      else if String.eqb ph "s" || String.eqb ph "f" then has "id" d
      else if String.eqb ph "M" then has "args" d
      else if String.eqb ph "F" then false          (* helper events of the flow matching must never be exported *)
      else true
  | _ => false
  end.

(* ---------------- what the tie evaluates ---------------- *)
Fixpoint jv_val (v : jv) : val :=
  match v with
  | JInt z => VZ z | JNum q => VQ q | JNonFinite => VE "nonfinite" | JStr s => VS s | JBool b => VB b | JNull => VN
  | JArr l => VL (map jv_val l)
  | JObj l => VL (map (fun kv => VL [VS (fst kv); jv_val (snd kv)]) l)
  end.
Definition convert_val (d : dict) : val :=
  match convert d with Ok e => jv_val (JObj e) | Err t => VE t end.
Definition valid_val (d : dict) : val := VB (te_valid d).
