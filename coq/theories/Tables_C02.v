(* the hand model of convert_events uses exactly the key list of the current source (gen/Tables.v) *)
From Coq Require Import List String.
From AiuModel Require Import Schema.
From AiuGen Require Import Tables.
Lemma known_top_is_source : Schema.known_top = Tables.convert_known_keys.
Proof. reflexivity. Qed.
