(* PowerStats_proofs.v — lemmas and proofs about the model in PowerStats.v (C19).
   Everything is stated about the definitions the correspondence executes. *)
From Coq Require Import ZArith QArith Qabs List Bool String Lqa Lia.
Import ListNotations.
From AiuModel Require Import Base PowerStats.
Local Open Scope Q_scope.

(* ------------------------------------------------------------------ boolean comparisons *)
Lemma Qle_b_true a b : Qle_b a b = true <-> a <= b.
Proof. unfold Qle_b. apply Qle_bool_iff. Qed.
Lemma Qle_b_false a b : Qle_b a b = false <-> b < a.
Proof.
  unfold Qle_b. split; intro H.
  - apply Qnot_le_lt. intro H'. apply Qle_bool_iff in H'. congruence.
  - destruct (Qle_bool a b) eqn:E; [|reflexivity]. apply Qle_bool_iff in E. exfalso. lra.
Qed.
Lemma Qlt_b_true a b : Qlt_b a b = true <-> a < b.
Proof. unfold Qlt_b. rewrite negb_true_iff. apply (Qle_b_false b a). Qed.
Lemma Qlt_b_false a b : Qlt_b a b = false <-> b <= a.
Proof. unfold Qlt_b. rewrite negb_false_iff. apply (Qle_b_true b a). Qed.
Lemma Qeq_b_true a b : Qeq_b a b = true <-> a == b.
Proof. unfold Qeq_b. apply Qeq_bool_iff. Qed.

(* destruct one comparison, turning it into a Prop hypothesis *)
Ltac qle a b := let H := fresh "C" in destruct (Qle_b a b) eqn:H;
  [apply Qle_b_true in H | apply Qle_b_false in H].
Ltac qlt a b := let H := fresh "C" in destruct (Qlt_b a b) eqn:H;
  [apply Qlt_b_true in H | apply Qlt_b_false in H].

Lemma pymax_cases a b : (a < b /\ pymax a b = b) \/ (b <= a /\ pymax a b = a).
Proof. unfold pymax. qlt a b; auto. Qed.
Lemma pymin_cases a b : (b < a /\ pymin a b = b) \/ (a <= b /\ pymin a b = a).
Proof. unfold pymin. qlt b a; auto. Qed.
Ltac cmax a b := let H := fresh "M" in let E := fresh "E" in
  destruct (pymax_cases a b) as [[H E]|[H E]]; rewrite ?E in *.
Ltac cmin a b := let H := fresh "M" in let E := fresh "E" in
  destruct (pymin_cases a b) as [[H E]|[H E]]; rewrite ?E in *.

(* ------------------------------------------------------------------ insertion sort *)
Section SortFacts.
  Context {A : Type} (leb : A -> A -> bool).
  Lemma insert_in x y l : In y (insert_sorted leb x l) <-> y = x \/ In y l.
  Proof.
    induction l as [|z r IH]; cbn.
    - intuition.
    - destruct (leb x z); cbn; [intuition|]. rewrite IH. intuition.
  Qed.
  Lemma isort_in l x : In x (isort leb l) <-> In x l.
  Proof.
    induction l as [|z r IH]; cbn; [tauto|].
    rewrite insert_in, IH. intuition.
  Qed.
  Lemma isort_nil l : isort leb l = [] -> l = [].
  Proof.
    destruct l as [|z r]; [reflexivity|]. intro H.
    assert (In z (isort leb (z :: r))) by (apply isort_in; now left).
    rewrite H in H0. destruct H0.
  Qed.
End SortFacts.

(* sorted by start: every element starts no earlier than all elements before it *)
Fixpoint start_sorted (l : list period) : Prop :=
  match l with
  | [] => True
  | h :: t => (forall x, In x t -> fst h <= fst x) /\ start_sorted t
  end.

Lemma period_leb_true a b : period_leb a b = true -> fst a <= fst b.
Proof.
  unfold period_leb. intro H. apply orb_prop in H. destruct H as [H|H].
  - apply Qlt_b_true in H. lra.
  - apply andb_prop in H. destruct H as [H _]. apply Qeq_b_true in H. lra.
Qed.
Lemma period_leb_false a b : period_leb a b = false -> fst b <= fst a.
Proof.
  unfold period_leb. intro H. apply orb_false_elim in H. destruct H as [H _].
  now apply Qlt_b_false in H.
Qed.

Lemma insert_start_sorted x l : start_sorted l -> start_sorted (insert_sorted period_leb x l).
Proof.
  induction l as [|y r IH]; cbn; intro H.
  - split; [intros ? []|exact I].
  - destruct H as [Hy Hr]. destruct (period_leb x y) eqn:E.
    + cbn. split; [|split; assumption].
      apply period_leb_true in E. intros z [<-|Hz]; [assumption|].
      specialize (Hy _ Hz). lra.
    + cbn. split; [|now apply IH].
      intros z Hz. apply insert_in in Hz. destruct Hz as [->|Hz].
      * now apply period_leb_false.
      * now apply Hy.
Qed.

Lemma isort_start_sorted l : start_sorted (isort period_leb l).
Proof. induction l as [|x r IH]; cbn; [exact I|]. now apply insert_start_sorted. Qed.

(* ------------------------------------------------------------------ point sets *)
Definition covered (l : list period) (t : Q) : Prop :=
  exists s e, In (s, e) l /\ s <= t /\ t < e.

Lemma covered_nil t : ~ covered [] t.
Proof. intros (s & e & [] & _). Qed.
Lemma covered_cons s e l t : covered ((s, e) :: l) t <-> (s <= t /\ t < e) \/ covered l t.
Proof.
  split.
  - intros (s' & e' & [H|H] & H1).
    + inversion H; subst. now left.
    + right. now exists s', e'.
  - intros [H|(s' & e' & H & H1)].
    + exists s, e. split; [now left|assumption].
    + exists s', e'. split; [now right|assumption].
Qed.
Lemma covered_ext l l' t : (forall x, In x l <-> In x l') -> covered l t <-> covered l' t.
Proof.
  intro H. split; intros (s & e & Hi & H1); exists s, e; (split; [now apply H|assumption]).
Qed.
Lemma not_covered_before l t : (forall x, In x l -> t < fst x) -> ~ covered l t.
Proof. intros H (s & e & Hi & H1 & H2). specialize (H _ Hi). cbn in H. lra. Qed.

(* a legal timeline: non-empty intervals, each ending strictly before every later one starts
   (hence sorted by start and pairwise separated by a gap) *)
Fixpoint wf_tl (l : list period) : Prop :=
  match l with
  | [] => True
  | k :: r => fst k < snd k /\ (forall x, In x r -> snd k < fst x) /\ wf_tl r
  end.

(* ------------------------------------------------------------------ _merge_periods *)
Lemma merge_go_wf rest : forall cur,
  fst cur < snd cur -> (forall x, In x rest -> fst x < snd x) ->
  wf_tl (merge_go cur rest) /\ (forall x, In x (merge_go cur rest) -> fst cur <= fst x).
Proof.
  induction rest as [|[s e] r IH]; intros [cs ce] Hc Hr; cbn [merge_go fst snd] in *.
  - split; [cbn; repeat split; [assumption|intros ? []]|].
    intros x [<-|[]]. cbn. lra.
  - assert (Hse : s < e) by (apply (Hr (s, e)); now left).
    assert (Hr' : forall x, In x r -> fst x < snd x) by (intros; apply Hr; now right).
    qle s ce.
    + apply (IH (cs, pymax ce e)); [|assumption]. cbn. cmax ce e; lra.
    + destruct (IH (s, e) Hse Hr') as [W L]. cbn [fst] in L. split.
      * cbn [wf_tl fst snd]. split; [assumption|]. split; [|assumption].
        intros x Hx. specialize (L _ Hx). lra.
      * intros x [<-|Hx]; cbn [fst]; [lra|]. specialize (L _ Hx). lra.
Qed.

Lemma merge_go_covered rest : forall cur t,
  (forall x, In x rest -> fst cur <= fst x) -> start_sorted rest ->
  covered (merge_go cur rest) t <-> covered (cur :: rest) t.
Proof.
  induction rest as [|[s e] r IH]; intros [cs ce] t Hc Hs; cbn [merge_go fst snd] in *; [tauto|].
  destruct Hs as [Hs1 Hs2].
  assert (Hcs : cs <= s) by (apply (Hc (s, e)); now left).
  qle s ce.
  - rewrite IH; [|intros x Hx; cbn; apply (Hc x); now right|assumption].
    rewrite !covered_cons. cmax ce e; intuition lra.
  - rewrite !covered_cons. rewrite (IH (s, e) t Hs1 Hs2). rewrite covered_cons. tauto.
Qed.

Lemma merge_wf ps : (forall x, In x ps -> fst x < snd x) -> wf_tl (merge_periods ps).
Proof.
  intro H. unfold merge_periods. destruct (isort period_leb ps) as [|h t] eqn:E; [exact I|].
  apply merge_go_wf.
  - apply H. apply (isort_in period_leb). rewrite E. now left.
  - intros x Hx. apply H. apply (isort_in period_leb). rewrite E. now right.
Qed.

Lemma merge_same_union ps t : covered (merge_periods ps) t <-> covered ps t.
Proof.
  unfold merge_periods. destruct (isort period_leb ps) as [|h r] eqn:E.
  - apply isort_nil in E. subst. tauto.
  - pose proof (isort_start_sorted ps) as S. rewrite E in S. destruct S as [S1 S2].
    rewrite merge_go_covered; [|assumption|assumption].
    apply covered_ext. intro x. pose proof (isort_in period_leb ps x) as Hx. rewrite E in Hx. exact Hx.
Qed.

(* ------------------------------------------------------------------ _split_power_period *)
Definition sdur (s : seg) : Q := fst (fst s).
Definition spow (s : seg) : Q := snd (fst s).
Definition sflag (s : seg) : bool := snd s.

(* [tiled cov a segs b]: the segments, laid end to end from [a], have positive durations, end at
   [b], and each one is flagged iff every point of it satisfies [cov] (and unflagged iff none does) *)
Inductive tiled (cov : Q -> Prop) : Q -> list seg -> Q -> Prop :=
| tiled_nil a b : a == b -> tiled cov a [] b
| tiled_cons a d q f r b :
    0 < d -> (forall t, a <= t -> t < a + d -> (f = true <-> cov t)) ->
    tiled cov (a + d) r b -> tiled cov a ((d, q, f) :: r) b.

Lemma tiled_nil_inv cov a b : tiled cov a [] b -> a == b.
Proof. intro T. inversion T. assumption. Qed.
Lemma tiled_cons_inv cov a d q f r b : tiled cov a ((d, q, f) :: r) b ->
  0 < d /\ (forall t, a <= t -> t < a + d -> (f = true <-> cov t)) /\ tiled cov (a + d) r b.
Proof. intro T. inversion T. auto. Qed.

Lemma tiled_start_eq cov l : forall a a' b, a == a' -> tiled cov a l b -> tiled cov a' l b.
Proof.
  induction l as [|[[d q] f] r IH]; intros a a' b E T.
  - apply tiled_nil_inv in T. constructor. lra.
  - apply tiled_cons_inv in T. destruct T as (Hd & Hf & Ht).
    constructor; [assumption| |].
    + intros t H1 H2. apply Hf; lra.
    + apply (IH (a + d)); [lra|assumption].
Qed.

Lemma tiled_sum cov l : forall a b, tiled cov a l b -> qsum (map sdur l) == b - a.
Proof.
  induction l as [|[[d q] f] r IH]; intros a b T; cbn.
  - apply tiled_nil_inv in T. lra.
  - apply tiled_cons_inv in T. destruct T as (Hd & Hf & Ht).
    rewrite (IH _ _ Ht). unfold sdur. cbn. lra.
Qed.

Lemma tiled_le cov l : forall a b, tiled cov a l b -> a <= b.
Proof.
  induction l as [|[[d q] f] r IH]; intros a b T.
  - apply tiled_nil_inv in T. lra.
  - apply tiled_cons_inv in T. destruct T as (Hd & Hf & Ht). specialize (IH _ _ Ht). lra.
Qed.

Lemma tiled_pos cov l a b : tiled cov a l b -> forall s, In s l -> 0 < sdur s.
Proof.
  induction 1; intros s [].
  - subst. assumption.
  - now apply IHtiled.
Qed.

(* only the points of [a, b) matter *)
Lemma tiled_cov_ext cov cov' l : forall a b,
  (forall t, a <= t -> t < b -> (cov t <-> cov' t)) -> tiled cov a l b -> tiled cov' a l b.
Proof.
  induction l as [|[[d q] f] r IH]; intros a b E T.
  - apply tiled_nil_inv in T. now constructor.
  - apply tiled_cons_inv in T. destruct T as (Hd & Hf & Ht).
    pose proof (tiled_le _ _ _ _ Ht) as L.
    constructor; [assumption| |].
    + intros t H1 H2. rewrite (Hf t H1 H2). apply E; lra.
    + apply (IH (a + d) b); [|assumption]. intros t H1 H2. apply E; lra.
Qed.

Lemma pymax_ge_r a b : b <= pymax a b.
Proof. cmax a b; lra. Qed.

Section Split.
  Variables ps pe p : Q.
  Hypothesis Hpp : ps < pe.

  Lemma split_go_tiled tl : forall cur,
    wf_tl tl -> ps <= cur -> cur <= pe -> (forall x, In x tl -> cur <= pymax ps (fst x)) ->
    tiled (covered tl) cur (split_go ps pe p cur tl) pe.
  Proof.
    induction tl as [|[ks ke] r IH]; intros cur W H1 H2 H3; cbn [split_go].
    - qlt cur pe.
      + constructor; [lra| |constructor; lra].
        intros t _ _. split; [discriminate|]. intro H. now apply covered_nil in H.
      + constructor. lra.
    - destruct W as (Wk & Wr & W). cbn [fst snd] in Wk, Wr.
      assert (H3' : forall x, In x r -> cur <= pymax ps (fst x)) by (intros; apply H3; now right).
      assert (H3k : cur <= pymax ps ks) by (apply (H3 (ks, ke)); now left).
      destruct (Qle_b ke ps || Qle_b pe ks) eqn:Sk.
      + (* the kernel does not meet the period *)
        apply (tiled_cov_ext (covered r)); [|now apply IH].
        intros t Ht1 Ht2. rewrite covered_cons.
        apply orb_prop in Sk. destruct Sk as [Sk|Sk]; apply Qle_b_true in Sk; intuition lra.
      + apply orb_false_elim in Sk. destruct Sk as [Sk1 Sk2].
        apply Qle_b_false in Sk1. apply Qle_b_false in Sk2.
        (* recursion from oe *)
        assert (R : tiled (covered ((ks, ke) :: r)) (pymin pe ke) (split_go ps pe p (pymin pe ke) r) pe).
        { apply (tiled_cov_ext (covered r)).
          - intros t Ht1 Ht2. rewrite covered_cons. cmin pe ke; intuition lra.
          - apply IH; [assumption| | |].
            + cmin pe ke; lra.
            + cmin pe ke; lra.
            + intros x Hx. specialize (Wr _ Hx). pose proof (pymax_ge_r ps (fst x)).
              cmin pe ke; lra. }
        assert (F : tiled (covered ((ks, ke) :: r)) (pymax ps ks)
                          ((pymin pe ke - pymax ps ks, p, true) :: split_go ps pe p (pymin pe ke) r) pe).
        { constructor.
          - cmax ps ks; cmin pe ke; lra.
          - intros t Ht1 Ht2. split; [intros _|reflexivity].
            rewrite covered_cons. left. cmax ps ks; cmin pe ke; lra.
          - apply (tiled_start_eq _ _ (pymin pe ke)); [lra|exact R]. }
        qlt cur (pymax ps ks); cbn [app].
        * constructor; [lra| |].
          -- intros t Ht1 Ht2. split; [discriminate|]. intro Hc. exfalso.
             apply covered_cons in Hc. destruct Hc as [Hc|Hc].
             ++ cmax ps ks; lra.
             ++ revert Hc. apply not_covered_before. intros x Hx. specialize (Wr _ Hx).
                cmax ps ks; lra.
          -- apply (tiled_start_eq _ _ (pymax ps ks)); [lra|exact F].
        * apply (tiled_start_eq _ _ (pymax ps ks)); [lra|exact F].
  Qed.

  Lemma split_go_power tl : forall cur s, In s (split_go ps pe p cur tl) -> spow s = p.
  Proof.
    induction tl as [|[ks ke] r IH]; intros cur s; cbn [split_go].
    - qlt cur pe; [intros [<-|[]]; reflexivity|intros []].
    - destruct (Qle_b ke ps || Qle_b pe ks); [apply IH|].
      intro H. apply in_app_or in H. destruct H as [H|[<-|H]].
      + qlt cur (pymax ps ks); [destruct H as [<-|[]]; reflexivity|destruct H].
      + reflexivity.
      + now apply IH in H.
  Qed.

  (* length of [ps,pe) /\ [s,e) *)
  Definition olen (k : period) : Q :=
    let lo := pymax ps (fst k) in let hi := pymin pe (snd k) in
    if Qlt_b lo hi then hi - lo else 0.

  Definition flagged_time (l : list seg) : Q := qsum (map sdur (filter sflag l)).

  Lemma split_go_measure tl : forall cur,
    (forall x, In x tl -> fst x < snd x) ->
    flagged_time (split_go ps pe p cur tl) == qsum (map olen tl).
  Proof.
    unfold flagged_time.
    induction tl as [|[ks ke] r IH]; intros cur W; cbn [split_go].
    - qlt cur pe; cbn; lra.
    - assert (Wk : ks < ke) by (apply (W (ks, ke)); now left).
      assert (W' : forall x, In x r -> fst x < snd x) by (intros; apply W; now right).
      cbn [map qsum]. unfold olen at 1. cbn [fst snd].
      destruct (Qle_b ke ps || Qle_b pe ks) eqn:Sk.
      + rewrite (IH cur W').
        apply orb_prop in Sk. destruct Sk as [Sk|Sk]; apply Qle_b_true in Sk;
          qlt (pymax ps ks) (pymin pe ke); try lra; exfalso; cmax ps ks; cmin pe ke; lra.
      + apply orb_false_elim in Sk. destruct Sk as [Sk1 Sk2].
        apply Qle_b_false in Sk1. apply Qle_b_false in Sk2.
        rewrite filter_app, map_app.
        assert (G : qsum (map sdur (filter sflag
                      (if Qlt_b cur (pymax ps ks) then [(pymax ps ks - cur, p, false)] else []))) == 0)
          by (destruct (Qlt_b cur (pymax ps ks)); cbn; lra).
        assert (A : forall l1 l2, qsum (l1 ++ l2) == qsum l1 + qsum l2)
          by (induction l1; intros; cbn; [lra|rewrite IHl1; lra]).
        rewrite A, G. cbn [filter sflag snd map qsum]. rewrite (IH _ W'). unfold sdur at 1. cbn [fst].
        qlt (pymax ps ks) (pymin pe ke); [lra|]. exfalso. cmax ps ks; cmin pe ke; lra.
  Qed.
End Split.

Lemma split_tiled ps pe p tl : ps < pe -> wf_tl tl ->
  tiled (covered tl) ps (split_period ps pe p tl) pe.
Proof.
  intros H W. unfold split_period. apply split_go_tiled; try assumption; try lra.
  intros x _. cmax ps (fst x); lra.
Qed.

(* ------------------------------------------------------------------ sums *)
Lemma qsum_app l1 l2 : qsum (l1 ++ l2) == qsum l1 + qsum l2.
Proof. induction l1; cbn; [lra|rewrite IHl1; lra]. Qed.

Lemma durs_strip l : durs (strip l) = map sdur l.
Proof. unfold durs, strip. rewrite map_map. reflexivity. Qed.

Lemma with_without_sum l :
  qsum (durs (with_k l)) + qsum (durs (without_k l)) == qsum (map sdur l).
Proof.
  unfold with_k, without_k. rewrite !durs_strip.
  induction l as [|[[d q] f] r IH]; [cbn; lra|].
  cbn [filter snd negb]. destruct f; cbn [negb map qsum]; lra.
Qed.

(* ------------------------------------------------------------------ _compute_weighted_stats *)
Lemma list_min_le t : forall h, list_min h t <= h /\ (forall x, In x t -> list_min h t <= x).
Proof.
  unfold list_min. induction t as [|y r IH]; intro h; cbn.
  - split; [lra|intros ? []].
  - destruct (IH (pymin h y)) as [A B]. split.
    + cmin h y; lra.
    + intros x [<-|Hx]; [cmin h y; lra|now apply B].
Qed.
Lemma list_max_ge t : forall h, h <= list_max h t /\ (forall x, In x t -> x <= list_max h t).
Proof.
  unfold list_max. induction t as [|y r IH]; intro h; cbn.
  - split; [lra|intros ? []].
  - destruct (IH (pymax h y)) as [A B]. split.
    + cmax h y; lra.
    + intros x [<-|Hx]; [cmax h y; lra|now apply B].
Qed.

Lemma wsum_bounds lo hi l :
  (forall s, In s l -> 0 <= fst s /\ lo <= snd s /\ snd s <= hi) ->
  lo * qsum (durs l) <= wsum l /\ wsum l <= hi * qsum (durs l).
Proof.
  unfold wsum, durs. induction l as [|[d q] r IH]; intro H; cbn [map qsum fst snd].
  - lra.
  - destruct (H (d, q)) as (Hd & Hl & Hh); [now left|]. cbn [fst snd] in *.
    destruct IH as [I1 I2]; [intros; apply H; now right|].
    assert (lo * d <= q * d) by (apply Qmult_le_compat_r; assumption).
    assert (q * d <= hi * d) by (apply Qmult_le_compat_r; assumption).
    split; lra.
Qed.

Lemma qsum_pos l : l <> [] -> (forall x, In x l -> 0 < x) -> 0 < qsum l.
Proof.
  destruct l as [|x r]; [congruence|]. intros _ H. cbn.
  assert (0 < x) by (apply H; now left).
  assert (0 <= qsum r).
  { clear H0. induction r as [|y r IH]; cbn; [lra|].
    assert (0 < y) by (apply H; right; now left).
    assert (0 <= qsum r) by (apply IH; intros z [->|Hz]; apply H; [now left|right; now right]). lra. }
  lra.
Qed.

Lemma qsum_filter_le (f : wseg -> bool) l :
  (forall s, In s l -> 0 <= fst s) -> qsum (durs (filter f l)) <= qsum (durs l).
Proof.
  unfold durs. induction l as [|s r IH]; intro H; cbn; [lra|].
  assert (0 <= fst s) by (apply H; now left).
  assert (qsum (map fst (filter f r)) <= qsum (map fst r)) by (apply IH; intros; apply H; now right).
  destruct (f s); cbn; lra.
Qed.

Lemma median_go_in half l : forall cum,
  l <> [] -> half <= cum + qsum (durs l) -> exists d, In (d, median_go half cum l) l.
Proof.
  induction l as [|[d q] r IH]; intros cum Hn Hh; [congruence|]. cbn [median_go].
  qle half (cum + d).
  - exists d. now left.
  - destruct r as [|s r'].
    + exfalso. cbn in Hh. lra.
    + destruct (IH (cum + d)) as [d' Hd']; [discriminate|unfold durs in *; cbn in *; lra|].
      exists d'. now right.
Qed.

Lemma insert_qsum x m : qsum (durs (insert_sorted power_leb x m)) == fst x + qsum (durs m).
Proof.
  unfold durs. induction m as [|y m IH]; cbn [insert_sorted]; [cbn; lra|].
  destruct (power_leb x y); cbn [map qsum]; [lra|]. rewrite IH. lra.
Qed.
Lemma isort_qsum l : qsum (durs (isort power_leb l)) == qsum (durs l).
Proof.
  induction l as [|x l IH]; [cbn; lra|]. cbn [isort fold_right].
  change (fold_right (insert_sorted power_leb) [] l) with (isort power_leb l).
  rewrite insert_qsum, IH. unfold durs. cbn. lra.
Qed.

Definition stats_ok (s : stats) : Prop :=
  s_min_nz s <= s_median_nz s /\ s_median_nz s <= s_max s /\
  s_min_nz s <= s_mean_nz s /\ s_mean_nz s <= s_max s /\
  s_dur_nz s <= s_dur_total s.

Lemma half_le x : 0 <= x -> x / 2 <= x.
Proof. intro H. unfold Qdiv. setoid_replace (/ 2) with (1 # 2) by reflexivity. lra. Qed.

Lemma wstats_bounds segs :
  segs <> [] -> (forall s, In s segs -> 0 < fst s /\ 0 <= snd s) ->
  exists st, wstats segs = Some st /\ stats_ok st.
Proof.
  intros Hn Hd. destruct segs as [|s0 srest] eqn:Es; [congruence|]. rewrite <- Es in *.
  assert (W : wstats segs = Some (mkStats
    (match nonzero segs with [] => 0 | n0 :: nr => list_min (snd n0) (map snd nr) end)
    (list_max (snd s0) (map snd srest))
    (if Qlt_b 0 (qsum (durs (nonzero segs))) then wsum (nonzero segs) / qsum (durs (nonzero segs)) else 0)
    (match nonzero segs with [] => 0
     | _ => median_go (qsum (durs (nonzero segs)) / 2) 0 (isort power_leb (nonzero segs)) end)
    (if Qlt_b 0 (qsum (durs segs)) then wsum segs / qsum (durs segs) else 0)
    (qsum (durs segs)) (qsum (durs (nonzero segs))))).
  { rewrite Es. reflexivity. }
  eexists. split; [exact W|]. clear W.
  (* max dominates every power *)
  assert (Hmax : forall s, In s segs -> snd s <= list_max (snd s0) (map snd srest)).
  { intros s Hs. destruct (list_max_ge (map snd srest) (snd s0)) as [A B].
    rewrite Es in Hs. destruct Hs as [<-|Hs]; [assumption|]. apply B. now apply in_map. }
  assert (Hnzin : forall s, In s (nonzero segs) -> In s segs /\ 0 < snd s).
  { intros s Hs. unfold nonzero in Hs. apply filter_In in Hs. destruct Hs as [A B].
    apply Qlt_b_true in B. auto. }
  assert (Hdur : qsum (durs (nonzero segs)) <= qsum (durs segs)).
  { apply qsum_filter_le. intros s Hs. destruct (Hd _ Hs). lra. }
  unfold stats_ok. cbn [s_min_nz s_max s_mean_nz s_median_nz s_dur_nz s_dur_total].
  destruct (nonzero segs) as [|n0 nr] eqn:En.
  - (* no positive power at all: everything reported as 0 *)
    cbn [durs map qsum]. replace (Qlt_b 0 0) with false by reflexivity.
    assert (0 <= list_max (snd s0) (map snd srest)).
    { assert (In s0 segs) by (rewrite Es; now left).
      destruct (Hd _ H) as [_ A]. specialize (Hmax _ H). lra. }
    repeat split; try lra. exact Hdur.
  - rewrite <- En in *.
    set (mn := list_min (snd n0) (map snd nr)).
    assert (Hmin : forall s, In s (nonzero segs) -> mn <= snd s).
    { intros s Hs. destruct (list_min_le (map snd nr) (snd n0)) as [A B]. unfold mn.
      rewrite En in Hs. destruct Hs as [<-|Hs]; [assumption|]. apply B. now apply in_map. }
    assert (Hnzd : 0 < qsum (durs (nonzero segs))).
    { apply qsum_pos.
      - rewrite En. discriminate.
      - intros x Hx. unfold durs in Hx. apply in_map_iff in Hx. destruct Hx as (s & <- & Hs).
        apply Hnzin in Hs. destruct Hs as [Hs _]. now destruct (Hd _ Hs). }
    (* the median is the power of one of the positive-power segments *)
    assert (Hmed : exists d, In (d, median_go (qsum (durs (nonzero segs)) / 2) 0 (isort power_leb (nonzero segs)))
                                (nonzero segs)).
    { destruct (median_go_in (qsum (durs (nonzero segs)) / 2) (isort power_leb (nonzero segs)) 0) as [d Hd'].
      - intro E0. apply isort_nil in E0. rewrite En in E0. discriminate.
      - pose proof isort_qsum as P.
        rewrite P. pose proof (half_le _ (Qlt_le_weak _ _ Hnzd)). lra.
      - exists d. exact (proj1 (isort_in power_leb _ _) Hd'). }
    destruct Hmed as [dm Hmed].
    replace (match nonzero segs with [] => 0 | _ :: _ =>
               median_go (qsum (durs (nonzero segs)) / 2) 0 (isort power_leb (nonzero segs)) end)
      with (median_go (qsum (durs (nonzero segs)) / 2) 0 (isort power_leb (nonzero segs)))
      by (rewrite En; reflexivity).
    replace (match nonzero segs with [] => 0 | n1 :: nr0 => list_min (snd n1) (map snd nr0) end)
      with mn by (rewrite En; reflexivity).
    pose proof (Hmin _ Hmed) as M1. destruct (Hnzin _ Hmed) as [M2 _]. apply Hmax in M2. cbn [snd] in M1, M2.
    apply Qlt_b_true in Hnzd. rewrite Hnzd. apply Qlt_b_true in Hnzd.
    destruct (wsum_bounds mn (list_max (snd s0) (map snd srest)) (nonzero segs)) as [B1 B2].
    { intros s Hs. destruct (Hnzin _ Hs) as [A _]. destruct (Hd _ A). repeat split; [lra|now apply Hmin|now apply Hmax]. }
    repeat split; try assumption.
    + apply Qle_shift_div_l; assumption.
    + apply Qle_shift_div_r; assumption.
Qed.

Lemma dur_of_wstats l : dur_of (wstats l) == qsum (durs l).
Proof. destruct l; cbn; lra. Qed.

(* ------------------------------------------------------------------ dispatcher invariants *)
Definition plen (pp : pperiod) : Q := snd (fst pp) - fst (fst pp).
Definition ptime (st : pstate) : Q := qsum (map plen (st_periods st)).     (* total sampled time *)

Definition st_inv (st : pstate) : Prop :=
  (forall pp, In pp (st_periods st) -> fst (fst pp) < snd (fst pp)) /\
  (forall k, In k (st_kernels st) -> fst k < snd k).

Definition st_nonneg (st : pstate) : Prop :=
  (forall pp, In pp (st_periods st) -> 0 <= snd pp) /\
  (forall l w, st_last st = Some (l, w) -> 0 <= w).
Definition ev_nonneg (e : pev) : Prop := forall w, e_watts e = Some w -> 0 <= w.

Lemma step_inv st e : st_inv st -> st_inv (step st e).
Proof.
  intros [I1 I2]. unfold step.
  destruct (truthy_ts (e_ts e)) as [ts|]; [|now split].
  destruct (opt_is (e_ph e) "C" && opt_is (e_name e) "Power").
  - destruct (e_watts e) as [w|]; [|now split].
    split; cbn [st_periods st_kernels]; [|assumption].
    destruct (st_last st) as [[lts lw]|]; [|assumption].
    qlt lts ts; [|assumption].
    intros pp Hp. apply in_app_or in Hp. destruct Hp as [Hp|[<-|[]]]; [now apply I1|cbn; lra].
  - destruct (opt_is (e_ph e) "X" && _); [|now split].
    qlt 0 (match e_dur e with Some d => d | None => 0 end); [|now split].
    split; cbn [st_periods st_kernels]; [assumption|].
    intros k Hk. apply in_app_or in Hk. destruct Hk as [Hk|[<-|[]]]; [now apply I2|cbn; lra].
Qed.

Lemma step_nonneg st e : ev_nonneg e -> st_nonneg st -> st_nonneg (step st e).
Proof.
  intros He [N1 N2]. unfold step.
  destruct (truthy_ts (e_ts e)) as [ts|]; [|now split].
  destruct (opt_is (e_ph e) "C" && opt_is (e_name e) "Power").
  - destruct (e_watts e) as [w|] eqn:Ew; [|now split].
    split; cbn [st_periods st_last].
    + destruct (st_last st) as [[lts lw]|] eqn:El; [|assumption].
      qlt lts ts; [|assumption].
      intros pp Hp. apply in_app_or in Hp. destruct Hp as [Hp|[<-|[]]]; [now apply N1|].
      cbn. now apply (N2 lts lw).
    + intros l w' H. inversion H; subst. now apply He.
  - destruct (opt_is (e_ph e) "X" && _); [|now split].
    destruct (Qlt_b 0 _); now split.
Qed.

Lemma fold_inv evs : forall st, st_inv st -> st_inv (fold_left step evs st).
Proof. induction evs as [|e r IH]; intros st H; cbn; [assumption|]. apply IH. now apply step_inv. Qed.
Lemma fold_nonneg evs : forall st, (forall e, In e evs -> ev_nonneg e) -> st_nonneg st ->
  st_nonneg (fold_left step evs st).
Proof.
  induction evs as [|e r IH]; intros st He H; cbn; [assumption|].
  apply IH; [intros; apply He; now right|]. apply step_nonneg; [apply He; now left|assumption].
Qed.

Lemma run_events_inv evs : st_inv (run_events evs).
Proof. apply fold_inv. split; intros ? []. Qed.
Lemma run_events_nonneg evs : (forall e, In e evs -> ev_nonneg e) -> st_nonneg (run_events evs).
Proof. intro H. apply fold_nonneg; [assumption|]. split; [intros ? []|discriminate]. Qed.

(* ------------------------------------------------------------------ drain *)
Lemma wf_tl_nonempty l : wf_tl l -> forall x, In x l -> fst x < snd x.
Proof.
  induction l as [|k r IH]; intros W x []; destruct W as (A & B & C).
  - now subst.
  - now apply IH.
Qed.

Definition split_of (tl : list period) (pp : pperiod) : list seg :=
  match pp with (s, e, p) => split_period s e p tl end.

Lemma all_segments_eq st :
  all_segments st = flat_map (split_of (merge_periods (st_kernels st))) (st_periods st).
Proof. reflexivity. Qed.

Lemma flat_split_sum tl l : wf_tl tl -> (forall pp, In pp l -> fst (fst pp) < snd (fst pp)) ->
  qsum (map sdur (flat_map (split_of tl) l)) == qsum (map plen l).
Proof.
  intros W. induction l as [|[[s e] p] r IH]; intro H; cbn [flat_map map qsum]; [lra|].
  rewrite map_app, qsum_app, IH by (intros; apply H; now right).
  assert (s < e) by (apply (H (s, e, p)); now left).
  cbn [split_of]. rewrite (tiled_sum _ _ _ _ (split_tiled s e p tl H0 W)). unfold plen. cbn. lra.
Qed.

(* flagged time of the whole run = sum over the power periods of the overlap with the merged kernels *)
Lemma flat_split_measure tl l : wf_tl tl -> (forall pp, In pp l -> fst (fst pp) < snd (fst pp)) ->
  qsum (durs (with_k (flat_map (split_of tl) l)))
  == qsum (map (fun pp => qsum (map (olen (fst (fst pp)) (snd (fst pp))) tl)) l).
Proof.
  intros W. unfold with_k. rewrite durs_strip.
  induction l as [|[[s e] p] r IH]; intro H; cbn [flat_map map qsum]; [cbn; lra|].
  rewrite filter_app, map_app, qsum_app, IH by (intros; apply H; now right).
  assert (s < e) by (apply (H (s, e, p)); now left).
  cbn [split_of fst snd]. unfold split_period.
  pose proof (split_go_measure s e p H0 tl s (wf_tl_nonempty _ W)) as M.
  unfold flagged_time in M. unfold sflag in M. rewrite M. lra.
Qed.

Lemma with_k_app l1 l2 : with_k (l1 ++ l2) = with_k l1 ++ with_k l2.
Proof. unfold with_k, strip. now rewrite filter_app, map_app. Qed.

Lemma no_kernel_no_flag l : with_k (flat_map (split_of []) l) = [].
Proof.
  induction l as [|[[s e] p] r IH]; [reflexivity|].
  cbn [flat_map]. rewrite with_k_app, IH.
  cbn [split_of]. unfold split_period. cbn [split_go]. destruct (Qlt_b s e); reflexivity.
Qed.

Lemma drain_groups_partition st w wo : st_inv st -> drain_groups st = Some (w, wo) ->
  qsum (durs w) + qsum (durs wo) == ptime st /\
  qsum (durs w) == qsum (map (fun pp => qsum (map (olen (fst (fst pp)) (snd (fst pp)))
                                                  (merge_periods (st_kernels st)))) (st_periods st)).
Proof.
  intros [I1 I2] H. unfold drain_groups in H.
  destruct (st_periods st) as [|p0 pr] eqn:Ep; [discriminate|]. rewrite <- Ep in *.
  assert (W : wf_tl (merge_periods (st_kernels st))) by now apply merge_wf.
  pose proof (flat_split_sum _ _ W I1) as S. pose proof (flat_split_measure _ _ W I1) as M.
  rewrite <- all_segments_eq in S, M.
  pose proof (with_without_sum (all_segments st)) as P.
  destruct (is_nil (st_kernels st) && is_nil (without_k (all_segments st))) eqn:Q.
  - apply andb_prop in Q. destruct Q as [Q1 Q2].
    destruct (st_kernels st) as [|k kr] eqn:Ek; [|discriminate].
    destruct (without_k (all_segments st)) eqn:Ewo; [|discriminate].
    inversion H; subst w wo.
    assert (Z : with_k (all_segments st) = []).
    { rewrite all_segments_eq, Ek. apply no_kernel_no_flag. }
    rewrite Z in *. rewrite durs_strip. unfold ptime. cbn [durs map qsum] in *. split; lra.
  - inversion H; subst w wo. unfold ptime. split; lra.
Qed.

Lemma drain_partition st a b : st_inv st -> drain st = Some (a, b) -> dur_of a + dur_of b == ptime st.
Proof.
  intros I H. unfold drain in H. destruct (drain_groups st) as [[w wo]|] eqn:E; [|discriminate].
  inversion H; subst. rewrite !dur_of_wstats. now apply (drain_groups_partition st w wo I).
Qed.

Lemma all_segments_elem st : st_inv st -> st_nonneg st ->
  forall s, In s (all_segments st) -> 0 < sdur s /\ 0 <= spow s.
Proof.
  intros [I1 I2] [N1 _] s Hs. rewrite all_segments_eq in Hs. apply in_flat_map in Hs.
  destruct Hs as ([[ps pe] p] & Hp & Hs). cbn [split_of] in Hs.
  assert (W : wf_tl (merge_periods (st_kernels st))) by now apply merge_wf.
  assert (ps < pe) by apply (I1 _ Hp).
  split.
  - apply (tiled_pos _ _ _ _ (split_tiled ps pe p _ H W)). exact Hs.
  - unfold split_period in Hs. rewrite (split_go_power _ _ _ _ _ _ Hs). apply (N1 _ Hp).
Qed.

Lemma strip_in (f : seg -> bool) l x : In x (strip (filter f l)) -> exists s, In s l /\ x = (sdur s, spow s).
Proof.
  unfold strip. intro H. apply in_map_iff in H. destruct H as (s & <- & Hs).
  apply filter_In in Hs. exists s. split; [tauto|reflexivity].
Qed.

Lemma drain_bounds st a b : st_inv st -> st_nonneg st -> drain st = Some (a, b) ->
  forall s, a = Some s \/ b = Some s -> stats_ok s.
Proof.
  intros I N H s Hs. unfold drain in H. destruct (drain_groups st) as [[w wo]|] eqn:E; [|discriminate].
  inversion H; subst a b. clear H.
  pose proof (all_segments_elem st I N) as El.
  assert (G : forall g, (forall x, In x g -> exists s', In s' (all_segments st) /\ x = (sdur s', spow s')) ->
              wstats g = Some s -> stats_ok s).
  { intros g Hg Hw. destruct g as [|g0 gr] eqn:Eg; [discriminate|]. rewrite <- Eg in *.
    destruct (wstats_bounds g) as (s' & Hs' & Ok).
    - rewrite Eg. discriminate.
    - intros x Hx. destruct (Hg _ Hx) as (s' & Hi & ->). cbn [fst snd]. now apply El.
    - congruence. }
  unfold drain_groups in E. destruct (st_periods st); [discriminate|].
  inversion E; subst w wo. clear E.
  destruct Hs as [Hs|Hs]; (eapply G; [|exact Hs]).
  - intros x Hx. unfold with_k in Hx. now apply strip_in in Hx.
  - intros x Hx. destruct (is_nil (st_kernels st) && _).
    + unfold strip in Hx. apply in_map_iff in Hx. destruct Hx as (s' & <- & Hi). now exists s'.
    + unfold without_k in Hx. now apply strip_in in Hx.
Qed.

(* ------------------------------------------------------------------ total sampled time *)
(* the (ts, Watts) the dispatcher accepts from an event as a power sample *)
Definition sample_of (e : pev) : option (Q * Q) :=
  match truthy_ts (e_ts e) with
  | Some ts =>
      if opt_is (e_ph e) "C" && opt_is (e_name e) "Power"
      then match e_watts e with Some w => Some (ts, w) | None => None end
      else None
  | None => None
  end.

(* accepted samples arrive in non-decreasing ts order, starting from [l] *)
Fixpoint chain (l : Q) (evs : list pev) : Prop :=
  match evs with
  | [] => True
  | e :: r => match sample_of e with
              | Some (t, _) => l <= t /\ chain t r
              | None => chain l r
              end
  end.

Lemma step_nosample st e : sample_of e = None ->
  st_periods (step st e) = st_periods st /\ st_last (step st e) = st_last st.
Proof.
  unfold sample_of, step. destruct (truthy_ts (e_ts e)); [|auto].
  destruct (opt_is (e_ph e) "C" && opt_is (e_name e) "Power").
  - destruct (e_watts e); [discriminate|auto].
  - intros _. destruct (opt_is (e_ph e) "X" && _); [|auto]. destruct (Qlt_b 0 _); auto.
Qed.

Lemma step_sample st e t w : sample_of e = Some (t, w) ->
  st_last (step st e) = Some (t, w) /\
  st_periods (step st e) =
    match st_last st with
    | Some (lts, lw) => if Qlt_b lts t then st_periods st ++ [(lts, t, lw)] else st_periods st
    | None => st_periods st
    end.
Proof.
  unfold sample_of, step. destruct (truthy_ts (e_ts e)); [|discriminate].
  destruct (opt_is (e_ph e) "C" && opt_is (e_name e) "Power"); [|discriminate].
  destruct (e_watts e); [|discriminate]. intro H. inversion H; subst. auto.
Qed.

Lemma sampled_go evs : forall st l w, st_last st = Some (l, w) -> chain l evs ->
  exists l' w', st_last (fold_left step evs st) = Some (l', w') /\ l <= l' /\
                ptime (fold_left step evs st) == ptime st + (l' - l).
Proof.
  induction evs as [|e r IH]; intros st l w Hl Hc; cbn [fold_left].
  - exists l, w. repeat split; [assumption|lra|lra].
  - cbn [chain] in Hc. destruct (sample_of e) as [[t w1]|] eqn:Es.
    + destruct Hc as [Hlt Hc]. destruct (step_sample st e t w1 Es) as [S1 S2].
      destruct (IH (step st e) t w1 S1 Hc) as (l' & w' & A & B & C).
      exists l', w'. repeat split; [assumption|lra|]. rewrite C. unfold ptime. rewrite S2, Hl.
      qlt l t.
      * rewrite map_app, qsum_app. unfold plen. cbn. lra.
      * lra.
    + destruct (step_nosample st e Es) as [S1 S2].
      destruct (IH (step st e) l w (eq_trans S2 Hl) Hc) as (l' & w' & A & B & C).
      exists l', w'. repeat split; [assumption|assumption|]. rewrite C. unfold ptime. rewrite S1. lra.
Qed.

Lemma fold_nosample pre : forall st, (forall e, In e pre -> sample_of e = None) ->
  st_periods (fold_left step pre st) = st_periods st /\ st_last (fold_left step pre st) = st_last st.
Proof.
  induction pre as [|e r IH]; intros st H; cbn [fold_left]; [auto|].
  destruct (step_nosample st e (H e (or_introl eq_refl))) as [A B].
  destruct (IH (step st e) (fun x Hx => H x (or_intror Hx))) as [C D]. split; congruence.
Qed.

Lemma sampled_time pre e0 f w0 evs :
  (forall e, In e pre -> sample_of e = None) -> sample_of e0 = Some (f, w0) -> chain f evs ->
  exists l w, st_last (run_events (pre ++ e0 :: evs)) = Some (l, w) /\ f <= l /\
              ptime (run_events (pre ++ e0 :: evs)) == l - f.
Proof.
  intros Hp H0 Hc. unfold run_events. rewrite fold_left_app. cbn [fold_left].
  destruct (fold_nosample pre st_init Hp) as [A B]. cbn in A, B.
  destruct (step_sample (fold_left step pre st_init) e0 f w0 H0) as [S1 S2].
  rewrite B, A in S2.
  destruct (sampled_go evs _ f w0 S1 Hc) as (l & w & X & Y & Z).
  exists l, w. repeat split; [assumption|assumption|]. rewrite Z. unfold ptime at 1. rewrite S2. cbn. lra.
Qed.

(* ------------------------------------------------------------------ statements used by props/C19.v *)
Lemma split_partition ps pe p tl : ps < pe -> wf_tl tl ->
  tiled (covered tl) ps (split_period ps pe p tl) pe /\
  qsum (map sdur (split_period ps pe p tl)) == pe - ps /\
  (forall s, In s (split_period ps pe p tl) -> 0 < sdur s /\ spow s = p).
Proof.
  intros H W. pose proof (split_tiled ps pe p tl H W) as T. split; [exact T|]. split.
  - exact (tiled_sum _ _ _ _ T).
  - intros s Hs. split; [exact (tiled_pos _ _ _ _ T s Hs)|].
    unfold split_period in Hs. exact (split_go_power _ _ _ _ _ _ Hs).
Qed.

Lemma split_measure ps pe p tl : ps < pe -> (forall x, In x tl -> fst x < snd x) ->
  flagged_time (split_period ps pe p tl) == qsum (map (olen ps pe) tl).
Proof. intros H W. unfold split_period. now apply split_go_measure. Qed.

Lemma drain_partition_full evs a b : drain (run_events evs) = Some (a, b) ->
  dur_of a + dur_of b == ptime (run_events evs) /\
  dur_of a == qsum (map (fun pp => qsum (map (olen (fst (fst pp)) (snd (fst pp)))
                                             (merge_periods (st_kernels (run_events evs)))))
                        (st_periods (run_events evs))).
Proof.
  intro H. pose proof (run_events_inv evs) as I. unfold drain in H.
  destruct (drain_groups (run_events evs)) as [[w wo]|] eqn:E; [|discriminate].
  inversion H; subst. rewrite !dur_of_wstats. now apply drain_groups_partition.
Qed.

Lemma averages segs s : wstats segs = Some s ->
  s_dur_total s = qsum (durs segs) /\
  s_dur_nz s = qsum (durs (nonzero segs)) /\
  (0 < qsum (durs segs) -> s_avg_total s = wsum segs / qsum (durs segs)) /\
  (0 < qsum (durs (nonzero segs)) -> s_mean_nz s = wsum (nonzero segs) / qsum (durs (nonzero segs))).
Proof.
  destruct segs as [|s0 r] eqn:E; [discriminate|]. rewrite <- E. intro H.
  assert (W : s = mkStats
    (match nonzero segs with [] => 0 | n0 :: nr => list_min (snd n0) (map snd nr) end)
    (list_max (snd s0) (map snd r))
    (if Qlt_b 0 (qsum (durs (nonzero segs))) then wsum (nonzero segs) / qsum (durs (nonzero segs)) else 0)
    (match nonzero segs with [] => 0
     | _ => median_go (qsum (durs (nonzero segs)) / 2) 0 (isort power_leb (nonzero segs)) end)
    (if Qlt_b 0 (qsum (durs segs)) then wsum segs / qsum (durs segs) else 0)
    (qsum (durs segs)) (qsum (durs (nonzero segs)))).
  { rewrite E in *. cbn in H. inversion H. reflexivity. }
  subst s. cbn [s_dur_total s_dur_nz s_avg_total s_mean_nz].
  repeat split; intro P; apply Qlt_b_true in P; now rewrite P.
Qed.

Lemma drain_bounds_events evs : (forall e, In e evs -> ev_nonneg e) ->
  forall a b, drain (run_events evs) = Some (a, b) ->
  forall s, a = Some s \/ b = Some s -> stats_ok s.
Proof.
  intros H a b D. apply (drain_bounds (run_events evs) a b); [apply run_events_inv|now apply run_events_nonneg|exact D].
Qed.
