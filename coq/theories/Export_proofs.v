(* Export_proofs.v — lemmas about the TensorBoard per-rank export and the DataFrame export of Export.v.
   Everything is stated over the executable definitions the correspondence check evaluates
   ([parse_by_rank_id], [rank_ids], [rank_cnt], [tb_flush], [df_export], [json_export], [worker_name]). *)
From Coq Require Import ZArith QArith List Bool String Ascii Arith Lia ZifyBool Permutation Sorted DecimalString DecimalNat FinFun.
Import ListNotations.
From AiuModel Require Import Base Export.
Local Open Scope Z_scope.

(* ------------------------------------------------------------------ generic list facts *)
Lemma filter_none {A} (p : A -> bool) l : (forall x, In x l -> p x = false) -> filter p l = [].
Proof.
  induction l as [|x l IH]; intros H; [reflexivity|]. cbn.
  rewrite (H x (or_introl eq_refl)). apply IH. intros y Hy. apply H. now right.
Qed.

(* a predicate that is the disjoint union of two others splits a filter, up to order *)
Lemma filter_split_perm {A} (p q r : A -> bool) l :
  (forall x, In x l -> p x = q x || r x) -> (forall x, In x l -> q x && r x = false) ->
  Permutation (filter q l ++ filter r l) (filter p l).
Proof.
  induction l as [|x l IH]; intros Hp Hd; [constructor|].
  assert (IH' : Permutation (filter q l ++ filter r l) (filter p l)).
  { apply IH; intros y Hy; [apply Hp|apply Hd]; now right. }
  cbn. specialize (Hp x (or_introl eq_refl)). specialize (Hd x (or_introl eq_refl)).
  destruct (q x) eqn:Eq, (r x) eqn:Er; cbn in Hp, Hd; try discriminate; rewrite Hp.
  - cbn. now constructor.
  - apply Permutation_sym. apply Permutation_cons_app. now apply Permutation_sym.
  - exact IH'.
Qed.

(* ------------------------------------------------------------------ sorted() on distinct ints *)
Lemma z_insert_perm x l : Permutation (z_insert x l) (x :: l).
Proof.
  induction l as [|y r IH]; cbn; [reflexivity|]. destruct (x <=? y); [reflexivity|].
  eapply Permutation_trans; [apply perm_skip, IH|apply perm_swap].
Qed.

Lemma z_sort_perm l : Permutation (z_sort l) l.
Proof.
  induction l as [|x r IH]; cbn; [constructor|].
  eapply Permutation_trans; [apply z_insert_perm|now constructor].
Qed.

Lemma z_insert_sorted x l : StronglySorted Z.lt l -> ~ In x l -> StronglySorted Z.lt (z_insert x l).
Proof.
  induction l as [|y r IH]; cbn; intros Hs Hn.
  - constructor; constructor.
  - apply StronglySorted_inv in Hs. destruct Hs as [Hr Hy].
    destruct (x <=? y) eqn:E.
    + assert (Hxy : x < y). { assert (x <> y) by (intro; apply Hn; now left). lia. }
      constructor; [now constructor|]. constructor; [assumption|].
      eapply Forall_impl; [|exact Hy]. cbn. intros; lia.
    + constructor; [apply IH; [assumption|intro; apply Hn; now right]|].
      apply Forall_forall. intros z Hz. apply (Permutation_in _ (z_insert_perm x r)) in Hz.
      destruct Hz as [<-|Hz]; [lia|]. rewrite Forall_forall in Hy. now apply Hy.
Qed.

Lemma z_sort_sorted l : NoDup l -> StronglySorted Z.lt (z_sort l).
Proof.
  induction 1 as [|x l Hn Hd IH]; cbn; [constructor|]. apply z_insert_sorted; [assumption|].
  intro H. apply Hn. now apply (Permutation_in _ (z_sort_perm l)).
Qed.

(* a strictly ascending list is determined by its elements *)
Lemma sorted_unique l1 : forall l2, StronglySorted Z.lt l1 -> StronglySorted Z.lt l2 ->
  (forall k, In k l1 <-> In k l2) -> l1 = l2.
Proof.
  induction l1 as [|a l1 IH]; intros [|b l2] H1 H2 Hiff.
  - reflexivity.
  - exfalso. apply (proj2 (Hiff b)). now left.
  - exfalso. apply (proj1 (Hiff a)). now left.
  - apply StronglySorted_inv in H1, H2. destruct H1 as [S1 F1], H2 as [S2 F2]. rewrite Forall_forall in F1, F2.
    assert (a = b).
    { destruct (proj1 (Hiff a) (or_introl eq_refl)) as [->|Ha]; [reflexivity|].
      destruct (proj2 (Hiff b) (or_introl eq_refl)) as [->|Hb]; [reflexivity|].
      specialize (F1 _ Hb). specialize (F2 _ Ha). lia. }
    subst b. f_equal. apply IH; try assumption. intros k. split; intros Hk.
    + destruct (proj1 (Hiff k) (or_intror Hk)) as [<-|]; [|assumption]. specialize (F1 _ Hk). lia.
    + destruct (proj2 (Hiff k) (or_intror Hk)) as [<-|]; [|assumption]. specialize (F2 _ Hk). lia.
Qed.

Lemma sorted_seq s n : StronglySorted Z.lt (map Z.of_nat (seq s n)).
Proof.
  revert s. induction n as [|n IH]; intros s; cbn; constructor; [apply IH|].
  apply Forall_forall. intros z Hz. apply in_map_iff in Hz. destruct Hz as (m & <- & Hm). apply in_seq in Hm. lia.
Qed.

(* looking a key up in a list zipped with its image *)
Lemma find_combine_in {B} (f : Z -> B) ids r : In r ids ->
  find (fun p => fst p =? r) (combine ids (map f ids)) = Some (r, f r).
Proof.
  induction ids as [|a ids IH]; intros H; [destruct H|]. cbn. destruct (a =? r) eqn:E.
  - apply Z.eqb_eq in E. now subst.
  - apply IH. destruct H as [->|H]; [|assumption]. now rewrite Z.eqb_refl in E.
Qed.
Lemma find_combine_notin {B} (f : Z -> B) ids r : ~ In r ids ->
  find (fun p => fst p =? r) (combine ids (map f ids)) = None.
Proof.
  induction ids as [|a ids IH]; intros H; [reflexivity|]. cbn. destruct (a =? r) eqn:E.
  - apply Z.eqb_eq in E. exfalso. apply H. now left.
  - apply IH. intro. apply H. now right.
Qed.

(* ------------------------------------------------------------------ the dict of lists *)
Section Groups.
  Context {A : Type}.

  Lemma g_get_add k k' (x : A) g :
    g_get k (g_add k' x g) = if k =? k' then g_get k g ++ [x] else g_get k g.
  Proof.
    induction g as [|[k0 l] r IH].
    - unfold g_get. cbn. rewrite (Z.eqb_sym k' k). now destruct (k =? k').
    - cbn [g_add]. destruct (k' =? k0) eqn:E0.
      + apply Z.eqb_eq in E0. subst k0. unfold g_get. cbn. rewrite (Z.eqb_sym k' k).
        now destruct (k =? k').
      + unfold g_get in *. cbn. destruct (k0 =? k) eqn:E1.
        * apply Z.eqb_eq in E1. subst k0. rewrite Z.eqb_sym, E0. reflexivity.
        * exact IH.
  Qed.

  Lemma g_add_keys k k' (x : A) g : In k (g_keys (g_add k' x g)) <-> k = k' \/ In k (g_keys g).
  Proof.
    induction g as [|[k0 l] r IH]; cbn.
    - intuition.
    - destruct (k' =? k0) eqn:E0; cbn.
      + apply Z.eqb_eq in E0. subst. intuition.
      + unfold g_keys in IH. rewrite IH. intuition.
  Qed.

  Lemma g_add_nodup k (x : A) g : NoDup (g_keys g) -> NoDup (g_keys (g_add k x g)).
  Proof.
    induction g as [|[k0 l] r IH]; cbn; intros H.
    - constructor; [intros []|constructor].
    - destruct (k =? k0) eqn:E0; cbn; [exact H|].
      inversion H as [|? ? Hn Hr]; subst. constructor; [|now apply IH].
      intro Hin. apply (g_add_keys k0 k x r) in Hin. destruct Hin as [->|Hin]; [|now apply Hn].
      now rewrite Z.eqb_refl in E0.
  Qed.

  Variable key : A -> keyv.

  (* the (folded) rank id under which an element is filed, if any *)
  Definition kz (x : A) : option Z := match key x with KInt z => Some (fold_rank z) | _ => None end.
  Definition key_is (k : Z) (x : A) : bool := match kz x with Some k' => k' =? k | None => false end.

  Lemma parse_get data : forall g g', parse_from key data g = Some g' ->
    forall k, g_get k g' = g_get k g ++ filter (key_is k) data.
  Proof.
    induction data as [|x r IH]; intros g g' H k; cbn in H.
    - injection H as <-. cbn. now rewrite app_nil_r.
    - cbn [filter]. unfold key_is at 1, kz. destruct (key x) as [z| |]; [| now apply IH | discriminate].
      rewrite (IH _ _ H k), g_get_add, (Z.eqb_sym k). destruct (fold_rank z =? k).
      + now rewrite <- app_assoc.
      + reflexivity.
  Qed.

  Lemma parse_keys data : forall g g', parse_from key data g = Some g' ->
    forall k, In k (g_keys g') <-> In k (g_keys g) \/ exists x, In x data /\ key_is k x = true.
  Proof.
    induction data as [|x r IH]; intros g g' H k; cbn in H.
    - injection H as <-. split; [now left|]. intros [?|(y & [] & _)]. assumption.
    - destruct (key x) as [z| |] eqn:Ek; [| |discriminate].
      + rewrite (IH _ _ H k), g_add_keys. split.
        * intros [[->|Hin]|(y & Hy & Hk)].
          -- right. exists x. split; [now left|]. unfold key_is, kz. rewrite Ek. apply Z.eqb_refl.
          -- now left.
          -- right. exists y. split; [now right|assumption].
        * intros [Hin|(y & [<-|Hy] & Hk)].
          -- left. now right.
          -- left. left. unfold key_is, kz in Hk. rewrite Ek in Hk. apply Z.eqb_eq in Hk. now subst.
          -- right. now exists y.
      + rewrite (IH _ _ H k). split.
        * intros [Hin|(y & Hy & Hk)]; [now left|]. right. exists y. split; [now right|assumption].
        * intros [Hin|(y & [<-|Hy] & Hk)]; [now left| |right; now exists y].
          unfold key_is, kz in Hk. rewrite Ek in Hk. discriminate.
  Qed.

  Lemma parse_nodup data : forall g g', parse_from key data g = Some g' -> NoDup (g_keys g) -> NoDup (g_keys g').
  Proof.
    induction data as [|x r IH]; intros g g' H Hn; cbn in H.
    - now injection H as <-.
    - destruct (key x) as [z| |]; [| now apply (IH _ _ H) | discriminate].
      apply (IH _ _ H). now apply g_add_nodup.
  Qed.

  (* KeyError exactly when some element lacks the key *)
  Lemma parse_total data : forall g, (forall x, In x data -> key x <> KMissing) -> exists g', parse_from key data g = Some g'.
  Proof.
    induction data as [|x r IH]; intros g H; cbn; [now eexists|].
    destruct (key x) eqn:Ek.
    - apply IH. intros y Hy. apply H. now right.
    - apply IH. intros y Hy. apply H. now right.
    - exfalso. apply (H x); [now left|assumption].
  Qed.
  Lemma parse_keyerror data : forall g, (exists x, In x data /\ key x = KMissing) -> parse_from key data g = None.
  Proof.
    induction data as [|x r IH]; intros g (y & Hy & Hk); [destruct Hy|]. cbn.
    destruct Hy as [->|Hy]; [now rewrite Hk|].
    destruct (key x); try reflexivity; apply IH; now exists y.
  Qed.

  (* view r of a parsed list: the elements filed under r, in export order *)
  Lemma parsed_get data g : parse_by_rank_id key data = Some g -> forall k, g_get k g = filter (key_is k) data.
  Proof. intros H k. now rewrite (parse_get _ _ _ H k). Qed.

  (* the rank count is the number of distinct non-negative rank ids present *)
  Lemma rank_cnt_char data g (l : list Z) :
    parse_by_rank_id key data = Some g -> NoDup l ->
    (forall k, In k l <-> 0 <= k /\ exists x, In x data /\ key_is k x = true) ->
    rank_cnt g = List.length l.
  Proof.
    intros H Hl Hiff. unfold rank_cnt. apply Permutation_length. apply NoDup_Permutation.
    - apply NoDup_filter. apply (parse_nodup _ _ _ H). constructor.
    - exact Hl.
    - intros k. rewrite filter_In, (parse_keys _ _ _ H k), Hiff. cbn. rewrite Z.leb_le. intuition.
  Qed.

  (* the rank ids are the distinct non-negative ids present, in ascending order *)
  Definition present (data : list A) (k : Z) : Prop := exists x, In x data /\ key_is k x = true.

  Lemma rank_ids_spec data g : parse_by_rank_id key data = Some g ->
    StronglySorted Z.lt (rank_ids g) /\ NoDup (rank_ids g) /\ List.length (rank_ids g) = rank_cnt g /\
    forall k, In k (rank_ids g) <-> 0 <= k /\ present data k.
  Proof.
    intros H. unfold rank_ids, rank_cnt.
    assert (Hn : NoDup (filter (fun k => 0 <=? k) (g_keys g))).
    { apply NoDup_filter. apply (parse_nodup _ _ _ H). constructor. }
    pose proof (z_sort_perm (filter (fun k => 0 <=? k) (g_keys g))) as P.
    repeat split.
    - now apply z_sort_sorted.
    - apply (Permutation_NoDup (Permutation_sym P) Hn).
    - now apply Permutation_length.
    - apply (Permutation_in _ P) in H0. apply filter_In in H0. destruct H0 as [_ H0]. now apply Z.leb_le.
    - apply (Permutation_in _ P) in H0. apply filter_In in H0. destruct H0 as [H0 _].
      apply (parse_keys _ _ _ H k) in H0. destruct H0 as [[]|H0]. exact H0.
    - intros [Hk Hp]. apply (Permutation_in _ (Permutation_sym P)). apply filter_In. split.
      + apply (parse_keys _ _ _ H k). now right.
      + now apply Z.leb_le.
  Qed.

  (* elements filed under one of the ids / under a non-negative id *)
  Definition in_ids (ids : list Z) (x : A) : bool :=
    match kz x with Some k => existsb (Z.eqb k) ids | None => false end.
  Definition nonneg (x : A) : bool := match kz x with Some k => 0 <=? k | None => false end.

  (* the per-rank filters for distinct ids, concatenated, are a rearrangement of the elements filed under one of
     them: every such element occurs in exactly one of them, exactly as often as in the input *)
  Lemma concat_views_perm data ids : NoDup ids ->
    Permutation (List.concat (map (fun r => filter (key_is r) data) ids)) (filter (in_ids ids) data).
  Proof.
    induction 1 as [|r ids Hn Hd IH].
    - cbn. rewrite filter_none; [constructor|]. intros x _. unfold in_ids. now destruct (kz x).
    - cbn [map List.concat]. eapply Permutation_trans; [apply Permutation_app_head, IH|].
      apply filter_split_perm; intros x _; unfold in_ids, key_is; destruct (kz x) as [k|]; try reflexivity.
      destruct (k =? r) eqn:E; [|reflexivity]. apply Z.eqb_eq in E. subst k. cbn.
      destruct (existsb (Z.eqb r) ids) eqn:Ex; [|reflexivity]. apply existsb_exists in Ex.
      destruct Ex as (y & Hy & Hyr). apply Z.eqb_eq in Hyr. subst y. contradiction.
  Qed.

  Lemma in_ids_nonneg data g : parse_by_rank_id key data = Some g ->
    forall x, In x data -> in_ids (rank_ids g) x = nonneg x.
  Proof.
    intros H x Hx. destruct (rank_ids_spec _ _ H) as (_ & _ & _ & Hin). unfold in_ids, nonneg.
    destruct (kz x) as [k|] eqn:Ek; [|reflexivity]. apply eq_true_iff_eq. rewrite existsb_exists, Z.leb_le. split.
    - intros (y & Hy & Hky). apply Z.eqb_eq in Hky. subst y. now apply Hin.
    - intros Hk. exists k. split; [|apply Z.eqb_refl]. apply Hin. split; [assumption|].
      exists x. split; [assumption|]. unfold key_is. rewrite Ek. apply Z.eqb_refl.
  Qed.

  (* the views of a parsed list, concatenated, hold every element with a non-negative id exactly once *)
  Lemma parsed_views_perm data g : parse_by_rank_id key data = Some g ->
    Permutation (List.concat (map (fun r => g_get r g) (rank_ids g))) (filter nonneg data).
  Proof.
    intros H. destruct (rank_ids_spec _ _ H) as (_ & Hn & _ & _).
    erewrite map_ext; [|intros r; apply (parsed_get _ _ H)].
    erewrite <- (filter_ext_in _ _ _ (in_ids_nonneg _ _ H)). now apply concat_views_perm.
  Qed.
End Groups.

(* fold: for a rank id below 1000 the filed pids are r and 1000 + r *)
Lemma fold_rank_eq z r : 0 <= r < 1000 -> (fold_rank z = r <-> z = r \/ z = 1000 + r).
Proof. intros Hr. unfold fold_rank. destruct (1000 <=? z) eqn:E; lia. Qed.

Definition pid_in {A} (pid : A -> keyv) (r : Z) (x : A) : bool :=
  match pid x with KInt z => (z =? r) || (z =? 1000 + r) | _ => false end.
Definition not_m1 {A} (pid : A -> keyv) (x : A) : bool :=
  match pid x with KInt z => negb (z =? -1) | _ => true end.
(* the event has an int pid >= 0 *)
Definition pid_nonneg {A} (pid : A -> keyv) (x : A) : bool :=
  match pid x with KInt z => 0 <=? z | _ => false end.

Lemma key_is_pid_in {A} (pid : A -> keyv) r x : 0 <= r < 1000 -> key_is pid r x = pid_in pid r x.
Proof.
  intros Hr. unfold key_is, kz, pid_in. destruct (pid x) as [z| |]; try reflexivity.
  pose proof (fold_rank_eq z r Hr) as H.
  destruct (fold_rank z =? r) eqn:E1, (z =? r) eqn:E2, (z =? 1000 + r) eqn:E3; try reflexivity; lia.
Qed.

(* folding keeps the sign: filed under a non-negative id iff the pid is a non-negative int *)
Lemma nonneg_pid_nonneg {A} (pid : A -> keyv) x : nonneg pid x = pid_nonneg pid x.
Proof.
  unfold nonneg, kz, pid_nonneg. destruct (pid x) as [z| |]; try reflexivity. unfold fold_rank.
  destruct (1000 <=? z) eqn:E0; [destruct (0 <=? z - 1000) eqn:E1|]; destruct (0 <=? z) eqn:E2; try reflexivity; lia.
Qed.

(* ------------------------------------------------------------------ flush *)
Section Flush.
  Context {A D : Type} (pid : A -> keyv) (did : D -> keyv).

  Lemma flush_with_some ids_of events devices save res :
    tb_flush_with pid did ids_of events devices save = Some res ->
    exists eg dg, parse_by_rank_id pid events = Some eg /\ parse_by_rank_id did devices = Some dg /\
      res = {| tb_rank_ids := ids_of eg; tb_rank_cnt := List.length (ids_of eg);
               tb_views := views_of (ids_of eg) eg dg;
               tb_workers_written := negb (Nat.eqb (List.length (ids_of eg)) 1); tb_combined_written := save;
               tb_combined := (events, devices) |}.
  Proof.
    unfold tb_flush_with. destruct (parse_by_rank_id pid events) as [eg|]; [|discriminate].
    destruct (parse_by_rank_id did devices) as [dg|]; [|discriminate]. intros H. injection H as <-.
    now exists eg, dg.
  Qed.
  Lemma flush_some events devices save res :
    tb_flush pid did events devices save = Some res ->
    exists eg dg, parse_by_rank_id pid events = Some eg /\ parse_by_rank_id did devices = Some dg /\
      res = {| tb_rank_ids := rank_ids eg; tb_rank_cnt := List.length (rank_ids eg);
               tb_views := views_of (rank_ids eg) eg dg;
               tb_workers_written := negb (Nat.eqb (List.length (rank_ids eg)) 1); tb_combined_written := save;
               tb_combined := (events, devices) |}.
  Proof. exact (flush_with_some rank_ids events devices save res). Qed.

  (* flush succeeds iff no event lacks 'pid' and no device entry lacks 'id' *)
  Lemma flush_total events devices save :
    (forall e, In e events -> pid e <> KMissing) -> (forall d, In d devices -> did d <> KMissing) ->
    exists res, tb_flush pid did events devices save = Some res.
  Proof.
    intros He Hd. unfold tb_flush, tb_flush_with, parse_by_rank_id.
    destruct (parse_total pid events [] He) as (eg & ->). destruct (parse_total did devices [] Hd) as (dg & ->).
    now eexists.
  Qed.

  (* the rank ids: strictly ascending, exactly the non-negative folded ids that are present; rank_cnt is their number
     and there is one view per id *)
  Lemma tb_rank_ids_spec events devices save res :
    tb_flush pid did events devices save = Some res ->
    StronglySorted Z.lt (tb_rank_ids res) /\
    (forall r, In r (tb_rank_ids res) <-> 0 <= r /\ present pid events r) /\
    tb_rank_cnt res = List.length (tb_rank_ids res) /\ List.length (tb_views res) = List.length (tb_rank_ids res) /\
    tb_workers_written res = negb (Nat.eqb (List.length (tb_rank_ids res)) 1).
  Proof.
    intros H. destruct (flush_some _ _ _ _ H) as (eg & dg & He & Hd & ->). cbn.
    destruct (rank_ids_spec pid _ _ He) as (Hs & _ & _ & Hin). repeat split; try assumption.
    - now apply Hin.
    - now apply Hin.
    - now apply Hin.
    - unfold views_of. now rewrite map_length.
  Qed.

  (* below 1000 "present" reads: some event has pid r or 1000 + r *)
  Lemma present_pid_in events r : 0 <= r < 1000 ->
    (present pid events r <-> exists e, In e events /\ pid_in pid r e = true).
  Proof.
    intros Hr. unfold present. split; intros (e & He & Hk); exists e; (split; [assumption|]).
    - now rewrite <- key_is_pid_in.
    - now rewrite key_is_pid_in.
  Qed.

  (* (T1) the view of rank id r holds exactly the events filed under r — for r < 1000 those whose pid is r or 1000 + r —
     in export order, and the device entries whose id is r or 1000 + r; an id that is no rank id has no view.
     No hypothesis on the pids *)
  Lemma tb_worker_content events devices save res :
    tb_flush pid did events devices save = Some res ->
    (forall i r, nth_error (tb_rank_ids res) i = Some r ->
       nth_error (tb_views res) i = Some (filter (key_is pid r) events, filter (key_is did r) devices)) /\
    (forall r, In r (tb_rank_ids res) ->
       view_of_rank res r = Some (filter (key_is pid r) events, filter (key_is did r) devices) /\
       (r < 1000 -> view_of_rank res r = Some (filter (pid_in pid r) events, filter (pid_in did r) devices))) /\
    (forall r, ~ In r (tb_rank_ids res) -> view_of_rank res r = None).
  Proof.
    intros H. destruct (flush_some _ _ _ _ H) as (eg & dg & He & Hd & ->).
    destruct (rank_ids_spec pid _ _ He) as (_ & _ & _ & Hin). unfold view_of_rank. cbn.
    assert (Hv : forall r, (g_get r eg, g_get r dg) = (filter (key_is pid r) events, filter (key_is did r) devices)).
    { intros r. now rewrite (parsed_get _ _ _ He), (parsed_get _ _ _ Hd). }
    split; [|split].
    - intros i r Hi. unfold views_of. rewrite nth_error_map, Hi. cbn. now rewrite Hv.
    - intros r Hr. unfold views_of. rewrite (find_combine_in _ _ _ Hr). cbn. rewrite Hv. split; [reflexivity|].
      intros H1000. apply Hin in Hr. destruct Hr as [H0 _]. do 2 f_equal; apply filter_ext; intros x; apply key_is_pid_in; lia.
    - intros r Hr. unfold views_of. now rewrite (find_combine_notin _ _ _ Hr).
  Qed.

  (* (T2) the workers together are a rearrangement of the events with an int pid >= 0: each of those occurs in exactly
     one worker, exactly as often as it was exported; nothing else reaches a worker.  No hypothesis on the pids *)
  Lemma tb_workers_perm events devices save res :
    tb_flush pid did events devices save = Some res ->
    Permutation (List.concat (workers res)) (filter (pid_nonneg pid) events).
  Proof.
    intros H. destruct (flush_some _ _ _ _ H) as (eg & dg & He & Hd & ->). unfold workers. cbn.
    unfold views_of. rewrite map_map. cbn.
    erewrite (filter_ext (pid_nonneg pid)); [apply (parsed_views_perm pid _ _ He)|].
    intros x. symmetry. apply nonneg_pid_nonneg.
  Qed.

  Lemma tb_in_worker_iff events devices save res e :
    tb_flush pid did events devices save = Some res ->
    (In e (List.concat (workers res)) <-> In e events /\ pid_nonneg pid e = true).
  Proof.
    intros H. pose proof (tb_workers_perm _ _ _ _ H) as P. split.
    - intros Hin. apply (Permutation_in _ P) in Hin. now apply filter_In in Hin.
    - intros Hin. apply (Permutation_in _ (Permutation_sym P)). now apply filter_In.
  Qed.

  (* the combined view is everything that was exported, in export order, whatever the pids are *)
  Lemma tb_combined_all events devices save res :
    tb_flush pid did events devices save = Some res -> tb_combined res = (events, devices) /\ tb_combined_written res = save.
  Proof. intros H. destruct (flush_some _ _ _ _ H) as (eg & dg & _ & _ & ->). now split. Qed.

  (* (T2, the property of C18 for the TensorBoard files) for ANY set of present rank ids *)
  Lemma tb_partition events devices save res :
    tb_flush pid did events devices save = Some res ->
    StronglySorted Z.lt (tb_rank_ids res) /\
    (forall r, In r (tb_rank_ids res) <-> 0 <= r /\ present pid events r) /\
    (forall r, 0 <= r < 1000 -> (In r (tb_rank_ids res) <-> exists e, In e events /\ pid_in pid r e = true)) /\
    tb_rank_cnt res = List.length (tb_rank_ids res) /\ List.length (workers res) = List.length (tb_rank_ids res) /\
    tb_workers_written res = negb (Nat.eqb (List.length (tb_rank_ids res)) 1) /\
    (forall r, In r (tb_rank_ids res) -> r < 1000 ->
       view_of_rank res r = Some (filter (pid_in pid r) events, filter (pid_in did r) devices)) /\
    (forall r, ~ In r (tb_rank_ids res) -> view_of_rank res r = None) /\
    Permutation (List.concat (workers res)) (filter (pid_nonneg pid) events) /\
    fst (tb_combined res) = events.
  Proof.
    intros H. destruct (tb_rank_ids_spec _ _ _ _ H) as (Hs & Hin & Hcnt & Hlen & Hw).
    destruct (tb_worker_content _ _ _ _ H) as (_ & Hview & Hnone).
    pose proof (tb_combined_all _ _ _ _ H) as [Hc _].
    repeat match goal with |- _ /\ _ => split end; try assumption.
    - intros r Hr. rewrite Hin, <- (present_pid_in events r Hr). intuition.
    - unfold workers. now rewrite map_length.
    - intros r Hr H1000. now apply (Hview r Hr).
    - exact (tb_workers_perm _ _ _ _ H).
    - now rewrite Hc.
  Qed.

  (* the dense numbering: R ranks, pids in {0..R-1} u {1000..1000+R-1} u {-1}, every rank present *)
  Definition tb_domain (R : nat) (events : list A) : Prop :=
    (forall e, In e events -> exists z, pid e = KInt z /\
        (z = -1 \/ 0 <= z < Z.of_nat R \/ 1000 <= z < 1000 + Z.of_nat R)) /\
    (forall r, (r < R)%nat -> exists e, In e events /\ (pid e = KInt (Z.of_nat r) \/ pid e = KInt (1000 + Z.of_nat r))).

  Lemma domain_rank_ids R events eg : (R <= 1000)%nat -> tb_domain R events ->
    parse_by_rank_id pid events = Some eg -> rank_ids eg = map Z.of_nat (seq 0 R).
  Proof.
    intros HR [Hdom Hall] He. destruct (rank_ids_spec pid _ _ He) as (Hs & _ & _ & Hin).
    apply sorted_unique; [assumption|apply sorted_seq|]. intros k. rewrite Hin, in_map_iff. split.
    - intros (Hk & e & Hine & Hkey). destruct (Hdom e Hine) as (z & Hz & Hcase).
      unfold key_is, kz in Hkey. rewrite Hz in Hkey. apply Z.eqb_eq in Hkey. unfold fold_rank in Hkey.
      exists (Z.to_nat k). split; [lia|]. apply in_seq. destruct (1000 <=? z) eqn:E; lia.
    - intros (r & <- & Hr). apply in_seq in Hr. split; [lia|].
      destruct (Hall r) as (e & Hine & Hp); [lia|]. exists e. split; [assumption|].
      rewrite key_is_pid_in by lia. unfold pid_in. destruct Hp as [-> | ->].
      + now rewrite Z.eqb_refl.
      + rewrite Z.eqb_refl. apply orb_true_r.
  Qed.

  (* (T2, dense form) the special case of consecutive rank ids 0..R-1: worker index = rank *)
  Lemma tb_partition_dense R events devices save res :
    (2 <= R <= 1000)%nat -> tb_domain R events ->
    tb_flush pid did events devices save = Some res ->
    tb_rank_ids res = map Z.of_nat (seq 0 R) /\ tb_rank_cnt res = R /\ List.length (workers res) = R /\
    tb_workers_written res = true /\
    (forall r, (r < R)%nat -> nth_error (workers res) r = Some (filter (pid_in pid (Z.of_nat r)) events)) /\
    Permutation (List.concat (workers res)) (filter (not_m1 pid) events) /\
    fst (tb_combined res) = events.
  Proof.
    intros HR Hdom H. pose proof (tb_worker_content _ _ _ _ H) as (Hnth & _ & _).
    pose proof (tb_workers_perm _ _ _ _ H) as P. pose proof (tb_combined_all _ _ _ _ H) as [Hc _].
    destruct (tb_rank_ids_spec _ _ _ _ H) as (_ & _ & Hcnt & Hlen & Hw).
    assert (Hids : tb_rank_ids res = map Z.of_nat (seq 0 R)).
    { destruct (flush_some _ _ _ _ H) as (eg & dg & He & Hd & ->). cbn. apply (domain_rank_ids R events eg); [lia|assumption|assumption]. }
    rewrite Hids, map_length, seq_length in *. repeat match goal with |- _ /\ _ => split end; try assumption; try reflexivity.
    - unfold workers. now rewrite map_length.
    - rewrite Hw. destruct R as [|[|R]]; [lia|lia|reflexivity].
    - intros r Hr. unfold workers. rewrite nth_error_map, (Hnth r (Z.of_nat r)).
      + cbn. f_equal. apply filter_ext. intros x. apply key_is_pid_in. lia.
      + rewrite nth_error_map, (nth_error_nth' _ 0%nat) by now rewrite seq_length. now rewrite seq_nth.
    - erewrite (filter_ext_in (not_m1 pid)); [exact P|].
      intros e Hin. destruct Hdom as [Hdom _]. destruct (Hdom e Hin) as (z & Hz & Hcase).
      unfold not_m1, pid_nonneg. rewrite Hz. destruct (z =? -1) eqn:E1, (0 <=? z) eqn:E2; try reflexivity; lia.
    - now rewrite Hc.
  Qed.

  Lemma key_is_not_m1 k x : 0 <= k -> key_is pid k x = true -> not_m1 pid x = true.
  Proof.
    intros Hk Hx. unfold key_is, kz in Hx. unfold not_m1. destruct (pid x) as [z| |]; try reflexivity.
    apply Z.eqb_eq in Hx. unfold fold_rank in Hx. destruct (z =? -1) eqn:E; [|reflexivity].
    destruct (1000 <=? z) eqn:E1; lia.
  Qed.

  Lemma filter_key_not_m1 k l : 0 <= k -> filter (key_is pid k) (filter (not_m1 pid) l) = filter (key_is pid k) l.
  Proof.
    intros Hk. induction l as [|x l IH]; [reflexivity|]. cbn.
    destruct (not_m1 pid x) eqn:En; cbn.
    - destruct (key_is pid k x); [f_equal|]; apply IH.
    - destruct (key_is pid k x) eqn:Ek; [|apply IH].
      rewrite (key_is_not_m1 k x Hk Ek) in En. discriminate.
  Qed.

  (* (T5) the pid -1 pseudo process (collective bandwidth counters) is no rank: whether it is present or not
     changes neither the rank ids nor the rank count nor any worker *)
  Lemma tb_m1_irrelevant events devices save res res' :
    tb_flush pid did events devices save = Some res ->
    tb_flush pid did (filter (not_m1 pid) events) devices save = Some res' ->
    tb_rank_ids res' = tb_rank_ids res /\ tb_rank_cnt res' = tb_rank_cnt res /\ tb_views res' = tb_views res.
  Proof.
    intros H H'. destruct (flush_some _ _ _ _ H) as (eg & dg & He & Hd & ->).
    destruct (flush_some _ _ _ _ H') as (eg' & dg' & He' & Hd' & ->). cbn.
    rewrite Hd in Hd'. injection Hd' as <-.
    destruct (rank_ids_spec pid _ _ He) as (Hs & _ & _ & Hin).
    destruct (rank_ids_spec pid _ _ He') as (Hs' & _ & _ & Hin').
    assert (Hids : rank_ids eg' = rank_ids eg).
    { apply sorted_unique; try assumption. intros k. rewrite Hin, Hin'. split.
      - intros (Hk & x & Hx & Hkx). apply filter_In in Hx. split; [assumption|]. exists x. now split.
      - intros (Hk & x & Hx & Hkx). split; [assumption|]. exists x. split; [|assumption].
        apply filter_In. split; [assumption|]. now apply (key_is_not_m1 k). }
    rewrite Hids. repeat split. unfold views_of. apply map_ext_in. intros r Hr. f_equal.
    rewrite (parsed_get pid _ _ He), (parsed_get pid _ _ He'). apply filter_key_not_m1. now apply Hin.
  Qed.
End Flush.

(* regression lemma: the worker numbering before fix 0f462ed (workers 0..rank_cnt-1 whatever the rank ids are) violates
   the partition statement on a trace of the ranks {2, 3}: workers 0 and 1 are empty, every event is in no worker *)
Lemma dense_rule_refuted :
  exists (events : list tbev) res,
    (forall e, In e events -> pid_nonneg (@snd Z keyv) e = true) /\
    tb_flush_dense (@snd Z keyv) (@snd Z keyv) events [] true = Some res /\
    ~ Permutation (List.concat (workers res)) (filter (pid_nonneg (@snd Z keyv)) events).
Proof.
  exists [(1, KInt 2); (2, KInt 3); (3, KInt 1002); (4, KInt 1003)]. eexists. split; [|split].
  - intros e [<-|[<-|[<-|[<-|[]]]]]; reflexivity.
  - vm_compute. reflexivity.
  - vm_compute. intros P. apply Permutation_length in P. discriminate.
Qed.

(* regression lemma: the rank-count rule before fix 6bb49ce violates the partition statement on a two-rank trace
   without pid -1 events (the last rank gets no worker) *)
Lemma old_rule_refuted :
  exists (events : list tbev) res,
    tb_domain (@snd Z keyv) 2 events /\
    tb_flush_old (@snd Z keyv) (@snd Z keyv) events [] true = Some res /\
    ~ Permutation (List.concat (workers res)) (filter (not_m1 (@snd Z keyv)) events).
Proof.
  exists [(1, KInt 0); (2, KInt 1); (3, KInt 1000); (4, KInt 1001)]. eexists. split; [|split].
  - split.
    + intros e [<-|[<-|[<-|[<-|[]]]]]; eexists; (split; [reflexivity|cbn; lia]).
    + intros r Hr. destruct r as [|[|r]]; [| |lia].
      * exists (1, KInt 0). split; [now left|now left].
      * exists (2, KInt 1). split; [right; now left|now left].
  - vm_compute. reflexivity.
  - vm_compute. intros P. apply Permutation_length in P. discriminate.
Qed.

(* ------------------------------------------------------------------ DataFrame rows vs JSON slices *)
Lemma df_rows_match evs : Forall wf_ev evs ->
  map row_key (df_export evs) = map jev_key (filter j_is_slice (json_export evs)).
Proof.
  induction 1 as [|e l Hw _ IH]; [reflexivity|]. unfold df_export, json_export in *. cbn [flat_map map filter].
  rewrite map_app, IH. destruct e as [ph s|ph n t]; cbn in Hw.
  - subst ph. reflexivity.
  - unfold j_is_slice at 2. cbn [ev_json j_ph df_conv].
    destruct (String.eqb_spec ph "X"); [contradiction|reflexivity].
Qed.

Lemma df_row_count evs : Forall wf_ev evs ->
  List.length (df_export evs) = List.length (filter j_is_slice (json_export evs)).
Proof. intros H. rewrite <- (map_length row_key), df_rows_match, map_length; [reflexivity|assumption]. Qed.

(* every row is produced by exactly one exported slice, in export order (no reordering, no merging) *)
Lemma df_export_app a b : df_export (a ++ b) = df_export a ++ df_export b.
Proof. unfold df_export. apply flat_map_app. Qed.

(* ------------------------------------------------------------------ file names *)
Lemma append_inj_l (s a b : string) : (s ++ a = s ++ b)%string -> a = b.
Proof. induction s as [|c s IH]; cbn; intros H; [assumption|]. injection H as H. now apply IH. Qed.

Lemma length_append (a b : string) : String.length (a ++ b) = (String.length a + String.length b)%nat.
Proof. induction a as [|c a IH]; cbn; [reflexivity|now rewrite IH]. Qed.

Lemma append_inj_r (a b c : string) : (a ++ c = b ++ c)%string -> a = b.
Proof.
  revert b. induction a as [|x a IH]; intros [|y b] H; cbn in H.
  - reflexivity.
  - apply (f_equal String.length) in H. cbn in H. rewrite length_append in H. lia.
  - apply (f_equal String.length) in H. cbn in H. rewrite length_append in H. lia.
  - injection H as -> H. f_equal. now apply IH.
Qed.

Lemma dec_inj a b : dec a = dec b -> a = b.
Proof.
  unfold dec. intros H. apply (f_equal NilEmpty.uint_of_string) in H. rewrite !NilEmpty.usu in H.
  injection H as H. apply (f_equal Nat.of_uint) in H. now rewrite !Unsigned.of_to in H.
Qed.

(* two different ranks never share a worker file *)
Lemma worker_name_inj target r1 r2 : worker_name target r1 = worker_name target r2 -> r1 = r2.
Proof.
  unfold worker_name. intros H. apply append_inj_l in H. apply append_inj_l in H.
  apply append_inj_r in H. now apply dec_inj.
Qed.
