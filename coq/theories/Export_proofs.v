(* Export_proofs.v — lemmas about the TensorBoard per-rank export and the DataFrame export of Export.v.
   Everything is stated over the executable definitions the correspondence check evaluates
   ([parse_by_rank_id], [rank_cnt], [tb_flush], [df_export], [json_export], [worker_name]). *)
From Coq Require Import ZArith QArith List Bool String Ascii Arith Lia ZifyBool Permutation DecimalString DecimalNat FinFun.
Import ListNotations.
From AiuModel Require Import Base Export.
Local Open Scope Z_scope.

(* ------------------------------------------------------------------ generic list facts *)
Lemma filter_none {A} (p : A -> bool) l : (forall x, In x l -> p x = false) -> filter p l = [].
Proof.
  induction l as [|x l IH]; intros H; [reflexivity|]. cbn.
  rewrite (H x (or_introl eq_refl)). apply IH. intros y Hy. apply H. now right.
Qed.

(* a predicate that is the disjoint union of two others splits a filter, up to order *)
Lemma filter_split_perm {A} (p q r : A -> bool) l :
  (forall x, In x l -> p x = q x || r x) -> (forall x, In x l -> q x && r x = false) ->
  Permutation (filter q l ++ filter r l) (filter p l).
Proof.
  induction l as [|x l IH]; intros Hp Hd; [constructor|].
  assert (IH' : Permutation (filter q l ++ filter r l) (filter p l)).
  { apply IH; intros y Hy; [apply Hp|apply Hd]; now right. }
  cbn. specialize (Hp x (or_introl eq_refl)). specialize (Hd x (or_introl eq_refl)).
  destruct (q x) eqn:Eq, (r x) eqn:Er; cbn in Hp, Hd; try discriminate; rewrite Hp.
  - cbn. now constructor.
  - apply Permutation_sym. apply Permutation_cons_app. now apply Permutation_sym.
  - exact IH'.
Qed.

(* ------------------------------------------------------------------ the dict of lists *)
Section Groups.
  Context {A : Type}.

  Lemma g_get_add k k' (x : A) g :
    g_get k (g_add k' x g) = if k =? k' then g_get k g ++ [x] else g_get k g.
  Proof.
    induction g as [|[k0 l] r IH].
    - unfold g_get. cbn. rewrite (Z.eqb_sym k' k). now destruct (k =? k').
    - cbn [g_add]. destruct (k' =? k0) eqn:E0.
      + apply Z.eqb_eq in E0. subst k0. unfold g_get. cbn. rewrite (Z.eqb_sym k' k).
        now destruct (k =? k').
      + unfold g_get in *. cbn. destruct (k0 =? k) eqn:E1.
        * apply Z.eqb_eq in E1. subst k0. rewrite Z.eqb_sym, E0. reflexivity.
        * exact IH.
  Qed.

  Lemma g_add_keys k k' (x : A) g : In k (g_keys (g_add k' x g)) <-> k = k' \/ In k (g_keys g).
  Proof.
    induction g as [|[k0 l] r IH]; cbn.
    - intuition.
    - destruct (k' =? k0) eqn:E0; cbn.
      + apply Z.eqb_eq in E0. subst. intuition.
      + unfold g_keys in IH. rewrite IH. intuition.
  Qed.

  Lemma g_add_nodup k (x : A) g : NoDup (g_keys g) -> NoDup (g_keys (g_add k x g)).
  Proof.
    induction g as [|[k0 l] r IH]; cbn; intros H.
    - constructor; [intros []|constructor].
    - destruct (k =? k0) eqn:E0; cbn; [exact H|].
      inversion H as [|? ? Hn Hr]; subst. constructor; [|now apply IH].
      intro Hin. apply (g_add_keys k0 k x r) in Hin. destruct Hin as [->|Hin]; [|now apply Hn].
      now rewrite Z.eqb_refl in E0.
  Qed.

  Variable key : A -> keyv.

  (* the (folded) rank id under which an element is filed, if any *)
  Definition kz (x : A) : option Z := match key x with KInt z => Some (fold_rank z) | _ => None end.
  Definition key_is (k : Z) (x : A) : bool := match kz x with Some k' => k' =? k | None => false end.

  Lemma parse_get data : forall g g', parse_from key data g = Some g' ->
    forall k, g_get k g' = g_get k g ++ filter (key_is k) data.
  Proof.
    induction data as [|x r IH]; intros g g' H k; cbn in H.
    - injection H as <-. cbn. now rewrite app_nil_r.
    - cbn [filter]. unfold key_is at 1, kz. destruct (key x) as [z| |]; [| now apply IH | discriminate].
      rewrite (IH _ _ H k), g_get_add, (Z.eqb_sym k). destruct (fold_rank z =? k).
      + now rewrite <- app_assoc.
      + reflexivity.
  Qed.

  Lemma parse_keys data : forall g g', parse_from key data g = Some g' ->
    forall k, In k (g_keys g') <-> In k (g_keys g) \/ exists x, In x data /\ key_is k x = true.
  Proof.
    induction data as [|x r IH]; intros g g' H k; cbn in H.
    - injection H as <-. split; [now left|]. intros [?|(y & [] & _)]. assumption.
    - destruct (key x) as [z| |] eqn:Ek; [| |discriminate].
      + rewrite (IH _ _ H k), g_add_keys. split.
        * intros [[->|Hin]|(y & Hy & Hk)].
          -- right. exists x. split; [now left|]. unfold key_is, kz. rewrite Ek. apply Z.eqb_refl.
          -- now left.
          -- right. exists y. split; [now right|assumption].
        * intros [Hin|(y & [<-|Hy] & Hk)].
          -- left. now right.
          -- left. left. unfold key_is, kz in Hk. rewrite Ek in Hk. apply Z.eqb_eq in Hk. now subst.
          -- right. now exists y.
      + rewrite (IH _ _ H k). split.
        * intros [Hin|(y & Hy & Hk)]; [now left|]. right. exists y. split; [now right|assumption].
        * intros [Hin|(y & [<-|Hy] & Hk)]; [now left| |right; now exists y].
          unfold key_is, kz in Hk. rewrite Ek in Hk. discriminate.
  Qed.

  Lemma parse_nodup data : forall g g', parse_from key data g = Some g' -> NoDup (g_keys g) -> NoDup (g_keys g').
  Proof.
    induction data as [|x r IH]; intros g g' H Hn; cbn in H.
    - now injection H as <-.
    - destruct (key x) as [z| |]; [| now apply (IH _ _ H) | discriminate].
      apply (IH _ _ H). now apply g_add_nodup.
  Qed.

  (* KeyError exactly when some element lacks the key *)
  Lemma parse_total data : forall g, (forall x, In x data -> key x <> KMissing) -> exists g', parse_from key data g = Some g'.
  Proof.
    induction data as [|x r IH]; intros g H; cbn; [now eexists|].
    destruct (key x) eqn:Ek.
    - apply IH. intros y Hy. apply H. now right.
    - apply IH. intros y Hy. apply H. now right.
    - exfalso. apply (H x); [now left|assumption].
  Qed.
  Lemma parse_keyerror data : forall g, (exists x, In x data /\ key x = KMissing) -> parse_from key data g = None.
  Proof.
    induction data as [|x r IH]; intros g (y & Hy & Hk); [destruct Hy|]. cbn.
    destruct Hy as [->|Hy]; [now rewrite Hk|].
    destruct (key x); try reflexivity; apply IH; now exists y.
  Qed.

  (* view r of a parsed list: the elements filed under r, in export order *)
  Lemma parsed_get data g : parse_by_rank_id key data = Some g -> forall k, g_get k g = filter (key_is k) data.
  Proof. intros H k. now rewrite (parse_get _ _ _ H k). Qed.

  (* the rank count is the number of distinct non-negative rank ids present *)
  Lemma rank_cnt_char data g (l : list Z) :
    parse_by_rank_id key data = Some g -> NoDup l ->
    (forall k, In k l <-> 0 <= k /\ exists x, In x data /\ key_is k x = true) ->
    rank_cnt g = List.length l.
  Proof.
    intros H Hl Hiff. unfold rank_cnt. apply Permutation_length. apply NoDup_Permutation.
    - apply NoDup_filter. apply (parse_nodup _ _ _ H). constructor.
    - exact Hl.
    - intros k. rewrite filter_In, (parse_keys _ _ _ H k), Hiff. cbn. rewrite Z.leb_le. intuition.
  Qed.

  (* elements filed under a rank id in [0, n) *)
  Definition in_range (n : nat) (x : A) : bool :=
    match kz x with Some k => (0 <=? k) && (k <? Z.of_nat n) | None => false end.
  Definition nonneg (x : A) : bool := match kz x with Some k => 0 <=? k | None => false end.

  (* the per-rank filters for r = 0..n-1, concatenated, are a rearrangement of the elements in range:
     every such element occurs in exactly one of them, exactly as often as in the input *)
  Lemma concat_views_perm data n :
    Permutation (List.concat (map (fun r => filter (key_is (Z.of_nat r)) data) (seq 0 n))) (filter (in_range n) data).
  Proof.
    induction n as [|n IH].
    - cbn. rewrite filter_none; [constructor|]. intros x _. unfold in_range. destruct (kz x); [|reflexivity].
      destruct (0 <=? z) eqn:E1, (z <? Z.of_nat 0) eqn:E2; try reflexivity. lia.
    - rewrite seq_S, map_app, concat_app. cbn [map List.concat plus]. rewrite app_nil_r.
      eapply Permutation_trans; [apply Permutation_app_tail, IH|].
      apply filter_split_perm; intros x _; unfold in_range, key_is; destruct (kz x) as [k|]; try reflexivity.
      + destruct (0 <=? k) eqn:E1, (k <? Z.of_nat (S n)) eqn:E2, (k <? Z.of_nat n) eqn:E3, (k =? Z.of_nat n) eqn:E4;
          try reflexivity; lia.
      + destruct (0 <=? k) eqn:E1, (k <? Z.of_nat n) eqn:E3, (k =? Z.of_nat n) eqn:E4; try reflexivity; lia.
  Qed.
End Groups.

(* fold: for a worker index below 1000 the filed pids are r and 1000 + r *)
Lemma fold_rank_eq z r : 0 <= r < 1000 -> (fold_rank z = r <-> z = r \/ z = 1000 + r).
Proof. intros Hr. unfold fold_rank. destruct (1000 <=? z) eqn:E; lia. Qed.

Definition pid_in {A} (pid : A -> keyv) (r : Z) (x : A) : bool :=
  match pid x with KInt z => (z =? r) || (z =? 1000 + r) | _ => false end.
Definition not_m1 {A} (pid : A -> keyv) (x : A) : bool :=
  match pid x with KInt z => negb (z =? -1) | _ => true end.

Lemma key_is_pid_in {A} (pid : A -> keyv) r x : 0 <= r < 1000 -> key_is pid r x = pid_in pid r x.
Proof.
  intros Hr. unfold key_is, kz, pid_in. destruct (pid x) as [z| |]; try reflexivity.
  pose proof (fold_rank_eq z r Hr) as H.
  destruct (fold_rank z =? r) eqn:E1, (z =? r) eqn:E2, (z =? 1000 + r) eqn:E3; try reflexivity; lia.
Qed.

(* ------------------------------------------------------------------ flush *)
Section Flush.
  Context {A D : Type} (pid : A -> keyv) (did : D -> keyv).

  Lemma flush_some events devices save res :
    tb_flush pid did events devices save = Some res ->
    exists eg dg, parse_by_rank_id pid events = Some eg /\ parse_by_rank_id did devices = Some dg /\
      res = {| tb_rank_cnt := rank_cnt eg; tb_views := views_of (rank_cnt eg) eg dg;
               tb_workers_written := negb (Nat.eqb (rank_cnt eg) 1); tb_combined_written := save;
               tb_combined := (events, devices) |}.
  Proof.
    unfold tb_flush, tb_flush_with. destruct (parse_by_rank_id pid events) as [eg|]; [|discriminate].
    destruct (parse_by_rank_id did devices) as [dg|]; [|discriminate]. intros H. injection H as <-.
    now exists eg, dg.
  Qed.

  (* flush succeeds iff no event lacks 'pid' and no device entry lacks 'id' *)
  Lemma flush_total events devices save :
    (forall e, In e events -> pid e <> KMissing) -> (forall d, In d devices -> did d <> KMissing) ->
    exists res, tb_flush pid did events devices save = Some res.
  Proof.
    intros He Hd. unfold tb_flush, tb_flush_with, parse_by_rank_id.
    destruct (parse_total pid events [] He) as (eg & ->). destruct (parse_total did devices [] Hd) as (dg & ->).
    now eexists.
  Qed.

  Lemma views_nth n (eg : groups A) (dg : groups D) r : (r < n)%nat ->
    nth_error (views_of n eg dg) r = Some (g_get (Z.of_nat r) eg, g_get (Z.of_nat r) dg).
  Proof.
    intros Hr. unfold views_of.
    apply (map_nth_error (fun r => (g_get (Z.of_nat r) eg, g_get (Z.of_nat r) dg))).
    rewrite (nth_error_nth' _ 0%nat); [|now rewrite seq_length]. now rewrite seq_nth.
  Qed.

  (* (T1) worker r holds exactly the events filed under r — for r < 1000 those whose pid is r or 1000 + r —
     in export order, and the device entries whose id is r or 1000 + r; no hypothesis on the pids *)
  Lemma tb_worker_content events devices save res :
    tb_flush pid did events devices save = Some res ->
    List.length (tb_views res) = tb_rank_cnt res /\
    forall r, (r < tb_rank_cnt res)%nat -> (r < 1000)%nat ->
      nth_error (tb_views res) r = Some (filter (pid_in pid (Z.of_nat r)) events, filter (pid_in did (Z.of_nat r)) devices).
  Proof.
    intros H. destruct (flush_some _ _ _ _ H) as (eg & dg & He & Hd & ->). cbn. split.
    - unfold views_of. now rewrite map_length, seq_length.
    - intros r Hr H1000. rewrite views_nth by assumption.
      rewrite (parsed_get _ _ _ He), (parsed_get _ _ _ Hd). f_equal. f_equal.
      + apply filter_ext. intros x. apply key_is_pid_in. lia.
      + apply filter_ext. intros x. apply key_is_pid_in. lia.
  Qed.

  (* (T2, general form) the workers together are a rearrangement of the events filed under a rank id below the
     rank count: each of those occurs in exactly one worker, exactly as often as it was exported *)
  Lemma tb_workers_perm events devices save res :
    tb_flush pid did events devices save = Some res ->
    Permutation (List.concat (workers res)) (filter (in_range pid (tb_rank_cnt res)) events).
  Proof.
    intros H. destruct (flush_some _ _ _ _ H) as (eg & dg & He & Hd & ->). unfold workers. cbn.
    unfold views_of. rewrite map_map. cbn.
    erewrite map_ext; [apply concat_views_perm|]. intros r. cbn. apply (parsed_get _ _ _ He).
  Qed.

  (* which events are lost: an int-pid event filed under k >= 0 reaches a worker iff k < rank count *)
  Lemma tb_in_worker_iff events devices save res e :
    tb_flush pid did events devices save = Some res ->
    (In e (List.concat (workers res)) <-> In e events /\ in_range pid (tb_rank_cnt res) e = true).
  Proof.
    intros H. pose proof (tb_workers_perm _ _ _ _ H) as P. split.
    - intros Hin. apply (Permutation_in _ P) in Hin. now apply filter_In in Hin.
    - intros Hin. apply (Permutation_in _ (Permutation_sym P)). now apply filter_In.
  Qed.

  (* the combined view is everything that was exported, in export order, whatever the pids are *)
  Lemma tb_combined_all events devices save res :
    tb_flush pid did events devices save = Some res -> tb_combined res = (events, devices) /\ tb_combined_written res = save.
  Proof. intros H. destruct (flush_some _ _ _ _ H) as (eg & dg & _ & _ & ->). now split. Qed.

  (* the DESIGN domain: R ranks, pids in {0..R-1} u {1000..1000+R-1} u {-1}, every rank present *)
  Definition tb_domain (R : nat) (events : list A) : Prop :=
    (forall e, In e events -> exists z, pid e = KInt z /\
        (z = -1 \/ 0 <= z < Z.of_nat R \/ 1000 <= z < 1000 + Z.of_nat R)) /\
    (forall r, (r < R)%nat -> exists e, In e events /\ (pid e = KInt (Z.of_nat r) \/ pid e = KInt (1000 + Z.of_nat r))).

  Lemma domain_rank_cnt R events eg : (R <= 1000)%nat -> tb_domain R events ->
    parse_by_rank_id pid events = Some eg -> rank_cnt eg = R.
  Proof.
    intros HR [Hdom Hall] He.
    rewrite (rank_cnt_char pid events eg (map Z.of_nat (seq 0 R)) He).
    - now rewrite map_length, seq_length.
    - apply Injective_map_NoDup; [intros a b; apply Nat2Z.inj|apply seq_NoDup].
    - intros k. rewrite in_map_iff. split.
      + intros (r & <- & Hr). apply in_seq in Hr. split; [lia|].
        destruct (Hall r) as (e & Hin & Hp); [lia|]. exists e. split; [assumption|].
        rewrite key_is_pid_in by lia. unfold pid_in. destruct Hp as [-> | ->].
        * now rewrite Z.eqb_refl.
        * rewrite Z.eqb_refl. apply orb_true_r.
      + intros (Hk & e & Hin & Hkey). destruct (Hdom e Hin) as (z & Hz & Hcase).
        unfold key_is, kz in Hkey. rewrite Hz in Hkey. apply Z.eqb_eq in Hkey. unfold fold_rank in Hkey.
        exists (Z.to_nat k). split; [lia|]. apply in_seq. destruct (1000 <=? z) eqn:E; lia.
  Qed.

  (* (T2, domain form) the property of C18 for the TensorBoard files *)
  Lemma tb_partition R events devices save res :
    (2 <= R <= 1000)%nat -> tb_domain R events ->
    tb_flush pid did events devices save = Some res ->
    tb_rank_cnt res = R /\ List.length (workers res) = R /\ tb_workers_written res = true /\
    (forall r, (r < R)%nat -> nth_error (workers res) r = Some (filter (pid_in pid (Z.of_nat r)) events)) /\
    Permutation (List.concat (workers res)) (filter (not_m1 pid) events) /\
    fst (tb_combined res) = events.
  Proof.
    intros HR Hdom H. pose proof (tb_worker_content _ _ _ _ H) as [Hlen Hnth].
    pose proof (tb_workers_perm _ _ _ _ H) as P. pose proof (tb_combined_all _ _ _ _ H) as [Hc _].
    destruct (flush_some _ _ _ _ H) as (eg & dg & He & Hd & Hres).
    assert (Hcnt : tb_rank_cnt res = R).
    { rewrite Hres. cbn. apply (domain_rank_cnt R events eg); [lia|assumption|assumption]. }
    rewrite Hcnt in *. repeat split.
    - unfold workers. now rewrite map_length.
    - rewrite Hres. cbn. rewrite Hres in Hcnt. cbn in Hcnt. rewrite Hcnt.
      destruct R as [|[|R]]; [lia|lia|reflexivity].
    - intros r Hr. unfold workers. rewrite nth_error_map, (Hnth r Hr) by lia. reflexivity.
    - erewrite (filter_ext_in (not_m1 pid)); [exact P|].
      intros e Hin. destruct Hdom as [Hdom _]. destruct (Hdom e Hin) as (z & Hz & Hcase).
      unfold not_m1, in_range, kz. rewrite Hz. unfold fold_rank.
      destruct (1000 <=? z) eqn:E0; destruct (z =? -1) eqn:E1; cbn;
        match goal with |- _ = (?a <=? ?b) && (?c <? ?d) => destruct (a <=? b) eqn:E2, (c <? d) eqn:E3 end;
        try reflexivity; lia.
    - now rewrite Hc.
  Qed.

  Lemma key_is_not_m1 k x : 0 <= k -> key_is pid k x = true -> not_m1 pid x = true.
  Proof.
    intros Hk Hx. unfold key_is, kz in Hx. unfold not_m1. destruct (pid x) as [z| |]; try reflexivity.
    apply Z.eqb_eq in Hx. unfold fold_rank in Hx. destruct (z =? -1) eqn:E; [|reflexivity].
    destruct (1000 <=? z) eqn:E1; lia.
  Qed.

  Lemma filter_key_not_m1 k l : 0 <= k -> filter (key_is pid k) (filter (not_m1 pid) l) = filter (key_is pid k) l.
  Proof.
    intros Hk. induction l as [|x l IH]; [reflexivity|]. cbn.
    destruct (not_m1 pid x) eqn:En; cbn.
    - destruct (key_is pid k x); [f_equal|]; apply IH.
    - destruct (key_is pid k x) eqn:Ek; [|apply IH].
      rewrite (key_is_not_m1 k x Hk Ek) in En. discriminate.
  Qed.

  (* (T5) the pid -1 pseudo process (collective bandwidth counters) is no rank: whether it is present or not
     changes neither the rank count nor any worker *)
  Lemma tb_m1_irrelevant events devices save res res' :
    tb_flush pid did events devices save = Some res ->
    tb_flush pid did (filter (not_m1 pid) events) devices save = Some res' ->
    tb_rank_cnt res' = tb_rank_cnt res /\ tb_views res' = tb_views res.
  Proof.
    intros H H'. destruct (flush_some _ _ _ _ H) as (eg & dg & He & Hd & ->).
    destruct (flush_some _ _ _ _ H') as (eg' & dg' & He' & Hd' & ->). cbn.
    rewrite Hd in Hd'. injection Hd' as <-.
    assert (Hcnt : rank_cnt eg' = rank_cnt eg).
    { apply (rank_cnt_char pid _ eg' (filter (fun k => 0 <=? k) (g_keys eg)) He').
      - apply NoDup_filter. apply (parse_nodup pid _ _ _ He). constructor.
      - intros k. rewrite filter_In, (parse_keys pid _ _ _ He k), Z.leb_le. cbn. split.
        + intros [[[]|(x & Hx & Hkx)] Hk0]. split; [assumption|]. exists x. split; [|assumption].
          apply filter_In. split; [assumption|]. now apply (key_is_not_m1 k).
        + intros (Hk0 & x & Hx & Hkx). apply filter_In in Hx. split; [|assumption]. right. exists x. now split. }
    split; [exact Hcnt|]. rewrite Hcnt. unfold views_of. apply map_ext_in. intros r _. f_equal.
    rewrite (parsed_get pid _ _ He), (parsed_get pid _ _ He'). apply filter_key_not_m1. lia.
  Qed.
End Flush.

(* regression lemma: the rank-count rule before fix 6bb49ce violates the partition statement on a two-rank trace
   without pid -1 events (the last rank gets no worker) *)
Lemma old_rule_refuted :
  exists (events : list tbev) res,
    tb_domain (@snd Z keyv) 2 events /\
    tb_flush_old (@snd Z keyv) (@snd Z keyv) events [] true = Some res /\
    ~ Permutation (List.concat (workers res)) (filter (not_m1 (@snd Z keyv)) events).
Proof.
  exists [(1, KInt 0); (2, KInt 1); (3, KInt 1000); (4, KInt 1001)]. eexists. split; [|split].
  - split.
    + intros e [<-|[<-|[<-|[<-|[]]]]]; eexists; (split; [reflexivity|cbn; lia]).
    + intros r Hr. destruct r as [|[|r]]; [| |lia].
      * exists (1, KInt 0). split; [now left|now left].
      * exists (2, KInt 1). split; [right; now left|now left].
  - vm_compute. reflexivity.
  - vm_compute. intros P. apply Permutation_length in P. discriminate.
Qed.

(* ------------------------------------------------------------------ DataFrame rows vs JSON slices *)
Lemma df_rows_match evs : Forall wf_ev evs ->
  map row_key (df_export evs) = map jev_key (filter j_is_slice (json_export evs)).
Proof.
  induction 1 as [|e l Hw _ IH]; [reflexivity|]. unfold df_export, json_export in *. cbn [flat_map map filter].
  rewrite map_app, IH. destruct e as [ph s|ph n t]; cbn in Hw.
  - subst ph. reflexivity.
  - unfold j_is_slice at 2. cbn [ev_json j_ph df_conv].
    destruct (String.eqb_spec ph "X"); [contradiction|reflexivity].
Qed.

Lemma df_row_count evs : Forall wf_ev evs ->
  List.length (df_export evs) = List.length (filter j_is_slice (json_export evs)).
Proof. intros H. rewrite <- (map_length row_key), df_rows_match, map_length; [reflexivity|assumption]. Qed.

(* every row is produced by exactly one exported slice, in export order (no reordering, no merging) *)
Lemma df_export_app a b : df_export (a ++ b) = df_export a ++ df_export b.
Proof. unfold df_export. apply flat_map_app. Qed.

(* ------------------------------------------------------------------ file names *)
Lemma append_inj_l (s a b : string) : (s ++ a = s ++ b)%string -> a = b.
Proof. induction s as [|c s IH]; cbn; intros H; [assumption|]. injection H as H. now apply IH. Qed.

Lemma length_append (a b : string) : String.length (a ++ b) = (String.length a + String.length b)%nat.
Proof. induction a as [|c a IH]; cbn; [reflexivity|now rewrite IH]. Qed.

Lemma append_inj_r (a b c : string) : (a ++ c = b ++ c)%string -> a = b.
Proof.
  revert b. induction a as [|x a IH]; intros [|y b] H; cbn in H.
  - reflexivity.
  - apply (f_equal String.length) in H. cbn in H. rewrite length_append in H. lia.
  - apply (f_equal String.length) in H. cbn in H. rewrite length_append in H. lia.
  - injection H as -> H. f_equal. now apply IH.
Qed.

Lemma dec_inj a b : dec a = dec b -> a = b.
Proof.
  unfold dec. intros H. apply (f_equal NilEmpty.uint_of_string) in H. rewrite !NilEmpty.usu in H.
  injection H as H. apply (f_equal Nat.of_uint) in H. now rewrite !Unsigned.of_to in H.
Qed.

(* two different ranks never share a worker file *)
Lemma worker_name_inj target r1 r2 : worker_name target r1 = worker_name target r2 -> r1 = r2.
Proof.
  unfold worker_name. intros H. apply append_inj_l in H. apply append_inj_l in H.
  apply append_inj_r in H. now apply dec_inj.
Qed.
