(* Stats_proofs.v — lemmas and proofs about the model in Stats.v (calculate_stats / StatsExtractionContext.drain).

   Specification vocabulary (order-free: everything is phrased over the multiset of kernel slices, so it can be
   transported along any permutation of the slices - the exported file need not list them in the order in which
   they reached the stage):
     [kern evs]            the kernel slices of a stream (ph = "X", name contains "Cmpt Exec")
     [durs_of k evs]       durations of the kernel slices with key k = (masked name, pid), in stream order
     [of_rank p evs]       kernel slices of rank (pid) p
     [stat_ok ds s]        s carries Calls/Total/Mean/Median/Min/Max/Var of the multiset ds
     [active_ok es a]      a carries total/start/end/elapsed/active of the slices es of one rank
   Main results: [run_inv] (state invariant, snoc induction), [run_ok_iff], [groups_partition], [rows_perm],
   [row_keys], [row_statistics], [shares_sum], [active_spec], [active_true_extremes], [export_agrees],
   [rhe_half], [stdev_cell_spec], [stages_after_stats] (on the generated registration program). *)
From Coq Require Import ZArith QArith Qabs Qround List Bool String Ascii Lia Lqa Permutation Sorted Morphisms Setoid.
Import ListNotations.
From AiuModel Require Import Base Stats.
Local Open Scope Q_scope.

(* ------------------------------------------------------------------ generic: stable insertion sort *)
Section SortFacts.
  Context {A : Type} (leb : A -> A -> bool).
  Lemma insert_sorted_perm x l : Permutation (insert_sorted leb x l) (x :: l).
  Proof.
    induction l as [|y r IH]; cbn; [reflexivity|].
    destruct (leb x y); [reflexivity|].
    rewrite IH. apply perm_swap.
  Qed.
  Lemma isort_perm l : Permutation (isort leb l) l.
  Proof.
    induction l as [|x r IH]; cbn; [reflexivity|].
    unfold isort in IH. rewrite insert_sorted_perm. now constructor.
  Qed.
  Lemma isort_length l : List.length (isort leb l) = List.length l.
  Proof. apply Permutation_length, isort_perm. Qed.
  Lemma isort_in x l : In x (isort leb l) <-> In x l.
  Proof. split; apply Permutation_in; [|symmetry]; apply isort_perm. Qed.

  Variable R : A -> A -> Prop.
  Hypothesis leb_R : forall x y, leb x y = true -> R x y.
  Hypothesis leb_total : forall x y, leb x y = false -> R y x.
  Lemma insert_sorted_sorted x l : Sorted R l -> Sorted R (insert_sorted leb x l).
  Proof.
    induction 1 as [|y r Hs IH Hh]; cbn; [repeat constructor|].
    destruct (leb x y) eqn:E.
    - constructor; [now constructor|constructor; auto].
    - constructor; [exact IH|].
      destruct r as [|z r']; cbn; [constructor; auto|].
      destruct (leb x z); constructor; auto. now inversion Hh.
  Qed.
  Lemma isort_sorted l : Sorted R (isort leb l).
  Proof. induction l; cbn; [constructor|]. now apply insert_sorted_sorted. Qed.
End SortFacts.

(* ------------------------------------------------------------------ qsum *)
Lemma qsum_app l m : qsum (l ++ m) == qsum l + qsum m.
Proof. induction l as [|x r IH]; cbn; [ring|]. rewrite IH. ring. Qed.
Lemma qsum_perm l m : Permutation l m -> qsum l == qsum m.
Proof.
  induction 1; cbn; try reflexivity.
  - now rewrite IHPermutation.
  - ring.
  - now rewrite IHPermutation1.
Qed.
Lemma qsum_pos l : (forall x, In x l -> 0 < x) -> l <> [] -> 0 < qsum l.
Proof.
  induction l as [|x r IH]; intros H Hn; [congruence|]. cbn.
  destruct r as [|y r'].
  - cbn. assert (0 < x) by (apply H; now left). lra.
  - assert (0 < x) by (apply H; now left).
    assert (0 < qsum (y :: r')) by (apply IH; [intros; apply H; now right|discriminate]). lra.
Qed.

(* ------------------------------------------------------------------ keys *)
Lemma key_eqb_eq a b : key_eqb a b = true <-> a = b.
Proof.
  destruct a as [a1 a2], b as [b1 b2]. unfold key_eqb. cbn.
  rewrite andb_true_iff, String.eqb_eq, Z.eqb_eq. split; [intros [-> ->]; reflexivity|intros [= -> ->]; auto].
Qed.
Lemma key_eqb_refl a : key_eqb a a = true.
Proof. now apply key_eqb_eq. Qed.
Lemma key_eqb_neq a b : key_eqb a b = false <-> a <> b.
Proof.
  split; intros H.
  - intros E. apply key_eqb_eq in E. congruence.
  - destruct (key_eqb a b) eqn:E; [apply key_eqb_eq in E; contradiction|reflexivity].
Qed.
Lemma key_eqb_sym a b : key_eqb a b = key_eqb b a.
Proof.
  destruct (key_eqb a b) eqn:E.
  - apply key_eqb_eq in E. subst. now rewrite key_eqb_refl.
  - symmetry. apply key_eqb_neq. apply key_eqb_neq in E. congruence.
Qed.

(* ------------------------------------------------------------------ run over a stream, from the right *)
Lemma run_from_app s l1 l2 :
  run_from s (l1 ++ l2) = match run_from s l1 with Ok s' => run_from s' l2 | Err t => Err t end.
Proof.
  revert s. induction l1 as [|e r IH]; intros s; cbn; [reflexivity|].
  destruct (step s e); [apply IH|reflexivity].
Qed.
Lemma run_snoc evs e : run (evs ++ [e]) = match run evs with Ok s => step s e | Err t => Err t end.
Proof.
  unfold run. rewrite run_from_app. destruct (run_from st0 evs); [|reflexivity].
  cbn. destruct (step a e); reflexivity.
Qed.

Definition kern (evs : list ev) : list ev := filter is_kernel evs.
Definition has_key (k : key) (e : ev) : bool := key_eqb k (ekey e).
Definition durs_of (k : key) (evs : list ev) : list Q := map e_dur (filter (has_key k) (kern evs)).
Definition keys (q : list grp) : list key := map g_key q.
Definition in_rank (p : Z) (e : ev) : bool := Z.eqb (e_pid e) p.
Definition of_rank (p : Z) (evs : list ev) : list ev := filter (in_rank p) (kern evs).
Definition ext_spec (f : Q -> Q -> Q) (init : Q) (vals : list Q) : option Q :=
  match vals with [] => None | _ => Some (fold_left f vals init) end.

Lemma kern_snoc evs e : kern (evs ++ [e]) = kern evs ++ (if is_kernel e then [e] else []).
Proof. unfold kern. rewrite filter_app. cbn. destruct (is_kernel e); reflexivity. Qed.

(* ------------------------------------------------------------------ add_dur *)
Lemma add_dur_keys k d l :
  keys (add_dur k d l) = if existsb (key_eqb k) (keys l) then keys l else keys l ++ [k].
Proof.
  induction l as [|g r IH]; cbn; [reflexivity|].
  destruct (key_eqb k (g_key g)) eqn:E; cbn; [reflexivity|].
  fold (keys r). fold (keys (add_dur k d r)). rewrite IH. destruct (existsb (key_eqb k) (keys r)); reflexivity.
Qed.

Lemma existsb_key_in k l : existsb (key_eqb k) l = true <-> In k l.
Proof.
  rewrite existsb_exists. split.
  - intros (x & Hi & E). apply key_eqb_eq in E. now subst.
  - intros H. exists k. split; [exact H|apply key_eqb_refl].
Qed.

Lemma add_dur_durs (D D' : key -> list Q) k d l :
  NoDup (keys l) ->
  (forall g, In g l -> g_durs g = D (g_key g)) ->
  (~ In k (keys l) -> D k = []) ->
  (forall k', D' k' = if key_eqb k k' then D k' ++ [d] else D k') ->
  forall g, In g (add_dur k d l) -> g_durs g = D' (g_key g).
Proof.
  intros Hnd HD Hk HD'. induction l as [|g0 r IH]; intros g Hg.
  - cbn in Hg. destruct Hg as [<-|[]]. cbn. rewrite HD', key_eqb_refl, Hk; [reflexivity|intros []].
  - cbn in Hg. destruct (key_eqb k (g_key g0)) eqn:E.
    + destruct Hg as [<-|Hg]; cbn.
      * rewrite HD', E. f_equal. apply HD. now left.
      * rewrite HD'. assert (Hne : key_eqb k (g_key g) = false).
        { apply key_eqb_neq. intros ->. apply key_eqb_eq in E.
          cbn in Hnd. inversion Hnd as [|? ? Hni _]. apply Hni. rewrite <- E. now apply in_map. }
        rewrite Hne. apply HD. now right.
    + destruct Hg as [<-|Hg].
      * rewrite HD', E. apply HD. now left.
      * apply IH; auto.
        -- cbn in Hnd. now inversion Hnd.
        -- intros g1 H1. apply HD. now right.
        -- intros Hni. apply Hk. cbn. intros [Heq|Hi]; [|contradiction].
           apply key_eqb_neq in E. congruence.
Qed.

Definition sum_calls (q : list grp) : nat := fold_right (fun g n => (List.length (g_durs g) + n)%nat) 0%nat q.
Lemma add_dur_calls k d l : sum_calls (add_dur k d l) = S (sum_calls l).
Proof.
  unfold sum_calls. induction l as [|g r IH]; cbn; [reflexivity|].
  destruct (key_eqb k (g_key g)); cbn.
  - rewrite app_length. cbn. lia.
  - rewrite IH. lia.
Qed.

(* rank total *)
Definition rank_total (p : Z) (q : list grp) : Q := qsum (map (fun g => qsum (g_durs g)) (of_pid p q)).
Lemma add_dur_rank_total p k d l :
  rank_total p (add_dur k d l) == rank_total p l + (if Z.eqb (snd k) p then d else 0).
Proof.
  unfold rank_total, of_pid. induction l as [|g r IH]; cbn [add_dur filter map qsum g_key g_durs].
  - destruct (Z.eqb (snd k) p); cbn [map qsum g_durs]; ring.
  - destruct (key_eqb k (g_key g)) eqn:E; cbn [filter map qsum g_key g_durs].
    + apply key_eqb_eq in E. subst k.
      destruct (Z.eqb (snd (g_key g)) p); cbn [map qsum g_durs]; [rewrite qsum_app; cbn [qsum]; ring|ring].
    + destruct (Z.eqb (snd (g_key g)) p); cbn [map qsum g_durs]; rewrite IH; ring.
Qed.

(* ------------------------------------------------------------------ upd / lookup *)
Lemma lookup_upd f init p l x :
  lookup x (upd f init p l) =
  if Z.eqb x p then Some (f (match lookup p l with Some v => v | None => init end)) else lookup x l.
Proof.
  induction l as [|[p' v] r IH]; cbn.
  - rewrite (Z.eqb_sym x p). destruct (Z.eqb p x) eqn:E; [|reflexivity].
    reflexivity.
  - destruct (Z.eqb p p') eqn:E; cbn.
    + apply Z.eqb_eq in E. subst p'. destruct (Z.eqb x p); reflexivity.
    + rewrite IH. destruct (Z.eqb x p') eqn:E2.
      * apply Z.eqb_eq in E2. subst p'. rewrite Z.eqb_sym, E. reflexivity.
      * reflexivity.
Qed.

Lemma NoDup_app_snoc_aux {A} (l : list A) k : NoDup l -> ~ In k l -> NoDup (l ++ [k]).
Proof.
  induction 1 as [|x r Hx Hnd IH]; intros Hk; cbn.
  - constructor; [intros []|constructor].
  - constructor.
    + rewrite in_app_iff. intros [H|[H|[]]]; [contradiction|]. subst. apply Hk. now left.
    + apply IH. intros H. apply Hk. now right.
Qed.

(* ------------------------------------------------------------------ the invariant *)
Record inv (evs : list ev) (s : state) : Prop := mkInv {
  inv_nodup : NoDup (keys (s_q s));
  inv_durs : forall g, In g (s_q s) -> g_durs g = durs_of (g_key g) evs;
  inv_keys : forall k, In k (keys (s_q s)) <-> exists e, In e (kern evs) /\ ekey e = k;
  inv_guard : forall e, In e (kern evs) -> e_tsx e = true /\ 0 < e_dur e;
  inv_calls : sum_calls (s_q s) = List.length (kern evs);
  inv_total : forall p, rank_total p (s_q s) == qsum (map e_dur (of_rank p evs));
  inv_min : forall p, lookup p (s_min s) = ext_spec Qmin BIG (map e_ts (of_rank p evs));
  inv_max : forall p, lookup p (s_max s) = ext_spec Qmax 0 (map e_end (of_rank p evs)) }.

Lemma ext_spec_snoc f init vals v :
  ext_spec f init (vals ++ [v]) =
  Some (f (match ext_spec f init vals with Some x => x | None => init end) v).
Proof.
  unfold ext_spec. destruct vals as [|a r]; [reflexivity|].
  destruct ((a :: r) ++ [v]) as [|b t] eqn:E; [destruct r; discriminate|].
  rewrite <- E, fold_left_app. reflexivity.
Qed.

Lemma of_rank_snoc p evs e :
  of_rank p (evs ++ [e]) = of_rank p evs ++ (if (is_kernel e && in_rank p e)%bool then [e] else []).
Proof.
  unfold of_rank. rewrite kern_snoc, filter_app. f_equal.
  destruct (is_kernel e); cbn; [|reflexivity]. destruct (in_rank p e); reflexivity.
Qed.

Lemma durs_of_snoc k evs e :
  durs_of k (evs ++ [e]) = durs_of k evs ++ (if (is_kernel e && has_key k e)%bool then [e_dur e] else []).
Proof.
  unfold durs_of. rewrite kern_snoc, filter_app, map_app. f_equal.
  destruct (is_kernel e); cbn; [|reflexivity]. destruct (has_key k e); reflexivity.
Qed.

Lemma inv_init : inv [] st0.
Proof.
  constructor; cbn; try reflexivity; try (intros; contradiction).
  - constructor.
  - intros k. split; [intros []|intros (e & [] & _)].
Qed.

Lemma inv_step evs s e s' : inv evs s -> step s e = Ok s' -> inv (evs ++ [e]) s'.
Proof.
  intros I Hs. unfold step in Hs.
  destruct (is_kernel e) eqn:Ek.
  2:{ injection Hs as <-. destruct I. constructor; auto.
      - intros g Hg. rewrite durs_of_snoc, Ek. cbn. rewrite app_nil_r. auto.
      - intros k. rewrite kern_snoc, Ek, app_nil_r. auto.
      - intros e0. rewrite kern_snoc, Ek, app_nil_r. auto.
      - rewrite kern_snoc, Ek, app_nil_r. auto.
      - intros p. rewrite of_rank_snoc, Ek. cbn. rewrite app_nil_r. auto.
      - intros p. rewrite of_rank_snoc, Ek. cbn. rewrite app_nil_r. auto.
      - intros p. rewrite of_rank_snoc, Ek. cbn. rewrite app_nil_r. auto. }
  destruct (e_tsx e) eqn:Et; cbn in Hs; [|discriminate].
  destruct (Qle_bool (e_dur e) 0) eqn:Ed; [discriminate|].
  injection Hs as <-. destruct I as [Ind Idu Ike Igu Ica Ito Imi Ima].
  assert (Hpos : 0 < e_dur e).
  { apply Qnot_le_lt. intros H. apply Qle_bool_iff in H. congruence. }
  constructor; cbn [s_q s_min s_max].
  - (* NoDup *)
    rewrite add_dur_keys. destruct (existsb (key_eqb (ekey e)) (keys (s_q s))) eqn:Ex; [exact Ind|].
    apply NoDup_app_snoc_aux.
    + exact Ind.
    + intros Hi. apply existsb_key_in in Hi. congruence.
  - (* durs *)
    intros g Hg.
    apply (add_dur_durs (fun k => durs_of k evs) (fun k => durs_of k (evs ++ [e])) (ekey e) (e_dur e) (s_q s));
      auto.
    + intros Hni. unfold durs_of. destruct (filter (has_key (ekey e)) (kern evs)) as [|e0 r] eqn:Ef; [reflexivity|].
      exfalso. apply Hni. apply Ike. exists e0.
      assert (Hin : In e0 (filter (has_key (ekey e)) (kern evs))) by (rewrite Ef; now left).
      apply filter_In in Hin. destruct Hin as [H1 H2]. split; [exact H1|].
      unfold has_key in H2. apply key_eqb_eq in H2. congruence.
    + intros k'. rewrite durs_of_snoc, Ek. cbn. unfold has_key. rewrite (key_eqb_sym k' (ekey e)).
      destruct (key_eqb (ekey e) k'); [reflexivity|now rewrite app_nil_r].
  - (* keys *)
    intros k. rewrite add_dur_keys, kern_snoc, Ek.
    destruct (existsb (key_eqb (ekey e)) (keys (s_q s))) eqn:Ex.
    + rewrite Ike. split.
      * intros (e0 & H1 & H2). exists e0. split; [apply in_or_app; now left|exact H2].
      * intros (e0 & H1 & H2). apply in_app_or in H1. destruct H1 as [H1|[<-|[]]].
        -- exists e0. auto.
        -- apply existsb_key_in in Ex. apply Ike in Ex. subst k. exact Ex.
    + rewrite in_app_iff, Ike. split.
      * intros [(e0 & H1 & H2)|[<-|[]]].
        -- exists e0. split; [apply in_or_app; now left|exact H2].
        -- exists e. split; [apply in_or_app; right; now left|reflexivity].
      * intros (e0 & H1 & H2). apply in_app_or in H1. destruct H1 as [H1|[<-|[]]].
        -- left. exists e0. auto.
        -- right. now left.
  - (* guard *)
    intros e0. rewrite kern_snoc, Ek. intros H. apply in_app_or in H. destruct H as [H|[<-|[]]]; auto.
  - rewrite add_dur_calls, kern_snoc, Ek, app_length, Ica. cbn. lia.
  - intros p. rewrite add_dur_rank_total, Ito, of_rank_snoc, Ek, map_app, qsum_app. cbn [andb].
    unfold in_rank, ekey. cbn [snd]. destruct (Z.eqb (e_pid e) p); cbn; ring.
  - intros p. rewrite lookup_upd, of_rank_snoc, Ek. cbn [andb]. unfold in_rank.
    rewrite (Z.eqb_sym p (e_pid e)). destruct (Z.eqb (e_pid e) p) eqn:Ep.
    + apply Z.eqb_eq in Ep. subst p. rewrite map_app. cbn [map]. rewrite ext_spec_snoc, <- Imi. reflexivity.
    + rewrite app_nil_r. apply Imi.
  - intros p. rewrite lookup_upd, of_rank_snoc, Ek. cbn [andb]. unfold in_rank.
    rewrite (Z.eqb_sym p (e_pid e)). destruct (Z.eqb (e_pid e) p) eqn:Ep.
    + apply Z.eqb_eq in Ep. subst p. rewrite map_app. cbn [map]. rewrite ext_spec_snoc, <- Ima. reflexivity.
    + rewrite app_nil_r. apply Ima.
Qed.

Theorem run_inv evs s : run evs = Ok s -> inv evs s.
Proof.
  revert s. induction evs as [|e evs IH] using rev_ind; intros s H.
  - cbn in H. injection H as <-. apply inv_init.
  - rewrite run_snoc in H. destruct (run evs) as [s0|t] eqn:E; [|discriminate].
    eapply inv_step; eauto.
Qed.

(* the run fails exactly when some kernel slice violates the code's guard *)
Theorem run_ok_iff evs :
  (exists s, run evs = Ok s) <-> (forall e, In e (kern evs) -> e_tsx e = true /\ 0 < e_dur e).
Proof.
  split.
  - intros (s & H). apply (inv_guard _ _ (run_inv _ _ H)).
  - induction evs as [|e evs IH] using rev_ind; intros H.
    + exists st0. reflexivity.
    + destruct IH as (s & Hs).
      { intros e0 H0. apply H. rewrite kern_snoc. apply in_or_app. now left. }
      rewrite run_snoc, Hs. unfold step. destruct (is_kernel e) eqn:Ek; [|eauto].
      destruct (H e) as [Ht Hd]. { rewrite kern_snoc, Ek. apply in_or_app. right. now left. }
      rewrite Ht. cbn. destruct (Qle_bool (e_dur e) 0) eqn:Ed; [|eauto].
      apply Qle_bool_iff in Ed. lra.
Qed.

(* ------------------------------------------------------------------ pids *)
Definition gpid (g : grp) : Z := snd (g_key g).

Lemma existsb_Z_in p l : existsb (Z.eqb p) l = true <-> In p l.
Proof.
  rewrite existsb_exists. split.
  - intros (x & Hi & E). apply Z.eqb_eq in E. now subst.
  - intros H. exists p. split; [exact H|apply Z.eqb_refl].
Qed.

Lemma nodup_first_spec l : forall seen,
  NoDup (nodup_first seen l) /\ forall p, In p (nodup_first seen l) <-> In p l /\ ~ In p seen.
Proof.
  induction l as [|x r IH]; intros seen; cbn.
  - split; [constructor|]. intros p. tauto.
  - destruct (existsb (Z.eqb x) seen) eqn:E.
    + apply existsb_Z_in in E. destruct (IH seen) as [H1 H2]. split; [exact H1|].
      intros p. rewrite H2. split; [tauto|]. intros [[->|H] Hn]; tauto.
    + assert (Hx : ~ In x seen). { intros H. apply existsb_Z_in in H. congruence. }
      destruct (IH (x :: seen)) as [H1 H2]. split.
      * constructor; [|exact H1]. rewrite H2. cbn. tauto.
      * intros p. cbn. rewrite H2. cbn. split.
        -- intros [->|[H Hn]]; [tauto|]. tauto.
        -- intros [[->|H] Hn]; [tauto|]. destruct (Z.eq_dec x p); [tauto|]. right. tauto.
Qed.

Lemma pids_of_spec q :
  NoDup (pids_of q) /\ forall p, In p (pids_of q) <-> exists g, In g q /\ gpid g = p.
Proof.
  unfold pids_of. destruct (nodup_first_spec (map (fun g => snd (g_key g)) q) []) as [H1 H2]. split.
  - eapply Permutation_NoDup; [symmetry; apply isort_perm|exact H1].
  - intros p. rewrite isort_in, H2, in_map_iff. split.
    + intros [(g & E & Hi) _]. exists g. auto.
    + intros (g & Hi & E). split; [exists g; auto|intros []].
Qed.

(* ------------------------------------------------------------------ partition by pid *)
Lemma filter_split_perm {A} (f : A -> bool) l :
  Permutation (filter f l ++ filter (fun x => negb (f x)) l) l.
Proof.
  induction l as [|x r IH]; cbn; [reflexivity|].
  destruct (f x); cbn.
  - now constructor.
  - rewrite <- Permutation_middle. now constructor.
Qed.

Lemma of_pid_filter_other p p' q :
  p <> p' -> of_pid p' (filter (fun g => negb (Z.eqb (gpid g) p)) q) = of_pid p' q.
Proof.
  intros Hne. unfold of_pid. induction q as [|g r IH]; cbn; [reflexivity|].
  fold (gpid g). destruct (Z.eqb (gpid g) p) eqn:E; cbn.
  - apply Z.eqb_eq in E. fold (gpid g). rewrite E.
    assert (Z.eqb p p' = false) as -> by (apply Z.eqb_neq; exact Hne). exact IH.
  - fold (gpid g). destruct (Z.eqb (gpid g) p'); [f_equal|]; exact IH.
Qed.

Lemma partition_pids ps : NoDup ps -> forall q,
  (forall g, In g q -> In (gpid g) ps) -> Permutation (flat_map (fun p => of_pid p q) ps) q.
Proof.
  induction 1 as [|p ps Hp Hnd IH]; intros q Hq.
  - destruct q as [|g r]; [reflexivity|]. destruct (Hq g (or_introl eq_refl)).
  - cbn. set (q' := filter (fun g => negb (Z.eqb (gpid g) p)) q).
    assert (E : forall ps', ~ In p ps' ->
              flat_map (fun p0 => of_pid p0 q) ps' = flat_map (fun p0 => of_pid p0 q') ps').
    { induction ps' as [|p0 ps' IH']; intros Hn; cbn; [reflexivity|].
      rewrite IH' by (intros H; apply Hn; now right).
      unfold q'. rewrite of_pid_filter_other; [reflexivity|]. intros ->. apply Hn. now left. }
    rewrite (E ps Hp), IH.
    + apply (filter_split_perm (fun g => Z.eqb (gpid g) p)).
    + intros g Hg. unfold q' in Hg. apply filter_In in Hg. destruct Hg as [Hg Hne].
      destruct (Hq g Hg) as [Heq|Hi]; [|exact Hi].
      rewrite <- Heq, Z.eqb_refl in Hne. discriminate.
Qed.

(* ------------------------------------------------------------------ the rows are the groups *)
Lemma map_flat_map {A B C} (f : B -> C) (g : A -> list B) l :
  map f (flat_map g l) = flat_map (fun x => map f (g x)) l.
Proof. induction l as [|x r IH]; cbn; [reflexivity|]. now rewrite map_app, IH. Qed.
Lemma flat_map_perm_ext {A B} (f g : A -> list B) l :
  (forall x, Permutation (f x) (g x)) -> Permutation (flat_map f l) (flat_map g l).
Proof. intros H. induction l as [|x r IH]; cbn; [reflexivity|]. now apply Permutation_app. Qed.

Lemma rows_of_pid_gs q p : map r_gs (rows_of_pid q p) = isort desc_total (map gstats (of_pid p q)).
Proof. unfold rows_of_pid. rewrite map_map. cbn. apply map_id. Qed.

Theorem rows_perm s : Permutation (map r_gs (summary s)) (map gstats (s_q s)).
Proof.
  unfold summary. rewrite map_flat_map.
  transitivity (flat_map (fun p => map gstats (of_pid p (s_q s))) (pids_of (s_q s))).
  - apply flat_map_perm_ext. intros p. rewrite rows_of_pid_gs. apply isort_perm.
  - rewrite <- map_flat_map. apply Permutation_map.
    destruct (pids_of_spec (s_q s)) as [H1 H2]. apply partition_pids; [exact H1|].
    intros g Hg. apply H2. exists g. auto.
Qed.

Definition rank_tot_of (q : list grp) (p : Z) : Q := qsum (map gs_total (map gstats (of_pid p q))).

Lemma in_rows_of_pid q p r :
  In r (rows_of_pid q p) ->
  exists g, In g q /\ gpid g = p /\ r_pid r = p /\ r_gs r = gstats g /\
            r_share r = gs_total (gstats g) / rank_tot_of q p * 100.
Proof.
  unfold rows_of_pid. rewrite in_map_iff. intros (s0 & <- & Hi).
  apply isort_in in Hi. apply in_map_iff in Hi. destruct Hi as (g & <- & Hg).
  unfold of_pid in Hg. apply filter_In in Hg. destruct Hg as [Hg Hp]. apply Z.eqb_eq in Hp.
  exists g. cbn. repeat split; auto.
Qed.

Lemma in_summary s r :
  In r (summary s) ->
  exists g, In g (s_q s) /\ r_pid r = gpid g /\ r_gs r = gstats g /\
            r_share r = gs_total (gstats g) / rank_tot_of (s_q s) (gpid g) * 100.
Proof.
  unfold summary. rewrite in_flat_map. intros (p & _ & Hr).
  destruct (in_rows_of_pid _ _ _ Hr) as (g & Hg & Hp & Hrp & Hgs & Hsh).
  exists g. subst p. auto.
Qed.

Lemma rows_of_pid_pid q p : forall r, In r (rows_of_pid q p) -> r_pid r = p.
Proof. intros r H. destruct (in_rows_of_pid _ _ _ H) as (g & _ & _ & E & _). exact E. Qed.

Lemma filter_all {A} (f : A -> bool) l : (forall x, In x l -> f x = true) -> filter f l = l.
Proof.
  induction l as [|x r IH]; intros H; cbn; [reflexivity|].
  rewrite (H x) by now left. f_equal. apply IH. intros; apply H; now right.
Qed.
Lemma filter_none {A} (f : A -> bool) l : (forall x, In x l -> f x = false) -> filter f l = [].
Proof.
  induction l as [|x r IH]; intros H; cbn; [reflexivity|].
  rewrite (H x) by now left. apply IH. intros; apply H; now right.
Qed.

(* the rows of one rank, as they stand in the file *)
Lemma summary_of_rank s p :
  In p (pids_of (s_q s)) ->
  filter (fun r => Z.eqb (r_pid r) p) (summary s) = rows_of_pid (s_q s) p.
Proof.
  unfold summary. destruct (pids_of_spec (s_q s)) as [Hnd _]. revert Hnd.
  generalize (pids_of (s_q s)) as ps. induction ps as [|p0 ps IH]; intros Hnd Hin; [destruct Hin|].
  cbn. rewrite filter_app. inversion Hnd as [|? ? Hni Hnd']. subst.
  assert (Hnone : forall ps', ~ In p ps' ->
            filter (fun r => Z.eqb (r_pid r) p) (flat_map (rows_of_pid (s_q s)) ps') = []).
  { induction ps' as [|p1 ps' IH']; intros Hn; cbn; [reflexivity|].
    rewrite filter_app, IH' by (intros H; apply Hn; now right). rewrite app_nil_r.
    apply filter_none. intros r Hr. rewrite (rows_of_pid_pid _ _ _ Hr). apply Z.eqb_neq.
    intros ->. apply Hn. now left. }
  destruct Hin as [->|Hin].
  - rewrite (Hnone ps Hni), app_nil_r. apply filter_all. intros r Hr.
    rewrite (rows_of_pid_pid _ _ _ Hr). apply Z.eqb_refl.
  - rewrite IH by assumption. rewrite filter_none; [reflexivity|].
    intros r Hr. rewrite (rows_of_pid_pid _ _ _ Hr). apply Z.eqb_neq. intros ->. contradiction.
Qed.

(* ------------------------------------------------------------------ min / max *)
Lemma Qle_bool_false a b : Qle_bool a b = false -> b < a.
Proof. intros H. apply Qnot_le_lt. intros L. apply Qle_bool_iff in L. congruence. Qed.
Lemma Qmin_le_l a b : Qmin a b <= a.
Proof. unfold Qmin. destruct (Qle_bool a b) eqn:E; [lra|]. apply Qle_bool_false in E. lra. Qed.
Lemma Qmin_le_r a b : Qmin a b <= b.
Proof. unfold Qmin. destruct (Qle_bool a b) eqn:E; [now apply Qle_bool_iff|lra]. Qed.
Lemma Qmin_cases a b : Qmin a b = a \/ Qmin a b = b.
Proof. unfold Qmin. destruct (Qle_bool a b); auto. Qed.
Lemma Qmax_ge_l a b : a <= Qmax a b.
Proof. unfold Qmax. destruct (Qle_bool a b) eqn:E; [now apply Qle_bool_iff|lra]. Qed.
Lemma Qmax_ge_r a b : b <= Qmax a b.
Proof. unfold Qmax. destruct (Qle_bool a b) eqn:E; [lra|]. apply Qle_bool_false in E. lra. Qed.
Lemma Qmax_cases a b : Qmax a b = a \/ Qmax a b = b.
Proof. unfold Qmax. destruct (Qle_bool a b); auto. Qed.

Lemma fold_min_le l : forall a, fold_left Qmin l a <= a /\ (forall x, In x l -> fold_left Qmin l a <= x).
Proof.
  induction l as [|y r IH]; intros a; cbn [fold_left]; [split; [lra|intros ? []]|].
  destruct (IH (Qmin a y)) as [H1 H2]. split.
  - eapply Qle_trans; [exact H1|apply Qmin_le_l].
  - intros x [<-|Hx]; [eapply Qle_trans; [exact H1|apply Qmin_le_r]|auto].
Qed.
Lemma fold_min_att l : forall a, fold_left Qmin l a = a \/ In (fold_left Qmin l a) l.
Proof.
  induction l as [|y r IH]; intros a; cbn [fold_left]; [now left|].
  destruct (IH (Qmin a y)) as [H|H]; [|right; now right].
  rewrite H. destruct (Qmin_cases a y) as [E|E]; rewrite E; [now left|right; now left].
Qed.
Lemma fold_max_ge l : forall a, a <= fold_left Qmax l a /\ (forall x, In x l -> x <= fold_left Qmax l a).
Proof.
  induction l as [|y r IH]; intros a; cbn [fold_left]; [split; [lra|intros ? []]|].
  destruct (IH (Qmax a y)) as [H1 H2]. split.
  - eapply Qle_trans; [apply Qmax_ge_l|exact H1].
  - intros x [<-|Hx]; [eapply Qle_trans; [apply Qmax_ge_r|exact H1]|auto].
Qed.
Lemma fold_max_att l : forall a, fold_left Qmax l a = a \/ In (fold_left Qmax l a) l.
Proof.
  induction l as [|y r IH]; intros a; cbn [fold_left]; [now left|].
  destruct (IH (Qmax a y)) as [H|H]; [|right; now right].
  rewrite H. destruct (Qmax_cases a y) as [E|E]; rewrite E; [now left|right; now left].
Qed.

Lemma lmin_spec l : l <> [] -> In (lmin l) l /\ forall x, In x l -> lmin l <= x.
Proof.
  destruct l as [|a r]; [congruence|]. intros _. cbn [lmin].
  destruct (fold_min_le r a) as [H1 H2]. split.
  - destruct (fold_min_att r a) as [E|E]; [rewrite E; now left|now right].
  - intros x [<-|Hx]; auto.
Qed.
Lemma lmax_spec l : l <> [] -> In (lmax l) l /\ forall x, In x l -> x <= lmax l.
Proof.
  destruct l as [|a r]; [congruence|]. intros _. cbn [lmax].
  destruct (fold_max_ge r a) as [H1 H2]. split.
  - destruct (fold_max_att r a) as [E|E]; [rewrite E; now left|now right].
  - intros x [<-|Hx]; auto.
Qed.

(* ------------------------------------------------------------------ statistics of a multiset of durations *)
Definition middle (sl : list Q) : Q :=
  let n := List.length sl in
  if Nat.even n then (nth (Nat.div2 n - 1) sl 0 + nth (Nat.div2 n) sl 0) / 2 else nth (Nat.div2 n) sl 0.

Lemma median_middle l : median l = middle (isort Qle_b l).
Proof. unfold median, middle. now rewrite isort_length. Qed.

Definition sqd (m d : Q) : Q := (d - m) * (d - m).

Record stat_ok (ds : list Q) (s : gstat) : Prop := mkStatOk {
  so_calls : gs_calls s = Z.of_nat (List.length ds);
  so_total : gs_total s == qsum ds;
  so_mean : gs_mean s * inject_Z (gs_calls s) == qsum ds;
  so_min_lb : forall d, In d ds -> gs_min s <= d;
  so_min_att : In (gs_min s) ds;
  so_max_ub : forall d, In d ds -> d <= gs_max s;
  so_max_att : In (gs_max s) ds;
  so_median : exists sl, Permutation sl ds /\ Sorted Qle sl /\ gs_median s = middle sl;
  so_var : (2 <= List.length ds)%nat ->
           gs_var s * (inject_Z (gs_calls s) - 1) == qsum (map (sqd (gs_mean s)) ds);
  so_var1 : (List.length ds < 2)%nat -> gs_var s = 0 }.

Lemma inject_nat_nonzero n : ~ inject_Z (Z.of_nat (S n)) == 0.
Proof. unfold Qeq. cbn. lia. Qed.

Lemma Qle_b_total x y : Qle_b x y = false -> y <= x.
Proof. unfold Qle_b. intros H. apply Qle_bool_false in H. lra. Qed.
Lemma Qle_b_le x y : Qle_b x y = true -> x <= y.
Proof. unfold Qle_b. apply Qle_bool_iff. Qed.

Lemma gstats_ok k ds : ds <> [] -> stat_ok ds (gstats (mkGrp k ds)).
Proof.
  intros Hne. destruct (lmin_spec ds Hne) as [Hm1 Hm2]. destruct (lmax_spec ds Hne) as [HM1 HM2].
  constructor; cbn [gstats g_durs g_key gs_calls gs_total gs_mean gs_min gs_max gs_median gs_var]; auto.
  - reflexivity.
  - unfold mean, qlen. destruct ds as [|a r]; [congruence|].
    field. apply inject_nat_nonzero.
  - exists (isort Qle_b ds). split; [apply isort_perm|]. split; [|apply median_middle].
    apply isort_sorted; [apply Qle_b_le|apply Qle_b_total].
  - intros H2. destruct ds as [|a [|b r]]; cbn in H2; try lia.
    unfold variance, sqdev, qlen, sqd. cbn [List.length].
    field. assert (Hn : (2 <= Z.of_nat (S (S (List.length r))))%Z) by lia.
    revert Hn. generalize (Z.of_nat (S (S (List.length r)))). intros n Hn.
    unfold Qeq, Qminus, Qplus, Qopp, inject_Z. cbn. lia.
  - intros H1. destruct ds as [|a [|b r]]; cbn in H1; try lia; reflexivity.
Qed.

Lemma stat_ok_perm ds ds' s : Permutation ds ds' -> stat_ok ds s -> stat_ok ds' s.
Proof.
  intros P [H1 H2 H3 H4 H5 H6 H7 H8 H9 H10].
  assert (L : List.length ds = List.length ds') by now apply Permutation_length.
  constructor.
  - now rewrite <- L.
  - rewrite H2. now apply qsum_perm.
  - rewrite H3. now apply qsum_perm.
  - intros d Hd. apply H4. eapply Permutation_in; [symmetry; exact P|exact Hd].
  - eapply Permutation_in; eauto.
  - intros d Hd. apply H6. eapply Permutation_in; [symmetry; exact P|exact Hd].
  - eapply Permutation_in; eauto.
  - destruct H8 as (sl & Hp & Hs & Hm). exists sl. split; [now transitivity ds|auto].
  - intros Hl. rewrite H9 by lia. apply qsum_perm. now apply Permutation_map.
  - intros Hl. apply H10. lia.
Qed.

(* ------------------------------------------------------------------ rows *)
Lemma rank_tot_of_total q p : rank_tot_of q p = rank_total p q.
Proof. unfold rank_tot_of, rank_total. now rewrite map_map. Qed.

Lemma key_has_slice evs k :
  (exists e, In e (kern evs) /\ ekey e = k) -> durs_of k evs <> [].
Proof.
  intros (e & He & <-). unfold durs_of.
  assert (In e (filter (has_key (ekey e)) (kern evs))).
  { apply filter_In. split; [exact He|apply key_eqb_refl]. }
  destruct (filter (has_key (ekey e)) (kern evs)); [contradiction|discriminate].
Qed.

Lemma rank_has_slice evs s g :
  inv evs s -> In g (s_q s) -> exists e, In e (of_rank (gpid g) evs) /\ ekey e = g_key g.
Proof.
  intros I Hg. destruct (proj1 (inv_keys _ _ I (g_key g))) as (e & He & Hk).
  { unfold keys. now apply in_map. }
  exists e. split; [|exact Hk]. unfold of_rank. apply filter_In. split; [exact He|].
  unfold in_rank, gpid. rewrite <- Hk. cbn. apply Z.eqb_refl.
Qed.

Lemma rank_total_pos evs s p :
  inv evs s -> of_rank p evs <> [] -> 0 < qsum (map e_dur (of_rank p evs)).
Proof.
  intros I Hne. apply qsum_pos.
  - intros x Hx. apply in_map_iff in Hx. destruct Hx as (e & <- & He).
    unfold of_rank in He. apply filter_In in He. apply (inv_guard _ _ I e (proj1 He)).
  - destruct (of_rank p evs); [congruence|discriminate].
Qed.

Theorem row_statistics evs s r :
  run evs = Ok s -> In r (summary s) ->
  let k := gs_key (r_gs r) in
  snd k = r_pid r /\
  (exists e, In e (kern evs) /\ ekey e = k) /\
  stat_ok (durs_of k evs) (r_gs r) /\
  r_share r == gs_total (r_gs r) / qsum (map e_dur (of_rank (r_pid r) evs)) * 100.
Proof.
  intros Hrun Hr. pose proof (run_inv _ _ Hrun) as I.
  destruct (in_summary _ _ Hr) as (g & Hg & Hp & Hgs & Hsh).
  cbn zeta. rewrite Hgs. cbn [gstats gs_key].
  assert (Hk : exists e, In e (kern evs) /\ ekey e = g_key g).
  { apply (inv_keys _ _ I). unfold keys. now apply in_map. }
  split; [|split; [|split]].
  - now rewrite Hp.
  - exact Hk.
  - assert (Hne : g_durs g <> []) by (rewrite (inv_durs _ _ I g Hg); now apply key_has_slice).
    rewrite <- (inv_durs _ _ I g Hg). destruct g as [k ds]. now apply gstats_ok.
  - rewrite Hsh, rank_tot_of_total, Hp. cbn [gstats gs_total].
    rewrite (inv_total _ _ I). reflexivity.
Qed.

(* ------------------------------------------------------------------ shares *)
Lemma qsum_scale {A} (f : A -> Q) t l : qsum (map (fun x => f x / t * 100) l) == qsum (map f l) / t * 100.
Proof. induction l as [|x r IH]; cbn [map qsum]; [unfold Qdiv; ring|]. rewrite IH. unfold Qdiv. ring. Qed.

Lemma pid_has_rank evs s p : inv evs s -> In p (pids_of (s_q s)) -> of_rank p evs <> [].
Proof.
  intros I Hp. apply (proj2 (pids_of_spec _)) in Hp. destruct Hp as (g & Hg & <-).
  destruct (rank_has_slice _ _ _ I Hg) as (e & He & _). destruct (of_rank (gpid g) evs); [contradiction|discriminate].
Qed.

Theorem shares_sum evs s p :
  run evs = Ok s -> In p (pids_of (s_q s)) ->
  qsum (map r_share (filter (fun r => Z.eqb (r_pid r) p) (summary s))) == 100.
Proof.
  intros Hrun Hp. pose proof (run_inv _ _ Hrun) as I.
  rewrite summary_of_rank by exact Hp. unfold rows_of_pid. rewrite map_map. cbn [r_share].
  rewrite qsum_scale. rewrite (qsum_perm _ _ (Permutation_map gs_total (isort_perm desc_total _))).
  fold (rank_tot_of (s_q s) p). rewrite rank_tot_of_total, (inv_total _ _ I).
  pose proof (rank_total_pos _ _ p I (pid_has_rank _ _ _ I Hp)) as Hpos.
  field. lra.
Qed.

(* ------------------------------------------------------------------ active *)
Record active_ok (es : list ev) (a : arow) : Prop := mkActOk {
  ao_nonempty : es <> [];
  ao_total : a_total a == qsum (map e_dur es);
  ao_start_lb : forall e, In e es -> a_start a <= e_ts e;
  ao_start_big : a_start a <= BIG;
  ao_start_att : a_start a = BIG \/ exists e, In e es /\ a_start a = e_ts e;
  ao_end_ub : forall e, In e es -> e_end e <= a_end a;
  ao_end_zero : 0 <= a_end a;
  ao_end_att : a_end a = 0 \/ exists e, In e es /\ a_end a = e_end e;
  ao_elapsed : a_elapsed a = a_end a - a_start a;
  ao_active : a_active a = a_total a / a_elapsed a * 100 }.

Lemma active_of_pid_ok evs s p :
  inv evs s -> In p (pids_of (s_q s)) -> active_ok (of_rank p evs) (active_of_pid s p).
Proof.
  intros I Hp. pose proof (pid_has_rank _ _ _ I Hp) as Hne.
  assert (Hmin : get p (s_min s) = fold_left Qmin (map e_ts (of_rank p evs)) BIG).
  { unfold get. rewrite (inv_min _ _ I). unfold ext_spec. destruct (of_rank p evs); [congruence|reflexivity]. }
  assert (Hmax : get p (s_max s) = fold_left Qmax (map e_end (of_rank p evs)) 0).
  { unfold get. rewrite (inv_max _ _ I). unfold ext_spec. destruct (of_rank p evs); [congruence|reflexivity]. }
  constructor; cbn [active_of_pid a_total a_start a_end a_elapsed a_active]; auto.
  - unfold rows_of_pid. rewrite map_map. cbn [r_gs].
    rewrite (qsum_perm _ _ (Permutation_map gs_total (isort_perm desc_total _))).
    fold (rank_tot_of (s_q s) p). rewrite rank_tot_of_total. apply (inv_total _ _ I).
  - intros e He. rewrite Hmin. apply (proj2 (fold_min_le _ BIG)). now apply in_map.
  - rewrite Hmin. apply (proj1 (fold_min_le _ BIG)).
  - rewrite Hmin. destruct (fold_min_att (map e_ts (of_rank p evs)) BIG) as [E|E]; [now left|right].
    apply in_map_iff in E. destruct E as (e & E1 & E2). exists e. auto.
  - intros e He. rewrite Hmax. apply (proj2 (fold_max_ge _ 0)). now apply in_map.
  - rewrite Hmax. apply (proj1 (fold_max_ge _ 0)).
  - rewrite Hmax. destruct (fold_max_att (map e_end (of_rank p evs)) 0) as [E|E]; [now left|right].
    apply in_map_iff in E. destruct E as (e & E1 & E2). exists e. auto.
Qed.

Theorem active_spec evs s :
  run evs = Ok s ->
  map a_pid (active s) = pids_of (s_q s) /\
  NoDup (pids_of (s_q s)) /\ Sorted Z.le (pids_of (s_q s)) /\
  (forall p, In p (pids_of (s_q s)) <-> of_rank p evs <> []) /\
  (forall a, In a (active s) -> active_ok (of_rank (a_pid a) evs) a).
Proof.
  intros Hrun. pose proof (run_inv _ _ Hrun) as I. unfold active.
  split; [|split; [|split; [|split]]].
  - rewrite map_map. cbn. apply map_id.
  - apply (proj1 (pids_of_spec _)).
  - unfold pids_of. apply isort_sorted; intros x y H; [now apply Z.leb_le|apply Z.leb_gt in H; lia].
  - intros p. split; [apply (pid_has_rank _ _ _ I)|].
    intros Hne. apply (proj2 (pids_of_spec _)). destruct (of_rank p evs) as [|e r] eqn:E; [congruence|].
    assert (He : In e (of_rank p evs)) by (rewrite E; now left).
    unfold of_rank in He. apply filter_In in He. destruct He as [He Hp].
    assert (Hk : In (ekey e) (keys (s_q s))) by (apply (inv_keys _ _ I); exists e; auto).
    unfold keys in Hk. apply in_map_iff in Hk. destruct Hk as (g & Hgk & Hg).
    exists g. split; [exact Hg|]. unfold gpid. rewrite Hgk. cbn. unfold in_rank in Hp. now apply Z.eqb_eq.
  - intros a Ha. apply in_map_iff in Ha. destruct Ha as (p & <- & Hp).
    cbn [active_of_pid a_pid]. now apply active_of_pid_ok.
Qed.

(* under the tool's domain (slices end at or after 0 and start at or below 1e30) start and end are the true extremes *)
Theorem active_true_extremes es a :
  active_ok es a -> (forall e, In e es -> 0 <= e_end e /\ e_ts e <= BIG) ->
  (exists e, In e es /\ a_start a == e_ts e) /\ (exists e, In e es /\ a_end a == e_end e) /\
  (forall e, In e es -> a_start a <= e_ts e /\ e_end e <= a_end a).
Proof.
  intros [Hne _ Hs1 Hs2 Hs3 He1 He2 He3 _ _] Hdom.
  destruct es as [|e0 r]; [congruence|]. repeat split.
  - destruct Hs3 as [E|(e & Hi & E)]; [|exists e; split; [exact Hi|now rewrite E]].
    exists e0. split; [now left|]. pose proof (Hs1 e0 (or_introl eq_refl)).
    destruct (Hdom e0 (or_introl eq_refl)). rewrite E in *. lra.
  - destruct He3 as [E|(e & Hi & E)]; [|exists e; split; [exact Hi|now rewrite E]].
    exists e0. split; [now left|]. pose proof (He1 e0 (or_introl eq_refl)).
    destruct (Hdom e0 (or_introl eq_refl)). rewrite E in *. lra.
  - now apply Hs1.
  - now apply He1.
Qed.

Lemma active_elapsed_pos es a :
  active_ok es a -> (forall e, In e es -> 0 < e_dur e) -> 0 < a_elapsed a.
Proof.
  intros [Hne _ Hs1 _ _ He1 _ _ Hel _] Hd. destruct es as [|e0 r]; [congruence|].
  pose proof (Hs1 e0 (or_introl eq_refl)). pose proof (He1 e0 (or_introl eq_refl)).
  pose proof (Hd e0 (or_introl eq_refl)). rewrite Hel. unfold e_end in *. lra.
Qed.

(* ------------------------------------------------------------------ rows <-> groups <-> slices *)
Definition row_key (r : row) : key := gs_key (r_gs r).

Theorem row_keys evs s :
  run evs = Ok s ->
  NoDup (map row_key (summary s)) /\
  (forall k, In k (map row_key (summary s)) <-> exists e, In e (kern evs) /\ ekey e = k) /\
  fold_right (fun r n => (gs_calls (r_gs r) + n)%Z) 0%Z (summary s) = Z.of_nat (List.length (kern evs)).
Proof.
  intros Hrun. pose proof (run_inv _ _ Hrun) as I.
  assert (P : Permutation (map row_key (summary s)) (keys (s_q s))).
  { unfold row_key. rewrite <- (map_map r_gs gs_key). rewrite (Permutation_map gs_key (rows_perm s)).
    rewrite map_map. reflexivity. }
  split; [|split].
  - eapply Permutation_NoDup; [symmetry; exact P|apply (inv_nodup _ _ I)].
  - intros k. rewrite <- (inv_keys _ _ I). split; apply Permutation_in; [exact P|symmetry; exact P].
  - rewrite <- (inv_calls _ _ I).
    assert (E : forall l : list gstat, fold_right (fun s0 n => (gs_calls s0 + n)%Z) 0%Z l =
                                        fold_right Z.add 0%Z (map gs_calls l)).
    { induction l as [|x r IH]; cbn; [reflexivity|now rewrite IH]. }
    assert (E2 : fold_right (fun r n => (gs_calls (r_gs r) + n)%Z) 0%Z (summary s) =
                 fold_right Z.add 0%Z (map gs_calls (map r_gs (summary s)))).
    { rewrite <- E. generalize (summary s). induction l as [|x r IH]; cbn; [reflexivity|now rewrite IH]. }
    rewrite E2.
    assert (E3 : forall l m : list Z, Permutation l m -> fold_right Z.add 0%Z l = fold_right Z.add 0%Z m).
    { induction 1; cbn; lia. }
    rewrite (E3 _ _ (Permutation_map gs_calls (rows_perm s))).
    unfold sum_calls. generalize (s_q s). induction l as [|g r IH]; cbn; [reflexivity|]. rewrite IH. lia.
Qed.

(* ------------------------------------------------------------------ the exported slices, in any order *)
Definition proj (e : ev) : key * Q * Q := (ekey e, e_ts e, e_dur e).

Lemma Permutation_filter {A} (f : A -> bool) l l' : Permutation l l' -> Permutation (filter f l) (filter f l').
Proof.
  induction 1; cbn; try reflexivity.
  - destruct (f x); [now constructor|assumption].
  - destruct (f x), (f y); try reflexivity. apply perm_swap.
  - etransitivity; eassumption.
Qed.

Lemma durs_of_proj k evs :
  durs_of k evs = map snd (filter (fun x => key_eqb k (fst (fst x))) (map proj (kern evs))).
Proof.
  unfold durs_of. induction (kern evs) as [|e r IH]; cbn; [reflexivity|].
  unfold has_key at 1. destruct (key_eqb k (ekey e)); cbn; now rewrite IH.
Qed.

Definition td (e : ev) : Q * Q := (e_ts e, e_dur e).
Lemma of_rank_proj p evs :
  map td (of_rank p evs) =
  map (fun x => (snd (fst x), snd x)) (filter (fun x => Z.eqb (snd (fst (fst x))) p) (map proj (kern evs))).
Proof.
  unfold of_rank. induction (kern evs) as [|e r IH]; cbn; [reflexivity|].
  unfold in_rank at 1. destruct (Z.eqb (e_pid e) p); cbn; now rewrite IH.
Qed.

Lemma map_dur_td es : map e_dur es = map snd (map td es).
Proof. rewrite map_map. reflexivity. Qed.

Lemma active_ok_transport es es' a :
  Permutation (map td es) (map td es') -> active_ok es a -> active_ok es' a.
Proof.
  intros P [H1 H2 H3 H4 H5 H6 H7 H8 H9 H10].
  assert (F : forall e', In e' es' -> exists e, In e es /\ td e = td e').
  { intros e' He'. assert (Hi : In (td e') (map td es)).
    { eapply Permutation_in; [symmetry; exact P|now apply in_map]. }
    apply in_map_iff in Hi. destruct Hi as (e & E & Hi). eauto. }
  assert (B : forall e, In e es -> exists e', In e' es' /\ td e = td e').
  { intros e He. assert (Hi : In (td e) (map td es')).
    { eapply Permutation_in; [exact P|now apply in_map]. }
    apply in_map_iff in Hi. destruct Hi as (e' & E & Hi). eauto. }
  constructor; auto.
  - intros ->. apply Permutation_length in P. rewrite !map_length in P. destruct es; [congruence|discriminate].
  - rewrite H2, !map_dur_td. apply qsum_perm. now apply Permutation_map.
  - intros e' He'. destruct (F e' He') as (e & He & E). injection E as E1 E2. rewrite <- E1. now apply H3.
  - destruct H5 as [E|(e & He & E)]; [now left|right]. destruct (B e He) as (e' & He' & Et).
    injection Et as E1 E2. exists e'. split; [exact He'|congruence].
  - intros e' He'. destruct (F e' He') as (e & He & E). injection E as E1 E2. unfold e_end. rewrite <- E1, <- E2.
    now apply H6.
  - destruct H8 as [E|(e & He & E)]; [now left|right]. destruct (B e He) as (e' & He' & Et).
    injection Et as E1 E2. exists e'. split; [exact He'|]. unfold e_end in *. congruence.
Qed.

Theorem export_agrees evs evs' s :
  run evs = Ok s ->
  Permutation (map proj (kern evs)) (map proj (kern evs')) ->
  (forall r, In r (summary s) ->
     snd (row_key r) = r_pid r /\
     stat_ok (durs_of (row_key r) evs') (r_gs r) /\
     r_share r == gs_total (r_gs r) / qsum (map e_dur (of_rank (r_pid r) evs')) * 100) /\
  (forall a, In a (active s) -> active_ok (of_rank (a_pid a) evs') a) /\
  (forall k, In k (map row_key (summary s)) <-> exists e, In e (kern evs') /\ ekey e = k) /\
  (forall p, In p (map a_pid (active s)) <-> of_rank p evs' <> []).
Proof.
  intros Hrun P.
  assert (Pd : forall k, Permutation (durs_of k evs) (durs_of k evs')).
  { intros k. rewrite !durs_of_proj. apply Permutation_map. now apply Permutation_filter. }
  assert (Pr : forall p, Permutation (map td (of_rank p evs)) (map td (of_rank p evs'))).
  { intros p. rewrite !of_rank_proj. apply Permutation_map. now apply Permutation_filter. }
  assert (Pt : forall p, qsum (map e_dur (of_rank p evs)) == qsum (map e_dur (of_rank p evs'))).
  { intros p. rewrite !map_dur_td. apply qsum_perm. apply Permutation_map. apply Pr. }
  split; [|split; [|split]].
  - intros r Hr. destruct (row_statistics _ _ _ Hrun Hr) as (H1 & _ & H3 & H4).
    split; [exact H1|]. split.
    + eapply stat_ok_perm; [apply Pd|exact H3].
    + rewrite H4, Pt. reflexivity.
  - intros a Ha. destruct (active_spec _ _ Hrun) as (_ & _ & _ & _ & H).
    eapply active_ok_transport; [apply Pr|now apply H].
  - intros k. rewrite (proj1 (proj2 (row_keys _ _ Hrun)) k). split.
    + intros (e & He & Hk). assert (Hi : In (proj e) (map proj (kern evs'))).
      { eapply Permutation_in; [exact P|now apply in_map]. }
      apply in_map_iff in Hi. destruct Hi as (e' & E & Hi). assert (E1 : ekey e' = ekey e) by (change (fst (fst (proj e')) = fst (fst (proj e))); now rewrite E).
      exists e'. split; [exact Hi|congruence].
    + intros (e & He & Hk). assert (Hi : In (proj e) (map proj (kern evs))).
      { eapply Permutation_in; [symmetry; exact P|now apply in_map]. }
      apply in_map_iff in Hi. destruct Hi as (e' & E & Hi). assert (E1 : ekey e' = ekey e) by (change (fst (fst (proj e')) = fst (fst (proj e))); now rewrite E).
      exists e'. split; [exact Hi|congruence].
  - intros p. destruct (active_spec _ _ Hrun) as (E & _ & _ & H & _). rewrite E, H.
    pose proof (Permutation_length (Pr p)) as L. rewrite !map_length in L.
    split; intros Hne Heq; rewrite Heq in L; cbn in L; destruct (of_rank p _); try discriminate; congruence.
Qed.

(* ------------------------------------------------------------------ printed cells *)
Theorem rhe_half q : Qabs (inject_Z (rhe q) - q) <= 1 # 2.
Proof.
  unfold rhe. pose proof (Qfloor_le q) as H1. pose proof (Qlt_floor q) as H2.
  rewrite inject_Z_plus in H2. change (inject_Z 1) with 1 in H2.
  destruct (Qcompare (q - inject_Z (Qfloor q)) (1 # 2)) eqn:C.
  - apply Qeq_alt in C. destruct (Z.even (Qfloor q)); [|rewrite inject_Z_plus; change (inject_Z 1) with 1];
      apply Qabs_Qle_condition; split; lra.
  - apply Qlt_alt in C. apply Qabs_Qle_condition; split; lra.
  - apply Qgt_alt in C. rewrite inject_Z_plus. change (inject_Z 1) with 1. apply Qabs_Qle_condition; split; lra.
Qed.

Definition sq (z : Z) : Z := (z * z)%Z.
Ltac qz := unfold Qeq, Qminus, Qplus, Qopp, Qmult, inject_Z; cbn [Qnum Qden]; rewrite ?Pos.mul_1_l, ?Pos.mul_1_r; ring.

Theorem stdev_cell_spec v : 0 <= v ->
  let S := stdev_cell v in
  let x := v * 1000000 in
  (0 <= S)%Z /\ 4 * x <= inject_Z (sq (2 * S + 1)) /\ (S = 0%Z \/ inject_Z (sq (2 * S - 1)) <= 4 * x).
Proof.
  intros Hv. cbn zeta. unfold stdev_cell, sq.
  set (x := v * 1000000). set (n := Qfloor x). set (s := Z.sqrt n).
  assert (Hx : 0 <= x) by (unfold x; lra).
  assert (Hn : (0 <= n)%Z). { unfold n. change 0%Z with (Qfloor 0). now apply Qfloor_resp_le. }
  pose proof (Z.sqrt_spec n Hn) as [S1 S2]. fold s in S1, S2.
  assert (Hs : (0 <= s)%Z) by apply Z.sqrt_nonneg.
  pose proof (Qfloor_le x) as F1. pose proof (Qlt_floor x) as F2. fold n in F1, F2.
  assert (A1 : inject_Z (s * s) <= x).
  { eapply Qle_trans; [|exact F1]. rewrite <- Zle_Qle. exact S1. }
  assert (A2 : x < inject_Z (s * s) + 2 * inject_Z s + 1).
  { eapply Qlt_le_trans; [exact F2|].
    assert (E : inject_Z (s * s) + 2 * inject_Z s + 1 == inject_Z (s * s + 2 * s + 1)).
    { qz. }
    rewrite E, <- Zle_Qle. lia. }
  assert (B0 : 0 <= inject_Z s). { change 0 with (inject_Z 0). now rewrite <- Zle_Qle. }
  assert (E1 : inject_Z ((2 * s + 1) * (2 * s + 1)) == 4 * inject_Z (s * s) + 4 * inject_Z s + 1).
  { qz. }
  assert (E2 : inject_Z ((2 * s - 1) * (2 * s - 1)) == 4 * inject_Z (s * s) - 4 * inject_Z s + 1).
  { qz. }
  assert (E3 : inject_Z ((2 * (s + 1) + 1) * (2 * (s + 1) + 1)) == 4 * inject_Z (s * s) + 12 * inject_Z s + 9).
  { qz. }
  assert (E4 : inject_Z ((2 * (s + 1) - 1) * (2 * (s + 1) - 1)) == inject_Z ((2 * s + 1) * (2 * s + 1))).
  { qz. }
  assert (L : s = 0%Z \/ inject_Z ((2 * s - 1) * (2 * s - 1)) <= 4 * x).
  { destruct (Z.eq_dec s 0) as [->|Hne]; [now left|right].
    assert (1 <= inject_Z s). { change 1 with (inject_Z 1). rewrite <- Zle_Qle. lia. }
    rewrite E2. lra. }
  destruct (Qcompare (4 * x) (inject_Z ((2 * s + 1) * (2 * s + 1)))) eqn:C.
  - apply Qeq_alt in C. destruct (Z.even s).
    + split; [exact Hs|]. split; [rewrite C; apply Qle_refl|exact L].
    + split; [lia|]. split; [rewrite E3; lra|right; rewrite E4, C; apply Qle_refl].
  - apply Qlt_alt in C. split; [exact Hs|]. split; [lra|exact L].
  - apply Qgt_alt in C. split; [lia|]. split; [rewrite E3; lra|right; rewrite E4; lra].
Qed.

(* ------------------------------------------------------------------ groups partition the kernel slices *)
Theorem groups_partition evs s :
  run evs = Ok s ->
  NoDup (keys (s_q s)) /\
  (forall g, In g (s_q s) -> g_durs g = durs_of (g_key g) evs /\ g_durs g <> []) /\
  (forall k, In k (keys (s_q s)) <-> exists e, In e (kern evs) /\ ekey e = k) /\
  sum_calls (s_q s) = List.length (kern evs).
Proof.
  intros Hrun. pose proof (run_inv _ _ Hrun) as I. split; [|split; [|split]].
  - apply (inv_nodup _ _ I).
  - intros g Hg. split; [apply (inv_durs _ _ I g Hg)|].
    rewrite (inv_durs _ _ I g Hg). apply key_has_slice. apply (inv_keys _ _ I). unfold keys. now apply in_map.
  - apply (inv_keys _ _ I).
  - apply (inv_calls _ _ I).
Qed.

(* ------------------------------------------------------------------ the registration program after calculate_stats *)
(* gen/Registration.v is regenerated from core/acelyzer.py on every run: these facts are re-checked against it. *)
From AiuModel Require Import Profile.
From AiuGen Require Import Registration.
Local Open Scope string_scope.

Fixpoint gtext (g : guard) : string :=
  match g with
  | GTrue => ""
  | GAtom n => nth n atoms "?"
  | GNot a => "not(" ++ gtext a ++ ")"
  | GAnd a b => gtext a ++ " & " ++ gtext b
  end.
Fixpoint after_stage (nm : string) (p : program) : program :=
  match p with
  | [] => []
  | r :: t => if String.eqb (r_name r) nm then t else after_stage nm t
  end.
Definition stages_after (nm : string) : list (string * string) :=
  map (fun r => (r_name r, gtext (r_guard r))) (after_stage nm the_program).
Definition registrations_of (nm : string) : list (string * string) :=
  map (fun r => (gtext (r_guard r), r_ctor r)) (filter (fun r => String.eqb (r_name r) nm) the_program).

(* the stages an event passes after the statistics were taken: only processing_filter (-F/--filter) can drop a
   kernel slice; tb_refinement_intrusive renames (keeping args.orig_name); the others keep ph/pid/ts/dur/name *)
Lemma stages_after_stats :
  stages_after "calculate_stats" =
  [("processing_filter", "args.filter != ''");
   ("flow_data_cleanup", "");
   ("cleanup_copy_of_device_ts", "");
   ("tb_refinement_intrusive", "args.tb_refinement");
   ("tb_refinement_lightweight", "");
   ("cycle_count_conversion_cleanup", "");
   ("calculate_stats_v2", "args.stats & args.build_coll_event");
   ("sort_events", "")] /\
  registrations_of "calculate_stats" =
  [("args.stats", "event_pipe.StatsExtractionContext(stats_filename=args.output)")].
Proof. split; vm_compute; reflexivity. Qed.
