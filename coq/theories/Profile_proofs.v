(* Profile_proofs.v — lemmas about forward name matching and the registration program (C16, used by C08). *)
From Coq Require Import List String Bool Arith Lia.
Import ListNotations.
From AiuModel Require Import Profile.
Local Open Scope string_scope.

Lemma find_sel_hd P : forall M c cs, sel P M = c :: cs -> exists f P', find P c = Some (f, P').
Proof.
  induction P as [|[n f] P IH]; intros M c cs H; [destruct M; discriminate|].
  destruct M as [|b M]; [discriminate|]. cbn [sel] in H. cbn [find].
  destruct (String.eqb_spec c n); [eauto|].
  destruct b; [injection H as -> _; contradiction|]. eapply IH; eauto.
Qed.

(* under structural separation every selected registration is matched at its own profile entry and
   receives exactly that entry's flag *)
Theorem register_sel P : forall M, sep P M -> register P (sel P M) = selflags P M.
Proof.
  induction P as [|[n f] P IH]; intros M H; [destruct M; reflexivity|].
  destruct M as [|b M]; [reflexivity|]. cbn [sel selflags sep] in *. destruct H as [Hs Hb].
  destruct b.
  - cbn [register find]. rewrite String.eqb_refl. f_equal. now apply IH.
  - specialize (Hb eq_refl). rewrite <- (IH M Hs).
    destruct (sel P M) as [|c cs] eqn:E; [reflexivity|].
    cbn [register find]. destruct (String.eqb_spec c n); [contradiction|].
    destruct (find_sel_hd P M c cs E) as (f' & P' & ->). reflexivity.
Qed.

Lemma is_true_eval v g : is_true g = true -> geval v g = true.
Proof. destruct g; simpl; congruence. Qed.

Lemma clear_ahead_sound v n : forall rest P,
  clear_ahead n rest = true -> map fst P = names rest ->
  match sel P (mask v rest) with c :: _ => c <> n | [] => True end.
Proof.
  induction rest as [|r rest IH]; intros P Hc Hn.
  - destruct P; [exact I|discriminate].
  - destruct P as [|[n' f] P]; [discriminate|]. cbn [map names fst] in Hn. injection Hn as Hn1 Hn2.
    cbn [mask map sel]. cbn [clear_ahead] in Hc. subst n'.
    destruct (String.eqb_spec (r_name r) n) as [|Hne]; [discriminate|].
    destruct (geval v (r_guard r)) eqn:Eg; [exact Hne|].
    destruct (is_true (r_guard r)) eqn:Et.
    + rewrite (is_true_eval v _ Et) in Eg. discriminate.
    + apply IH; assumption.
Qed.

Theorem sep_static_sound v : forall p P,
  sep_static p = true -> map fst P = names p -> sep P (mask v p).
Proof.
  induction p as [|r p IH]; intros P Hs Hn.
  - destruct P; [exact I|discriminate].
  - destruct P as [|[n f] P]; [discriminate|]. cbn [map names fst] in Hn. injection Hn as Hn1 Hn2.
    cbn [sep_static] in Hs. apply andb_prop in Hs. destruct Hs as [H1 H2].
    cbn [mask map sep]. split; [now apply IH|].
    intros Hb. apply orb_prop in H1. destruct H1 as [Ht|Hc].
    + rewrite (is_true_eval v _ Ht) in Hb. discriminate.
    + subst n. now apply clear_ahead_sound.
Qed.

Lemma sel_calls v : forall p P, map fst P = names p -> sel P (mask v p) = calls v p.
Proof.
  induction p as [|r p IH]; intros P Hn.
  - destruct P; [reflexivity|discriminate].
  - destruct P as [|[n f] P]; [discriminate|]. cbn [map names fst] in Hn. injection Hn as Hn1 Hn2.
    unfold calls. cbn [mask map sel filter]. destruct (geval v (r_guard r)); cbn [map]; subst n;
      [f_equal|]; now apply IH.
Qed.

(* C16 core: for EVERY valuation of the guard atoms, each executed register_stage call is matched at its own
   entry of the profile and gets that entry's flag *)
Theorem register_program v p P :
  sep_static p = true -> map fst P = names p ->
  register P (calls v p) = selflags P (mask v p).
Proof.
  intros Hs Hn. rewrite <- (sel_calls v p P Hn). apply register_sel. now apply sep_static_sound.
Qed.

Lemma keep_all_true {A} (l : list A) : forall fl, List.length fl = List.length l -> forallb (fun b => b) fl = true -> keep l fl = l.
Proof.
  induction l as [|x l IH]; intros [|b fl] Hl Hf; try discriminate; [reflexivity|].
  cbn [forallb] in Hf. apply andb_prop in Hf. destruct Hf as [-> Hf]. cbn [keep]. f_equal. apply IH; [now injection Hl|exact Hf].
Qed.

Lemma selflags_length P : forall M, List.length (selflags P M) = List.length (sel P M).
Proof. induction P as [|[n f] P IH]; intros [|[] M]; cbn [selflags sel List.length]; auto. Qed.

Lemma selflags_all_true P : forallb snd P = true -> forall M, forallb (fun b => b) (selflags P M) = true.
Proof.
  induction P as [|[n f] P IH]; intros Hp [|b M]; try reflexivity.
  cbn [forallb snd] in Hp. apply andb_prop in Hp. destruct Hp as [Hf Hp]. cbn [selflags].
  destruct b; cbn [forallb]; [rewrite Hf|]; now apply IH.
Qed.

(* under an all-enabled profile nothing requested is skipped: the registered stage list IS the requested list *)
Theorem registered_all_enabled v p P :
  sep_static p = true -> map fst P = names p -> forallb snd P = true ->
  registered P (calls v p) = calls v p.
Proof.
  intros Hs Hn Ht. unfold registered. rewrite (register_program v p P Hs Hn).
  apply keep_all_true.
  - rewrite selflags_length. now rewrite (sel_calls v p P Hn).
  - now apply selflags_all_true.
Qed.

(* a profile that differs from an all-enabled one in one disabled entry skips exactly the registration that
   corresponds to that entry *)
Fixpoint mask_off (k : nat) (M : list bool) : list bool :=
  match M, k with
  | [], _ => []
  | _ :: M', O => false :: M'
  | b :: M', S k' => b :: mask_off k' M'
  end.

Lemma keep_sel_selflags P : forall M, keep (sel P M) (selflags P M) = sel P (map (fun x => fst x && snd x) (combine M (map snd P))).
Proof.
  induction P as [|[n f] P IH]; intros [|b M]; try reflexivity.
  cbn [sel selflags map combine snd fst]. destruct b; cbn [keep andb].
  - destruct f; [f_equal|]; apply IH.
  - apply IH.
Qed.

Lemma disable_at_names k : forall P, map fst (disable_at k P) = map fst P.
Proof. induction k as [|k IH]; intros [|[n f] P]; cbn [disable_at map fst]; try reflexivity. f_equal. apply IH. Qed.

Lemma sel_names_only P Q : map fst P = map fst Q -> forall M, sel P M = sel Q M.
Proof.
  revert Q. induction P as [|[n f] P IH]; intros [|[n' f'] Q] H; try discriminate; [reflexivity|].
  injection H as -> H. intros [|b M]; [reflexivity|]. cbn [sel]. rewrite (IH Q H M). reflexivity.
Qed.

Lemma combine_disable k : forall P M, forallb snd P = true ->
  map (fun x => fst x && snd x) (combine M (map snd (disable_at k P))) =
  firstn (List.length P) (mask_off k M).
Proof.
  induction k as [|k IH]; intros [|[n f] P] [|b M] Hp; try reflexivity.
  - cbn [disable_at map snd combine fst mask_off List.length firstn]. rewrite andb_false_r. f_equal.
    cbn [forallb snd] in Hp. apply andb_prop in Hp. destruct Hp as [_ Hp].
    clear - Hp. revert M. induction P as [|[n' f'] P IH]; intros [|b M]; try reflexivity.
    cbn [forallb snd] in Hp. apply andb_prop in Hp. destruct Hp as [Hf Hp].
    cbn [map snd combine fst List.length firstn]. cbn in Hf. rewrite Hf, andb_true_r. f_equal. now apply IH.
  - cbn [forallb snd] in Hp. apply andb_prop in Hp. destruct Hp as [Hf Hp]. cbn in Hf. subst f.
    cbn [disable_at map snd combine fst mask_off List.length firstn]. rewrite andb_true_r. f_equal. now apply IH.
Qed.

Lemma sel_firstn P : forall M, sel P (firstn (List.length P) M) = sel P M.
Proof. induction P as [|[n f] P IH]; intros [|b M]; try reflexivity. cbn [List.length firstn sel]. rewrite IH. reflexivity. Qed.

Theorem registered_one_disabled v p P k :
  sep_static p = true -> map fst P = names p -> forallb snd P = true ->
  registered (disable_at k P) (calls v p) = sel P (mask_off k (mask v p)).
Proof.
  intros Hs Hn Ht. unfold registered.
  assert (Hn' : map fst (disable_at k P) = names p) by (now rewrite disable_at_names).
  rewrite (register_program v p _ Hs Hn').
  rewrite <- (sel_calls v p _ Hn'). rewrite keep_sel_selflags.
  rewrite (combine_disable k P _ Ht).
  rewrite (sel_names_only _ P (disable_at_names k P)). apply sel_firstn.
Qed.

(* general form for any profile over the same names (torch_minimal, any user profile that lists every stage) *)
Theorem registered_any_profile v p P :
  sep_static p = true -> map fst P = names p ->
  registered P (calls v p) = keep (calls v p) (selflags P (mask v p)).
Proof. intros Hs Hn. unfold registered. now rewrite (register_program v p P Hs Hn). Qed.

(* _ingest_profile_data is the identity on a requested profile that lists exactly the stages of everything.json *)
Lemma ingest_go_same : forall all x pd, map fst (x :: pd) = map fst all -> ingest_go x pd all = x :: pd.
Proof.
  induction all as [|[s f] all IH]; intros [n b] pd H; [discriminate|].
  cbn [map fst] in H. injection H as Hn H. subst s. cbn [ingest_go fst snd]. rewrite String.eqb_refl. f_equal.
  destruct pd as [|y pd].
  - destruct all; [reflexivity|discriminate].
  - now apply IH.
Qed.
Theorem ingest_same_names pd all : pd <> [] -> map fst pd = map fst all -> ingest pd all = Some pd.
Proof. destruct pd as [|x pd]; [congruence|]. intros _ H. unfold ingest. f_equal. now apply ingest_go_same. Qed.

(* the profile produced by ingestion always has exactly the names of the all-stages list, whatever was requested *)
Lemma ingest_go_names : forall all x pd, map fst (ingest_go x pd all) = map fst all.
Proof.
  induction all as [|[s f] all IH]; intros x pd; [reflexivity|]. cbn [ingest_go].
  destruct (String.eqb (fst x) s); cbn [map fst]; f_equal; [destruct pd|]; apply IH.
Qed.
Theorem ingest_names pd all P : ingest pd all = Some P -> map fst P = map fst all.
Proof. destruct pd as [|x pd]; [discriminate|]. unfold ingest. intros [= <-]. apply ingest_go_names. Qed.

(* each selected entry occurs exactly once: the number of executed calls equals the number of true mask bits *)
Lemma register_length P : forall cs, List.length (register P cs) = List.length cs.
Proof. intros cs. revert P. induction cs as [|c cs IH]; intros P; [reflexivity|]. cbn [register]. destruct (find P c) as [[f P']|]; cbn [List.length]; now rewrite IH. Qed.
