(* Sort_proofs.v — lemmas about Sort.v (the event sorter) and their use for C08.
   Part A  Base.isort with a total, transitive [leb]: permutation, sorted, stable.
   Part B  the key order of the sorter (lexicographic on rational tuples) is total and transitive.
   Part C  the sorter: drain = per queue a sorted stable permutation; a global sorter as a stream function.
   Part D  Pipeline: composition splits at the last stage; a pipeline that ends with a global sorter exports
           "events the sorter does not hold, then the stable sort of the rest" — whatever the stages before it do.
   Part E  the meaning of the key "ts,dur:r"; the generated registration program ends with that sorter under every
           valuation of the option guards and every profile that keeps its last entry.
   Part F  (end of file) any mode: one queue per queue id in first-appearance order, each the held events of that id. *)
From Coq Require Import ZArith QArith Lqa List Bool String Ascii Permutation Sorted Arith Lia.
Import ListNotations.
From AiuModel Require Import Base Pipeline Profile Profile_proofs Registration_facts Sort C08Model.
From AiuGen Require Import Registration Profiles.
Local Open Scope Z_scope.

(* ------------------------------------------------------------------ Part A: insertion sort *)
Section ISort.
  Context {A : Type} (leb : A -> A -> bool).
  Hypothesis leb_total : forall a b, leb a b = true \/ leb b a = true.
  Hypothesis leb_trans : forall a b c, leb a b = true -> leb b c = true -> leb a c = true.
  Definition le (a b : A) : Prop := leb a b = true.
  Definition eqv (a b : A) : bool := leb a b && leb b a.

  Lemma insert_sorted_perm x l : Permutation (insert_sorted leb x l) (x :: l).
  Proof.
    induction l as [|y r IH]; cbn [insert_sorted]; [reflexivity|].
    destruct (leb x y); [reflexivity|]. rewrite IH. apply perm_swap.
  Qed.
  Lemma isort_perm l : Permutation (isort leb l) l.
  Proof.
    induction l as [|x r IH]; [reflexivity|]. unfold isort in *. cbn [fold_right].
    rewrite insert_sorted_perm. now constructor.
  Qed.

  Lemma insert_sorted_sorted x l : StronglySorted le l -> StronglySorted le (insert_sorted leb x l).
  Proof.
    induction 1 as [|y r Hs IH Hall]; cbn [insert_sorted]; [repeat constructor|].
    destruct (leb x y) eqn:E.
    - constructor; [now constructor|]. constructor; [exact E|].
      eapply Forall_impl; [|exact Hall]. intros z Hz. eapply leb_trans; eassumption.
    - constructor; [exact IH|].
      assert (Hyx : le y x) by (destruct (leb_total x y) as [H|H]; [congruence|exact H]).
      eapply Permutation_Forall; [symmetry; apply insert_sorted_perm|]. now constructor.
  Qed.
  Lemma isort_sorted l : StronglySorted le (isort leb l).
  Proof.
    induction l as [|x r IH]; [constructor|]. unfold isort in *. cbn [fold_right]. now apply insert_sorted_sorted.
  Qed.

  (* stability: the events of one key class keep their arrival order *)
  Lemma insert_sorted_filter (P : A -> bool) x l :
    (P x = true -> forall y, leb x y = false -> P y = false) ->
    filter P (insert_sorted leb x l) = if P x then x :: filter P l else filter P l.
  Proof.
    intros HP. induction l as [|y r IH]; cbn [insert_sorted filter]; [reflexivity|].
    destruct (leb x y) eqn:E; cbn [filter]; [reflexivity|].
    rewrite IH. destruct (P x) eqn:Px; [|reflexivity].
    rewrite (HP eq_refl y E). reflexivity.
  Qed.
  Lemma isort_stable x l : filter (eqv x) (isort leb l) = filter (eqv x) l.
  Proof.
    induction l as [|y r IH]; [reflexivity|]. unfold isort in *. cbn [fold_right filter].
    rewrite insert_sorted_filter.
    - now rewrite IH.
    - unfold eqv. intros Hy z Hz. apply andb_prop in Hy. destruct Hy as [Hxy Hyx].
      destruct (leb x z) eqn:Exz; [|reflexivity]. destruct (leb z x) eqn:Ezx; [|reflexivity].
      rewrite (leb_trans _ _ _ Hyx Exz) in Hz. discriminate.
  Qed.
  Lemma isort_length l : List.length (isort leb l) = List.length l.
  Proof. apply Permutation_length, isort_perm. Qed.
End ISort.

(* ------------------------------------------------------------------ Part B: the key order *)
Lemma Qlt_b_true x y : Qlt_b x y = true <-> (x < y)%Q.
Proof.
  unfold Qlt_b. rewrite negb_true_iff. split; intros H.
  - apply Qnot_le_lt. intros Hle. apply Qle_bool_iff in Hle. congruence.
  - destruct (Qle_bool y x) eqn:E; [|reflexivity]. apply Qle_bool_iff in E. exfalso. eapply Qlt_not_le; eassumption.
Qed.
Lemma Qlt_b_false x y : Qlt_b x y = false <-> (y <= x)%Q.
Proof.
  unfold Qlt_b. rewrite negb_false_iff. apply Qle_bool_iff.
Qed.

Lemma lex_total a : forall b, lex_leb a b = true \/ lex_leb b a = true.
Proof.
  induction a as [|x a IH]; intros [|y b]; cbn [lex_leb]; auto.
  destruct (Qlt_b x y) eqn:E1; [now left|]. destruct (Qlt_b y x) eqn:E2; [now right|]. apply IH.
Qed.
Lemma lex_trans a : forall b c, lex_leb a b = true -> lex_leb b c = true -> lex_leb a c = true.
Proof.
  induction a as [|x a IH]; intros [|y b] [|z c]; cbn [lex_leb]; try congruence.
  destruct (Qlt_b x y) eqn:E1, (Qlt_b y x) eqn:E2, (Qlt_b y z) eqn:E3, (Qlt_b z y) eqn:E4,
           (Qlt_b x z) eqn:E5, (Qlt_b z x) eqn:E6;
    try congruence; intros H1 H2; try reflexivity;
    repeat match goal with
           | H : Qlt_b _ _ = true |- _ => apply Qlt_b_true in H
           | H : Qlt_b _ _ = false |- _ => apply Qlt_b_false in H
           end; try (exfalso; lra).
  eapply IH; eassumption.
Qed.

(* ------------------------------------------------------------------ Part C: the sorter *)
Section Sorter.
  Variable E : Type.
  Variable ph : E -> string.
  Variable pid : E -> Z.
  Variable tid : E -> option Z.
  Variable getk : E -> string -> option Q.

  Notation state := (Sort.state E).
  Notation key_leb := (Sort.key_leb E getk).
  Notation queued := (Sort.queued E ph getk).
  Notation sort_cb := (Sort.sort_cb E ph pid tid getk).
  Notation sort_drain := (Sort.sort_drain E getk).
  Notation sort_stream := (Sort.sort_stream E ph pid tid getk).

  Lemma key_total c a b : key_leb c a b = true \/ key_leb c b a = true.
  Proof. apply lex_total. Qed.
  Lemma key_trans c a b d : key_leb c a b = true -> key_leb c b d = true -> key_leb c a d = true.
  Proof. apply lex_trans. Qed.

  Definition key_le (c : cfg) (a b : E) : Prop := key_leb c a b = true.
  Definition key_eqv (c : cfg) (a b : E) : bool := key_leb c a b && key_leb c b a.

  (* the three facts about one sorted queue *)
  Theorem sort_sorted c l : StronglySorted (key_le c) (isort (key_leb c) l).
  Proof. apply (isort_sorted (key_leb c)); [apply key_total|apply key_trans]. Qed.
  Theorem sort_perm c l : Permutation (isort (key_leb c) l) l.
  Proof. apply isort_perm. Qed.
  Theorem sort_stable c x l : filter (key_eqv c x) (isort (key_leb c) l) = filter (key_eqv c x) l.
  Proof. apply (isort_stable (key_leb c)). apply key_trans. Qed.

  (* drain: the queues in insertion order, each replaced by its sorted, stable permutation; the context is empty after *)
  Theorem sort_drain_blocks c (st : state) :
    fst (sort_drain c st) = [] /\
    exists blocks, snd (sort_drain c st) = List.concat blocks /\
      Forall2 (fun b ql => StronglySorted (key_le c) b /\ Permutation b (snd ql) /\
                           forall x, filter (key_eqv c x) b = filter (key_eqv c x) (snd ql)) blocks st.
  Proof.
    split; [reflexivity|]. exists (map (fun ql => isort (key_leb c) (snd ql)) st). split.
    - unfold Sort.sort_drain. cbn [snd]. now rewrite flat_map_concat_map.
    - induction st as [|ql r IH]; cbn [map]; constructor; [|exact IH].
      split; [apply sort_sorted|]. split; [apply sort_perm|]. intros x. apply sort_stable.
  Qed.
  Theorem sort_drain_perm c (st : state) : Permutation (snd (sort_drain c st)) (flat_map snd st).
  Proof.
    unfold Sort.sort_drain. cbn [snd]. induction st as [|ql r IH]; cbn [flat_map]; [reflexivity|].
    apply Permutation_app; [apply sort_perm|exact IH].
  Qed.
  Lemma enqueue_perm q e (st : state) : Permutation (flat_map snd (Sort.enqueue E q e st)) (flat_map snd st ++ [e]).
  Proof.
    induction st as [|[q' l] r IH]; cbn [Sort.enqueue flat_map snd]; [reflexivity|].
    destruct (qid_eqb q q'); cbn [flat_map snd].
    - rewrite <- !app_assoc. apply Permutation_app_head. apply Permutation_app_comm.
    - rewrite <- app_assoc. now apply Permutation_app_head.
  Qed.
  (* nothing is lost or invented, for every configuration (per lane or global, any filter): what the callbacks
     returned plus what the drain returns is a permutation of the input *)
  Theorem sort_stream_perm c es : Permutation (sort_stream c es) es.
  Proof.
    unfold Sort.sort_stream.
    assert (G : forall st0 : state,
      Permutation (filter (fun e => negb (queued c e)) es ++
                   flat_map snd (fold_left (fun st e => fst (sort_cb c st e)) es st0))
                  (flat_map snd st0 ++ es)).
    { induction es as [|e r IH]; intros st0; cbn [filter fold_left app]; [now rewrite app_nil_r|].
      unfold Sort.sort_cb at 2. destruct (queued c e) eqn:Q; cbn [negb fst].
      - rewrite IH. rewrite enqueue_perm. rewrite <- app_assoc. reflexivity.
      - cbn [app]. rewrite <- Permutation_middle. constructor. apply IH. }
    rewrite (sort_drain_perm c). rewrite (G []). reflexivity.
  Qed.

  (* a GLOBAL sorter keeps one queue: its state is determined by the list of held events *)
  Definition gstate (l : list E) : state := match l with [] => [] | _ => [(QI 1, l)] end.
  Lemma sort_cb_global c l e : c_global c = true ->
    sort_cb c (gstate l) e =
      if queued c e then (gstate (l ++ [e]), []) else (gstate l, [e]).
  Proof.
    intros G. unfold Sort.sort_cb. destruct (queued c e); [|reflexivity].
    unfold queue_hash. rewrite G. destruct l as [|x l]; cbn [gstate Sort.enqueue app qid_eqb]; [reflexivity|].
    rewrite Z.eqb_refl. reflexivity.
  Qed.
  Lemma sort_drain_global c l : sort_drain c (gstate l) = ([], isort (key_leb c) l).
  Proof.
    unfold Sort.sort_drain, Sort.empty. destruct l as [|x l]; cbn [gstate flat_map snd]; [reflexivity|].
    now rewrite app_nil_r.
  Qed.
  Lemma fold_global c : c_global c = true -> forall es l,
    fold_left (fun st e => fst (sort_cb c st e)) es (gstate l) = gstate (l ++ filter (queued c) es).
  Proof.
    intros G. induction es as [|e r IH]; intros l; cbn [fold_left filter]; [now rewrite app_nil_r|].
    rewrite (sort_cb_global c l e G). destruct (queued c e); cbn [fst].
    - rewrite IH. now rewrite <- app_assoc.
    - apply IH.
  Qed.
  (* the stream function of a global sorter: what it does not hold passes at once, in order; then the stable sort *)
  Theorem sort_stream_global c es : c_global c = true ->
    sort_stream c es = filter (fun e => negb (queued c e)) es ++ isort (key_leb c) (filter (queued c) es).
  Proof.
    intros G. unfold Sort.sort_stream. change (Sort.empty E) with (gstate []).
    rewrite (fold_global c G es []). cbn [app]. now rewrite sort_drain_global.
  Qed.

  (* ---------------------------------------------------------------- Part D: as the last stage of a pipeline *)
  Variable St : Type.
  Variable inj : state -> St.
  Variable proj : St -> state.
  Hypothesis proj_inj : forall s, proj (inj s) = s.
  Notation sort_stage := (Sort.sort_stage E ph pid tid getk St inj proj).

  Lemma feedc_global c n : c_global c = true -> forall es s l, proj s = gstate l ->
    proj (fst (feedc (sort_stage c n) s es)) = gstate (l ++ filter (queued c) es) /\
    snd (feedc (sort_stage c n) s es) = filter (fun e => negb (queued c e)) es.
  Proof.
    intros G. induction es as [|e r IH]; intros s l Hs; cbn [feedc filter].
    - cbn [fst snd]. now rewrite app_nil_r.
    - cbn [cb Sort.sort_stage]. rewrite Hs, (sort_cb_global c l e G).
      destruct (queued c e) eqn:Q; cbn [negb].
      + destruct (IH (inj (gstate (l ++ [e]))) (l ++ [e]) (proj_inj _)) as [I1 I2].
        destruct (feedc (sort_stage c n) (inj (gstate (l ++ [e]))) r) as [s2 o2]. cbn [fst snd app] in *.
        split; [now rewrite I1, <- app_assoc|exact I2].
      + destruct (IH (inj (gstate l)) l (proj_inj _)) as [I1 I2].
        destruct (feedc (sort_stage c n) (inj (gstate l)) r) as [s2 o2]. cbn [fst snd app] in *.
        split; [exact I1|now rewrite I2].
  Qed.
  Theorem streamc_global c n s es : c_global c = true -> proj s = [] ->
    streamc (sort_stage c n) s es =
      filter (fun e => negb (queued c e)) es ++ isort (key_leb c) (filter (queued c) es).
  Proof.
    intros G Hs. unfold streamc. destruct (feedc_global c n G es s [] Hs) as [I1 I2].
    destruct (feedc (sort_stage c n) s es) as [s1 o]. cbn [fst snd app] in *. subst o.
    cbn [dr Sort.sort_stage]. rewrite I1, sort_drain_global. reflexivity.
  Qed.

  Lemma compose_app (a b : list (stage E St)) st es : compose (a ++ b) st es = compose b st (compose a st es).
  Proof.
    revert es. induction a as [|g r IH]; intros es; cbn [app compose]; [reflexivity|].
    destruct (bar g); apply IH.
  Qed.

  Variable BC : nat.
  Variable happ : St -> E -> St.
  Variable hlist : St -> list E.
  Variable hempty : St.
  Hypothesis hlist_app : forall s e, hlist (happ s e) = hlist s ++ [e].
  Hypothesis hlist_empty : hlist hempty = [].

  (* THE pipeline statement: whatever the stages before it do (any callbacks, any drains that emit late, any number
     of barriers), a pipeline whose LAST stage is a global sorter exports: the events the sorter does not hold, in
     arrival order, followed by the stable sort of everything else that ever reached it. *)
  Theorem last_stage_sorts (pre : list (stage E St)) c n (st : store St) (es : list E) :
    c_global c = true ->
    wf BC happ hlist hempty (pre ++ [sort_stage c n]) -> ~ In BC (pcids (pre ++ [sort_stage c n])) ->
    hlist (st BC) = [] -> proj (st n) = [] ->
    run (pre ++ [sort_stage c n]) st es =
      filter (fun e => negb (queued c e)) (compose pre st es) ++
      isort (key_leb c) (filter (queued c) (compose pre st es)).
  Proof.
    intros G W HB H0 Hn.
    rewrite (stream_compose hlist_app hlist_empty W HB st es H0).
    rewrite compose_app. cbn [compose bar Sort.sort_stage cid]. now apply streamc_global.
  Qed.

  (* ---------------------------------------------------------------- Part E (generic half): the key "ts,dur:r" *)
  Definition ts0 (e : E) : Q := match getk e "ts" with Some v => v | None => 0%Q end.
  Definition dur0 (e : E) : Q := match getk e "dur" with Some v => v | None => 0%Q end.
  (* the order of the property: earlier first; on equal ts the longer first, a missing dur counting as 0 (= last) *)
  Definition ord (d : E -> Q) (a b : E) : Prop := (ts0 a < ts0 b)%Q \/ (ts0 a == ts0 b /\ d b <= d a)%Q.

  Definition cfg_ts_dur_r (c : cfg) : Prop := c_key c = [("ts"%string, 1); ("dur"%string, -1)].
  Lemma key_leb_ts_dur_r c a b : cfg_ts_dur_r c -> (key_leb c a b = true <-> ord dur0 a b).
  Proof.
    intros Hc. unfold Sort.key_leb, Sort.keyvec, ord. rewrite Hc. cbn [map fst snd lex_leb].
    fold (ts0 a) (ts0 b) (dur0 a) (dur0 b).
    change (inject_Z 1) with 1%Q. change (inject_Z (-1)) with (-1 # 1)%Q.
    destruct (Qlt_b (1 * ts0 a) (1 * ts0 b)) eqn:E1; [apply Qlt_b_true in E1; split; [intros _; left; lra|reflexivity]|].
    apply Qlt_b_false in E1.
    destruct (Qlt_b (1 * ts0 b) (1 * ts0 a)) eqn:E2.
    { apply Qlt_b_true in E2. split; [discriminate|]. intros [H|[H _]]; exfalso; lra. }
    apply Qlt_b_false in E2.
    destruct (Qlt_b ((-1 # 1) * dur0 a) ((-1 # 1) * dur0 b)) eqn:E3.
    { apply Qlt_b_true in E3. split; [intros _; right; split; lra|reflexivity]. }
    apply Qlt_b_false in E3.
    destruct (Qlt_b ((-1 # 1) * dur0 b) ((-1 # 1) * dur0 a)) eqn:E4.
    { apply Qlt_b_true in E4. split; [discriminate|]. intros [H|[_ H]]; exfalso; lra. }
    apply Qlt_b_false in E4. split; [intros _; right; split; lra|reflexivity].
  Qed.

  Lemma sorted_impl (R1 R2 : E -> E -> Prop) l :
    (forall a b, In a l -> In b l -> R1 a b -> R2 a b) -> StronglySorted R1 l -> StronglySorted R2 l.
  Proof.
    intros H S. induction S as [|x r S IH Hall]; constructor.
    - apply IH. intros a b Ha Hb. apply H; now right.
    - apply Forall_forall. intros y Hy. rewrite Forall_forall in Hall.
      apply H; [now left|now right|now apply Hall].
  Qed.

  (* C08 for a pipeline: the last stage is the global sorter with key (ts, -dur) and no type filter; every event that
     reaches it has a ts.  Then the export is the stable sort, hence ordered; [xdur] is the duration the EXPORTED
     event shows, which must agree with the dur field the sorter saw. *)
  Theorem pipeline_sorted (pre : list (stage E St)) c n (st : store St) (es : list E) (xdur : E -> Q) :
    c_global c = true -> c_types c = None -> cfg_ts_dur_r c ->
    wf BC happ hlist hempty (pre ++ [sort_stage c n]) -> ~ In BC (pcids (pre ++ [sort_stage c n])) ->
    hlist (st BC) = [] -> proj (st n) = [] ->
    (forall e, In e (compose pre st es) -> getk e "ts" <> None) ->
    (forall e, In e (compose pre st es) -> dur0 e == xdur e) ->
    let out := run (pre ++ [sort_stage c n]) st es in
    out = isort (key_leb c) (compose pre st es) /\
    Permutation out (compose pre st es) /\
    StronglySorted (ord xdur) out /\
    (forall x, filter (key_eqv c x) out = filter (key_eqv c x) (compose pre st es)).
  Proof.
    intros G T K W HB H0 Hn Hts Hd out. subst out.
    rewrite (last_stage_sorts pre c n st es G W HB H0 Hn).
    set (s := compose pre st es) in *.
    assert (Hq : forall e, In e s -> queued c e = true).
    { intros e He. unfold Sort.queued, Sort.filtered_out, Sort.check_keys, Sort.has_key. rewrite T, K. cbn [negb andb].
      specialize (Hts e He). destruct (getk e "ts"); [reflexivity|congruence]. }
    assert (F1 : filter (fun e => negb (queued c e)) s = []).
    { clear -Hq. induction s as [|x r IH]; [reflexivity|]. cbn [filter]. rewrite (Hq x) by now left. cbn [negb].
      apply IH. intros e He. apply Hq. now right. }
    assert (F2 : filter (queued c) s = s).
    { clear -Hq. induction s as [|x r IH]; [reflexivity|]. cbn [filter]. rewrite (Hq x) by now left.
      f_equal. apply IH. intros e He. apply Hq. now right. }
    rewrite F1, F2. cbn [app]. split; [reflexivity|]. split; [apply sort_perm|]. split; [|intros x; apply sort_stable].
    eapply sorted_impl; [|apply sort_sorted].
    intros a b Ha Hb Hab. apply (key_leb_ts_dur_r c a b K) in Hab.
    assert (Ia : In a s) by (eapply Permutation_in; [apply sort_perm|exact Ha]).
    assert (Ib : In b s) by (eapply Permutation_in; [apply sort_perm|exact Hb]).
    pose proof (Hd a Ia) as Da. pose proof (Hd b Ib) as Db.
    destruct Hab as [H|[H1 H2]]; [now left|right]. split; [exact H1|]. rewrite <- Da, <- Db. exact H2.
  Qed.
End Sorter.

(* ------------------------------------------------------------------ Part E: the generated registration program *)
Lemma final_cfg_is : final_cfg = {| c_types := None; c_key := [("ts"%string, 1); ("dur"%string, -1)]; c_global := true |}.
Proof. vm_compute. reflexivity. Qed.
(* the constructor text of the last registration reads as that configuration, whatever TS_CYCLE_KEY is *)
Lemma last_sorter_is_final tscyc : last_sorter tscyc = Some final_cfg.
Proof. vm_compute. reflexivity. Qed.
Lemma final_ctor_reads tscyc : cfg_of_ctor tscyc final_sort_ctor = Some final_cfg.
Proof. vm_compute. reflexivity. Qed.

Lemma keep_snoc {A} (l : list A) : forall fl x, List.length l = List.length fl ->
  keep (l ++ [x]) (fl ++ [true]) = keep l fl ++ [x].
Proof.
  induction l as [|a l IH]; intros [|b fl] x H; try discriminate; [reflexivity|].
  cbn [app keep]. injection H as H. destruct b; cbn [app]; now rewrite IH.
Qed.
Lemma selflags_snoc P1 : forall M1 n f, List.length P1 = List.length M1 ->
  selflags (P1 ++ [(n, f)]) (M1 ++ [true]) = selflags P1 M1 ++ [f].
Proof.
  induction P1 as [|[n' f'] P1 IH]; intros [|b M1] n f H; try discriminate; [reflexivity|].
  cbn [app selflags]. injection H as H. destruct b; cbn [app]; now rewrite IH.
Qed.
Lemma mask_app v a b : mask v (a ++ b) = mask v a ++ mask v b.
Proof. unfold mask. apply map_app. Qed.
Lemma calls_app v a b : calls v (a ++ b) = calls v a ++ calls v b.
Proof. unfold calls. now rewrite filter_app, map_app. Qed.

(* forward matching keeps the last registration whenever the profile's last entry is enabled *)
Theorem registered_keeps_last v (pre : program) (r : reg) (P1 : prof) (n : string) :
  sep_static (pre ++ [r]) = true -> r_guard r = GTrue -> map fst P1 = names pre -> n = r_name r ->
  registered (P1 ++ [(n, true)]) (calls v (pre ++ [r])) =
    keep (calls v pre) (selflags P1 (mask v pre)) ++ [r_name r].
Proof.
  intros Hs Hg Hn ->.
  rewrite registered_any_profile; [|exact Hs|].
  2:{ rewrite map_app. unfold names. rewrite map_app. cbn [map fst]. f_equal. exact Hn. }
  rewrite calls_app, mask_app. unfold calls at 2, mask at 2. cbn [filter map]. rewrite Hg. cbn [geval map].
  assert (HL : List.length P1 = List.length (mask v pre)).
  { unfold mask. rewrite map_length. rewrite <- (map_length fst P1), Hn. unfold names. apply map_length. }
  rewrite selflags_snoc by exact HL.
  apply keep_snoc. rewrite selflags_length. rewrite (sel_calls v pre P1 Hn). reflexivity.
Qed.

Theorem ingested_profile_keeps_final_sort v pd P :
  from_json pd everything = Some P -> snd (last P (EmptyString, false)) = true ->
  exists pre', registered P (calls v the_program) = pre' ++ ["sort_events"%string].
Proof.
  intros Hj Hl.
  assert (Hn : map fst P = names the_program).
  { rewrite <- names_aligned. destruct pd as [l|]; cbn [from_json] in Hj; eapply ingest_names; exact Hj. }
  destruct last_is_final_sort as (pre & r & Hp & Hg & Hr & _).
  assert (HP : P <> []).
  { intros ->. rewrite Hp in Hn. unfold names in Hn. rewrite map_app in Hn. cbn [map] in Hn.
    destruct (map r_name pre); discriminate. }
  destruct (exists_last HP) as (P1 & [n f] & ->).
  rewrite last_last in Hl. cbn [snd] in Hl. subst f.
  rewrite Hp in Hn. unfold names in Hn. rewrite !map_app in Hn. cbn [map fst] in Hn.
  apply app_inj_tail in Hn. destruct Hn as [Hn1 Hn2].
  exists (keep (calls v pre) (selflags P1 (mask v pre))). rewrite Hp, <- Hr.
  apply registered_keeps_last; [rewrite <- Hp; exact program_sep|exact Hg|exact Hn1|exact Hn2].
Qed.

Lemma torch_minimal_last_enabled : snd (last torch_minimal (EmptyString, false)) = true.
Proof. vm_compute. reflexivity. Qed.
Lemma everything_last_enabled : snd (last everything (EmptyString, false)) = true.
Proof. vm_compute. reflexivity. Qed.

(* For EVERY valuation of the option guards: the program's last call is sort_events, constructed as the global
   (ts, -dur) sorter; the shipped default profile (= everything) and torch_minimal (--tb) keep it as the last stage. *)
Theorem registration_ends_with_final_sort (v : nat -> bool) :
  (exists pre, calls v the_program = pre ++ ["sort_events"%string]) /\
  (exists pre r, the_program = pre ++ [r] /\ r_guard r = GTrue /\ r_name r = "sort_events"%string /\
                 forall tscyc, cfg_of_ctor tscyc (r_ctor r) = Some final_cfg) /\
  (forall P, from_json profile_default everything = Some P ->
     exists pre', registered P (calls v the_program) = pre' ++ ["sort_events"%string]) /\
  (exists pre', registered torch_minimal (calls v the_program) = pre' ++ ["sort_events"%string]).
Proof.
  split; [apply calls_last_is_sort|]. split.
  - destruct last_is_final_sort as (pre & r & Hp & Hg & Hn & Hc & _). exists pre, r.
    repeat split; try assumption. intros tscyc. rewrite Hc. apply final_ctor_reads.
  - split.
    + intros P HP. rewrite (default_registers_all v P HP). apply calls_last_is_sort.
    + apply (ingested_profile_keeps_final_sort v profile_torch_minimal torch_minimal);
        [exact torch_minimal_ingested|exact torch_minimal_last_enabled].
Qed.

(* ------------------------------------------------------------------ C08 for the configuration the program registers *)
Section Final.
  Variable E : Type.
  Variable ph : E -> string.
  Variable pid : E -> Z.
  Variable tid : E -> option Z.
  Variable getk : E -> string -> option Q.
  Variable St : Type.
  Variable inj : Sort.state E -> St.
  Variable proj : St -> Sort.state E.
  Hypothesis proj_inj : forall s, proj (inj s) = s.
  Variable BC : nat.
  Variable happ : St -> E -> St.
  Variable hlist : St -> list E.
  Variable hempty : St.
  Hypothesis hlist_app : forall s e, hlist (happ s e) = hlist s ++ [e].
  Hypothesis hlist_empty : hlist hempty = [].
  Notation final_stage := (Sort.sort_stage E ph pid tid getk St inj proj final_cfg).

  Theorem final_pipeline_sorted (pre : list (stage E St)) n (st : store St) (es : list E) (xdur : E -> Q) :
    wf BC happ hlist hempty (pre ++ [final_stage n]) -> ~ In BC (pcids (pre ++ [final_stage n])) ->
    hlist (st BC) = [] -> proj (st n) = [] ->
    (forall e, In e (compose pre st es) -> getk e "ts" <> None) ->
    (forall e, In e (compose pre st es) -> dur0 E getk e == xdur e) ->
    let out := run (pre ++ [final_stage n]) st es in
    out = isort (Sort.key_leb E getk final_cfg) (compose pre st es) /\
    Permutation out (compose pre st es) /\
    StronglySorted (ord E getk xdur) out /\
    (forall x, filter (key_eqv E getk final_cfg x) out = filter (key_eqv E getk final_cfg x) (compose pre st es)).
  Proof.
    apply (pipeline_sorted E ph pid tid getk St inj proj proj_inj BC happ hlist hempty hlist_app hlist_empty);
      rewrite final_cfg_is; reflexivity.
  Qed.

  Theorem final_pipeline_stream (pre : list (stage E St)) n (st : store St) (es : list E) :
    wf BC happ hlist hempty (pre ++ [final_stage n]) -> ~ In BC (pcids (pre ++ [final_stage n])) ->
    hlist (st BC) = [] -> proj (st n) = [] ->
    run (pre ++ [final_stage n]) st es =
      filter (fun e => negb (Sort.has_key E getk e "ts")) (compose pre st es) ++
      isort (Sort.key_leb E getk final_cfg) (filter (fun e => Sort.has_key E getk e "ts") (compose pre st es)).
  Proof.
    intros W HB H0 Hn.
    rewrite (last_stage_sorts E ph pid tid getk St inj proj proj_inj BC happ hlist hempty hlist_app hlist_empty
               pre final_cfg n st es); [|rewrite final_cfg_is; reflexivity|exact W|exact HB|exact H0|exact Hn].
    assert (Q : forall e, Sort.queued E ph getk final_cfg e = Sort.has_key E getk e "ts").
    { intros e. unfold Sort.queued, Sort.filtered_out, Sort.check_keys. rewrite final_cfg_is. reflexivity. }
    rewrite (filter_ext _ (fun e => negb (Sort.has_key E getk e "ts"))) by (intros e; now rewrite Q).
    rewrite (filter_ext (Sort.queued E ph getk final_cfg) (fun e => Sort.has_key E getk e "ts")) by exact Q.
    reflexivity.
  Qed.
End Final.

(* ------------------------------------------------------------------ per-lane mode: what each queue holds *)
Lemma qid_eqb_eq a b : qid_eqb a b = true <-> a = b.
Proof.
  destruct a as [x|p t], b as [y|p' t']; cbn [qid_eqb]; split; intros H; try discriminate.
  - apply Z.eqb_eq in H. now subst.
  - injection H as ->. apply Z.eqb_refl.
  - apply andb_prop in H. destruct H as [H1 H2]. apply Z.eqb_eq in H1, H2. now subst.
  - injection H as -> ->. now rewrite !Z.eqb_refl.
Qed.

Section Lanes.
  Variable E : Type.
  Variable ph : E -> string.
  Variable pid : E -> Z.
  Variable tid : E -> option Z.
  Variable getk : E -> string -> option Q.
  Notation state := (Sort.state E).
  Notation enqueue := (Sort.enqueue E).

  (* the queue an event is put into by sort() *)
  Definition qof (c : cfg) (e : E) : qid := queue_hash c (pid e) (Sort.lane_tid E tid e).
  Fixpoint getq (q : qid) (st : state) : list E :=
    match st with [] => [] | (q', l) :: r => if qid_eqb q q' then l else getq q r end.

  Lemma getq_enqueue q q' e (st : state) :
    getq q (enqueue q' e st) = if qid_eqb q q' then getq q st ++ [e] else getq q st.
  Proof.
    induction st as [|[q0 l] r IH]; cbn [Sort.enqueue getq].
    - destruct (qid_eqb q q'); reflexivity.
    - destruct (qid_eqb q' q0) eqn:E0; cbn [getq].
      + apply qid_eqb_eq in E0. subst q0. destruct (qid_eqb q q'); reflexivity.
      + destruct (qid_eqb q q0) eqn:E1; [|exact IH].
        destruct (qid_eqb q q') eqn:E2; [|reflexivity].
        apply qid_eqb_eq in E1, E2. subst. assert (H : qid_eqb q0 q0 = true) by now apply qid_eqb_eq. congruence.
  Qed.
  Lemma keys_enqueue q e (st : state) :
    map fst (enqueue q e st) = if existsb (qid_eqb q) (map fst st) then map fst st else map fst st ++ [q].
  Proof.
    induction st as [|[q0 l] r IH]; cbn [Sort.enqueue map fst existsb]; [reflexivity|].
    destruct (qid_eqb q q0); cbn [map fst orb]; [reflexivity|]. rewrite IH.
    destruct (existsb (qid_eqb q) (map fst r)); reflexivity.
  Qed.
  Lemma nodup_enqueue q e (st : state) : NoDup (map fst st) -> NoDup (map fst (enqueue q e st)).
  Proof.
    intros H. rewrite keys_enqueue. destruct (existsb (qid_eqb q) (map fst st)) eqn:Ex; [exact H|].
    eapply Permutation_NoDup; [apply Permutation_cons_append|]. constructor; [|exact H].
    intros Hin. assert (Ht : existsb (qid_eqb q) (map fst st) = true); [|congruence].
    apply existsb_exists. exists q. split; [exact Hin|now apply qid_eqb_eq].
  Qed.
  Lemma getq_in q l (st : state) : NoDup (map fst st) -> In (q, l) st -> getq q st = l.
  Proof.
    induction st as [|[q0 l0] r IH]; intros Hn Hin; [destruct Hin|]. cbn [map fst] in Hn. inversion Hn as [|? ? Hnot Hn']; subst.
    cbn [getq]. destruct Hin as [Heq|Hin].
    - injection Heq as -> ->. assert (H : qid_eqb q q = true) by now apply qid_eqb_eq. now rewrite H.
    - destruct (qid_eqb q q0) eqn:E0; [|now apply IH].
      apply qid_eqb_eq in E0. subst q0. exfalso. apply Hnot. apply in_map_iff. exists (q, l). split; [reflexivity|exact Hin].
  Qed.

  Notation sort_cb := (Sort.sort_cb E ph pid tid getk).
  Notation queued := (Sort.queued E ph getk).
  Definition feed_state (c : cfg) (es : list E) (st0 : state) : state :=
    fold_left (fun st e => fst (sort_cb c st e)) es st0.

  Lemma feed_state_inv c : forall es (st0 : state), NoDup (map fst st0) ->
    NoDup (map fst (feed_state c es st0)) /\ forall q, getq q (feed_state c es st0) =
              getq q st0 ++ filter (fun e => qid_eqb q (qof c e)) (filter (queued c) es).
  Proof.
    induction es as [|e r IH]; intros st0 Hn; cbn [feed_state fold_left filter].
    - split; [exact Hn|]. intros q. now rewrite app_nil_r.
    - unfold Sort.sort_cb at 2 4. destruct (queued c e) eqn:Q; cbn [fst].
      + fold (qof c e). destruct (IH (enqueue (qof c e) e st0) (nodup_enqueue _ _ _ Hn)) as [I1 I2].
        split; [exact I1|]. intros q. unfold feed_state in I2. rewrite I2, getq_enqueue. cbn [filter].
        destruct (qid_eqb q (qof c e)); [now rewrite <- app_assoc|reflexivity].
      + apply IH. exact Hn.
  Qed.

  Lemma flat_map_ext_in {A B} (f g : A -> list B) l : (forall a, In a l -> f a = g a) -> flat_map f l = flat_map g l.
  Proof.
    induction l as [|a r IH]; intros H; cbn [flat_map]; [reflexivity|].
    rewrite (H a) by now left. f_equal. apply IH. intros x Hx. apply H. now right.
  Qed.

  (* EventSortingContext in any mode: after a stream [es] the context holds one queue per queue id, ids in order of
     first appearance, each queue = the held events of that id in arrival order; the drain is the concatenation of
     their stable sorts *)
  Theorem sort_stream_lanes c es :
    let st := feed_state c es [] in
    NoDup (map fst st) /\ Sort.sort_stream E ph pid tid getk c es =
      filter (fun e => negb (queued c e)) es ++
      flat_map (fun q => isort (Sort.key_leb E getk c)
                           (filter (fun e => qid_eqb q (qof c e)) (filter (queued c) es))) (map fst st).
  Proof.
    intros st. destruct (feed_state_inv c es [] (NoDup_nil _)) as [I1 I2]. fold st in I1, I2.
    split; [exact I1|]. unfold Sort.sort_stream. f_equal. unfold Sort.sort_drain. cbn [snd].
    change (fold_left (fun st e => fst (sort_cb c st e)) es (Sort.empty E)) with st.
    rewrite (flat_map_concat_map _ (map fst st)), map_map, <- flat_map_concat_map.
    apply flat_map_ext_in. intros [q l] Hin. cbn [fst snd].
    rewrite <- (getq_in q l st I1 Hin), I2. reflexivity.
  Qed.
End Lanes.
