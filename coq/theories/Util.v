(* Util.v — executable model of the PT-utilization ("rcu_util") kernel for property C11.

   Modelled code (src/aiu_trace_analyzer/pipeline):
     rcu_utilization.py
       RCUTableParseMode.get_phase / update
       RCUUtilizationContext._process_table_line   (the state machine over classified lines:
                                                    autopilot / clock-scaling / phase / start / end / data row;
                                                    the regular expressions that CLASSIFY a text line are not
                                                    modelled: the generator of the tie emits text and, beside it,
                                                    the classification [item] — a wrong regex shows up as a
                                                    different parsed table)
       RCUUtilizationContext._handle_category, _add_kernel, _start_init_table, _finish_add_table
       RCUTableFingerprint.add (only totaltime)
       RCUUtilizationContext.get_cycles, set_categories_for_pid, accumulate_categories,
                             _compute_row_stats, print_table_as_pd (rows, stable sort by Pid, Phase, Kernel_Time)
       MultiRCUUtilizationContext.extract_kernel_from_event_name, get_ideal_dur, make_utilization_event,
                             drain / update_fprint_matches (with one table: every job is mapped to it)
       compute_utilization_fingerprints (which events create a job fingerprint), compute_utilization
     stats.py
       calculate_stats: the 'PT Active' counter rule (helper counter with "dur": dropped when its value is
       (close to) zero, otherwise "dur" popped) and the assertion dur > 0 on 'Cmpt Exec' slices; without
       that stage (-t, stats_enabled = False, fix dbd55f3) make_utilization_event itself leaves out the
       helper "dur" and the zero-valued counter
     tools.py
       PipelineContextTool.is_acc_event / is_acc_kernel for the FLEX dialect (has args.TS1, name ends in
       'Cmpt Exec')

   Not modelled (outside C11's domain, DESIGN 4/C11 "Limits"): fingerprint hashing and the similarity
   heuristics that choose among SEVERAL tables; logs with zero or more than one finished table give
   [Err "not_single_table"].  Numbers: times/frequencies in Q (exact), cycles/calls/pids in Z. *)
From Coq Require Import ZArith QArith Qabs Qround List Bool String Ascii.
Import ListNotations.
From AiuModel Require Import Base.
Local Open Scope Z_scope.
Local Open Scope string_scope.
Local Open Scope list_scope.

(* ------------------------------------------------------------------ strings *)

Definition ends_with (s suf : string) : bool :=
  let n := String.length s in
  let m := String.length suf in
  if (m <=? n)%nat then String.eqb (substring (n - m) m s) suf else false.

(* first position of [pat] in [s] (Python str.find); [pat] is never empty here *)
Definition find_sub (pat s : string) : option nat := index 0 pat s.
Definition contains (pat s : string) : bool :=
  match find_sub pat s with Some _ => true | None => false end.

(* re.sub(pat_literal, rep, s, count=1) for a literal pattern *)
Definition replace_first (s pat rep : string) : string :=
  match find_sub pat s with
  | Some i => (substring 0 i s ++ rep ++
               substring (i + String.length pat) (String.length s - i - String.length pat) s)%string
  | None => s
  end.

Definition CE : string := "Cmpt Exec".

(* ------------------------------------------------------------------ association lists (Python dicts, insertion order) *)
Fixpoint alookup {V : Type} (k : string) (l : list (string * V)) : option V :=
  match l with
  | [] => None
  | (k', v) :: r => if String.eqb k k' then Some v else alookup k r
  end.
Definition amem {V : Type} (k : string) (l : list (string * V)) : bool :=
  match alookup k l with Some _ => true | None => false end.
(* d[k] = f(d[k]) for an existing key: position kept *)
Fixpoint aupdate {V : Type} (k : string) (f : V -> V) (l : list (string * V)) : list (string * V) :=
  match l with
  | [] => []
  | (k', v) :: r => if String.eqb k k' then (k', f v) :: r else (k', v) :: aupdate k f r
  end.

(* ------------------------------------------------------------------ the compiler log *)
(* one classified line of the log *)
Inductive item : Type :=
| IStart                       (* ' Ideal/Total Cycles '            *)
| IEnd                         (* '====== Perf Summary End ======'  *)
| IAuto                        (* 'DSM-AutoPilot BEGIN': stop reading *)
| IClock                       (* 'Ideal Clock Scaling:': warning only *)
| IJunk                        (* anything that is not a data row   *)
| IPhase (prefill : bool)      (* '  PREFILL  ' / '  DECODING  '    *)
| IRow (base : string) (pieces : list string) (cyc : Z).
   (* data row  <name> <cycles>;  _category_splitter.split(name) = base :: pieces,
      pieces = ["-opCat"; text; ...] or [...; "-NA"; ""] *)

Record tbl : Type := mkTbl {
  t_cycles : list (string * Z);        (* kernel_cycles[fp]: only non-zero entries *)
  t_cats : list (string * string);     (* kernel_cat_map[fp], starts with other -> other *)
  t_sum : Z;                           (* fingerprint totaltime * core_freq = sum of all listed cycles *)
  t_phase : string }.

Definition empty_tbl (phase : string) : tbl := mkTbl [] [("other", "other")] 0 phase.

(* _handle_category on kernel_and_cat *)
Definition handle_category (kc : list string) : string :=
  match kc with
  | _ :: sep :: rest => if String.eqb sep "-opCat" then last rest sep else "NotAvailable"
  | _ => "Total"
  end.

Definition add_kernel (t : tbl) (base : string) (pieces : list string) (cyc : Z) : tbl :=
  let cat := handle_category (base :: pieces) in
  let k := (base ++ " Cmpt Exec")%string in
  mkTbl (if amem k (t_cycles t) then t_cycles t
         else if (cyc =? 0)%Z then t_cycles t else t_cycles t ++ [(k, cyc)])
        (if amem k (t_cats t) then t_cats t else t_cats t ++ [(k, cat)])
        (t_sum t + cyc)
        (t_phase t).

(* _ignore_pattern is searched in the whole line; the name is the only place it can occur *)
Definition row_ignored (base : string) (pieces : list string) : bool :=
  let nm := String.concat "" (base :: pieces) in
  contains "Precompute" nm || contains "-LxPreload" nm.

Record pst : Type := mkPst {
  p_active : bool; p_unknown : bool; p_prefill : bool;
  p_cur : tbl; p_done : list tbl; p_stop : bool }.

Definition phase_of (unknown prefill : bool) : string :=
  if unknown then "UNKN" else if prefill then "TTFT" else "ITL".

Definition pst0 : pst := mkPst false true false (empty_tbl "UNKN") [] false.

Definition pstep (s : pst) (i : item) : pst :=
  if p_stop s then s else
  match i with
  | IAuto => mkPst (p_active s) (p_unknown s) (p_prefill s) (p_cur s) (p_done s) true
  | IClock => s
  | IJunk => s
  | IPhase pre => mkPst (p_active s) false pre (p_cur s) (p_done s) false
  | IStart => mkPst true (p_unknown s) (p_prefill s)
                    (empty_tbl (phase_of (p_unknown s) (p_prefill s))) (p_done s) false
  | IEnd => if p_active s
            then mkPst false (p_unknown s) (p_prefill s) (p_cur s) (p_done s ++ [p_cur s]) false
            else s
  | IRow base pieces cyc =>
      if p_active s && negb (row_ignored base pieces) && negb (String.eqb base "Total")
      then mkPst true (p_unknown s) (p_prefill s) (add_kernel (p_cur s) base pieces cyc) (p_done s) false
      else s
  end.

Definition parse_log (its : list item) : list tbl := p_done (fold_left pstep its pst0).

(* ------------------------------------------------------------------ events *)
Record uev : Type := mkUev {
  u_ph : string;             (* "X", "C", "M", ... *)
  u_name : string;
  u_pid : Z;
  u_ts : Q;
  u_dur : Q;
  u_acc : bool;              (* has args.TS1 (FLEX acc_event_cat) *)
  u_cat : option string;     (* a "cat" key that is already present *)
  u_fnidx : option string;   (* str(args.fn_idx) *)
  u_job : Z }.               (* args.jobhash *)

Definition is_kernel (e : uev) : bool :=
  String.eqb (u_ph e) "X" && u_acc e && ends_with (u_name e) CE.

(* extract_kernel_from_event_name *)
Definition kernel_name (e : uev) : string :=
  let r := match u_fnidx e with
           | Some f => if contains "[N]" (u_name e) then replace_first (u_name e) "[N]" f else u_name e
           | None => u_name e
           end in
  if ends_with r CE then r else (r ++ " Cmpt Exec")%string.

Local Open Scope Q_scope.

(* the double 1e-9 used by every math.isclose(x, 0.0, abs_tol=1e-9) *)
Definition tol9 : Q := (4835703278458517 # 4835703278458516698824704).   (* / 2^82 *)
Definition near0 (x : Q) : bool := Qle_bool (Qabs x) tol9.

Definition get_cycles (t : tbl) (k : string) : Z :=
  match alookup k (t_cycles t) with Some c => c | None => 0%Z end.

Definition ideal_dur (core : Q) (cyc : Z) : Q := inject_Z cyc * (1 / core).

(* utilization as compute_utilization computes it (after the clamp) *)
Definition util (ideal dur : Q) : Q :=
  let u := if near0 dur then 0 else Qabs (ideal / dur) in
  if Qlt_b 1 u then 1 else u.

(* ------------------------------------------------------------------ category tables *)
Definition triple : Type := (Q * Q * Z)%type.          (* (kernel time, ideal time, calls) *)
Definition tzero : triple := (0, 0, 0%Z).
Definition tadd (d i : Q) (x : triple) : triple :=
  let '(a, b, n) := x in (a + d, b + i, (n + 1)%Z).

Definition cattab : Type := list (string * triple).
Definition cats : Type := list (Z * cattab).            (* keyed by pid, in order of first kernel *)

(* d[k] = zero for every k in ks, on a dict: existing keys keep their place *)
Fixpoint add_keys (ks : list string) (d : cattab) : cattab :=
  match ks with
  | [] => d
  | k :: r => add_keys r (if amem k d then aupdate k (fun _ => tzero) d else d ++ [(k, tzero)])
  end.

Definition new_cattab (t : tbl) : cattab :=
  add_keys (map snd (t_cats t)) [("Total", tzero); ("StcdpHbm", tzero)].

(* the category a kernel name is accounted under *)
Definition cat_of (t : tbl) (k : string) : string :=
  match alookup k (t_cats t) with
  | Some c => c
  | None => match alookup "other" (t_cats t) with Some c => c | None => "other" end
  end.   (* "other" -> "other" is always the first entry of the map *)

Definition acc_tab (t : tbl) (k : string) (ideal dur : Q) (d : cattab) : cattab :=
  aupdate "Total" (tadd dur ideal) (aupdate (cat_of t k) (tadd dur ideal) d).
Fixpoint zlookup {V : Type} (p : Z) (l : list (Z * V)) : option V :=
  match l with
  | [] => None
  | (p', v) :: r => if (p =? p')%Z then Some v else zlookup p r
  end.
Fixpoint zupdate {V : Type} (p : Z) (f : V -> V) (l : list (Z * V)) : list (Z * V) :=
  match l with
  | [] => []
  | (p', v) :: r => if (p =? p')%Z then (p', f v) :: r else (p', v) :: zupdate p f r
  end.

(* accumulate_categories (with set_categories_for_pid) *)
Definition accumulate (t : tbl) (st : cats) (pid : Z) (k : string) (ideal dur : Q) : cats :=
  let st1 := match zlookup pid st with Some _ => st | None => st ++ [(pid, new_cattab t)] end in
  zupdate pid (acc_tab t k ideal dur) st1.

(* ------------------------------------------------------------------ output events *)
Inductive oev : Type :=
| OPass (e : uev)                                    (* returned unchanged *)
| OKern (e : uev) (pt : option Q) (cat : string)     (* kernel slice: args.pt_active / "core used" iff Some;
                                                        cat goes to event.cat, or args.user_cat if cat was present *)
| OCnt (pid : Z) (ts : Q) (v : Q) (dur : option Q).  (* 'PT Active' counter, args.Percent = v; helper "dur" *)

(* make_utilization_event.  [stats] = MultiRCUUtilizationContext.stats_enabled (= not -t): the helper "dur"
   and the zero-valued helper counter are produced only for calculate_stats, which consumes them *)
Definition counters (stats : bool) (e : uev) (v : Q) : list oev :=
  if stats then
    OCnt (u_pid e) (u_ts e) v (Some (u_dur e)) ::
    (if Qlt_b 0 v then [OCnt (u_pid e) (u_ts e + u_dur e) 0 None] else [])
  else if Qlt_b 0 v then [OCnt (u_pid e) (u_ts e) v None; OCnt (u_pid e) (u_ts e + u_dur e) 0 None]
  else [].

(* compute_utilization on one event *)
Definition step2 (stats : bool) (core : Q) (t : tbl) (st : cats) (e : uev) : cats * list oev :=
  if is_kernel e then
    let k := kernel_name e in
    let ideal := ideal_dur core (get_cycles t k) in
    let u := util ideal (u_dur e) in
    (accumulate t st (u_pid e) k ideal (u_dur e),
     OKern e (if Qlt_b 0 u then Some u else None) (cat_of t k) :: counters stats e (u * 100))
  else (st, [OPass e]).

Fixpoint phase2 (stats : bool) (core : Q) (t : tbl) (st : cats) (es : list uev) : cats * list oev :=
  match es with
  | [] => (st, [])
  | e :: r => let '(st1, o1) := step2 stats core t st e in
              let '(st2, o2) := phase2 stats core t st1 r in (st2, o1 ++ o2)
  end.

(* calculate_stats, counter rule *)
Definition stats_rule (o : oev) : list oev :=
  match o with
  | OCnt pid ts v (Some d) => if near0 v then [] else [OCnt pid ts v None]
  | _ => [o]
  end.

(* calculate_stats asserts dur > 0 on every X event whose name contains 'Cmpt Exec' *)
Definition stats_asserts (o : oev) : bool :=
  match o with
  | OPass e | OKern e _ _ => String.eqb (u_ph e) "X" && contains CE (u_name e) && Qle_bool (u_dur e) 0
  | OCnt _ _ _ _ => false
  end.

(* ------------------------------------------------------------------ the categories csv *)
(* round half to even at 4 decimals (Python round(x, 4) on the exact value) *)
Definition round_half_even (y : Q) : Z :=
  let f := Qfloor y in
  let r := y - inject_Z f in
  if Qlt_b r (1 # 2) then f
  else if Qlt_b (1 # 2) r then (f + 1)%Z
  else if Z.even f then f else (f + 1)%Z.
Definition round4 (x : Q) : Q := inject_Z (round_half_even (x * 10000)) / 10000.

Record crow : Type := mkCrow {
  cr_pid : Z; cr_phase : string; cr_cat : string;
  cr_dur : Q;            (* Kernel_Time *)
  cr_frac : Q;           (* Frac_Time before round(.,4) *)
  cr_calls : Z;
  cr_ideal : Q;          (* Ideal_Time before round(.,4) *)
  cr_cyc : Z;            (* Ideal_Cyc *)
  cr_ifrac : Q;          (* Frac_Ideal before round(.,4) *)
  cr_util : Q }.         (* PT_Util before round(.,4) *)

(* int(round(x)): to the nearest integer, ties to even (was int(x), towards zero, until /repo fix "C11b": the
   double quotient ideal/factor of a whole number of cycles can fall just below it) *)
Definition Qtrunc (x : Q) : Z := round_half_even x.

(* _compute_row_stats, unrounded *)
Definition frac_or_0 (a b : Q) : Q := if near0 b then 0 else a / b.

Definition total_of (d : cattab) : triple :=
  match alookup "Total" d with Some x => x | None => tzero end.

Definition row_of (core : Q) (phase : string) (pid : Z) (tot : triple) (kx : string * triple) : crow :=
  let '(k, (dur, ideal, calls)) := kx in
  let '(total, ideal_total, _) := tot in
  mkCrow pid phase k dur (frac_or_0 dur total) calls ideal
         (Qtrunc (ideal / Qabs (1 / core)))
         (frac_or_0 ideal ideal_total) (frac_or_0 ideal dur).

Definition rows_unsorted (core : Q) (phase : string) (st : cats) : list crow :=
  flat_map (fun pd => map (row_of core phase (fst pd) (total_of (snd pd))) (snd pd)) st.

(* df.sort_values([Pid, Phase, Kernel_Time], kind='stable'); one table = one phase *)
Definition crow_leb (a b : crow) : bool :=
  (cr_pid a <? cr_pid b)%Z || ((cr_pid a =? cr_pid b)%Z && Qle_bool (cr_dur a) (cr_dur b)).

Definition csv_rows (core : Q) (phase : string) (st : cats) : list crow :=
  isort crow_leb (rows_unsorted core phase st).

(* ------------------------------------------------------------------ whole run *)
Record cfg : Type := mkCfg { c_core : Q; c_stats : bool }.

Inductive outcome : Type :=
| Err (tag : string)
| Ok (t : tbl) (evs : list oev) (st : cats) (csv : option (list crow)).

(* fingerprint stage, drain, utilization stage, drain, [calculate_stats]; csv at destruction *)
Definition run_tbl (c : cfg) (t : tbl) (es : list uev) : outcome :=
  (* update_fprint_matches only re-labels the jobs' fingerprints: with ONE table every job gets that
     table, whatever the similarity value (since fix 27f6713 also for a table whose cycles are all zero) *)
  let '(st, o2) := phase2 (c_stats c) (c_core c) t [] es in
  if c_stats c && existsb stats_asserts o2 then Err "AssertionError" else
  let o3 := if c_stats c then flat_map stats_rule o2 else o2 in
  Ok t o3 st (match st with [] => None | _ => Some (csv_rows (c_core c) (t_phase t) st) end).

Definition run (c : cfg) (its : list item) (es : list uev) : outcome :=
  match parse_log its with
  | [t] => run_tbl c t es
  | _ => Err "not_single_table"
  end.

(* ------------------------------------------------------------------ encoders for the tie *)
Definition Vostr (o : option string) : val := Vopt VS o.

Definition tbl_val (core : Q) (t : tbl) : val :=
  VL [VL (map (fun kc => VL [VS (fst kc); VZ (snd kc)]) (t_cycles t));
      VL (map (fun kc => VL [VS (fst kc); VS (snd kc)]) (t_cats t));
      VS (t_phase t);
      VQ (inject_Z (t_sum t) * (1 / core))].

(* values that went through one or two double divisions/multiplications are marked "~";
   cells printed after round(.,4) are marked "r4" with the unrounded value (see [close_val]) *)
Definition Vapprox (q : Q) : val := VL [VS "~"; VQ q].
Definition Vr4 (q : Q) : val := VL [VS "r4"; VQ q].

Definition oev_val (o : oev) : val :=
  match o with
  | OPass e => VL [VS (u_ph e); VS (u_name e); VZ (u_pid e); VQ (u_ts e); VQ (u_dur e);
                   VN; VN; Vostr (u_cat e); VN]
  | OKern e pt cat =>
      VL [VS (u_ph e); VS (u_name e); VZ (u_pid e); VQ (u_ts e); VQ (u_dur e);
          Vopt Vapprox pt; (match pt with Some _ => VB true | None => VN end);
          (match u_cat e with Some c => VS c | None => VS cat end);
          (match u_cat e with Some _ => VS cat | None => VN end)]
  | OCnt pid ts v d => VL [VS "C"; VS "PT Active"; VZ pid; VQ ts; Vapprox v; Vopt VQ d]
  end.

Definition triple_val (kx : string * triple) : val :=
  let '(k, (d, i, n)) := kx in VL [VS k; VQ d; VQ i; VZ n].
Definition cats_val (st : cats) : val :=
  VL (map (fun pd => VL [VZ (fst pd); VL (map triple_val (snd pd))]) st).

Definition crow_val (r : crow) : val :=
  VL [VZ (cr_pid r); VS (cr_phase r); VS (cr_cat r); VQ (cr_dur r); Vr4 (cr_frac r); VZ (cr_calls r);
      Vr4 (cr_ideal r); VZ (cr_cyc r); Vr4 (cr_ifrac r); Vr4 (cr_util r)].

Definition outcome_val (core : Q) (o : outcome) : val :=
  match o with
  | Err tag => VE tag
  | Ok t evs st csv =>
      VL [tbl_val core t; VL (map oev_val evs); cats_val st; Vopt (fun rs => VL (map crow_val rs)) csv]
  end.

Definition run_val (x : cfg * list item * list uev) : val :=
  let '(c, its, es) := x in outcome_val (c_core c) (run c its es).

(* parser only: every finished table *)
Definition parse_val (x : Q * list item) : val :=
  let '(core, its) := x in VL (map (tbl_val core) (parse_log its)).

(* kernel-name extraction only *)
Definition name_val (e : uev) : val := VL [VB (is_kernel e); VS (kernel_name e)].

(* ------------------------------------------------------------------ comparison with the observed output *)
(* exact everywhere, except at the marked positions:
     "~"  q : observed double c with |c - q| <= |q| * max(tol, 2^-50)   (<= 2 correctly rounded operations)
     "r4" q : observed c is a multiple of 1e-4 (up to 1e-6 of a unit) within half a unit (+1e-9) of q,
              i.e. a correct rounding of q to 4 decimals
   [tol] = 0 on the exact grid; > 0 only for the supporting off-grid stream, where every number is
   compared up to the relative tolerance. *)
Definition qclose (tol a b : Q) : bool :=
  Qle_bool (Qabs (a - b)) (tol * Qmax (Qabs a) (Qabs b)).
Definition two_m50 : Q := 1 # 1125899906842624.
Definition approx_ok (tol q c : Q) : bool := qclose (Qmax tol two_m50) q c.
Definition r4_ok (tol q c : Q) : bool :=
  Qle_bool (Qabs (c - q)) ((1 # 20000) + (1 # 1000000000) + tol * Qabs q) &&
  Qle_bool (Qabs (c * 10000 - inject_Z (Qfloor (c * 10000 + (1 # 2))))) (1 # 1000000).

Definition is_tag (t : string) (v : val) : bool :=
  match v with VS s => String.eqb s t | _ => false end.
Definition marker (l : list val) : option (bool * Q) :=      (* true = "r4", false = "~" *)
  match l with
  | [t; VQ q] => if is_tag "r4" t then Some (true, q) else if is_tag "~" t then Some (false, q) else None
  | _ => None
  end.
Definition num_of (v : val) : option Q :=
  match v with VQ c => Some c | VZ z => Some (inject_Z z) | _ => None end.

Fixpoint close_val (tol : Q) (m o : val) {struct m} : bool :=
  match m with
  | VL lm =>
      match marker lm with
      | Some (r4, q) =>
          match num_of o with
          | Some c => if r4 then r4_ok tol q c else approx_ok tol q c
          | None => false
          end
      | None =>
          match o with
          | VL lo =>
              (fix go (l1 l2 : list val) {struct l1} : bool :=
                 match l1, l2 with
                 | [], [] => true
                 | h1 :: t1, h2 :: t2 => close_val tol h1 h2 && go t1 t2
                 | _, _ => false
                 end) lm lo
          | _ => false
          end
      end
  | VQ a => match num_of o with Some b => qclose tol a b | None => false end
  | VZ a => match o with
            | VZ b => (a =? b)%Z
            | VQ b => qclose tol (inject_Z a) b
            | _ => false
            end
  | _ => val_eqb m o
  end.

(* the functions evaluated by the tie: (input, observed output) -> VB agreement *)
Definition run_check (x : (cfg * list item * list uev) * val) : val :=
  VB (close_val 0 (run_val (fst x)) (snd x)).
Definition run_check_tol (x : (cfg * list item * list uev) * val) : val :=
  VB (close_val (1 # 1000000000) (run_val (fst x)) (snd x)).

(* ------------------------------------------------------------------ end-to-end view (exported json + csv) *)
(* what is visible in the final files: per kernel slice (pid, ts, dur, pt_active, core used) in stream
   order, the multiset of 'PT Active' counters (sorted by pid, ts, value), the csv.  The category of a
   slice is overwritten later by tb_refinement_lightweight (cat := "kernel"), so it shows only in the csv. *)
Definition cnt_leb (a b : Z * Q * Q) : bool :=
  let '(p1, t1, v1) := a in
  let '(p2, t2, v2) := b in
  (p1 <? p2)%Z ||
  ((p1 =? p2)%Z && (Qlt_b t1 t2 || (Qeq_bool t1 t2 && Qle_bool v1 v2))).

Definition e2e_val (x : cfg * list item * list uev) : val :=
  let '(c, its, es) := x in
  match run c its es with
  | Err tag => VE tag
  | Ok t evs st csv =>
      VL [VL (flat_map (fun o => match o with
                                 | OKern e pt _ =>
                                     [VL [VZ (u_pid e); VQ (u_ts e); VQ (u_dur e); Vopt Vapprox pt;
                                          match pt with Some _ => VB true | None => VN end]]
                                 | _ => []
                                 end) evs);
          VL (map (fun x => let '(p, ts, v) := x in VL [VZ p; VQ ts; Vapprox v])
                  (isort cnt_leb (flat_map (fun o => match o with
                                                     | OCnt p ts v _ => [(p, ts, v)]
                                                     | _ => []
                                                     end) evs)));
          Vopt (fun rs => VL (map crow_val rs)) csv]
  end.
Definition e2e_check (x : (cfg * list item * list uev) * val) : val :=
  VB (close_val 0 (e2e_val (fst x)) (snd x)).
Definition parse_check (x : (Q * list item) * val) : val :=
  VB (close_val 0 (parse_val (fst x)) (snd x)).

(* which of the four components (table, events, categories, csv) agree: diagnostics for a mismatch *)
Definition run_diff (x : (cfg * list item * list uev) * val) : val :=
  match run_val (fst x), snd x with
  | VL lm, VL lo =>
      VL ((fix go (l1 l2 : list val) : list val :=
             match l1, l2 with
             | h1 :: t1, h2 :: t2 => VB (close_val 0 h1 h2) :: go t1 t2
             | _, _ => []
             end) lm lo)
  | m, o => VL [VB (close_val 0 m o)]
  end.

(* rule for "non-trivial" inside Coq: the run succeeds, at least two categories received a kernel
   and at least one kernel got a non-zero utilization *)
Definition nontrivial (x : (cfg * list item * list uev) * val) : bool :=
  let '(c, its, es) := fst x in
  match run c its es with
  | Ok _ evs st _ =>
      existsb (fun o => match o with OKern _ (Some _) _ => true | _ => false end) evs &&
      existsb (fun pd => (2 <=? List.length (filter (fun kx => (0 <? snd (snd kx))%Z &&
                                    negb (String.eqb (fst kx) "Total")) (snd pd)))%nat) st
  | Err _ => false
  end.
