(* Power.v — executable model of the default (power_ts4) power-counter path.

   Code modelled (src/aiu_trace_analyzer):
     pipeline/power.py::extract_power_event                         -> [extract_cb]
     pipeline/power.py::PowerExtractionContext.build_input_events   -> [extract_cb]  (0.1 us cut-off, initial
                                                                        zero counter at TS3 once per pid, sample at
                                                                        the TS4 wall-clock, power_ts = 4)
     pipeline/sort.py::EventSortingContext.sort / drain             -> [sort_cb], [sort_dr]  (event_types=["C"],
                                                                        sortkey "TS_cycles": one queue per (pid, tid=0)
                                                                        in insertion order, stable sort by TS_cycles)
     pipeline/power.py::compute_power (function and method),
       get_prev / update_prev / compute_delta / name_from_category  -> [power_cb], [delta]  (per-pid previous sample,
                                                                        zero-reading rules, equal-time rule, optional
                                                                        skip_events rules, modular difference, 12 V,
                                                                        LSB 1/512, clamp > 100 W, negative => OverflowError)
     core/acelyzer.py::register_processing_functions (power block)  -> [power_stages]  (extract -> sort -> compute, three
                                                                        private contexts; filter_pattern " Prep")
   The three stages are run by Pipeline.run (the EventProcessor/Engine model of C03), which is what the
   correspondence (harness/props/c10.py) compares with the real EventProcessor driving the stages taken from the
   real registration.

   Numbers: charge readings are [Z]; times are [Q].  In power_ts4 mode the code sets TS_cycles := ts, both fields are
   kept.  [cutoff] is the IEEE double the literal 0.1 denotes (so `dur <= 0.1` is modelled bit-exactly); the constants
   12, 1/512, 100 are exact.  Python's hash(pid) / hash((pid, 0)) are taken to be injective on the pids in use
   (non-negative small integers). *)
From Coq Require Import ZArith QArith List Bool String Ascii Sorted.
Import ListNotations.
From AiuModel Require Import Base Pipeline.
Local Open Scope Z_scope.

(* ------------------------------------------------------------------ strings: `pat in s` / re.search(literal) *)
Fixpoint contains (pat s : string) : bool :=
  String.prefix pat s || match s with EmptyString => false | String _ r => contains pat r end.
Definition is_prep (name : string) : bool := contains " Prep" name.       (* filter_pattern=" Prep" *)

(* ------------------------------------------------------------------ events *)
(* a non-counter input event; [s_ph]: 0 = "X", 1 = "b", anything else = another phase (passes every stage) *)
Record slice := { s_id : Z; s_pid : Z; s_ph : Z; s_name : string;
                  s_has : bool;            (* "args" present with both "Power" and "ts_all" *)
                  s_dur : Q; s_ts3 : Q; s_ts4 : Q;   (* dur, ts_all[2], ts_all[3] *)
                  s_charge : Z }.          (* int(float(args["Power"])) *)
(* helper counter built by build_input_events: ph "C", name "Power", cat = slice name *)
Record counter := { c_pid : Z; c_cat : string; c_ts : Q; c_key : Q (* TS_cycles *); c_q : Z (* args["Watts"] *) }.
Inductive ev :=
| ESlice (s : slice)
| ECnt (c : counter)
| EPow (pid : Z) (ts : Q) (w : Q)          (* emitted: name "Power", cat "Power4", TS_cycles removed *)
| EErr.                                    (* marker: compute_power raised OverflowError *)

Definition W32 : Z := 2 ^ 32.
Definition cutoff : Q := 3602879701896397 # 36028797018963968.   (* the double 0.1 *)
Definition VOLT : Q := 12 # 1.
Definition LSB : Q := 1 # 512.
Definition CAP : Q := 100 # 1.

(* ------------------------------------------------------------------ stage 1: extract_power_event *)
Definition sampled (s : slice) : bool :=
  ((s_ph s =? 0) || (s_ph s =? 1)) && negb (is_prep (s_name s)) && s_has s && negb (Qle_bool (s_dur s) cutoff).
Definition zero_counter (s : slice) : counter :=
  {| c_pid := s_pid s; c_cat := s_name s; c_ts := s_ts3 s; c_key := s_ts3 s; c_q := 0 |}.
Definition sample_counter (s : slice) : counter :=
  {| c_pid := s_pid s; c_cat := s_name s; c_ts := s_ts4 s; c_key := s_ts4 s; c_q := s_charge s |}.
(* state: processed_first as a membership function *)
Definition extract_step (seen : Z -> bool) (e : ev) : (Z -> bool) * list ev :=
  match e with
  | ESlice s =>
      if sampled s then
        if seen (s_pid s) then (seen, [e; ECnt (sample_counter s)])
        else (fun k => (k =? s_pid s) || seen k, [e; ECnt (zero_counter s); ECnt (sample_counter s)])
      else (seen, [e])
  | _ => (seen, [e])
  end.

(* ------------------------------------------------------------------ stage 2: sort_events (counter sorter) *)
(* self.queues is an insertion-ordered dict  queue id -> list of events.  It is represented by the order in
   which the queue ids (pids; helper counters have no tid) were first seen and the held counters in arrival
   order: the queue of pid p is the subsequence of the held counters with that pid. *)
Record queues := { q_order : list Z; q_held : list counter }.
Definition mem (p : Z) (l : list Z) : bool := existsb (Z.eqb p) l.
Definition qadd (c : counter) (qs : queues) : queues :=
  {| q_order := if mem (c_pid c) (q_order qs) then q_order qs else q_order qs ++ [c_pid c];
     q_held := q_held qs ++ [c] |}.
Definition qempty : queues := {| q_order := []; q_held := [] |}.
Definition queue_of (p : Z) (held : list counter) : list counter := filter (fun c => c_pid c =? p) held.
Definition key_leb (a b : counter) : bool := Qle_bool (c_key a) (c_key b).
Definition sort_step (qs : queues) (e : ev) : queues * list ev :=
  match e with
  | ECnt c => (qadd c qs, [])              (* ph "C" and has TS_cycles *)
  | _ => (qs, [e])
  end.
(* drain: every queue sorted (stable) by TS_cycles, queues in insertion order *)
Definition sort_drain (qs : queues) : queues * list ev :=
  (qempty, flat_map (fun p => map ECnt (isort key_leb (queue_of p (q_held qs)))) (q_order qs)).

(* ------------------------------------------------------------------ stage 3: compute_power *)
(* skip_events rules of compute_delta *)
Definition skip_rule (prev this : counter) : bool :=
  (contains "Cmpt Exec" (c_cat prev) && contains "Cmpt Exec" (c_cat this))
  || (contains " DmaO" (c_cat prev) && contains " DmaI" (c_cat this))
  || (contains "Cmpt Exec" (c_cat prev) && contains " DmaI" (c_cat this)).
Definition dcharge (pa pb : Z) : Z := if pa <=? pb then pb - pa else W32 + pb - pa.
Definition raw_watts (prev this : counter) : Q :=
  VOLT * inject_Z (dcharge (c_q prev) (c_q this)) * LSB / (c_key this - c_key prev).
Definition clamp (w : Q) : Q := if Qlt_b CAP w then 0 else w.
(* compute_delta + the tail of compute_power for one (prev, this) pair:
   new prev (None = unchanged) and emitted events *)
Inductive outcome := Keep | Replace | Emit (w : Q) | Negative.
Definition delta (skip : bool) (prev this : counter) : outcome :=
  if c_q prev =? 0 then Replace
  else if c_q this =? 0 then Keep
  else if Qeq_bool (c_key prev) (c_key this) then (if is_prep (c_cat prev) then Replace else Keep)
  else if skip && skip_rule prev this then Keep
  else let w := clamp (raw_watts prev this) in
       if Qlt_b w 0 then Negative else Emit w.
(* one pid: the previous sample (self.prev[hash(pid)]) *)
Definition pid_step (skip : bool) (prev : option counter) (c : counter) : option counter * list ev :=
  match prev with
  | None => (Some c, [])
  | Some p => match delta skip p c with
              | Keep => (prev, [])
              | Replace => (Some c, [])
              | Emit w => (Some c, [EPow (c_pid p) (c_ts p) w])
              | Negative => (prev, [EErr])
              end
  end.
Definition pstate := Z -> option counter.
Definition power_step (skip : bool) (st : pstate) (e : ev) : pstate * list ev :=
  match e with
  | ECnt c => let '(n, o) := pid_step skip (st (c_pid c)) c in
              (fun k => if k =? c_pid c then n else st k, o)
  | _ => (st, [e])
  end.

(* ------------------------------------------------------------------ the registered stages on Pipeline.run *)
Inductive pst :=
| SX (seen : Z -> bool)
| SS (qs : queues)
| SP (st : pstate)
| SB (hold : list ev).                      (* cell of pipeline_barrier (not registered in this block) *)
Definition hlist (s : pst) : list ev := match s with SB h => h | _ => [] end.
Definition happ (s : pst) (e : ev) : pst := SB (hlist s ++ [e]).
Definition hempty : pst := SB [].
Definition BCELL : nat := 0%nat.

Definition extract_cb (s : pst) (e : ev) : pst * list ev :=
  match s with SX seen => let '(n, o) := extract_step seen e in (SX n, o) | _ => (s, [e]) end.
Definition sort_cb (s : pst) (e : ev) : pst * list ev :=
  match s with SS qs => let '(n, o) := sort_step qs e in (SS n, o) | _ => (s, [e]) end.
Definition sort_dr (s : pst) : pst * list ev :=
  match s with SS qs => let '(n, o) := sort_drain qs in (SS n, o) | _ => (s, []) end.
Definition power_cb (skip : bool) (s : pst) (e : ev) : pst * list ev :=
  match s with SP st => let '(n, o) := power_step skip st e in (SP n, o) | _ => (s, [e]) end.
Definition no_dr (s : pst) : pst * list ev := (s, []).   (* PowerExtractionContext.drain returns [] *)

Definition g_extract : stage ev pst := {| cb := extract_cb; cid := 1%nat; dr := no_dr; bar := false |}.
Definition g_sort : stage ev pst := {| cb := sort_cb; cid := 2%nat; dr := sort_dr; bar := false |}.
Definition g_power (skip : bool) : stage ev pst :=
  {| cb := power_cb skip; cid := 3%nat; dr := no_dr; bar := false |}.
Definition power_stages (skip : bool) : list (stage ev pst) := [g_extract; g_sort; g_power skip].
Definition st0 : store pst := fun i =>
  match i with 1%nat => SX (fun _ => false) | 2%nat => SS qempty | 3%nat => SP (fun _ => None) | _ => hempty end.

(* Engine.run over the three stages *)
Definition power_run (skip : bool) (es : list ev) : list ev := run (power_stages skip) st0 es.
(* compute_power alone, fed directly (second tie: arbitrary, also unsorted, helper counters) *)
Definition power_only (skip : bool) (es : list ev) : list ev := streamc (g_power skip) (st0 3%nat) es.

(* ------------------------------------------------------------------ encoding for the tie *)
Definition ev_val (e : ev) : val :=
  match e with
  | ESlice s => VL [VZ 0; VZ (s_id s)]
  | ECnt c => VL [VZ 1; VZ (c_pid c); VS (c_cat c); VQ (c_ts c); VQ (c_key c); VZ (c_q c)]
  | EPow p t w => VL [VZ 2; VZ p; VQ t; VQ w; VS "Power"; VS "Power4"]
  | EErr => VE "OverflowError"
  end.
Definition is_err (e : ev) : bool := match e with EErr => true | _ => false end.
Definition out_val (o : list ev) : val :=
  if existsb is_err o then VE "OverflowError" else VL (map ev_val o).
(* input of a case: ((skip_events, mode), events); mode 0 = full mini-pipeline, 1 = compute_power alone *)
Definition model_val (x : (bool * Z) * list ev) : val :=
  let '((skip, mode), es) := x in
  if mode =? 0 then out_val (power_run skip es) else out_val (power_only skip es).

(* ------------------------------------------------------------------ specification side (used by props/C10.v) *)
(* what the property calls the samples of a rank: (TS4 wall-clock, accumulated-charge reading) of every sampled
   slice of pid [p], in stream order *)
Definition samples_of (p : Z) (ss : list slice) : list (Q * Z) :=
  flat_map (fun s => if sampled s && (s_pid s =? p) then [(s_ts4 s, s_charge s)] else []) ss.
Definition time_leb (a b : Q * Z) : bool := Qle_bool (fst a) (fst b).
(* keep the first sample of every run of equal times *)
Fixpoint dedup_from (t0 : Q) (l : list (Q * Z)) : list (Q * Z) :=
  match l with
  | [] => []
  | x :: r => if Qeq_bool t0 (fst x) then dedup_from t0 r else x :: dedup_from (fst x) r
  end.
Definition dedup (l : list (Q * Z)) : list (Q * Z) :=
  match l with [] => [] | x :: r => x :: dedup_from (fst x) r end.
(* valid samples of a rank: time-ordered (stable), zero readings dropped, one per time *)
Definition valid_samples (p : Z) (ss : list slice) : list (Q * Z) :=
  dedup (filter (fun x => negb (snd x =? 0)) (isort time_leb (samples_of p ss))).
(* the property's formula *)
Definition watts_spec (a b : Q * Z) : Q :=
  clamp (VOLT * inject_Z ((snd b - snd a) mod W32) * LSB / (fst b - fst a)).
Fixpoint pairs {A B} (f : A -> A -> B) (l : list A) : list B :=
  match l with
  | a :: ((b :: _) as r) => f a b :: pairs f r
  | _ => []
  end.
(* the Power counter of rank p demanded by the property: one event per consecutive pair of valid samples *)
Definition power_spec (p : Z) (ss : list slice) : list ev :=
  pairs (fun a b => EPow p (fst a) (watts_spec a b)) (valid_samples p ss).
(* ranks in order of their first sampled slice *)
Definition firsts (l : list Z) : list Z := fold_left (fun acc p => if mem p acc then acc else acc ++ [p]) l [].
Definition pids_order (ss : list slice) : list Z := firsts (map s_pid (filter sampled ss)).
Definition charges_32bit (ss : list slice) : Prop :=
  Forall (fun s => 0 <= s_charge s < W32) ss.

(* ---- bounds, order, energy (statements of props/C10.v) *)
Definition ok_ev (e : ev) : Prop :=
  match e with
  | ESlice _ => True
  | EPow _ _ w => (0 <= w)%Q /\ (w <= CAP)%Q
  | ECnt _ | EErr => False          (* no helper counter leaks, OverflowError is not raised *)
  end.
Definition pow_ts (e : ev) : Q := match e with EPow _ t _ => t | _ => 0 end.
Definition strict_times (l : list (Q * Z)) : Prop := StronglySorted (fun a b => (fst a < fst b)%Q) l.
Definition qsum (l : list Q) : Q := fold_right Qplus 0%Q l.
Definition zsum (l : list Z) : Z := fold_right Z.add 0 l.
(* sum of P_i * (t_{i+1} - t_i) over the emitted values, and the charge it stands for *)
Definition energy (vs : list (Q * Z)) : Q := qsum (pairs (fun a b => watts_spec a b * (fst b - fst a))%Q vs).
Definition dcharge_sum (vs : list (Q * Z)) : Z := zsum (pairs (fun a b => (snd b - snd a) mod W32) vs).
Definition unclamped (a b : Q * Z) : Q := (VOLT * inject_Z ((snd b - snd a) mod W32) * LSB / (fst b - fst a))%Q.
Definition no_clamp (vs : list (Q * Z)) : Prop := Forall (fun w => (w <= CAP)%Q) (pairs unclamped vs).
(* un-wrapped accumulated charge: monotone, less than one full counter period per step *)
Definition mono_steps (us : list Z) : Prop := Forall (fun d => 0 <= d < W32) (pairs (fun a b => b - a) us).
